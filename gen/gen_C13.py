#!/usr/bin/env python3
"""generates units/C13.json - C13 number <-> text conversion, 64-bit integer text (strtod.c).

 num.scan_u64.acc.*      [proved]  accumulator of scan_uint64 never wraps, any length, one unit per radix prefix
                                   (the units partition the input domain: dec | 0x | 0r,1r | 2r..9r | 02r..36r | bad NNr)
 num.scan_int64.range    [proved]  janet_scan_int64 accepts exactly [-2^63, 2^63-1], stores the exact integer
 num.scan_uint64.range   [proved]  janet_scan_uint64 accepts exactly the unsigned texts, stores the exact value
 num.scan_u64.value.*    [bounded] scan_uint64 == independent 128-bit evaluator (this is the contract the range units assume)
 num.scan.boundary.*     [bounded] end to end accept/reject boundary around 2^63 / 2^64 on the real call chain
 num.scan.memsafe.*      [bounded] memory safety of the three scanners, arbitrary text of length <= 24
"""
import json, os
V = os.path.dirname(os.path.dirname(os.path.abspath(__file__)))
units = []
LOOPS = {"scan_uint64": [{"loop_id": "0", "invariants": "1 == 1"}, {"loop_id": "1", "invariants": "1 == 1"}]}
GUARD = "if (accum > (UINT64_MAX - digit) / base) return 0;"
M_GUARD = {"name": "guard-ignores-digit", "file": "strtod.c", "find": GUARD, "replace": "if (accum > UINT64_MAX / base) return 0;"}
M_NOGUARD = {"name": "guard-dropped", "file": "strtod.c", "find": GUARD, "replace": ";"}
DIGCHK = "if (*str > 127 || digit >= base) return 0;"
ALLCHK = ["bounds-check", "pointer-check", "signed-overflow-check", "conversion-check", "unsigned-overflow-check", "div-by-zero-check"]
TRIV = ("both loops of scan_uint64 carry the trivial loop contract (invariant 1 == 1): their bodies are checked for an arbitrary "
        "accumulator/cursor/flag; pointer checks are off in this unit (memory safety: num.scan.memsafe.*)")


def acc(name, kind, k, what, solver, mutants, tier="quick"):
    units.append({
        "id": "num.scan_u64.acc." + name, "props": ["C13"], "tier": tier, "class": "proved",
        "clause": "64-bit integer text, %s: for every input length the accumulator never wraps (accum*base+digit, the guard's "
                  "subtraction and division are overflow/trap free), so the value read is the value denoted" % what,
        "src": ["strtod.c"], "harness": ["num_scan_acc.c"], "entry": "h_scan_acc", "mode": "dfcc",
        "defines": ["-DNUM_KIND=%d" % kind, "-DNUM_K=%d" % k], "functions": ["scan_uint64"],
        "loops": LOOPS, "loop_counts": {"scan_uint64": 2},
        "checks": ["unsigned-overflow-check", "div-by-zero-check", "signed-overflow-check"],
        "cbmc": solver, "object_bits": 8, "timeout": 300, "assumes": [TRIV], "mutants": mutants})


NOPRE = ["--sat-solver", "cadical"]   # minisat (with or without its preprocessor) is erratic on these instances (some radices 1 s, others
#                                        time out - probed); cadical needs 3 s for every radix with object_bits 8
MS_SOLVER = ["--no-sat-preprocessor"]   # 2-3x faster than the default on these pointer-only instances (probed)
CADICAL = ["--sat-solver", "cadical"]
acc("dec", 0, 10, "no radix prefix (decimal)", CADICAL, [dict(M_GUARD, expect="overflow")])
acc("hex", 1, 16, "prefix 0x", NOPRE, [dict(M_NOGUARD, expect="overflow")])
acc("r0r1", 5, 0, "degenerate one digit radix prefixes 0r and 1r (accepted by the code, only zeros can follow)", NOPRE,
    [{"name": "digit-check-dropped", "file": "strtod.c", "find": DIGCHK, "replace": "if (*str > 127) return 0;",
      "expect": "division.by.zero"}])
for k in range(2, 10):
    # (for a power of two radix UINT64_MAX / base is an equivalent guard: use the dropped guard as mutant there)
    acc("r%d" % k, 2, k, "prefix %dr" % k, NOPRE, [dict(M_GUARD if k % 2 else M_NOGUARD, expect="overflow")])
for k in range(2, 37):
    acc("r%02d" % k, 3, k, "prefix %02dr" % k, NOPRE, [dict(M_GUARD if k % 2 else M_NOGUARD, expect="overflow")])
acc("badradix", 4, 0, "two digit radix outside 2..36 is rejected before any arithmetic", NOPRE,
    [{"name": "radix-limit-off-by-one", "file": "strtod.c", "find": "        if (base < 2 || base > 36) return 0;", "replace": "        if (base < 2 || base > 37) return 0;",
      "expect": "radix outside 2..36 is rejected"}])

# ---- sign / range logic (loop-free once scan_uint64 is a contract) ----
RANGE_ASSUME = ("scan_uint64 is replaced by its contract scan_uint64_c: returns 0, or returns 1 and delivers the natural number denoted "
                "(<= 2^64-1) and whether a '-' was present; justified by num.scan_u64.acc.* (no wrap, any length) and checked against an "
                "independent evaluator for bounded lengths by num.scan_u64.value.* / num.scan.boundary.*")
units.append({
    "id": "num.scan_int64.range", "props": ["C13"], "tier": "quick", "class": "proved",
    "clause": "signed 64-bit integer text is accepted exactly when the denoted integer lies in [-2^63, 2^63-1] (compared in 128-bit arithmetic) "
              "and then the stored int64 is exactly that integer (-2^63 included); everything else is rejected",
    "src": ["strtod.c"], "harness": ["num_scan_range.c"], "entry": "h_scan_int64", "mode": "dfcc",
    "enforce": ["janet_scan_int64/janet_scan_int64_c"], "replace": ["scan_uint64/scan_uint64_c"],
    "checks": ["bounds-check", "pointer-check", "signed-overflow-check", "conversion-check", "unsigned-overflow-check"], "timeout": 120,
    "assumes": [RANGE_ASSUME],
    "mutants": [
        {"name": "neg-limit-off-by-one", "file": "strtod.c", "find": "bi <= ((UINT64_MAX / 2) + 1)", "replace": "bi <= ((UINT64_MAX / 2) + 2)", "expect": "postcondition"},
        {"name": "pos-limit-unsigned", "file": "strtod.c", "find": "if (!neg && bi <= INT64_MAX)", "replace": "if (!neg && bi <= UINT64_MAX)", "expect": "postcondition|overflow|conversion"},
        {"name": "min-case-off-by-one", "file": "strtod.c", "find": "if (bi > INT64_MAX) {", "replace": "if (bi >= INT64_MAX) {", "expect": "postcondition"}]})
units.append({
    "id": "num.scan_uint64.range", "props": ["C13"], "tier": "quick", "class": "proved",
    "clause": "unsigned 64-bit integer text is accepted exactly when the digits are well formed, denote a value <= 2^64-1 and carry no '-'; "
              "the stored uint64 is exactly the value denoted",
    "src": ["strtod.c"], "harness": ["num_scan_range.c"], "entry": "h_scan_uint64", "mode": "dfcc",
    "enforce": ["janet_scan_uint64/janet_scan_uint64_c"], "replace": ["scan_uint64/scan_uint64_c"],
    "checks": ["bounds-check", "pointer-check", "signed-overflow-check", "conversion-check", "unsigned-overflow-check"], "timeout": 120,
    "assumes": [RANGE_ASSUME],
    "mutants": [{"name": "sign-ignored", "file": "strtod.c", "find": "if (!neg) {", "replace": "if (1) {", "expect": "postcondition"}]})


# ---- bounded: scan_uint64 against the independent evaluator ----
def value(name, kind, k, maxlen, tier, what, ovf=False, timeout=300):
    units.append({
        "id": "num.scan_u64.value." + name, "props": ["C13"], "tier": tier, "class": "bounded",
        "bound": "text length <= %d bytes (loops unwound with unwinding assertions)" % maxlen,
        "clause": "%s: scan_uint64 accepts exactly the well formed texts (sign, prefix, digits below the radix, '_' only after a digit, at least one digit) "
                  "whose value is <= 2^64-1 and delivers exactly the value an independent 128-bit Horner evaluator computes, plus the sign; "
                  "no read outside the text" % what,
        "src": ["strtod.c"], "harness": ["num_scan_value.c"], "entry": "h_scan_value", "mode": "plain",
        "defines": ["-DNUM_KIND=%d" % kind, "-DNUM_K=%d" % k, "-DNUM_MAXLEN=%d" % maxlen] + (["-DNUM_OVF"] if ovf else []),
        "functions": ["scan_uint64"], "unwind": maxlen + 1, "checks": ALLCHK, "cbmc": CADICAL, "timeout": timeout,
        "mutants": [{"name": "underscore-before-digit", "file": "strtod.c", "find": "            if (!seenadigit) return 0;", "replace": "            ;", "expect": "accepts exactly"},
                    {"name": "digit-limit-off-by-one", "file": "strtod.c", "find": DIGCHK, "replace": "if (*str > 127 || digit > base) return 0;", "expect": "accepts exactly|value denoted"}]})


# ---- bounded: accept/reject boundary, end to end ----
DIG = "0123456789abcdefghijklmnopqrstuvwxyz"


def to_base(n, b):
    s = ""
    while n:
        s = DIG[n % b] + s
        n //= b
    return s


def boundary(name, entry, fn, head, b, pl, tail, what, mutants, tier="quick", timeout=300):
    units.append({
        "id": "num.scan.boundary." + name, "props": ["C13"], "tier": tier, "class": "bounded",
        "bound": "texts = the concrete head \"%s\" followed by at most %d arbitrary bytes (a neighbourhood of %d^%d values around the limit, incl. limit-1, limit, limit+1 and one digit too many)" % (head, tail, b, tail),
        "clause": what, "src": ["strtod.c"], "harness": ["num_scan_boundary.c"], "entry": entry, "mode": "plain",
        "defines": ["-DNUM_HEAD=\"%s\"" % head, "-DNUM_B=%d" % b, "-DNUM_PL=%d" % pl, "-DNUM_TAIL=%d" % tail],
        "functions": fn, "unwind": len(head) + tail + 2, "checks": ALLCHK, "timeout": timeout, "mutants": mutants})


if __name__ == "__main__":
    import sys
    value("hex", 1, 16, 12, "quick", "prefix 0x")
    value("hex.full", 1, 16, 24, "thorough", "prefix 0x, incl. texts that exceed 2^64-1", ovf=True, timeout=600)
    value("dec", 0, 10, 6, "quick", "decimal (no prefix)")
    value("dec.8", 0, 10, 8, "thorough", "decimal (no prefix)", timeout=600)
    value("r32", 3, 32, 17, "thorough", "prefix 32r, incl. texts that exceed 2^64-1", ovf=True, timeout=600)
    value("r2", 2, 2, 24, "thorough", "prefix 2r", timeout=600)
    d64 = to_base(2 ** 64, 10)
    d63 = to_base(2 ** 63, 10)
    T = 4
    boundary("u64scan.dec", "h_boundary_scan", ["scan_uint64"], d64[:-T], 10, 0, T,
             "decimal text around 2^64: scan_uint64 accepts exactly the well formed texts with value <= 2^64-1 (2^64-1 accepted, 2^64 rejected) and delivers the exact value",
             [dict(M_GUARD, expect="overflow|value denoted|accepts exactly")])
    boundary("u64.dec", "h_boundary_u64", ["janet_scan_uint64", "scan_uint64"], d64[:-T], 10, 0, T,
             "decimal text around 2^64: janet_scan_uint64 accepts exactly [0, 2^64-1] and stores the exact value, on the real call chain",
             [dict(M_GUARD, expect="overflow|value denoted|accepts exactly")])
    boundary("i64.dec.min", "h_boundary_i64", ["janet_scan_int64", "scan_uint64"], "-" + d63[:-T], 10, 0, T,
             "decimal text around -2^63: janet_scan_int64 accepts -2^63, rejects -2^63-1, stores the exact integer, on the real call chain",
             [{"name": "neg-limit-off-by-one", "file": "strtod.c", "find": "bi <= ((UINT64_MAX / 2) + 1)", "replace": "bi <= ((UINT64_MAX / 2) + 2)", "expect": "accepts exactly"}])
    boundary("i64.dec.max", "h_boundary_i64", ["janet_scan_int64", "scan_uint64"], d63[:-T], 10, 0, T,
             "decimal text around 2^63: janet_scan_int64 accepts 2^63-1, rejects 2^63, stores the exact integer, on the real call chain",
             [{"name": "pos-limit-off-by-one", "file": "strtod.c", "find": "if (!neg && bi <= INT64_MAX)", "replace": "if (!neg && bi <= (uint64_t) INT64_MAX + 1)", "expect": "accepts exactly|overflow|conversion"}])
    for b, t, tier in ((36, 3, "quick"), (7, 4, "thorough")):
        d = to_base(2 ** 64, b)
        boundary("u64scan.r%d" % b, "h_boundary_scan", ["scan_uint64"], ("%dr" % b) + d[:-t], b, len("%dr" % b), t,
                 "radix %d text around 2^64: scan_uint64 accepts exactly the well formed texts with value <= 2^64-1 and delivers the exact value" % b,
                 [dict(M_GUARD, expect="overflow|value denoted|accepts exactly")], tier=tier)

    # ---- bounded: memory safety of the scanners, arbitrary text ----
    MS_MUT = [{"name": "prefix-test-reads-past-end", "file": "strtod.c", "find": "\n    if (str + 1 < end && str[0] == '0' && str[1] == 'x') {", "replace": "\n    if (str + 1 <= end && str[0] == '0' && str[1] == 'x') {", "expect": "pointer_dereference|bounds"},
              {"name": "zero-loop-reads-before-test", "file": "strtod.c", "find": "\n    while (str < end && *str == '0') {", "replace": "\n    while (*str == '0' && str < end) {", "expect": "pointer_dereference|bounds"}]
    for name, entry, fn in (("scan_u64", "h_scan_value", ["scan_uint64"]), ("int64", "h_memsafe_i64", ["janet_scan_int64", "scan_uint64"]),
                            ("uint64", "h_memsafe_u64", ["janet_scan_uint64", "scan_uint64"])):
        units.append({
            "id": "num.scan.memsafe." + name, "props": ["C13"], "tier": "quick", "class": "bounded",
            "bound": "text length <= 24 bytes, content (sign, radix prefix, digits) entirely arbitrary; loops unwound with unwinding assertions",
            "clause": "%s never reads outside the text it is given (buffer = heap object of exactly len bytes) and writes only its out parameters" % fn[0],
            "src": ["strtod.c"], "harness": ["num_scan_value.c"], "entry": entry, "mode": "plain",
            "defines": ["-DNUM_KIND=9", "-DNUM_NOVALUE", "-DNUM_MAXLEN=24"], "functions": fn, "unwind": 25,
            "checks": ["bounds-check", "pointer-check"], "cbmc": MS_SOLVER, "timeout": 300, "mutants": MS_MUT})
    # ---- bignum (mantissa) memory safety and carry arithmetic ----
    BN = {"props": ["C13"], "tier": "quick", "class": "proved", "src": ["strtod.c"], "harness": ["num_bignat.c"], "mode": "dfcc",
          "cbmc": CADICAL, "timeout": 300}
    BCH = ["bounds-check", "pointer-check", "signed-overflow-check", "unsigned-overflow-check", "div-by-zero-check"]
    WF = ("wf_bignat: 0 <= n <= cap <= 2^28, digits = cap uint32 (NULL when cap == 0); the bound on cap follows from the callers "
          "(len <= INT32_MAX/40, one digit appended per byte at most)")
    units.append(dict(BN, id="num.bignat.muladd", entry="h_bignat_muladd", enforce=["bignat_muladd/bignat_muladd_c"],
                      replace=["bignat_append/bignat_append_c"],
                      clause="bignat_muladd, any digit count: every digits[i] access in range, carry <= 2*factor+2 throughout (carry + digit*factor never wraps 64 bits, "
                             "final carry fits a digit), every digit written and the digit appended are < 2^31 (digit bound preserved)",
                      loops={"bignat_muladd": [{"loop_id": "0",
                             "invariants": "0 <= i && i <= mant->n && mant->n == g_n0 && carry <= 2 * (unsigned long)factor + 2 && ((0 <= g_idx && g_idx < i) ==> mant->digits[g_idx] < 2147483648u)",
                             "assigns": "i, carry; mant->cap > 0: __CPROVER_object_whole(mant->digits)", "decreases": "mant->n - i",
                             "symbol_map": "i,bignat_muladd::1::i;carry,bignat_muladd::1::carry;mant,bignat_muladd::mant;factor,bignat_muladd::factor"}]},
                      loop_counts={"bignat_muladd": 1}, checks=BCH + ["conversion-check"],
                      assumes=[WF, "bignat_append replaced by its contract bignat_append_c (precondition dig < 2^31 asserted at the call); proved by num.bignat.append"],
                      mutants=[{"name": "loop-off-by-one", "file": "strtod.c", "find": "for (i = 0; i < mant->n; i++) {\n        carry +=", "replace": "for (i = 0; i <= mant->n; i++) {\n        carry +=", "expect": "pointer_dereference|bounds|invariant|assigns"},
                               {"name": "digit-not-reduced", "file": "strtod.c", "find": "mant->digits[i] = carry % BIGNAT_BASE;", "replace": "mant->digits[i] = carry;", "expect": "invariant|overflow|conversion"}]))
    units.append(dict(BN, id="num.bignat.extra", entry="h_bignat_extra", enforce=["bignat_extra/bignat_extra_c"], replace=["realloc/realloc_c"],
                      clause="bignat_extra: n grows by the request, n <= cap afterwards, the returned pointer is digits + old n and the new digits are writable storage; "
                             "capacity arithmetic (old n + extra, 2*new n) does not overflow",
                      checks=BCH + ["conversion-check"], assumes=[WF, "realloc returns NULL or a fresh block of the requested size (contract realloc_c); content preservation is not modelled"],
                      mutants=[{"name": "capacity-test-off-by-one", "file": "strtod.c", "find": "if (mant->cap < newn) {", "replace": "if (mant->cap + 1 < newn) {", "expect": "postcondition|overflow"}]))
    units.append(dict(BN, id="num.bignat.append", entry="h_bignat_append", enforce=["bignat_append/bignat_append_e"], replace=["realloc/realloc_c"],
                      clause="bignat_append: stores the digit at position old n inside the (possibly reallocated) block, n <= cap afterwards",
                      checks=BCH + ["conversion-check"], assumes=[WF, "realloc contract as in num.bignat.extra"],
                      mutants=[{"name": "capacity-test-off-by-one", "file": "strtod.c", "find": "if (mant->cap < newn) {", "replace": "if (mant->cap + 1 < newn) {", "expect": "pointer_dereference|postcondition|assigns"}]))
    units.append(dict(BN, id="num.bignat.div", entry="h_bignat_div", enforce=["bignat_div/bignat_div_c"],
                      clause="bignat_div, any digit count: every digits[i] / digits[i+1] access in range, remainder*2^31 + digit never wraps 64 bits, no division by zero, n shrinks by at most one",
                      loops={"bignat_div": [{"loop_id": "0", "invariants": "-1 <= i && i <= mant->n - 1 && mant->n == g_n0",
                             "assigns": "i, quotient, remainder, dividend; mant->cap > 0: __CPROVER_object_whole(mant->digits)", "decreases": "i + 1",
                             "symbol_map": "i,bignat_div::1::i;quotient,bignat_div::1::quotient;remainder,bignat_div::1::remainder;dividend,bignat_div::1::dividend;mant,bignat_div::mant"}]},
                      loop_counts={"bignat_div": 1}, checks=BCH, assumes=[WF],
                      undecided_clauses=["that the 64-bit quotient dividend/divisor fits the 32-bit digit (needs remainder < divisor and a division by a symbolic divisor: DESIGN R5) - conversion-check is off in this unit"],
                      mutants=[{"name": "carry-digit-index-off-by-one", "file": "strtod.c", "find": "if (i < mant->n - 1) mant->digits[i + 1] = quotient;", "replace": "if (i < mant->n) mant->digits[i + 1] = quotient;", "expect": "pointer_dereference|bounds|assigns"}]))
    units.append(dict(BN, id="num.bignat.lshift", entry="h_bignat_lshift", enforce=["bignat_lshift_n/bignat_lshift_n_c"],
                      replace=["realloc/realloc_c", "memmove/memmove_c", "memset/memset_c"],
                      clause="bignat_lshift_n: the memmove/memset ranges and the digits[n-1] store lie inside the (re)allocated digit array; n grows by the shift, first_digit cleared",
                      checks=BCH + ["conversion-check"],
                      assumes=[WF, "memmove/memset replaced by contracts whose preconditions (destination writable, source readable for the given size) are asserted at the call", "shift count 0..4096 (convert(): 5 - exponent/4 with the exponent short-circuited near -1200)"],
                      mutants=[{"name": "memmove-uses-new-count", "file": "strtod.c", "find": "memmove(mant->digits + n, mant->digits, sizeof(uint32_t) * oldn);", "replace": "memmove(mant->digits + n, mant->digits, sizeof(uint32_t) * mant->n);", "expect": "precondition"},
                               {"name": "memset-one-too-many", "file": "strtod.c", "find": "memset(mant->digits, 0, sizeof(uint32_t) * (n - 1));", "replace": "memset(mant->digits, 0, sizeof(uint32_t) * (mant->cap + 1));", "expect": "precondition"}]))
    json.dump({"units": units}, open(os.path.join(V, "units", "C13.json"), "w"), indent=1)
    print("%d units" % len(units))
