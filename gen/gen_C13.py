#!/usr/bin/env python3
"""generates units/C13.json - C13 number <-> text conversion, 64-bit integer text (strtod.c).

 num.scan_u64.acc.*      [proved]  accumulator of scan_uint64 never wraps, any length, one unit per radix prefix
                                   (the units partition the input domain: dec | 0x | 0r,1r | 2r..9r | 02r..36r | bad NNr)
 num.scan_int64.range    [proved]  janet_scan_int64 accepts exactly [-2^63, 2^63-1], stores the exact integer
 num.scan_uint64.range   [proved]  janet_scan_uint64 accepts exactly the unsigned texts, stores the exact value
 num.scan_u64.value.*    [bounded] scan_uint64 == independent 128-bit evaluator (this is the contract the range units assume)
 num.scan.boundary.*     [bounded] end to end accept/reject boundary around 2^63 / 2^64 on the real call chain
 num.scan.memsafe.*      [bounded] memory safety of the three scanners, arbitrary text of length <= 24
"""
import json, os
V = os.path.dirname(os.path.dirname(os.path.abspath(__file__)))
units = []
LOOPS = {"scan_uint64": [{"loop_id": "0", "invariants": "1 == 1"}, {"loop_id": "1", "invariants": "1 == 1"}]}
GUARD = "if (accum > (UINT64_MAX - digit) / base) return 0;"
M_GUARD = {"name": "guard-ignores-digit", "file": "strtod.c", "find": GUARD, "replace": "if (accum > UINT64_MAX / base) return 0;"}
M_NOGUARD = {"name": "guard-dropped", "file": "strtod.c", "find": GUARD, "replace": ";"}
DIGCHK = "if (*str > 127 || digit >= base) return 0;"
ALLCHK = ["bounds-check", "pointer-check", "signed-overflow-check", "conversion-check", "unsigned-overflow-check", "div-by-zero-check"]
TRIV = ("both loops of scan_uint64 carry the trivial loop contract (invariant 1 == 1): their bodies are checked for an arbitrary "
        "accumulator/cursor/flag; pointer checks are off in this unit (memory safety: num.scan.memsafe.*)")


def acc(name, kind, k, what, solver, mutants, tier="quick"):
    units.append({
        "id": "num.scan_u64.acc." + name, "props": ["C13"], "tier": tier, "class": "proved",
        "clause": "64-bit integer text, %s: for every input length the accumulator never wraps (accum*base+digit, the guard's "
                  "subtraction and division are overflow/trap free), so the value read is the value denoted" % what,
        "src": ["strtod.c"], "harness": ["num_scan_acc.c"], "entry": "h_scan_acc", "mode": "dfcc",
        "defines": ["-DNUM_KIND=%d" % kind, "-DNUM_K=%d" % k], "functions": ["scan_uint64"],
        "loops": LOOPS, "loop_counts": {"scan_uint64": 2},
        "checks": ["unsigned-overflow-check", "div-by-zero-check", "signed-overflow-check"],
        "cbmc": solver, "object_bits": 8, "timeout": 300, "assumes": [TRIV], "mutants": mutants})


NOPRE = ["--sat-solver", "cadical"]   # minisat (with or without its preprocessor) is erratic on these instances (some radices 1 s, others
#                                        time out - probed); cadical needs 3 s for every radix with object_bits 8
MS_SOLVER = []
CADICAL = ["--sat-solver", "cadical"]
acc("dec", 0, 10, "no radix prefix (decimal)", CADICAL, [dict(M_GUARD, expect="overflow")])
acc("hex", 1, 16, "prefix 0x", NOPRE, [dict(M_NOGUARD, expect="overflow")])
acc("r0r1", 5, 0, "degenerate one digit radix prefixes 0r and 1r (accepted by the code, only zeros can follow)", NOPRE,
    [{"name": "digit-check-dropped", "file": "strtod.c", "find": DIGCHK, "replace": "if (*str > 127) return 0;",
      "expect": "division.by.zero"}])
for k in range(2, 10):
    # (for a power of two radix UINT64_MAX / base is an equivalent guard: use the dropped guard as mutant there)
    acc("r%d" % k, 2, k, "prefix %dr" % k, NOPRE, [dict(M_GUARD if k % 2 else M_NOGUARD, expect="overflow")])
for k in range(2, 37):
    acc("r%02d" % k, 3, k, "prefix %02dr" % k, NOPRE, [dict(M_GUARD if k % 2 else M_NOGUARD, expect="overflow")])
acc("badradix", 4, 0, "two digit radix outside 2..36 is rejected before any arithmetic", NOPRE,
    [{"name": "radix-limit-off-by-one", "file": "strtod.c", "find": "        if (base < 2 || base > 36) return 0;", "replace": "        if (base < 2 || base > 37) return 0;",
      "expect": "radix outside 2..36 is rejected"}])

# ---- sign / range logic (loop-free once scan_uint64 is a contract) ----
RANGE_ASSUME = ("scan_uint64 is replaced by its contract scan_uint64_c: returns 0, or returns 1 and delivers the natural number denoted "
                "(<= 2^64-1) and whether a '-' was present; justified by num.scan_u64.acc.* (no wrap, any length) and checked against an "
                "independent evaluator for bounded lengths by num.scan_u64.value.* / num.scan.boundary.*")
units.append({
    "id": "num.scan_int64.range", "props": ["C13"], "tier": "quick", "class": "proved",
    "clause": "signed 64-bit integer text is accepted exactly when the denoted integer lies in [-2^63, 2^63-1] (compared in 128-bit arithmetic) "
              "and then the stored int64 is exactly that integer (-2^63 included); everything else is rejected",
    "src": ["strtod.c"], "harness": ["num_scan_range.c"], "entry": "h_scan_int64", "mode": "dfcc",
    "enforce": ["janet_scan_int64/janet_scan_int64_c"], "replace": ["scan_uint64/scan_uint64_c"],
    "checks": ["bounds-check", "pointer-check", "signed-overflow-check", "conversion-check", "unsigned-overflow-check"], "timeout": 120,
    "assumes": [RANGE_ASSUME],
    "mutants": [
        {"name": "neg-limit-off-by-one", "file": "strtod.c", "find": "bi <= ((UINT64_MAX / 2) + 1)", "replace": "bi <= ((UINT64_MAX / 2) + 2)", "expect": "postcondition"},
        {"name": "pos-limit-unsigned", "file": "strtod.c", "find": "if (!neg && bi <= INT64_MAX)", "replace": "if (!neg && bi <= UINT64_MAX)", "expect": "postcondition|overflow|conversion"},
        {"name": "min-case-off-by-one", "file": "strtod.c", "find": "if (bi > INT64_MAX) {", "replace": "if (bi >= INT64_MAX) {", "expect": "postcondition"}]})
units.append({
    "id": "num.scan_uint64.range", "props": ["C13"], "tier": "quick", "class": "proved",
    "clause": "unsigned 64-bit integer text is accepted exactly when the digits are well formed, denote a value <= 2^64-1 and carry no '-'; "
              "the stored uint64 is exactly the value denoted",
    "src": ["strtod.c"], "harness": ["num_scan_range.c"], "entry": "h_scan_uint64", "mode": "dfcc",
    "enforce": ["janet_scan_uint64/janet_scan_uint64_c"], "replace": ["scan_uint64/scan_uint64_c"],
    "checks": ["bounds-check", "pointer-check", "signed-overflow-check", "conversion-check", "unsigned-overflow-check"], "timeout": 120,
    "assumes": [RANGE_ASSUME],
    "mutants": [{"name": "sign-ignored", "file": "strtod.c", "find": "if (!neg) {", "replace": "if (1) {", "expect": "postcondition"}]})


# ---- bounded: scan_uint64 against the independent evaluator ----
def value(name, kind, k, maxlen, tier, what, ovf=False, timeout=300):
    units.append({
        "id": "num.scan_u64.value." + name, "props": ["C13"], "tier": tier, "class": "bounded",
        "bound": "text length <= %d bytes (loops unwound with unwinding assertions)" % maxlen,
        "clause": "%s: scan_uint64 accepts exactly the well formed texts (sign, prefix, digits below the radix, '_' only after a digit, at least one digit) "
                  "whose value is <= 2^64-1 and delivers exactly the value an independent 128-bit Horner evaluator computes, plus the sign; "
                  "no read outside the text" % what,
        "src": ["strtod.c"], "harness": ["num_scan_value.c"], "entry": "h_scan_value", "mode": "plain",
        "defines": ["-DNUM_KIND=%d" % kind, "-DNUM_K=%d" % k, "-DNUM_MAXLEN=%d" % maxlen] + (["-DNUM_OVF"] if ovf else []),
        "functions": ["scan_uint64"], "unwind": maxlen + 1, "checks": ALLCHK, "cbmc": CADICAL, "timeout": timeout,
        "mutants": [{"name": "underscore-before-digit", "file": "strtod.c", "find": "            if (!seenadigit) return 0;", "replace": "            ;", "expect": "accepts exactly"},
                    {"name": "digit-limit-off-by-one", "file": "strtod.c", "find": DIGCHK, "replace": "if (*str > 127 || digit > base) return 0;", "expect": "accepts exactly|value denoted"}]})


# ---- bounded: accept/reject boundary, end to end ----
DIG = "0123456789abcdefghijklmnopqrstuvwxyz"


def to_base(n, b):
    s = ""
    while n:
        s = DIG[n % b] + s
        n //= b
    return s


def boundary(name, entry, fn, head, b, pl, tail, what, mutants, tier="quick", timeout=300):
    units.append({
        "id": "num.scan.boundary." + name, "props": ["C13"], "tier": tier, "class": "bounded",
        "bound": "texts = the concrete head \"%s\" followed by at most %d arbitrary bytes (a neighbourhood of %d^%d values around the limit, incl. limit-1, limit, limit+1 and one digit too many)" % (head, tail, b, tail),
        "clause": what, "src": ["strtod.c"], "harness": ["num_scan_boundary.c"], "entry": entry, "mode": "plain",
        "defines": ["-DNUM_HEAD=\"%s\"" % head, "-DNUM_B=%d" % b, "-DNUM_PL=%d" % pl, "-DNUM_TAIL=%d" % tail],
        "functions": fn, "unwind": len(head) + tail + 2, "checks": ALLCHK, "timeout": timeout, "mutants": mutants})


if __name__ == "__main__":
    import sys
    value("hex", 1, 16, 12, "quick", "prefix 0x")
    value("hex.full", 1, 16, 24, "thorough", "prefix 0x, incl. texts that exceed 2^64-1", ovf=True, timeout=600)
    value("dec", 0, 10, 6, "quick", "decimal (no prefix)")
    value("dec.8", 0, 10, 8, "thorough", "decimal (no prefix)", timeout=600)
    value("r32", 3, 32, 17, "thorough", "prefix 32r, incl. texts that exceed 2^64-1", ovf=True, timeout=600)
    value("r2", 2, 2, 24, "thorough", "prefix 2r", timeout=600)
    d64 = to_base(2 ** 64, 10)
    d63 = to_base(2 ** 63, 10)
    T = 4
    boundary("u64scan.dec", "h_boundary_scan", ["scan_uint64"], d64[:-T], 10, 0, T,
             "decimal text around 2^64: scan_uint64 accepts exactly the well formed texts with value <= 2^64-1 (2^64-1 accepted, 2^64 rejected) and delivers the exact value",
             [dict(M_GUARD, expect="overflow|value denoted|accepts exactly")])
    boundary("u64.dec", "h_boundary_u64", ["janet_scan_uint64", "scan_uint64"], d64[:-T], 10, 0, T,
             "decimal text around 2^64: janet_scan_uint64 accepts exactly [0, 2^64-1] and stores the exact value, on the real call chain",
             [dict(M_GUARD, expect="overflow|value denoted|accepts exactly")])
    boundary("i64.dec.min", "h_boundary_i64", ["janet_scan_int64", "scan_uint64"], "-" + d63[:-T], 10, 0, T,
             "decimal text around -2^63: janet_scan_int64 accepts -2^63, rejects -2^63-1, stores the exact integer, on the real call chain",
             [{"name": "neg-limit-off-by-one", "file": "strtod.c", "find": "bi <= ((UINT64_MAX / 2) + 1)", "replace": "bi <= ((UINT64_MAX / 2) + 2)", "expect": "accepts exactly"}])
    boundary("i64.dec.max", "h_boundary_i64", ["janet_scan_int64", "scan_uint64"], d63[:-T], 10, 0, T,
             "decimal text around 2^63: janet_scan_int64 accepts 2^63-1, rejects 2^63, stores the exact integer, on the real call chain",
             [{"name": "pos-limit-off-by-one", "file": "strtod.c", "find": "if (!neg && bi <= INT64_MAX)", "replace": "if (!neg && bi <= (uint64_t) INT64_MAX + 1)", "expect": "accepts exactly|overflow|conversion"}])
    for b, t, tier in ((36, 3, "quick"), (7, 4, "thorough")):
        d = to_base(2 ** 64, b)
        boundary("u64scan.r%d" % b, "h_boundary_scan", ["scan_uint64"], ("%dr" % b) + d[:-t], b, len("%dr" % b), t,
                 "radix %d text around 2^64: scan_uint64 accepts exactly the well formed texts with value <= 2^64-1 and delivers the exact value" % b,
                 [dict(M_GUARD, expect="overflow|value denoted|accepts exactly")], tier=tier)

    # ---- bounded: memory safety of the scanners, arbitrary text ----
    MS_MUT = [{"name": "prefix-test-reads-past-end", "file": "strtod.c", "find": "\n    if (str + 1 < end && str[0] == '0' && str[1] == 'x') {", "replace": "\n    if (str + 1 <= end && str[0] == '0' && str[1] == 'x') {", "expect": "pointer_dereference|bounds"},
              {"name": "zero-loop-reads-before-test", "file": "strtod.c", "find": "\n    while (str < end && *str == '0') {", "replace": "\n    while (*str == '0' && str < end) {", "expect": "pointer_dereference|bounds"}]
    for name, entry, fn in (("scan_u64", "h_scan_value", ["scan_uint64"]), ("int64", "h_memsafe_i64", ["janet_scan_int64", "scan_uint64"]),
                            ("uint64", "h_memsafe_u64", ["janet_scan_uint64", "scan_uint64"])):
        units.append({
            "id": "num.scan.memsafe." + name, "props": ["C13"], "tier": "quick", "class": "bounded",
            "bound": "text length <= 24 bytes, content (sign, radix prefix, digits) entirely arbitrary; loops unwound with unwinding assertions",
            "clause": "%s never reads outside the text it is given (buffer = heap object of exactly len bytes) and writes only its out parameters" % fn[0],
            "src": ["strtod.c"], "harness": ["num_scan_value.c"], "entry": entry, "mode": "plain",
            "defines": ["-DNUM_KIND=9", "-DNUM_NOVALUE", "-DNUM_MAXLEN=24"], "functions": fn, "unwind": 25,
            "checks": ["bounds-check", "pointer-check"], "cbmc": MS_SOLVER, "timeout": 300, "mutants": MS_MUT})
    json.dump({"units": units}, open(os.path.join(V, "units", "C13.json"), "w"), indent=1)
    print("%d units" % len(units))
