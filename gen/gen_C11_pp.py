#!/usr/bin/env python3
"""C11 (print side) / C13 (number printing): units for pp.c -> units/C11_pp.json.

  pp.escape.*     janet_escape_string_impl / janet_escape_string_b / janet_escape_buffer_b: per-byte classes (all 256 values), order
                  and completeness for strings of <= 3 bytes, buffer literals, printing a buffer into itself
  pp.number.*     number_to_string_b, integer_to_string_b (C13: integers print exactly), janet_to_string_b dispatch
  pp.jdn.*        print_jdn_one: depth budget, rejected types, bracket kinds, container syntax, symbols / keywords

Usage: gen_C11_pp.py [--enable-failing]   (--enable-failing writes the units that FAIL on the pinned tree without their
disabled_reason so that they can be run; the committed file keeps them disabled with the finding text)"""
import json, os, sys
V = os.path.dirname(os.path.dirname(os.path.abspath(__file__)))
ENABLE_FAILING = '--enable-failing' in sys.argv
U = []
CHK = ['bounds-check', 'pointer-check', 'signed-overflow-check', 'div-by-zero-check']
PUSH = ['janet_buffer_push_u8:pe_push_u8_stub', 'janet_buffer_push_bytes:pe_push_bytes_stub', 'janet_buffer_ensure:pe_ensure_stub']
PUSH_ASS = 'janet_buffer_push_u8 / janet_buffer_push_bytes append exactly the given bytes (recording stubs; buffer.c is proved under C04/C17)'
TABLES = dict(link=['util.c'], link_keep={'util.c': ['janet_cstrcmp']})    # brings the const table janet_base64 (hex digits) into the binary


def unit(id, clause, harness, entry, cls='bounded', failing=None, **kw):
    u = {'id': id, 'props': kw.pop('props', ['C11']), 'tier': kw.pop('tier', 'quick'), 'class': cls, 'clause': clause,
         'src': kw.pop('src', ['pp.c']), 'harness': harness if isinstance(harness, list) else [harness], 'entry': entry,
         'mode': 'plain', 'timeout': kw.pop('timeout', 200), 'checks': kw.pop('checks', CHK)}
    u.update(kw)
    assert u.get('mutants'), id
    assert cls != 'bounded' or u.get('bound'), id
    if failing and not ENABLE_FAILING:
        u['disabled_reason'] = failing
    elif failing:
        u['expected_to_fail'] = failing
    U.append(u)
    return u


def M(name, find, replace, expect, file='pp.c', **kw):
    d = dict(name=name, file=file, find=find, replace=replace, expect=expect)
    d.update(kw)
    return d


# ---------------------------------------------------------------------------------------------------------------------
# string / buffer literals
ESC_MUT = [M('del-printed-raw', '                if (c < 32 || c > 126) {', '                if (c < 32 || c > 127) {', 'C11 escape'),
           M('high-bytes-printed-raw', '                if (c < 32 || c > 126) {', '                if (c < 32) {', 'C11 escape'),
           M('backslash-not-escaped', '            case \'\\\\\':\n                janet_buffer_push_bytes(buffer, (const uint8_t *)"\\\\\\\\", 2);\n                break;\n', '', 'C11 escape'),
           M('hex-nibbles-swapped', '                    buf[2] = janet_base64[(c >> 4) & 0xF];\n                    buf[3] = janet_base64[c & 0xF];', '                    buf[3] = janet_base64[(c >> 4) & 0xF];\n                    buf[2] = janet_base64[c & 0xF];', 'C11 escape'),
           M('escape-letter-the-parser-rejects', '(const uint8_t *)"\\\\e", 2);', '(const uint8_t *)"\\\\E", 2);', 'C11 escape'),
           M('vertical-tab-printed-as-tab', '(const uint8_t *)"\\\\v", 2);', '(const uint8_t *)"\\\\t", 2);', 'C11 escape')]
unit('pp.escape.classes',
     'janet_escape_string_impl, every byte value: printable ASCII other than " and \\ is written verbatim; every other byte is written as a two-character escape \\L whose letter the '
     "parser's checkescape maps back to exactly that byte, or as \\xHH whose digits the parser's to_hex maps back to that byte - never raw; the literal is quoted and nothing else is emitted",
     'pp_escape.c', 'h_escape_classes', cls='full-domain', src=['pp.c', 'parse.c'], unwind=6, replace_calls=PUSH,
     functions=['janet_escape_string_impl', 'checkescape', 'to_hex'], assumes=[PUSH_ASS], mutants=ESC_MUT, **TABLES)
unit('pp.escape.string',
     'janet_escape_string_b on strings of 0..3 arbitrary bytes: the output is " unit(s[0]) ... unit(s[len-1]) " in order - every byte (NUL included) printed verbatim or as an escape the '
     'parser decodes back, none dropped, none added; the length is taken from the string head and exactly len bytes are read',
     'pp_escape.c', 'h_escape_string', bound='strings of at most 3 bytes (every byte value); unwind 6 with unwinding assertions', src=['pp.c', 'parse.c'], unwind=6, replace_calls=PUSH,
     functions=['janet_escape_string_b', 'janet_escape_string_impl'], assumes=[PUSH_ASS],
     mutants=[M('leading-nul-ends-the-string', '    janet_escape_string_impl(buffer, str, janet_string_length(str));', '    janet_escape_string_impl(buffer, str, (janet_string_length(str) > 0 && str[0] == 0) ? 0 : janet_string_length(str));', 'C11 escape'),
              M('last-byte-dropped', '    for (int32_t i = 0; i < len; ++i) {\n        uint8_t c = str[i];', '    for (int32_t i = 0; i + 1 < len; ++i) {\n        uint8_t c = str[i];', 'C11 escape'),
              M('reads-one-past-the-end', '    for (int32_t i = 0; i < len; ++i) {\n        uint8_t c = str[i];', '    for (int32_t i = 0; i <= len; ++i) {\n        uint8_t c = str[i];', 'C11 escape|dereference'),
              M('closing-quote-missing', "        }\n    }\n    janet_buffer_push_u8(buffer, '\"');\n}", '        }\n    }\n}', 'C11 escape')] + ESC_MUT[:2], **TABLES)
unit('pp.escape.buffer',
     'janet_escape_buffer_b into another buffer: @ followed by the literal of data[0..count) (bytes beyond count are not printed), the printed buffer is not modified',
     'pp_escape.c', 'h_escape_buffer', bound='buffers of at most 3 bytes (every byte value); unwind 6 with unwinding assertions', src=['pp.c', 'parse.c'], unwind=6, replace_calls=PUSH,
     functions=['janet_escape_buffer_b', 'janet_escape_string_impl'], assumes=[PUSH_ASS],
     mutants=[M('capacity-printed-instead-of-count', '    janet_escape_string_impl(buffer, bx->data, bx->count);', '    janet_escape_string_impl(buffer, bx->data, bx->capacity);', 'C11 escape'),
              M('buffer-printed-as-string', "    janet_buffer_push_u8(buffer, '@');\n    janet_escape_string_impl", '    janet_escape_string_impl', 'C11 escape')], **TABLES)

# a buffer printed into itself
ALIAS_STUBS = ['janet_buffer_ensure:pa_ensure_stub', 'janet_escape_string_impl:pa_impl_stub', 'janet_buffer_push_u8:pa_push_u8_stub']
ALIAS_CLAUSE = ('janet_escape_buffer_b printing a buffer into itself: room for the whole literal (old contents + @ + two quotes + four characters per byte) is reserved in one step before anything '
                'is appended, so that the storage cannot move while the source bytes are read; the amount is computed without integer overflow')
ALIAS_MUT = [M('reservation-dropped', '    if (bx == buffer) {\n', '    if (0) {\n', 'C11 alias'),
             M('reservation-too-small', 'janet_buffer_ensure(bx, bx->count + 5 * bx->count + 3, 1);', 'janet_buffer_ensure(bx, bx->count + 2 * bx->count + 3, 1);', 'C11 alias'),
             M('reservation-after-first-output', "        janet_buffer_ensure(bx, bx->count + 5 * bx->count + 3, 1);\n    }\n    janet_buffer_push_u8(buffer, '@');",
               "        janet_buffer_push_u8(buffer, '@');\n        janet_buffer_ensure(bx, bx->count + 5 * bx->count + 3, 1);\n    } else\n    janet_buffer_push_u8(buffer, '@');", 'C11 alias')]
unit('pp.escape.alias.reserve', ALIAS_CLAUSE + ' - for counts up to (INT32_MAX - 3) / 6', 'pp_escape_alias.c', 'h_alias_reserve',
     bound='buffers of at most 357913940 bytes (beyond that see pp.escape.alias.reserve.anycount)', defines=['-DMAXCOUNT=357913940'], src=['pp.c', 'parse.c'], replace_calls=ALIAS_STUBS,
     functions=['janet_escape_buffer_b'], assumes=['janet_buffer_ensure(b, capacity, growth) makes room for capacity bytes (units seq.buffer.ensure); janet_escape_string_impl and janet_buffer_push_u8 are counting stubs'],
     mutants=ALIAS_MUT)
unit('pp.escape.alias.reserve.anycount', ALIAS_CLAUSE + ' - for EVERY count a buffer can have', 'pp_escape_alias.c', 'h_alias_reserve', cls='full-domain',
     src=['pp.c', 'parse.c'], replace_calls=ALIAS_STUBS, functions=['janet_escape_buffer_b'],
     assumes=['janet_buffer_ensure(b, capacity, growth) makes room for capacity bytes; janet_escape_string_impl and janet_buffer_push_u8 are counting stubs'], mutants=ALIAS_MUT[:1],
     failing='GENUINE DEFECT (C11/C01, needs a buffer of >= 357913941 bytes): janet_escape_buffer_b computes the reservation as the int32 expression bx->count + 5 * bx->count + 3, which overflows '
             '(undefined behaviour; wraps to a negative number in practice) for count > (INT32_MAX - 3) / 6. janet_buffer_ensure then returns without reserving anything, the buffer is reallocated by the '
             'first push that does not fit while janet_escape_string_impl keeps reading the source bytes through the stale pointer into the freed storage (use after free). Failing obligation: '
             'janet_escape_buffer_b.overflow (arithmetic overflow on signed * / +) and "the reservation covers the worst case". Reproducer: /verif/design-probes/repro/c11_jdn_self_buffer_overflow.c '
             '(libjanet.a with a realloc that always moves and poisons the old block: the printed literal consists of poison bytes); Janet: (def b (buffer/new-filled 400000000 65)) (buffer/format b "%j" b).')
for n0, cap0 in [(0, 1), (1, 1), (2, 2), (2, 8)]:
  unit('pp.escape.alias.content.n%d_cap%d' % (n0, cap0),
     'janet_escape_buffer_b printing a buffer into itself, with the real buffer.c and a realloc that always moves the storage: the text appended is @ + the literal of the contents the buffer had '
     'when the call started (it parses back to the value that was printed), the old contents stay in front of it, count <= capacity, and no byte is read from storage that was freed',
     'pp_escape_alias.c', 'h_alias_content', bound='buffer of %d bytes (every byte value) in a block of capacity %d; unwind 6 (copy loop of the realloc model: 34) with unwinding assertions' % (n0, cap0), src=['pp.c', 'parse.c'],
     defines=['-DN0=%d' % n0, '-DCAP0=%d' % cap0],
     link=['buffer.c', 'util.c'], link_keep={'util.c': ['janet_cstrcmp']}, replace_calls=['realloc:pa_realloc_stub'], unwind=6, unwindset={'pa_realloc_stub.0': 34},
     functions=['janet_escape_buffer_b', 'janet_escape_string_impl', 'janet_buffer_ensure', 'janet_buffer_extra', 'janet_buffer_push_u8', 'janet_buffer_push_bytes'],
     assumes=['realloc is a model that always moves: fresh block, old bytes copied, old block really deallocated (any later read through the old pointer is a pointer-check failure)'],
     mutants=[M('reservation-dropped', '    if (bx == buffer) {\n', '    if (0) {\n', 'deallocated|dereference')],
     failing='GENUINE DEFECT (C11, low severity): janet_escape_buffer_b pushes the @ into the destination BEFORE it reads bx->count, so when a buffer is printed into itself the @ just written is '
             'taken for part of the value: (def b @"abc") (buffer/format b "%j" b) appends @"abc@" - which parses back to @"abc@", not to the @"abc" that was printed (%p appends the correct @"abc"). '
             'Failing obligation: "the literal closes directly after the last byte of the printed value". Reproducer: /verif/design-probes/repro/c11_jdn_self_buffer.janet')

# ---------------------------------------------------------------------------------------------------------------------
# numbers outside the jdn path (C13: integers up to 2^53 print exactly)
NUM_STUBS = ['janet_buffer_ensure:pn_ensure_stub', 'janet_buffer_extra:pn_extra_stub', 'snprintf:pn_snprintf_stub', 'floor:pn_floor_stub']
unit('pp.number.to_string',
     'number_to_string_b (string / print / %v / %q / %p): an integer-valued number of magnitude up to 2^53 is printed with %.0f (every digit, exactly), zero of either sign as 0, anything else with a '
     '%g conversion of >= DBL_DIG digits; snprintf writes directly behind the existing contents into room reserved before (>= 25 bytes, size given <= room), the buffer grows by exactly the '
     'characters printed and earlier contents are untouched', 'pp_number.c', 'h_number_to_string', props=['C13', 'C11'],
     bound='output buffer empty or holding 7 earlier bytes; every double; every rendering length 1..24; unwind 26 with unwinding assertions', unwind=26, replace_calls=NUM_STUBS,
     functions=['number_to_string_b'],
     assumes=['floor(x) == x exactly for integer-valued x (stub over a ghost flag)', 'snprintf with %.0f (|x| <= 2^53) or %.<n>g produces 1..24 characters and returns that length (C standard)',
              'janet_buffer_ensure(b, capacity, growth) makes room for capacity bytes (units seq.buffer.ensure); model block of 96 bytes'],
     mutants=[M('integers-printed-with-%g', '? "%.0f" : ("%." STR(DBL_DIG) "g");', '? "%." STR(DBL_DIG) "g" : ("%." STR(DBL_DIG) "g");', 'C13 print'),
              M('range-test-dropped', '    const char *fmt = (x == floor(x) &&\n                       x <= JANET_INTMAX_DOUBLE &&\n                       x >= JANET_INTMIN_DOUBLE)', '    const char *fmt = (x == floor(x))', 'C13 print'),
              M('count-not-advanced', '        count = snprintf((char *) buffer->data + buffer->count, BUFSIZE, fmt, x);\n    }\n    buffer->count += count;', '        count = snprintf((char *) buffer->data + buffer->count, BUFSIZE, fmt, x);\n    }\n    buffer->count += 1;', 'C13 print'),
              M('room-smaller-than-size', '    janet_buffer_ensure(buffer, buffer->count + BUFSIZE, 2);\n    const char *fmt', '    janet_buffer_ensure(buffer, buffer->count + 32, 2);\n    const char *fmt', 'C13 print'),
              M('minus-zero-printed', '    if (x == 0.0) {\n        /* Prevent printing', '    if (0) {\n        /* Prevent printing', 'C13 print')])
unit('pp.number.dispatch', 'janet_to_string_b prints a number value through number_to_string_b with exactly its unwrapped value', 'pp_number.c', 'h_to_string_number', cls='full-domain',
     props=['C13', 'C11'], link=['wrap.c'], replace_calls=['number_to_string_b:pn_number_stub'], functions=['janet_to_string_b'], unwind=4,
     assumes=['number_to_string_b is replaced by a recording stub (unit pp.number.to_string)'],
     mutants=[M('numbers-truncated-to-integer', '            number_to_string_b(buffer, janet_unwrap_number(x));', '            number_to_string_b(buffer, (double) (int64_t) janet_unwrap_number(x));', 'C13 print|overflow|conversion')])
unit('pp.number.integer', 'integer_to_string_b: every int32 (INT32_MIN included) prints as its exact decimal text - optional minus sign, digits without leading zeros, 1..11 characters inside the room '
     'reserved, count advanced by the length, earlier contents untouched', 'pp_number.c', 'h_integer_to_string', cls='width-bounded', props=['C13'],
     unwind=13, replace_calls=NUM_STUBS, functions=['integer_to_string_b', 'count_dig10'],
     assumes=['janet_buffer_extra(b, n) makes room for n more bytes (units seq.buffer.extra); model block of 96 bytes'],
     mutants=[M('digit-count-off-by-one', '        if (x > -100) return result + 1;', '        if (x >= -100) return result + 1;', 'C13 print'),
              M('negation-overflow', '    if (x > 0) {\n        x = -x;\n    } else {\n        neg = 1;', '    if (x < 0) {\n        x = -x;\n        neg = 1;\n        *buf++ = \'-\';\n        x = -x;\n    } else if (0) {\n        neg = 1;', 'C13 print|overflow'),
              M('sign-not-counted', '    buffer->count += len + neg;', '    buffer->count += len;', 'C13 print')])

if __name__ == '__main__':
    json.dump({'units': U}, open(os.path.join(V, 'units', 'C11_pp.json'), 'w'), indent=1)
    print('wrote %d units (%d kept disabled: failing on the pinned tree)' % (len(U), sum(1 for u in U if u.get('disabled_reason'))))
