#!/usr/bin/env python3
"""C11 (print side) / C13 (number printing): units for pp.c -> units/C11_pp.json.

  pp.escape.*     janet_escape_string_impl / janet_escape_string_b / janet_escape_buffer_b: per-byte classes (all 256 values), order
                  and completeness for strings of <= 3 bytes, buffer literals, printing a buffer into itself
  pp.number.*     number_to_string_b, integer_to_string_b (C13: integers print exactly), janet_to_string_b dispatch
  pp.jdn.*        print_jdn_one: depth budget, rejected types, bracket kinds, container syntax, symbols / keywords

Usage: gen_C11_pp.py [--enable-failing]   (--enable-failing writes the units that FAIL on the pinned tree without their
disabled_reason so that they can be run; the committed file keeps them disabled with the finding text)"""
import json, os, sys
V = os.path.dirname(os.path.dirname(os.path.abspath(__file__)))
ENABLE_FAILING = '--enable-failing' in sys.argv
U = []
CHK = ['bounds-check', 'pointer-check', 'signed-overflow-check', 'div-by-zero-check']
PUSH = ['janet_buffer_push_u8:pe_push_u8_stub', 'janet_buffer_push_bytes:pe_push_bytes_stub', 'janet_buffer_ensure:pe_ensure_stub']
PUSH_ASS = 'janet_buffer_push_u8 / janet_buffer_push_bytes append exactly the given bytes (recording stubs; buffer.c is proved under C04/C17)'
TABLES = dict(link=['util.c'], link_keep={'util.c': ['janet_cstrcmp']})    # brings the const table janet_base64 (hex digits) into the binary


def unit(id, clause, harness, entry, cls='bounded', failing=None, **kw):
    u = {'id': id, 'props': kw.pop('props', ['C11']), 'tier': kw.pop('tier', 'quick'), 'class': cls, 'clause': clause,
         'src': kw.pop('src', ['pp.c']), 'harness': harness if isinstance(harness, list) else [harness], 'entry': entry,
         'mode': 'plain', 'timeout': kw.pop('timeout', 200), 'checks': kw.pop('checks', CHK)}
    u.update(kw)
    assert u.get('mutants'), id
    assert cls != 'bounded' or u.get('bound'), id
    if failing:
        # all three findings of this file were repaired in /repo (d944b13, c998705, fd20626): the units run
        u['history'] = 'failed on the pinned tree before the repair: ' + failing
    U.append(u)
    return u


def M(name, find, replace, expect, file='pp.c', **kw):
    d = dict(name=name, file=file, find=find, replace=replace, expect=expect)
    d.update(kw)
    return d


# ---------------------------------------------------------------------------------------------------------------------
# string / buffer literals
ESC_MUT = [M('del-printed-raw', '                if (c < 32 || c > 126) {', '                if (c < 32 || c > 127) {', 'C11 escape'),
           M('high-bytes-printed-raw', '                if (c < 32 || c > 126) {', '                if (c < 32) {', 'C11 escape'),
           M('backslash-not-escaped', '            case \'\\\\\':\n                janet_buffer_push_bytes(buffer, (const uint8_t *)"\\\\\\\\", 2);\n                break;\n', '', 'C11 escape'),
           M('hex-nibbles-swapped', '                    buf[2] = janet_base64[(c >> 4) & 0xF];\n                    buf[3] = janet_base64[c & 0xF];', '                    buf[3] = janet_base64[(c >> 4) & 0xF];\n                    buf[2] = janet_base64[c & 0xF];', 'C11 escape'),
           M('escape-letter-the-parser-rejects', '(const uint8_t *)"\\\\e", 2);', '(const uint8_t *)"\\\\E", 2);', 'C11 escape'),
           M('vertical-tab-printed-as-tab', '(const uint8_t *)"\\\\v", 2);', '(const uint8_t *)"\\\\t", 2);', 'C11 escape')]
unit('pp.escape.classes',
     'janet_escape_string_impl, every byte value: printable ASCII other than " and \\ is written verbatim; every other byte is written as a two-character escape \\L whose letter the '
     "parser's checkescape maps back to exactly that byte, or as \\xHH whose digits the parser's to_hex maps back to that byte - never raw; the literal is quoted and nothing else is emitted",
     'pp_escape.c', 'h_escape_classes', cls='full-domain', src=['pp.c', 'parse.c'], unwind=6, replace_calls=PUSH,
     functions=['janet_escape_string_impl', 'checkescape', 'to_hex'], assumes=[PUSH_ASS], mutants=ESC_MUT, **TABLES)
unit('pp.escape.string',
     'janet_escape_string_b on strings of 0..3 arbitrary bytes: the output is " unit(s[0]) ... unit(s[len-1]) " in order - every byte (NUL included) printed verbatim or as an escape the '
     'parser decodes back, none dropped, none added; the length is taken from the string head and exactly len bytes are read',
     'pp_escape.c', 'h_escape_string', bound='strings of at most 3 bytes (every byte value); unwind 6 with unwinding assertions', src=['pp.c', 'parse.c'], unwind=6, replace_calls=PUSH,
     functions=['janet_escape_string_b', 'janet_escape_string_impl'], assumes=[PUSH_ASS],
     mutants=[M('leading-nul-ends-the-string', '    janet_escape_string_impl(buffer, str, janet_string_length(str));', '    janet_escape_string_impl(buffer, str, (janet_string_length(str) > 0 && str[0] == 0) ? 0 : janet_string_length(str));', 'C11 escape'),
              M('last-byte-dropped', '    for (int32_t i = 0; i < len; ++i) {\n        uint8_t c = str[i];', '    for (int32_t i = 0; i + 1 < len; ++i) {\n        uint8_t c = str[i];', 'C11 escape'),
              M('reads-one-past-the-end', '    for (int32_t i = 0; i < len; ++i) {\n        uint8_t c = str[i];', '    for (int32_t i = 0; i <= len; ++i) {\n        uint8_t c = str[i];', 'C11 escape|dereference'),
              M('closing-quote-missing', "        }\n    }\n    janet_buffer_push_u8(buffer, '\"');\n}", '        }\n    }\n}', 'C11 escape')] + ESC_MUT[:2], **TABLES)
unit('pp.escape.buffer',
     'janet_escape_buffer_b into another buffer: @ followed by the literal of data[0..count) (bytes beyond count are not printed), the printed buffer is not modified',
     'pp_escape.c', 'h_escape_buffer', bound='buffers of at most 3 bytes (every byte value); unwind 6 with unwinding assertions', src=['pp.c', 'parse.c'], unwind=6, replace_calls=PUSH,
     functions=['janet_escape_buffer_b', 'janet_escape_string_impl'], assumes=[PUSH_ASS],
     mutants=[M('capacity-printed-instead-of-count', '    int32_t count = bx->count;\n    janet_buffer_push_u8(buffer,', '    int32_t count = bx->capacity;\n    janet_buffer_push_u8(buffer,', 'C11 escape'),
              M('buffer-printed-as-string', "    janet_buffer_push_u8(buffer, '@');\n    janet_escape_string_impl", '    janet_escape_string_impl', 'C11 escape')], **TABLES)

# a buffer printed into itself
ALIAS_STUBS = ['janet_buffer_ensure:pa_ensure_stub', 'janet_escape_string_impl:pa_impl_stub', 'janet_buffer_push_u8:pa_push_u8_stub', 'janet_panic:pa_panic_stub']
ALIAS_CLAUSE = ('janet_escape_buffer_b printing a buffer into itself: room for the whole literal (old contents + @ + two quotes + four characters per byte) is reserved in one step before anything '
                'is appended, so that the storage cannot move while the source bytes are read; the amount is computed without integer overflow')
ALIAS_MUT = [M('reservation-dropped', '    if (bx == buffer) {\n', '    if (0) {\n', 'C11 alias'),
             M('reservation-too-small', 'int64_t needed = 6 * (int64_t) bx->count + 3;', 'int64_t needed = 3 * (int64_t) bx->count + 3;', 'C11 alias'),
             M('reservation-after-first-output', "        janet_buffer_ensure(bx, (int32_t) needed, 1);\n    }", "        janet_buffer_push_u8(buffer, '@'); buffer->count--;\n        janet_buffer_ensure(bx, (int32_t) needed, 1);\n    }", 'C11 alias')]
ALIAS_MUT_ANY = [M('int32-reservation-again', '        int64_t needed = 6 * (int64_t) bx->count + 3;\n        if (needed > INT32_MAX) janet_panic("buffer overflow");\n        janet_buffer_ensure(bx, (int32_t) needed, 1);', '        janet_buffer_ensure(bx, bx->count + 5 * bx->count + 3, 1);', 'C11 alias|overflow'),
                 M('overflow-not-refused', '        if (needed > INT32_MAX) janet_panic("buffer overflow");\n', '', 'C11 alias|overflow|conversion')]
unit('pp.escape.alias.reserve', ALIAS_CLAUSE + ' - for counts up to (INT32_MAX - 3) / 6', 'pp_escape_alias.c', 'h_alias_reserve',
     bound='buffers of at most 357913940 bytes (beyond that see pp.escape.alias.reserve.anycount)', defines=['-DMAXCOUNT=357913940'], src=['pp.c', 'parse.c'], replace_calls=ALIAS_STUBS,
     functions=['janet_escape_buffer_b'], assumes=['janet_buffer_ensure(b, capacity, growth) makes room for capacity bytes (units seq.buffer.ensure); janet_escape_string_impl and janet_buffer_push_u8 are counting stubs'],
     mutants=ALIAS_MUT)
unit('pp.escape.alias.reserve.anycount', ALIAS_CLAUSE + ' - for EVERY count a buffer can have: a literal that cannot fit a buffer raises before anything is appended', 'pp_escape_alias.c', 'h_alias_reserve', cls='full-domain',
     src=['pp.c', 'parse.c'], replace_calls=ALIAS_STUBS, functions=['janet_escape_buffer_b'],
     assumes=['janet_buffer_ensure(b, capacity, growth) makes room for capacity bytes; janet_escape_string_impl and janet_buffer_push_u8 are counting stubs; janet_panic does not return'], mutants=ALIAS_MUT[:1] + ALIAS_MUT_ANY,
     failing='GENUINE DEFECT (C11/C01, needs a buffer of >= 357913941 bytes): janet_escape_buffer_b computes the reservation as the int32 expression bx->count + 5 * bx->count + 3, which overflows '
             '(undefined behaviour; wraps to a negative number in practice) for count > (INT32_MAX - 3) / 6. janet_buffer_ensure then returns without reserving anything, the buffer is reallocated by the '
             'first push that does not fit while janet_escape_string_impl keeps reading the source bytes through the stale pointer into the freed storage (use after free). Failing obligation: '
             'janet_escape_buffer_b.overflow (arithmetic overflow on signed * / +) and "the reservation covers the worst case". Reproducer on /repo/_build/janet: (def b (buffer/new-filled 400000000 1)) (buffer/format b "%j" b) -> SIGSEGV (with 300000000 bytes it works); native reproducer /verif/harness/pp_repro_self_buffer.c '
             '(libjanet.a with a realloc that always moves and poisons the old block: from unit 89478486 on the literal is made of poison bytes). Repair: compute the reservation in int64 and raise when it exceeds INT32_MAX.')
for n0, cap0 in [(0, 1), (1, 1), (2, 2), (2, 8)]:
  unit('pp.escape.alias.content.n%d_cap%d' % (n0, cap0),
     'janet_escape_buffer_b printing a buffer into itself, with the real buffer.c and a realloc that always moves the storage: the text appended is @ + the literal of the contents the buffer had '
     'when the call started (it parses back to the value that was printed), the old contents stay in front of it, count <= capacity, and no byte is read from storage that was freed',
     'pp_escape_alias.c', 'h_alias_content', bound='buffer of %d bytes (every byte value) in a block of capacity %d; unwind 6 (copy loop of the realloc model: 34) with unwinding assertions' % (n0, cap0), src=['pp.c', 'parse.c'],
     defines=['-DN0=%d' % n0, '-DCAP0=%d' % cap0], tier='thorough' if n0 == 2 else 'quick',
     link=['buffer.c', 'util.c'], link_keep={'util.c': ['janet_cstrcmp']}, replace_calls=['realloc:pa_realloc_stub'], unwind=6, unwindset={'pa_realloc_stub.0': 34},
     functions=['janet_escape_buffer_b', 'janet_escape_string_impl', 'janet_buffer_ensure', 'janet_buffer_extra', 'janet_buffer_push_u8', 'janet_buffer_push_bytes'],
     assumes=['realloc is a model that always moves: fresh block, old bytes copied, old block really deallocated (any later read through the old pointer is a pointer-check failure)'],
     mutants=([M('reservation-dropped', '    if (bx == buffer) {\n', '    if (0) {\n', 'deallocated|dereference')] if (n0, cap0) == (2, 2) else []) +
             ([M('count-read-after-the-at', '    int32_t count = bx->count;\n    janet_buffer_push_u8(buffer, \'@\');', '    janet_buffer_push_u8(buffer, \'@\');\n    int32_t count = bx->count;', 'C11 alias')]),
     failing='GENUINE DEFECT (C11, low severity): janet_escape_buffer_b pushes the @ into the destination BEFORE it reads bx->count, so when a buffer is printed into itself the @ just written is '
             'taken for part of the value: (def b @"abc") (buffer/format b "%j" b) appends @"abc@" - which parses back to @"abc@", not to the @"abc" that was printed (%p appends the correct @"abc"). '
             'Failing obligation: "the literal closes directly after the last byte of the printed value". Reproducer and repair (read bx->count before pushing the @; the four units then pass): header of /verif/harness/pp_escape_alias.c')

# ---------------------------------------------------------------------------------------------------------------------
# numbers outside the jdn path (C13: integers up to 2^53 print exactly)
NUM_STUBS = ['janet_buffer_ensure:pn_ensure_stub', 'janet_buffer_extra:pn_extra_stub', 'snprintf:pn_snprintf_stub', 'floor:pn_floor_stub']
unit('pp.number.to_string',
     'number_to_string_b (string / print / %v / %q / %p): an integer-valued number of magnitude up to 2^53 is printed with %.0f (every digit, exactly), zero of either sign as 0, anything else with the '
     '%.<DBL_DIG>g conversion (integers with -2^53 <= x <= 2^53, both ends included, use %.0f); snprintf writes directly behind the existing contents into room reserved before (>= 25 bytes, size given <= room), the buffer grows by exactly the '
     'characters printed and earlier contents are untouched', 'pp_number.c', 'h_number_to_string', props=['C13', 'C11'],
     bound='output buffer empty or holding 7 earlier bytes; every double; every rendering length 1..24; unwind 26 with unwinding assertions', unwind=26, replace_calls=NUM_STUBS,
     functions=['number_to_string_b'],
     assumes=['floor(x) == x exactly for integer-valued x (stub over a ghost flag)', 'snprintf with %.0f (|x| <= 2^53) or %.<n>g produces 1..24 characters and returns that length (C standard)',
              'janet_buffer_ensure(b, capacity, growth) makes room for capacity bytes (units seq.buffer.ensure); model block of 96 bytes'],
     mutants=[M('upper-limit-2^53-excluded', '                       x <= JANET_INTMAX_DOUBLE &&', '                       x < JANET_INTMAX_DOUBLE &&', 'C13 print'),
              M('lower-limit-minus-2^53-excluded', '                       x >= JANET_INTMIN_DOUBLE)', '                       x > JANET_INTMIN_DOUBLE)', 'C13 print'),
              M('integers-printed-with-%g', '? "%.0f" : ("%." STR(DBL_DIG) "g");', '? "%." STR(DBL_DIG) "g" : ("%." STR(DBL_DIG) "g");', 'C13 print'),
              M('range-test-dropped', '    const char *fmt = (x == floor(x) &&\n                       x <= JANET_INTMAX_DOUBLE &&\n                       x >= JANET_INTMIN_DOUBLE)', '    const char *fmt = (x == floor(x))', 'C13 print'),
              M('count-not-advanced', '        count = snprintf((char *) buffer->data + buffer->count, BUFSIZE, fmt, x);\n    }\n    buffer->count += count;', '        count = snprintf((char *) buffer->data + buffer->count, BUFSIZE, fmt, x);\n    }\n    buffer->count += 1;', 'C13 print'),
              M('room-smaller-than-size', '    janet_buffer_ensure(buffer, buffer->count + BUFSIZE, 2);\n    const char *fmt', '    janet_buffer_ensure(buffer, buffer->count + 32, 2);\n    const char *fmt', 'C13 print'),
              M('minus-zero-printed', '    if (x == 0.0) {\n        /* Prevent printing', '    if (0) {\n        /* Prevent printing', 'C13 print')])
unit('pp.number.dispatch', 'janet_to_string_b prints a number value through number_to_string_b with exactly its unwrapped value', 'pp_number.c', 'h_to_string_number', cls='full-domain',
     props=['C13', 'C11'], link=['wrap.c'], replace_calls=['number_to_string_b:pn_number_stub'], functions=['janet_to_string_b'], unwind=4,
     assumes=['number_to_string_b is replaced by a recording stub (unit pp.number.to_string)'],
     mutants=[M('numbers-truncated-to-integer', '            number_to_string_b(buffer, janet_unwrap_number(x));', '            number_to_string_b(buffer, (double) (int64_t) janet_unwrap_number(x));', 'C13 print|overflow|conversion')])
unit('pp.number.integer', 'integer_to_string_b: an int32 (INT32_MIN included) prints as its exact decimal text - optional minus sign, digits without leading zeros, 1..11 characters inside the room '
     'reserved, count advanced by the length, earlier contents untouched', 'pp_number.c', 'h_integer_to_string', props=['C13'],
     bound='|x| <= 99999 plus 18 x 3 values at the powers of ten and the int32 limits, INT32_MIN and INT32_MAX included (the full 2^32 domain does not solve in 5 min with minisat, cadical or z3); unwind 20 with unwinding assertions', unwind=20, replace_calls=NUM_STUBS, functions=['integer_to_string_b', 'count_dig10'], cbmc=['--sat-solver', 'cadical'],
     assumes=['janet_buffer_extra(b, n) makes room for n more bytes (units seq.buffer.extra); model block of 96 bytes'],
     mutants=[M('digit-count-off-by-one', '        if (x > -100) return result + 1;', '        if (x >= -100) return result + 1;', 'C13 print'),
              M('negation-overflow', '    if (x > 0) {\n        x = -x;\n    } else {\n        neg = 1;', '    if (x < 0) {\n        x = -x;\n        neg = 1;\n        *buf++ = \'-\';\n        x = -x;\n    } else if (0) {\n        neg = 1;', 'C13 print|overflow'),
              M('sign-not-counted', '    buffer->count += len + neg;', '    buffer->count += len;', 'C13 print')])

# ---------------------------------------------------------------------------------------------------------------------
# print_jdn_one
JDN_STUBS = ['print_jdn_one:pj_child_stub', 'janet_buffer_push_u8:pj_push_u8_stub', 'janet_buffer_push_cstring:pj_push_cstring_stub', 'janet_buffer_ensure:pj_ensure_stub',
             'janet_description_b:pj_description_stub', 'janet_buffer_dtostr:pj_dtostr_stub', 'janet_table_put:pj_table_put_stub']
JDN_ENTRY = ['print_jdn_one__entry:print_jdn_one']
JDN_ASS = ['recursive calls of print_jdn_one are replaced by a recording stub (value, depth budget, position in the output) that returns either status - the function is proved one level at a time',
           'janet_buffer_push_u8 / push_cstring append exactly the given bytes; janet_description_b (units pp.escape.*) and janet_buffer_dtostr (unit num.dtostr) are logged as one token each',
           'JANET_NO_NANBOX configuration of the same sources']


def jdn(tag, clause, entry, muts, **kw):
    unit('pp.jdn.' + tag, 'print_jdn_one: ' + clause, kw.pop('harness', 'pp_jdn.c'), entry, nanbox=False, link=kw.pop('link', ['wrap.c']), functions=['print_jdn_one'] + kw.pop('functions', []),
         replace_calls=kw.pop('replace_calls', JDN_STUBS), replace_calls2=JDN_ENTRY, assumes=kw.pop('assumes', JDN_ASS), mutants=muts, unwind=kw.pop('unwind', 12), **kw)


DEPTH0 = '    if (depth == 0) return 1;\n    switch (janet_type(x)) {\n        case JANET_NIL:\n        case JANET_BOOLEAN:\n        case JANET_BUFFER:'
jdn('depth0', 'with an exhausted depth budget every value is refused - nothing printed, nothing visited (janet_jdn_ raises "could not print to jdn format")', 'h_jdn_depth0',
    [M('budget-not-checked', DEPTH0, DEPTH0.replace('    if (depth == 0) return 1;\n', ''), 'C11 jdn'),
     M('budget-exhaustion-reported-as-success', DEPTH0, DEPTH0.replace('if (depth == 0) return 1;', 'if (depth == 0) return 0;'), 'C11 jdn')], cls='full-domain')
jdn('atoms', 'functions, cfunctions, fibers, abstracts and raw pointers are refused with nothing printed, so are NaN and the infinities; a finite number goes to the 17-digit printer '
    'janet_buffer_dtostr with exactly its value; nil, booleans, strings and buffers go to janet_description_b exactly once', 'h_jdn_atoms',
    [M('nan-printed', '            if (isnan(num)) return 1;\n', '', 'C11 jdn'),
     M('infinity-printed', '            if (isinf(num)) return 1;\n', '', 'C11 jdn'),
     M('functions-printed', '        case JANET_BUFFER:\n        case JANET_STRING:\n            janet_description_b(S->buffer, x);\n            break;\n        case JANET_NUMBER:',
       '        case JANET_BUFFER:\n        case JANET_STRING:\n        case JANET_FUNCTION:\n            janet_description_b(S->buffer, x);\n            break;\n        case JANET_NUMBER:', 'C11 jdn'),
     M('numbers-through-the-15-digit-printer', '            janet_buffer_dtostr(S->buffer, num);\n', '            janet_description_b(S->buffer, x);\n', 'C11 jdn')], cls='full-domain')
TUP = ("            janet_buffer_push_u8(S->buffer, isb ? '[' : '(');\n            for (int32_t i = 0; i < janet_tuple_length(t); i++) {\n                if (i) janet_buffer_push_u8(S->buffer, ' ');\n"
       "                if (print_jdn_one(S, t[i], depth - 1)) return 1;\n            }\n            janet_buffer_push_u8(S->buffer, isb ? ']' : ')');")
jdn('tuple', 'a tuple prints as (e0 e1 ...) or [e0 e1 ...] according to its bracket flag, elements in order separated by one space, each with depth budget - 1; the first refused element '
    'stops the printing and refuses the tuple', 'h_jdn_seq',
    [M('bracket-kind-lost', TUP, TUP.replace("isb ? '[' : '('", "'('").replace("isb ? ']' : ')'", "')'"), 'C11 jdn'),
     M('closing-bracket-mismatch', TUP, TUP.replace("isb ? ']' : ')'", "')'"), 'C11 jdn'),
     M('budget-not-decreased', TUP, TUP.replace('t[i], depth - 1)', 't[i], depth)'), 'C11 jdn'),
     M('no-separator', TUP, TUP.replace("                if (i) janet_buffer_push_u8(S->buffer, ' ');\n", ''), 'C11 jdn'),
     M('refused-element-ignored', TUP, TUP.replace('if (print_jdn_one(S, t[i], depth - 1)) return 1;', 'print_jdn_one(S, t[i], depth - 1);'), 'C11 jdn')],
    bound='tuples of at most 3 elements of any type; unwind 12 with unwinding assertions', defines=['-DSEQ_ARRAY=0'])
ARR = ('            janet_buffer_push_cstring(S->buffer, "@[");\n            for (int32_t i = 0; i < a->count; i++) {\n                if (i) janet_buffer_push_u8(S->buffer, \' \');\n'
       '                if (print_jdn_one(S, a->data[i], depth - 1)) return 1;\n            }\n            janet_buffer_push_u8(S->buffer, \']\');')
jdn('array', 'an array prints as @[e0 e1 ...], elements below count in order separated by one space, each with depth budget - 1 (an array that contains itself runs out of budget instead of '
    'recursing forever); the first refused element stops the printing and refuses the array', 'h_jdn_seq',
    [M('array-printed-as-tuple', ARR, ARR.replace('"@["', '"["'), 'C11 jdn'),
     M('capacity-printed', ARR, ARR.replace('i < a->count', 'i < a->capacity'), 'C11 jdn'),
     M('budget-not-decreased', ARR, ARR.replace('a->data[i], depth - 1)', 'a->data[i], depth)'), 'C11 jdn')],
    bound='arrays of at most 3 elements of any type; unwind 12 with unwinding assertions', defines=['-DSEQ_ARRAY=1'])
TAB = ('            janet_buffer_push_cstring(S->buffer, "@{");\n            int isFirst = 1;\n            for (int32_t i = 0; i < tab->capacity; i++) {\n                const JanetKV *kv = tab->data + i;\n'
       '                if (janet_checktype(kv->key, JANET_NIL)) continue;\n                if (!isFirst) janet_buffer_push_u8(S->buffer, \' \');\n                isFirst = 0;\n'
       '                if (print_jdn_one(S, kv->key, depth - 1)) return 1;\n                janet_buffer_push_u8(S->buffer, \' \');\n                if (print_jdn_one(S, kv->value, depth - 1)) return 1;\n')
jdn('table', 'a table prints as @{k0 v0 k1 v1 ...}: live buckets in bucket order, key space value, pairs separated by one space, empty buckets skipped, every key and value with depth budget - 1; '
    'the first refused key or value stops the printing and refuses the table', 'h_jdn_dict',
    [M('table-printed-as-struct', TAB, TAB.replace('"@{"', '"{"'), 'C11 jdn'),
     M('empty-buckets-printed', TAB, TAB.replace('                if (janet_checktype(kv->key, JANET_NIL)) continue;\n', ''), 'C11 jdn'),
     M('value-budget-not-decreased', TAB, TAB.replace('kv->value, depth - 1)', 'kv->value, depth)'), 'C11 jdn'),
     M('refused-key-ignored', TAB, TAB.replace('if (print_jdn_one(S, kv->key, depth - 1)) return 1;', 'print_jdn_one(S, kv->key, depth - 1);'), 'C11 jdn')],
    bound='tables of capacity 2 (every combination of live / empty buckets, keys and values of any type); unwind 12 with unwinding assertions', defines=['-DDICT_TABLE=1'])
STR = ("            janet_buffer_push_u8(S->buffer, '{');\n            int isFirst = 1;\n            for (int32_t i = 0; i < janet_struct_capacity(st); i++) {\n                const JanetKV *kv = st + i;\n"
       "                if (janet_checktype(kv->key, JANET_NIL)) continue;\n                if (!isFirst) janet_buffer_push_u8(S->buffer, ' ');\n                isFirst = 0;\n"
       "                if (print_jdn_one(S, kv->key, depth - 1)) return 1;\n                janet_buffer_push_u8(S->buffer, ' ');\n")
jdn('struct', 'a struct prints as {k0 v0 k1 v1 ...}: live buckets in bucket order, key space value, pairs separated by one space, empty buckets skipped, every key and value with depth budget - 1; '
    'the first refused key or value stops the printing and refuses the struct', 'h_jdn_dict',
    [M('struct-printed-as-table', STR, STR.replace("janet_buffer_push_u8(S->buffer, '{');", 'janet_buffer_push_cstring(S->buffer, "@{");'), 'C11 jdn'),
     M('key-and-value-glued', STR, STR.replace("                janet_buffer_push_u8(S->buffer, ' ');\n", '', 1) if False else STR[:STR.rindex("                janet_buffer_push_u8(S->buffer, ' ');\n")], 'C11 jdn'),
     M('length-instead-of-capacity', STR, STR.replace('janet_struct_capacity(st)', 'janet_struct_length(st)'), 'C11 jdn')],
    bound='structs of capacity 2 (every combination of live / empty buckets, keys and values of any type); unwind 12 with unwinding assertions', defines=['-DDICT_TABLE=0'])

for tag, flag, muts in [('array', 0, [M('array-elements-get-a-fresh-budget', ARR, ARR.replace('a->data[i], depth - 1)', 'a->data[i], depth > 1 ? depth - 1 : 2)'), 'C11 jdn|unwinding|recursion')]),
                        ('table', 1, [M('table-values-charged-twice', TAB, TAB.replace('kv->value, depth - 1)', 'kv->value, depth - 2)'), 'C11 jdn')])]:
    unit('pp.jdn.cycle.' + tag, 'print_jdn_one with its REAL recursion on cyclic data (%s): refused when the depth budget runs out, after exactly `depth` levels - raising instead of '
         'recursing forever' % ('an array that contains itself' if not flag else 'a table that holds itself as a value'), 'pp_jdn.c', 'h_jdn_cycle', nanbox=False, link=['wrap.c'], functions=['print_jdn_one'],
         bound='depth budget 3; one-element array / one-entry table; recursion and loops unwound 12 times with unwinding assertions', unwind=12, defines=['-DCYCLE_TABLE=%d' % flag],
         replace_calls=[r for r in JDN_STUBS if not r.startswith('print_jdn_one:')], assumes=JDN_ASS[1:],
         mutants=[M('budget-exhaustion-reported-as-success', DEPTH0, DEPTH0.replace('if (depth == 0) return 1;', 'if (depth == 0) return 0;'), 'C11 jdn')] + muts)

# symbols and keywords
SYM_STUBS = ['print_jdn_one:ps_child_stub', 'janet_description_b:ps_description_stub']
BAD = ("        if (sym[0] >= '0' && sym[0] <= '9') return 1;\n")
BAD2 = ("    if (!janet_valid_utf8(sym, len)) return 1;\n    for (int32_t i = 0; i < len; i++) {\n        if (!janet_is_symbol_char(sym[i])) return 1;\n    }")
jdn('symbol.alphabet', 'a symbol / keyword is accepted only if every byte belongs to the symbol alphabet, the text is valid UTF-8 and (symbols) it does not start with a digit - the tokens the reader '
    'rejects or splits are refused, nothing printed; plain ASCII text of the alphabet is never refused (keywords; symbols that start with a letter and are not the name of a constant); accepted text is printed once through janet_description_b', 'h_jdn_symbol_alphabet',
    [M('digit-check-dropped', BAD, '', 'C11 jdn symbol'),
     M('utf8-check-dropped', BAD2, BAD2.replace('    if (!janet_valid_utf8(sym, len)) return 1;\n', ''), 'C11 jdn symbol'),
     M('last-character-unchecked', BAD2, BAD2.replace('i < len; i++', 'i + 1 < len; i++'), 'C11 jdn symbol'),
     M('keywords-with-digits-refused', "    if (issym) {\n        /* The text must read back as a symbol", "    if (len) {\n        /* The text must read back as a symbol", 'C11 jdn symbol'),
     M('bad-symbols-printed', '            if (contains_bad_chars(janet_unwrap_keyword(x), janet_type(x) == JANET_SYMBOL)) return 1;\n', '', 'C11 jdn symbol')],
    harness='pp_jdn_sym.c', src=['pp.c', 'parse.c'], replace_calls=SYM_STUBS + ['janet_scan_numeric:ps_scan_numeric_alpha_stub'], functions=['contains_bad_chars'],
    link=['wrap.c', 'util.c'], link_keep={'util.c': ['janet_cstrcmp']},
    bound='symbol / keyword texts of at most 3 bytes (every byte value); unwind 12 with unwinding assertions',
    assumes=['janet_description_b is replaced by a recording stub', 'JANET_NO_NANBOX configuration of the same sources'])
RT_STUBS = ['print_jdn_one:ps_child_stub', 'janet_buffer_push_u8:ps_push_u8_stub', 'janet_buffer_push_bytes:ps_push_bytes_stub', 'janet_symbol:ps_symbol_stub', 'realloc:ps_realloc_stub']
RT_ASS = ['janet_buffer_push_u8 / push_bytes append exactly the given bytes (recording stubs)', 'janet_symbol (interning, units sc.*) is replaced by a stub that records the text it is given',
          'the reader is the real janet_parser_consume / root / tokenchar of parse.c with the real number scanner of strtod.c, positioned inside an open parenthesis', 'JANET_NO_NANBOX configuration of the same sources']
RT_CLAUSE = 'printed by %%j and read back, %s: refused by the printer, or the reader (real parse.c + strtod.c), given the printed text and a delimiter, yields exactly one value of the same type interned from the same text'
RT_REPAIR = ' Repair: contains_bad_chars must also refuse (for symbols) the empty text, a leading colon, the words nil / true / false and any text janet_scan_numeric accepts.'
RT_MUT = [M('bad-symbols-printed', '            if (contains_bad_chars(janet_unwrap_keyword(x), janet_type(x) == JANET_SYMBOL)) return 1;\n', '            if (0) return 1;\n', 'C11 jdn symbol|REACH')]
RT_KW_MUT = [M('keyword-colon-dropped', "        case JANET_KEYWORD:\n            janet_buffer_push_u8(buffer, ':');\n            break;", '        case JANET_KEYWORD:\n            break;', 'C11 jdn symbol')]
for cls_no, tag, what, muts, failing in [
    (1, 'letters', 'symbols of one or two lower-case letters (all 702)', [M('symbols-printed-with-colon', "        case JANET_KEYWORD:\n            janet_buffer_push_u8(buffer, ':');", "        case JANET_KEYWORD:\n        case JANET_SYMBOL:\n            janet_buffer_push_u8(buffer, ':');", 'C11 jdn symbol')], None),
    (2, 'keyword', 'keywords of 0..2 bytes of the ASCII symbol alphabet (digits, colons, signs included)', RT_KW_MUT, None),
    (3, 'reserved', 'the symbols nil, true, false', RT_MUT,
     'GENUINE DEFECT (C11): print_jdn_one accepts the symbols whose text is nil, true or false; the text reads back as the constant, not as the symbol. '
     '(string/format "%j" (symbol "nil")) -> "nil", (parse "nil") -> nil. Failing obligation: "a printed symbol reads back as a symbol". Reproducer: header of /verif/harness/pp_jdn_sym.c.' + RT_REPAIR),
    (4, 'numeric', 'symbols whose text scans as a number (-1, +1, .5, -0xf, -2r1)', RT_MUT,
     'GENUINE DEFECT (C11): print_jdn_one accepts symbols whose text the reader scans as a number (only a leading DIGIT is refused; a leading sign or point is not): '
     '(string/format "%j" (symbol "-1")) -> "-1", (parse "-1") -> the number -1; likewise +1, .5, -0x10, -2r1, -1_. Failing obligation: "a printed symbol reads back as a symbol". Reproducer: header of /verif/harness/pp_jdn_sym.c.' + RT_REPAIR),
    (5, 'colon', 'symbols with a leading colon (: and :a .. :z)', RT_MUT,
     'GENUINE DEFECT (C11): print_jdn_one accepts symbols that start with a colon; the reader turns the text into a KEYWORD: (string/format "%j" (symbol ":a")) -> ":a", (parse ":a") -> the keyword :a. '
     'Failing obligation: "a printed symbol reads back as a symbol". Reproducer: header of /verif/harness/pp_jdn_sym.c.' + RT_REPAIR),
    (6, 'empty', 'the empty symbol', RT_MUT,
     'GENUINE DEFECT (C11): print_jdn_one accepts the empty symbol and prints nothing for it: (string/format "%j" (symbol "")) -> "", which reads back as no value at all ((parse "") -> error "no value"); inside '
     'a container the element silently disappears: (string/format "%j" [(symbol "") 1]) -> "( 1)". Failing obligation: "the printed text reads back as exactly one value". Reproducer: header of /verif/harness/pp_jdn_sym.c.' + RT_REPAIR)]:
    jdn('symbol.rt.' + tag, RT_CLAUSE % what, 'h_jdn_symbol_roundtrip', muts, harness='pp_jdn_sym.c', src=['pp.c', 'parse.c'] + ([] if cls_no in (1, 2, 5) else ['strtod.c']), defines=['-DSYMCLASS=%d' % cls_no],
        cbmc=['--sat-solver', 'cadical'],
        replace_calls=RT_STUBS + (['janet_scan_numeric:ps_scan_numeric_stub'] if cls_no in (1, 2, 5) else []),
        functions=['contains_bad_chars', 'janet_description_b', 'janet_to_string_b', 'janet_parser_consume', 'tokenchar', 'janet_scan_numeric'], min_reach_any=1,
        link=['wrap.c', 'util.c'], link_keep={'util.c': ['janet_cstrcmp']},
        bound=what + '; unwind 12 (reader dispatch loop: 3) with unwinding assertions', failing=failing, timeout=300, unwindset={'janet_parser_consume.0': 3, 'ps_realloc_stub.0': 130},
        **(dict(genbody='(janet_|nd_).*|ldexp') if cls_no == 4 else {}),
        assumes=RT_ASS + (['classes with symbolic characters: the reader is handed the accumulated token (its accumulation of symbol characters: units parse.consumer.tokenchar / root_open); the number scanner is not reachable for these texts (asserted)'] if cls_no in (1, 2, 5) else []) + (['ldexp returns any double (the numeric VALUE read back is irrelevant here, only that the token is taken for a number)'] if cls_no == 4 else []))

if __name__ == '__main__':
    json.dump({'units': U}, open(os.path.join(V, 'units', 'C11_pp.json'), 'w'), indent=1)
    print('wrote %d units (%d kept disabled: failing on the pinned tree)' % (len(U), sum(1 for u in U if u.get('disabled_reason'))))
