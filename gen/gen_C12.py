#!/usr/bin/env python3
"""C12: units for the PEG matcher (peg.c): capture-state helpers (dfcc contracts) and per-opcode harnesses of peg_rule.
Writes /verif/units/C12.json.  Run: python3 gen/gen_C12.py"""
import json, os
V = os.path.dirname(os.path.dirname(os.path.abspath(__file__)))
STD = ["bounds-check", "pointer-check", "signed-overflow-check", "div-by-zero-check"]

units = []


def helper(id_, fn, entry, clause, mutants, cls="proved", **kw):
    u = {"id": id_, "props": ["C12"], "tier": "quick", "class": cls, "clause": clause, "src": ["peg.c"],
         "harness": ["peg_helpers.c"], "entry": entry, "mode": "dfcc", "enforce": ["%s/%s_c" % (fn, fn)],
         "checks": STD, "timeout": 120, "mutants": mutants}
    u.update(kw)
    units.append(u)


helper("peg.cap_save", "cap_save", "h_cap_save",
       "cap_save records exactly the current heights of the capture, accumulator and tagged-capture stacks and changes nothing",
       [dict(name="save-wrong-stack", file="peg.c", find="cs.tcap = s->tagged_captures->count;", replace="cs.tcap = s->captures->count;", expect="postcondition")])
helper("peg.cap_load", "cap_load", "h_cap_load",
       "cap_load cuts all capture stacks back exactly to the saved CapState (tags and tagged captures to one common height) and writes nothing else",
       [dict(name="tags-not-cut", file="peg.c", find="    s->tags->count = cs.tcap;\n", replace="", expect="postcondition"),
        dict(name="scratch-not-cut", file="peg.c", find="static void cap_load(PegState *s, CapState cs) {\n    s->scratch->count = cs.scratch;", replace="static void cap_load(PegState *s, CapState cs) {", expect="postcondition")])
helper("peg.cap_load_keept", "cap_load_keept", "h_cap_load_keept",
       "cap_load_keept cuts the positional capture stack and the accumulator back to the saved state and leaves the tagged captures (back-references) untouched",
       [dict(name="also-cuts-tagged", file="peg.c", find="    s->captures->count = cs.cap;\n}\n\n/* Add a capture */", replace="    s->captures->count = cs.cap;\n    s->tagged_captures->count = cs.tcap;\n}\n\n/* Add a capture */", expect="assigns"),
        dict(name="captures-not-cut", file="peg.c", find="    s->captures->count = cs.cap;\n}\n\n/* Add a capture */", replace="}\n\n/* Add a capture */", expect="postcondition")])
helper("peg.cap_roundtrip", "cap_roundtrip", "h_cap_roundtrip",
       "save, arbitrary growth/shrinkage of every stack, load: all four stack heights are exactly the saved ones (captures made after the snapshot vanish)",
       [dict(name="load-swaps-fields", file="peg.c", find="    s->captures->count = cs.cap;\n    s->tags->count = cs.tcap;", replace="    s->captures->count = cs.tcap;\n    s->tags->count = cs.tcap;", expect="postcondition")],
       functions=["cap_save", "cap_load"])
helper("peg.pushcap", "pushcap", "h_pushcap",
       "pushcap adds exactly one positional capture in normal mode, only grows the accumulator in accumulate mode, and adds one tagged capture and one tag iff back-references are in use (tags/tagged heights stay equal)",
       [dict(name="tag-not-pushed", file="peg.c", find="        janet_buffer_push_u8(s->tags, tag);\n", replace="", expect="postcondition"),
        dict(name="accumulate-also-pushes", file="peg.c", find="    if (s->mode == PEG_MODE_NORMAL) {\n        janet_array_push(s->captures, capture);", replace="    {\n        janet_array_push(s->captures, capture);", expect="postcondition")],
       replace=["janet_array_push/janet_array_push_c", "janet_buffer_push_u8/janet_buffer_push_u8_c", "janet_to_string_b/janet_to_string_b_c"],
       assumes=["janet_array_push / janet_buffer_push_u8 append exactly one element when they return; janet_to_string_b only appends (contracts; the functions are under proof in C04)"])
helper("peg.convert_u64_s64", "peg_convert_u64_s64", "h_convert",
       "peg_convert_u64_s64 sign-extends the low width bytes (1..8) of the accumulated integer, for all 2^64 values; no undefined shift",
       [dict(name="shift-off-by-one", file="peg.c", find="int shift = 8 * (8 - width);", replace="int shift = 8 * (7 - width);", expect="postcondition|shift")],
       cls="full-domain", checks=STD + ["undefined-shift-check"])

helper("peg.linecol_search", "get_linecol_from_position", "h_linecol",
       "get_linecol_from_position (line map present): the binary search terminates for every map length and returns the 1-indexed line whose preceding newline lies strictly before the position and whose next newline lies at or after it, with the column counted from that newline; every map access in range",
       [dict(name="search-keeps-hi", file="peg.c", find="        if (s->linemap[mid] >= position) {\n            hi = mid;", replace="        if (s->linemap[mid] > position) {\n            hi = mid;", expect="loop_invariant|postcondition"),
        dict(name="line-off-by-one", file="peg.c", find="ret.line = lo + 2;", replace="ret.line = lo + 1;", expect="postcondition")],
       checks=["bounds-check", "pointer-check", "div-by-zero-check"],
       loop_counts={"get_linecol_from_position": 3},
       # the two generation loops are unreachable under the precondition linemaplen >= 0: unwound once WITH unwinding assertion
       unwindset={"get_linecol_from_position_wrapped_for_contract_checking.0": 1, "get_linecol_from_position_wrapped_for_contract_checking.1": 1}, cbmc=["--unwinding-assertions"],
       loops={"get_linecol_from_position": [{"loop_id": "2",
              "invariants": "0 <= lo && lo <= hi && hi <= s->linemaplen && (s->linemaplen > 0 ==> lo < hi) && (lo == 0 || s->linemap[lo] < position) && (hi == s->linemaplen || s->linemap[hi] >= position)",
              "assigns": "lo, hi", "decreases": "hi - lo",
              "symbol_map": "lo,get_linecol_from_position::1::lo;hi,get_linecol_from_position::1::hi;s,get_linecol_from_position::s;position,get_linecol_from_position::position"}]},
       undecided_clauses=["lazy generation of the line map (two pointer-walking loops over the text, rule R14) is not covered by this unit; signed-overflow of position - linemap[lo] needs the universal fact linemap[k] >= 0 at a data-dependent index (rule R2) and is not checked here"])

# ---- peg_rule: per-opcode harnesses (plain mode, recursion replaced by the asserting/assuming contract stub) ----
REPL = ["peg_rule:peg_rule_stub", "janet_array_push:h_array_push", "janet_buffer_push_u8:h_buffer_push_u8",
        "janet_to_string_b:h_to_string_b", "janet_buffer_push_bytes:h_buffer_push_bytes", "janet_stringv:h_stringv",
        "janet_scan_number_base:h_scan_number_base", "memcmp:h_memcmp", "safe_memcpy:h_safe_memcpy", "janet_array:h_array",
        "get_linecol_from_position:h_linecol", "janet_call:h_call"]
HLOOPS = {"peg_wf_chain.0": 6, "peg_wf_args.0": 25, "peg_inv_consts.0": 4, "peg_inv_tcaps.0": 5}
ASSUMES = ["recursive calls of peg_rule obey peg_rule's own contract (stub peg_rule_stub: asserts the precondition, assumes the postcondition that this same harness asserts for the real body - induction over the recursion)",
           "bytecode is wf_peg along the top rule and its tail-call chain (instruction well-formed, rule operands are instruction starts, constant operands in range, argument index >= 0, readint width <= 8): established by the compiler's emitters / peg_unmarshal",
           "capture stacks have capacity 4 (accumulator 6) in the harness: paths that push beyond are cut; contents of pushed values are arbitrary",
           "tagged string captures refer to a valid string object; C functions stored as constants accept (argc, argv)",
           "janet_stringv / janet_scan_number_base / memcmp / safe_memcpy / janet_array / get_linecol_from_position / janet_call replaced by stubs that assert readability of every (pointer,length) pair they are given and return arbitrary values",
           "compiled with -DJANET_NO_NANBOX (documented tagged-struct configuration of the same sources)"]


def opunit(name, op, clause, mutants, unwind=3, recurses=True, tail_not="RULE_LENPREFIX", extra_defines=(), tier="quick", bound=None, **kw):
    defines = []
    if op:
        defines.append("-DPEG_OP=" + op)
    if recurses:
        defines.append("-DPEG_RECURSES")
    if tail_not:
        defines.append("-DPEG_TAIL_NOT_OP=" + tail_not)
    defines += list(extra_defines)
    u = {"id": "peg.rule." + name, "props": ["C12"], "tier": tier, "class": "bounded",
         "bound": bound or ("bytecode <= 24 words (symbolic, wf_peg), text length symbolic (any length, any window/offset); loops of peg_rule incl. the tail-call loop unwound %dx without unwinding assertion; capture stacks <= 4 entries" % unwind),
         "clause": clause, "src": ["peg.c"], "link": ["wrap.c"], "harness": ["peg_rule.c"], "entry": "h_peg_rule", "mode": "plain",
         "functions": ["peg_rule"], "defines": defines, "replace_calls": REPL, "replace_calls2": ["peg_rule__entry:peg_rule"],
         "remove_bodies": "cfun_peg_.*", "nanbox": False, "checks": STD, "unwind": unwind, "unwindset": HLOOPS,
         "unwinding_assertions": False, "timeout": 300, "assumes": ASSUMES, "mutants": mutants}
    u.update(kw)
    units.append(u)


opunit("choice", "RULE_CHOICE",
       "choice: every alternative is tried at the same text position one level deeper with the capture stacks cut back to the saved CapState after each failed alternative (also before the tail call of the last one); depth, mode and window restored; result in window",
       [dict(name="choice-no-cutback", file="peg.c", find="                    return result;\n                }\n                cap_load(s, cs);\n            }", replace="                    return result;\n                }\n            }", expect="BACKTRACK"),
        dict(name="choice-depth-leak", file="peg.c", find="                if (result) {\n                    up1(s);\n                    return result;", replace="                if (result) {\n                    return result;", expect="RESTORE")])

json.dump({"units": units}, open(os.path.join(V, "units", "C12.json"), "w"), indent=1)
print("wrote %d units" % len(units))
