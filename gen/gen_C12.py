#!/usr/bin/env python3
"""C12: units for the PEG matcher (peg.c): capture-state helpers (dfcc contracts) and per-opcode harnesses of peg_rule.
Writes /verif/units/C12.json.  Run: python3 gen/gen_C12.py"""
import json, os
V = os.path.dirname(os.path.dirname(os.path.abspath(__file__)))
STD = ["bounds-check", "pointer-check", "signed-overflow-check", "div-by-zero-check"]

units = []


def helper(id_, fn, entry, clause, mutants, cls="proved", **kw):
    u = {"id": id_, "props": ["C12"], "tier": "quick", "class": cls, "clause": clause, "src": ["peg.c"],
         "harness": ["peg_helpers.c"], "entry": entry, "mode": "dfcc", "enforce": ["%s/%s_c" % (fn, fn)],
         "checks": STD, "timeout": 120, "mutants": mutants}
    u.update(kw)
    units.append(u)


helper("peg.cap_save", "cap_save", "h_cap_save",
       "cap_save records exactly the current heights of the capture, accumulator and tagged-capture stacks and changes nothing",
       [dict(name="save-wrong-stack", file="peg.c", find="cs.tcap = s->tagged_captures->count;", replace="cs.tcap = s->captures->count;", expect="postcondition")])
helper("peg.cap_load", "cap_load", "h_cap_load",
       "cap_load cuts all capture stacks back exactly to the saved CapState (tags and tagged captures to one common height) and writes nothing else",
       [dict(name="tags-not-cut", file="peg.c", find="    s->tags->count = cs.tcap;\n", replace="", expect="postcondition"),
        dict(name="scratch-not-cut", file="peg.c", find="static void cap_load(PegState *s, CapState cs) {\n    s->scratch->count = cs.scratch;", replace="static void cap_load(PegState *s, CapState cs) {", expect="postcondition")])
helper("peg.cap_load_keept", "cap_load_keept", "h_cap_load_keept",
       "cap_load_keept cuts the positional capture stack and the accumulator back to the saved state and leaves the tagged captures (back-references) untouched",
       [dict(name="also-cuts-tagged", file="peg.c", find="    s->captures->count = cs.cap;\n}\n\n/* Add a capture */", replace="    s->captures->count = cs.cap;\n    s->tagged_captures->count = cs.tcap;\n}\n\n/* Add a capture */", expect="assigns"),
        dict(name="captures-not-cut", file="peg.c", find="    s->captures->count = cs.cap;\n}\n\n/* Add a capture */", replace="}\n\n/* Add a capture */", expect="postcondition")])
helper("peg.cap_roundtrip", "cap_roundtrip", "h_cap_roundtrip",
       "save, arbitrary growth/shrinkage of every stack, load: all four stack heights are exactly the saved ones (captures made after the snapshot vanish)",
       [dict(name="load-swaps-fields", file="peg.c", find="    s->captures->count = cs.cap;\n    s->tags->count = cs.tcap;", replace="    s->captures->count = cs.tcap;\n    s->tags->count = cs.tcap;", expect="postcondition")],
       functions=["cap_save", "cap_load"])
helper("peg.pushcap", "pushcap", "h_pushcap",
       "pushcap adds exactly one positional capture in normal mode, only grows the accumulator in accumulate mode, and adds one tagged capture and one tag iff back-references are in use (tags/tagged heights stay equal)",
       [dict(name="tag-not-pushed", file="peg.c", find="        janet_buffer_push_u8(s->tags, tag);\n", replace="", expect="postcondition"),
        dict(name="accumulate-also-pushes", file="peg.c", find="    if (s->mode == PEG_MODE_NORMAL) {\n        janet_array_push(s->captures, capture);", replace="    {\n        janet_array_push(s->captures, capture);", expect="postcondition")],
       replace=["janet_array_push/janet_array_push_c", "janet_buffer_push_u8/janet_buffer_push_u8_c", "janet_to_string_b/janet_to_string_b_c"],
       assumes=["janet_array_push / janet_buffer_push_u8 append exactly one element when they return; janet_to_string_b only appends (contracts; the functions are under proof in C04)"])
helper("peg.convert_u64_s64", "peg_convert_u64_s64", "h_convert",
       "peg_convert_u64_s64 sign-extends the low width bytes (1..8) of the accumulated integer, for all 2^64 values; no undefined shift",
       [dict(name="shift-off-by-one", file="peg.c", find="int shift = 8 * (8 - width);", replace="int shift = 8 * (7 - width);", expect="postcondition|shift")],
       cls="full-domain", checks=STD + ["undefined-shift-check"])

helper("peg.linecol_search", "get_linecol_from_position", "h_linecol",
       "get_linecol_from_position (line map present): the binary search terminates for every map length and returns the 1-indexed line whose preceding newline lies strictly before the position and whose next newline lies at or after it, with the column counted from that newline; every map access in range",
       [dict(name="search-keeps-hi", file="peg.c", find="        if (s->linemap[mid] >= position) {\n            hi = mid;", replace="        if (s->linemap[mid] > position) {\n            hi = mid;", expect="loop_invariant|postcondition"),
        dict(name="line-off-by-one", file="peg.c", find="ret.line = lo + 2;", replace="ret.line = lo + 1;", expect="postcondition")],
       checks=["bounds-check", "pointer-check", "div-by-zero-check"],
       loop_counts={"get_linecol_from_position": 3},
       # the two generation loops are unreachable under the precondition linemaplen >= 0: unwound once WITH unwinding assertion
       unwindset={"get_linecol_from_position_wrapped_for_contract_checking.0": 1, "get_linecol_from_position_wrapped_for_contract_checking.1": 1}, cbmc=["--unwinding-assertions"],
       loops={"get_linecol_from_position": [{"loop_id": "2",
              "invariants": "0 <= lo && lo <= hi && hi <= s->linemaplen && (s->linemaplen > 0 ==> lo < hi) && (lo == 0 || s->linemap[lo] < position) && (hi == s->linemaplen || s->linemap[hi] >= position)",
              "assigns": "lo, hi", "decreases": "hi - lo",
              "symbol_map": "lo,get_linecol_from_position::1::lo;hi,get_linecol_from_position::1::hi;s,get_linecol_from_position::s;position,get_linecol_from_position::position"}]},
       undecided_clauses=["lazy generation of the line map (two pointer-walking loops over the text, rule R14) is not covered by this unit; signed-overflow of position - linemap[lo] needs the universal fact linemap[k] >= 0 at a data-dependent index (rule R2) and is not checked here"])

# ---- peg_rule: per-opcode harnesses (plain mode, recursion replaced by the asserting/assuming contract stub) ----
REPL = ["peg_rule:peg_rule_stub", "janet_array_push:h_array_push", "janet_buffer_push_u8:h_buffer_push_u8",
        "janet_to_string_b:h_to_string_b", "janet_buffer_push_bytes:h_buffer_push_bytes", "janet_string:h_string",
        "janet_scan_number_base:h_scan_number_base", "memcmp:h_memcmp", "safe_memcpy:h_safe_memcpy", "janet_array:h_array",
        "get_linecol_from_position:h_linecol", "janet_call:h_call"]
HLOOPS = {"peg_wf_chain.0": 6, "peg_wf_args.0": 25, "peg_inv_consts.0": 4, "peg_inv_tcaps.0": 5}
ASSUMES = ["recursive calls of peg_rule obey peg_rule's own contract (stub peg_rule_stub: asserts the precondition, assumes the postcondition that this same harness asserts for the real body - induction over the recursion)",
           "bytecode is wf_peg along the top rule and its tail-call chain (instruction well-formed, rule operands are instruction starts, constant operands in range, argument index >= 0, readint width <= 8): established by the compiler's emitters / peg_unmarshal",
           "capture stacks have capacity 4 (accumulator 6) in the harness: paths that push beyond are cut; contents of pushed values are arbitrary",
           "tagged string captures refer to a valid string object; C functions stored as constants accept (argc, argv)",
           "janet_string / janet_scan_number_base / memcmp / safe_memcpy / janet_array / get_linecol_from_position / janet_call replaced by stubs that assert readability of every (pointer,length) pair they are given and return arbitrary values",
           "compiled with -DJANET_NO_NANBOX (documented tagged-struct configuration of the same sources)"]


def opunit(name, op, clause, mutants, unwind=3, recurses=True, tail_not="RULE_LENPREFIX", extra_defines=(), tier="quick", bound=None, **kw):
    defines = []
    if op:
        defines.append("-DPEG_OP=" + op)
    if recurses:
        defines.append("-DPEG_RECURSES")
    if tail_not:
        defines.append("-DPEG_TAIL_NOT_OP=" + tail_not)
    defines += list(extra_defines)
    u = {"id": "peg.rule." + name, "props": ["C12", "C19"], "tier": tier, "class": "bounded",
         "bound": bound or ("bytecode <= 24 words (symbolic, wf_peg), text length symbolic (any length, any window/offset); loops of peg_rule incl. the tail-call loop unwound %dx without unwinding assertion; capture stacks <= 4 entries" % unwind),
         "clause": clause, "src": ["peg.c"], "link": ["wrap.c"], "harness": ["peg_rule.c"], "entry": "h_peg_rule", "mode": "plain",
         "functions": ["peg_rule"], "defines": defines, "replace_calls": REPL, "replace_calls2": ["peg_rule__entry:peg_rule"],
         "remove_bodies": "cfun_peg_.*", "nanbox": False, "checks": STD, "unwind": unwind, "unwindset": HLOOPS,
         "unwinding_assertions": False, "timeout": 300, "assumes": ASSUMES, "mutants": mutants}
    u.update(kw)
    units.append(u)


# ---- tail-call gotos of peg_rule: CBMC numbers every backward goto as its own loop. A unit lets only the tail goto of
# ITS opcode be taken (once); all other `goto tail` are cut (unwind 1). Reason: two different tail gotos merging their
# `rule` pointers at the label crash the simplifier of cbmc 6.11 (infinite recursion in simplify_byte_extract), and the
# alternative --no-simplify does not finish. The loop ids are recomputed from the source here; re-run after editing peg.c.
import subprocess, re, tempfile
def tail_loops():
    src = open('/repo/src/core/peg.c').read().split('\n')
    tails = {}
    for ln, line in enumerate(src, 1):
        if line.strip() == 'goto tail;':
            k = ln
            while not re.match(r'\s*case (RULE_\w+):', src[k - 1]):
                k -= 1
            tails[ln] = re.match(r'\s*case (RULE_\w+):', src[k - 1]).group(1)
    d = tempfile.mkdtemp()
    gb = os.path.join(d, 'p.gb')
    subprocess.run(['goto-cc', '-std=c99', '-I/repo/src/include', '-I/repo/_build', '-iquote', '/repo/src/core', '-D_FILE_OFFSET_BITS=64',
                    '-c', '/repo/src/core/peg.c', '-o', gb], check=True, capture_output=True)
    out = subprocess.run(['cbmc', '--show-loops', gb], capture_output=True, text=True).stdout
    ids = {}
    for m in re.finditer(r'Loop (peg_rule\.\d+):\n\s+file \S+ line (\d+)', out):
        if int(m.group(2)) in tails:
            ids[tails[int(m.group(2))]] = m.group(1)
    import shutil; shutil.rmtree(d)
    assert len(ids) == len(tails) == 5, (ids, tails)
    return ids
TAILS = tail_loops()   # e.g. {'RULE_CHOICE': 'peg_rule.3', ...}

M = lambda name, find, replace, expect: dict(name=name, file="peg.c", find=find, replace=replace, expect=expect)
OPS = [
 # name, opcode, recurses, unwind, defines, clause, mutants
 ("literal", "RULE_LITERAL", False, 3, ["PEG_SEM_LITERAL"],
  "literal: compares only bytes inside the current window (length check before memcmp), a match consumes exactly len bytes",
  [M("literal-no-length-check", "            if (text + len > s->text_end) return NULL;\n            return memcmp(text, rule + 2, len) ? NULL : text + len;", "            return memcmp(text, rule + 2, len) ? NULL : text + len;", "WINDOW|SEM")]),
 ("nchar", "RULE_NCHAR", False, 3, ["PEG_SEM_NCHAR"],
  "n: matches iff at least n bytes remain in the (sub-)window and consumes exactly n; nothing else changes",
  [M("nchar-outer-end", "return (text + n > s->text_end) ? NULL : text + n;", "return (text + n > s->outer_text_end) ? NULL : text + n;", "WINDOW|SEM")]),
 ("notnchar", "RULE_NOTNCHAR", False, 3, ["PEG_SEM_NOTNCHAR", "PEG_CONSUMES_NOTHING"],
  "-n: matches iff fewer than n bytes remain in the window and consumes nothing",
  [M("notnchar-off-by-one", "return (text + n > s->text_end) ? text : NULL;", "return (text + n >= s->text_end) ? text : NULL;", "SEM")]),
 ("range", "RULE_RANGE", False, 3, ["PEG_SEM_RANGE"],
  "range: reads text[0] only when text < text_end; matches exactly one byte in [lo,hi]",
  [M("range-no-end-check", "return (text < s->text_end &&\n                    text[0] >= lo &&", "return (text[0] >= lo &&", "pointer_dereference|SEM")]),
 ("set", "RULE_SET", False, 3, ["PEG_SEM_SET"],
  "set: reads text[0] only when text < text_end; the bitmap word index stays inside the 8-word operand; matches exactly one member byte",
  [M("set-no-end-check", "            if (text >= s->text_end) return NULL;\n            uint32_t word", "            uint32_t word", "pointer_dereference|SEM")]),
 ("backmatch", "RULE_BACKMATCH", False, 6, [],
  "backmatch: the tag search stays inside the tag stack, the back-referenced string is compared only against bytes inside the window",
  [M("backmatch-no-length-check", "                    if (text + len > s->text_end)\n                        return NULL;\n", "", "WINDOW")]),
 ("readint", "RULE_READINT", False, 9, ["PEG_SEM_READINT", "PEG_SUCCESS_ONE_CAPTURE"],
  "int/uint: reads exactly width (<= 8) bytes, all inside the window, consumes width and captures one value",
  [M("readint-no-length-check", "            if (text + width > s->text_end) return NULL;\n", "", "pointer_dereference|SEM")]),
 ("gettag", "RULE_GETTAG", False, 6, ["PEG_CONSUMES_NOTHING", "PEG_SUCCESS_ONE_CAPTURE"],
  "backref (->): searches the tag stack from the top inside its bounds, re-captures the tagged value (one capture), consumes nothing",
  [M("gettag-starts-at-count", "            for (int32_t i = s->tags->count - 1; i >= 0; i--) {\n                if (s->tags->data[i] == search) {\n                    pushcap(", "            for (int32_t i = s->tags->count; i >= 0; i--) {\n                if (s->tags->data[i] == search) {\n                    pushcap(", "pointer_dereference|array_bounds")]),
 ("position", "RULE_POSITION", False, 3, ["PEG_CONSUMES_NOTHING", "PEG_SUCCESS_ONE_CAPTURE"],
  "position ($): captures one value and consumes nothing",
  [M("position-not-captured", "            pushcap(s, janet_wrap_number((double)(text - s->text_start)), rule[1]);\n", "", "SEM")]),
 ("line", "RULE_LINE", False, 3, ["PEG_CONSUMES_NOTHING", "PEG_SUCCESS_ONE_CAPTURE"],
  "line: asks the line map for a position inside the text, captures one value, consumes nothing",
  [M("line-not-captured", "            pushcap(s, janet_wrap_number((double)(lc.line)), rule[1]);\n", "", "SEM")]),
 ("column", "RULE_COLUMN", False, 3, ["PEG_CONSUMES_NOTHING", "PEG_SUCCESS_ONE_CAPTURE"],
  "column: asks the line map for a position inside the text, captures one value, consumes nothing",
  [M("column-not-captured", "            pushcap(s, janet_wrap_number((double)(lc.col)), rule[1]);\n", "", "SEM")]),
 ("argument", "RULE_ARGUMENT", False, 3, ["PEG_CONSUMES_NOTHING", "PEG_SUCCESS_ONE_CAPTURE"],
  "argument: reads extrav[index] only for index < extrac (nil otherwise), captures one value, consumes nothing",
  [M("argument-index-off-by-one", "Janet capture = (index >= s->extrac) ? janet_wrap_nil() : s->extrav[index];", "Janet capture = (index > s->extrac) ? janet_wrap_nil() : s->extrav[index];", "pointer_dereference|array_bounds")]),
 ("constant", "RULE_CONSTANT", False, 3, ["PEG_CONSUMES_NOTHING", "PEG_SUCCESS_ONE_CAPTURE"],
  "constant: reads the constant table inside its bounds, captures one value, consumes nothing",
  [M("constant-operand-mixup", "pushcap(s, s->constants[rule[1]], rule[2]);", "pushcap(s, s->constants[rule[2]], rule[2]);", "pointer_dereference|array_bounds")]),
 ("look", "RULE_LOOK", True, 3, ["PEG_CONSUMES_NOTHING"],
  "look: the shifted start is checked against [text_start, text_end] before the sub-match; the rule consumes nothing; depth restored",
  [M("look-position-not-restored", "            text -= ((int32_t *)rule)[1];\n", "", "SEM|WINDOW")]),
 ("choice", "RULE_CHOICE", True, 3, [],
  "choice: every alternative is tried at the same position one level deeper with the capture stacks cut back to the saved CapState after each failed alternative (also before the tail call of the last one); depth, mode and window restored; result in window",
  [M("choice-no-cutback", "                    return result;\n                }\n                cap_load(s, cs);\n            }", "                    return result;\n                }\n            }", "BACKTRACK"),
   M("choice-depth-leak", "                if (result) {\n                    up1(s);\n                    return result;", "                if (result) {\n                    return result;", "RESTORE")]),
 ("sequence", "RULE_SEQUENCE", True, 3, [],
  "sequence: each element starts where the previous one ended (inside the window) and no element is tried after a failure; depth restored before the tail call",
  [M("sequence-continues-after-failure", "for (uint32_t i = 0; text && i < len - 1; i++)", "for (uint32_t i = 0; i < len - 1; i++)", "WINDOW")]),
 ("if", "RULE_IF", True, 3, [],
  "if: condition matched one level deeper, depth restored before the tail call of the body; failure of the condition fails the rule",
  [M("if-depth-leak", "            const uint8_t *result = peg_rule(s, rule_a, text);\n            up1(s);\n            if (!result) return NULL;\n            rule = rule_b;", "            const uint8_t *result = peg_rule(s, rule_a, text);\n            if (!result) return NULL;\n            rule = rule_b;", "RESTORE")]),
 ("ifnot", "RULE_IFNOT", True, 3, [],
  "if-not: captures of the failed condition are cut back to the saved CapState before the body runs; depth restored",
  [M("ifnot-no-cutback", "            } else {\n                cap_load(s, cs);\n                up1(s);\n                rule = rule_b;", "            } else {\n                up1(s);\n                rule = rule_b;", "BACKTRACK")]),
 ("not", "RULE_NOT", True, 3, ["PEG_CONSUMES_NOTHING", "PEG_SUCCESS_RESTORES_ALL"],
  "not: succeeds only when the sub-match fails, then consumes nothing and leaves the capture stacks at the saved CapState; depth restored",
  [M("not-no-cutback", "            } else {\n                cap_load(s, cs);\n                up1(s);\n                return text;", "            } else {\n                up1(s);\n                return text;", "BACKTRACK|SEM")]),
 ("thru", "RULE_THRU", True, 3, ["PEG_FAIL_RESTORES"],
  "thru: every failed attempt is cut back before the next position is tried; attempts start inside [text, text_end]; overall failure leaves the saved CapState",
  [M("thru-no-cutback-between-attempts", "                cap_load(s, cs2);\n                text++;", "                text++;", "BACKTRACK")]),
 ("to", "RULE_TO", True, 3, ["PEG_FAIL_RESTORES", "PEG_SUCCESS_RESTORES_ALL"],
  "to: as thru, and on success the captures of the terminator are discarded as well (the terminator is not consumed)",
  [M("to-keeps-terminator-captures", "                    if (rule[0] == RULE_TO) cap_load(s, cs2);\n", "", "SEM")]),
 ("between", "RULE_BETWEEN", True, 3, ["PEG_FAIL_RESTORES"],
  "between/repeat: the captures of the failed last repetition are cut back; fewer than lo repetitions fail and leave the saved CapState; every repetition starts where the previous ended",
  [M("between-no-cutback", "                    cap_load(s, cs2);\n                    break;", "                    break;", "BACKTRACK"),
   M("between-fail-keeps-captures", "            if (captured < lo) {\n                cap_load(s, cs);\n                return NULL;", "            if (captured < lo) {\n                return NULL;", "BACKTRACK")]),
 ("capture", "RULE_CAPTURE", True, 3, ["PEG_CAPTURE_TAGGED"],
  "capture (<-): the captured span is exactly [text, result) inside the window; depth restored; when the grammar uses back-references the capture is also recorded as a tagged capture, in every mode",
  [M("capture-fastpath-ignores-backref", "            if (!result) return NULL;\n            /* Specialized pushcap - avoid intermediate string creation */\n            if (!s->has_backref && s->mode == PEG_MODE_ACCUMULATE) {", "            if (!result) return NULL;\n            /* Specialized pushcap - avoid intermediate string creation */\n            if (s->mode == PEG_MODE_ACCUMULATE) {", "SEM"),
   M("capture-wrong-span", "pushcap(s, janet_stringv(text, (int32_t)(result - text)), tag);", "pushcap(s, janet_stringv(text, (int32_t)(result - s->text_start)), tag);", "WINDOW")]),
 ("capture_num", "RULE_CAPTURE_NUM", True, 3, [],
  "number: scans exactly the matched span [text, result) inside the window; depth restored",
  [M("number-wrong-span", "if (janet_scan_number_base(text, (int32_t)(result - text), base, &x)) return NULL;", "if (janet_scan_number_base(text, (int32_t)(result - s->text_start), base, &x)) return NULL;", "WINDOW")]),
 ("accumulate", "RULE_ACCUMULATE", True, 3, [],
  "accumulate (%): the mode is restored on success and failure; the accumulated span handed on lies inside the scratch buffer; depth restored",
  [M("accumulate-mode-leak", "            up1(s);\n            s->mode = oldmode;\n            if (!result) return NULL;\n            Janet cap = janet_stringv(s->scratch->data + cs.scratch,", "            up1(s);\n            if (!result) return NULL;\n            Janet cap = janet_stringv(s->scratch->data + cs.scratch,", "RESTORE")]),
 ("drop", "RULE_DROP", True, 3, ["PEG_SUCCESS_RESTORES_ALL"],
  "drop: on success every capture of the sub-pattern (positional, accumulated, tagged) is discarded; depth restored",
  [M("drop-keeps-captures", "            cap_load(s, cs);\n            return result;\n        }\n\n        case RULE_ONLY_TAGS:", "            return result;\n        }\n\n        case RULE_ONLY_TAGS:", "SEM")]),
 ("only_tags", "RULE_ONLY_TAGS", True, 3, ["PEG_SUCCESS_RESTORES_POS"],
  "only-tags: on success positional captures and accumulated text of the sub-pattern are discarded, tagged captures kept; depth restored",
  [M("only-tags-keeps-captures", "            cap_load_keept(s, cs);\n            return result;\n        }\n\n        case RULE_GROUP:", "            return result;\n        }\n\n        case RULE_GROUP:", "SEM")]),
 ("group", "RULE_GROUP", True, 3, ["PEG_SUCCESS_ONE_CAPTURE"],
  "group: the sub-captures [saved, top) are copied from inside the capture stack and replaced by ONE array capture; mode restored on success and failure",
  [M("group-mode-leak", "            s->mode = oldmode;\n            if (!result) return NULL;\n            int32_t num_sub_captures = s->captures->count - cs.cap;\n            JanetArray *sub_captures", "            if (!result) return NULL;\n            int32_t num_sub_captures = s->captures->count - cs.cap;\n            JanetArray *sub_captures", "RESTORE")]),
 ("nth", "RULE_NTH", True, 3, ["PEG_SUCCESS_ONE_CAPTURE"],
  "nth: picks a sub-capture only when it exists (index inside the capture stack), replaces the sub-captures by that ONE capture; mode restored",
  [M("nth-index-off-by-one", "if (num_sub_captures > (int32_t) nth) {", "if (num_sub_captures >= (int32_t) nth) {", "pointer_dereference|array_bounds")]),
 ("sub", "RULE_SUB", True, 3, [],
  "sub: the sub-pattern runs on the window [text, window_end] and the outer window end is restored on success and failure; result is the window end",
  [M("sub-window-not-restored", "            const uint8_t *next_text = peg_rule(s, rule_subpattern, text_start);\n            up1(s);\n            s->text_end = saved_end;", "            const uint8_t *next_text = peg_rule(s, rule_subpattern, text_start);\n            up1(s);", "RESTORE")]),
 ("til", "RULE_TIL", True, 3, [],
  "til: terminator attempts are cut back each time; the sub-pattern runs on the window ending at the terminator and the outer window end is restored on every path",
  [M("til-window-not-restored", "            const uint8_t *matched = peg_rule(s, rule_subpattern, text);\n            up1(s);\n            s->text_end = saved_end;", "            const uint8_t *matched = peg_rule(s, rule_subpattern, text);\n            up1(s);", "RESTORE")]),
 ("split", "RULE_SPLIT", True, 3, [],
  "split: separator attempts are cut back; each chunk window lies inside the outer window, which is restored on every path including the failing ones",
  [M("split-window-not-restored-on-failure", "                s->text_end = saved_end;\n                if (!subpattern_end) return NULL;", "                if (!subpattern_end) return NULL;", "RESTORE")]),
 ("replace", "RULE_REPLACE", True, 3, ["PEG_SUCCESS_ONE_CAPTURE"],
  "replace (/): the replacement sees exactly the sub-captures [saved, top) inside the capture stack, which are replaced by ONE capture; mode restored",
  [M("replace-mode-leak", "            s->mode = oldmode;\n            if (!result) return NULL;\n\n            Janet cap = janet_wrap_nil();", "            if (!result) return NULL;\n\n            Janet cap = janet_wrap_nil();", "RESTORE")]),
 ("matchtime", "RULE_MATCHTIME", True, 3, ["PEG_SUCCESS_ONE_CAPTURE"],
  "cmt: the function sees exactly the sub-captures, they are dropped, and ONE capture is made only when the result is truthy; mode restored",
  [M("cmt-keeps-subcaptures", "            cap_load_keept(s, cs);\n            if (rule[0] == RULE_MATCHTIME", "            if (rule[0] == RULE_MATCHTIME", "SEM")]),
 ("error", "RULE_ERROR", True, 3, ["PEG_NO_SUCCESS"],
  "error: never returns a match; when the sub-pattern fails the mode and depth are restored; the error position lies inside the text",
  [M("error-mode-leak", "            s->mode = oldmode;\n            if (!result) return NULL;\n            if (s->captures->count > old_cap) {", "            if (!result) return NULL;\n            if (s->captures->count > old_cap) {", "RESTORE")]),
 ("unref", "RULE_UNREF", True, 6, [],
  "unref: compacts only the tagged captures made by the sub-pattern, inside the stacks, and leaves tags and tagged captures at one common height >= the entry height",
  [M("unref-tagged-not-truncated", "            s->tagged_captures->count = w;\n            return result;", "            return result;", "wf_caps")]),
]
for name, op, rec, unwind, defs, clause, muts in OPS:
    us = dict(HLOOPS)
    for o, lid in TAILS.items():
        us[lid] = 2 if o == op else 1
    tailnote = ""
    if op in TAILS:
        tailnote = "; one tail call into ANY opcode except lenprefix (own unit) is followed, a second tail call is cut"
    if op in TAILS and op != "RULE_IFNOT":
        # quick variant: every tail call cut (the part of the opcode before its tail call, any operands)
        opunit(name + ".notail", op, clause + " [paths up to, not including, the tail call of the last sub-rule]", muts, unwind=unwind, recurses=rec, tail_not=None,
               extra_defines=["-D" + d for d in defs] + (["-DPEG_NO_SUCCESS"] if op in ("RULE_SEQUENCE", "RULE_IF") else []), unwindset=dict(HLOOPS, **{lid: 1 for lid in TAILS.values()}), tier="quick", timeout=600,
               bound="bytecode <= 24 words (symbolic operands, wf_peg), text length symbolic (any length, window end and start offset); loops of peg_rule unwound %dx without unwinding assertion; tail calls cut; capture stacks <= 4 entries" % unwind)
    opunit(name, op, clause, muts, unwind=unwind, recurses=rec, tail_not=("RULE_LENPREFIX" if op in TAILS else None),
           extra_defines=["-D" + d for d in defs], unwindset=us,
           tier=("thorough" if op in TAILS else "quick"), timeout=(900 if op in TAILS else 600),
           bound="bytecode <= 24 words (symbolic, wf_peg), text length symbolic (any length, window end and start offset); loops of peg_rule unwound %dx without unwinding assertion%s; capture stacks <= 4 entries" % (unwind, tailnote))

# lenprefix: FAILS on the pinned tree (genuine defect: mode not restored when the length pattern fails) - kept disabled
opunit("lenprefix", "RULE_LENPREFIX",
       "lenprefix: mode, depth and window restored on every path; the length capture is read inside the capture stack; failures after the length pattern leave the saved CapState",
       [M("lenprefix-mode-leak", "            up1(s);\n            s->mode = oldmode;\n            if (NULL == next_text) return NULL;", "            up1(s);\n            if (NULL == next_text) return NULL;\n            s->mode = oldmode;", "RESTORE")],
       tail_not=None, unwindset=dict(HLOOPS, **{lid: 1 for lid in TAILS.values()}), tier="quick", timeout=300)

# solver choice measured on all 41 peg.rule units: cadical 3-20 s (tail-call units ~300 s) where minisat needs 20-290 s and does
# not finish peg.rule.accumulate in 30 min
for u in units:
    if u["id"].startswith("peg.rule."):
        u["cbmc"] = list(u.get("cbmc") or []) + ["--sat-solver", "cadical"]
json.dump({"units": units}, open(os.path.join(V, "units", "C12.json"), "w"), indent=1)
print("wrote %d units" % len(units))
