#!/usr/bin/env python3
"""generates units/C03.json (equality / hash / order laws of value.c, string compare, struct canonical layout)"""
import json, os
V = os.path.dirname(os.path.dirname(os.path.abspath(__file__)))
units = []

# ---------------------------------------------------------------- scalar laws (value.c) ------------------------------
RC = ["push_traversal_node:v_no_push", "janet_compare_abstract:v_no_abstract"]
scalar = {"props": ["C03"], "src": ["value.c"], "link": ["wrap.c"], "harness": ["val_laws.c"], "mode": "plain",
          "replace_calls": RC, "unwind": 2, "tier": "quick", "class": "full-domain", "timeout": 120,
          "checks": ["bounds-check", "signed-overflow-check", "div-by-zero-check", "undefined-shift-check"],
          "assumes": [
              "operands satisfy the NaN-box representation invariant (non-NaN double, or top 13 bits ones + 4-bit tag + 47-bit payload) and are not NaN",
              "operand types: number, nil, boolean, fiber, array, table, buffer, function, cfunction, pointer (+ symbol, keyword for janet_equals); "
              "string/tuple/struct/abstract are outside these units",
              "traversal stack empty at entry (janet_vm.traversal_base == NULL, the initial state); push_traversal_node and "
              "janet_compare_abstract are replaced by stubs that assert they are unreachable",
              "IEEE-754 round-to-nearest (CBMC default rounding mode); under FE_DOWNWARD -0.0 + 0.0 is -0.0 and the hash normalisation would not hold"]}

M_TYPEGUARD = {"name": "equals-type-guard-dropped", "file": "value.c", "find": "        if (janet_type(x) != janet_type(y)) return 0;\n", "replace": "\n"}
M_BOOLFLIP = {"name": "equals-bool-neq-flipped", "file": "value.c", "find": "if (janet_unwrap_boolean(x) != janet_unwrap_boolean(y)) return 0;",
              "replace": "if (janet_unwrap_boolean(x) == janet_unwrap_boolean(y)) return 0;"}
M_BOOLGT = {"name": "equals-bool-neq-to-gt", "file": "value.c", "find": "if (janet_unwrap_boolean(x) != janet_unwrap_boolean(y)) return 0;",
            "replace": "if (janet_unwrap_boolean(x) > janet_unwrap_boolean(y)) return 0;"}
M_PTRDROP = {"name": "equals-pointer-test-dropped", "file": "value.c", "find": "if (janet_unwrap_pointer(x) != janet_unwrap_pointer(y)) return 0;", "replace": ";"}
M_EQBITS = {"name": "equals-numbers-by-bits", "file": "value.c", "find": "if (janet_unwrap_number(x) != janet_unwrap_number(y)) return 0;",
            "replace": "if (janet_u64(x) != janet_u64(y)) return 0;"}
M_NOZERO = {"name": "hash-negative-zero-not-normalised", "file": "value.c", "find": "as.d += 0.0; /* normalize negative 0 */", "replace": ""}
M_HASHPAY = {"name": "hash-bool-uses-payload", "file": "value.c", "find": "hash = janet_unwrap_boolean(x);", "replace": "hash = (int32_t) (janet_u64(x) & 0xFFFF);"}
M_CMPBITS = {"name": "compare-numbers-equal-by-bits", "file": "value.c", "find": "                if (xx == yy) {", "replace": "                if (janet_u64(x) == janet_u64(y)) {"}
M_CMPSUB = {"name": "compare-pointers-by-truncated-difference", "file": "value.c",
            "find": "return janet_unwrap_pointer(x) > janet_unwrap_pointer(y) ? 1 : -1;",
            "replace": "return (int32_t)(janet_u64(x) - janet_u64(y)) > 0 ? 1 : -1;"}
M_CMPFLIP = {"name": "compare-number-order-flipped", "file": "value.c", "find": "return (xx < yy) ? -1 : 1;", "replace": "return (xx < yy) ? 1 : -1;"}
M_CMPTYPE = {"name": "compare-type-order-one-sided", "file": "value.c", "find": "if (tx != ty) return tx < ty ? -1 : 1;", "replace": "if (tx != ty) return tx < ty ? -1 : -1;"}


def S(id, entry, clause, fns, mutants, **kw):
    u = dict(scalar)
    u.update({"id": id, "entry": entry, "clause": clause, "functions": fns, "mutants": mutants})
    u.update(kw)
    units.append(u)


def ex(m, rx):
    m = dict(m); m["expect"] = rx; return m


S("val.eq.refl", "h_eq_refl", "= is reflexive on every non-NaN scalar / identity-typed value (all 64-bit patterns)", ["janet_equals"],
  [ex(M_BOOLFLIP, "reflexive")])
S("val.eq.sym", "h_eq_sym", "= is symmetric", ["janet_equals"], [ex(M_BOOLGT, "symmetric"), ex(M_TYPEGUARD, "symmetric")])
S("val.eq.trans", "h_eq_trans", "= is transitive (with reflexive+symmetric: an equivalence relation)", ["janet_equals"], [ex(M_TYPEGUARD, "transitive")])
S("val.eq.identity", "h_eq_identity", "arrays, tables, buffers, functions, fibers (and cfunctions, pointers, symbols, keywords) are = exactly when identical; "
  "different types are never =; numbers are = exactly when numerically equal", ["janet_equals"],
  [ex(M_PTRDROP, "identity"), ex(M_TYPEGUARD, "different types"), ex(M_EQBITS, "numerically")])
S("val.eq.hash", "h_eq_hash", "equal values have equal hashes (incl. -0.0 = +0.0; nil/boolean payload bits ignored)", ["janet_hash", "janet_equals"],
  [ex(M_NOZERO, "equal hashes"), ex(M_HASHPAY, "equal hashes"), ex(M_PTRDROP, "equal hashes|not bit-identical")],
  undecided_clauses=["hash(x) == hash(y) for BIT-IDENTICAL operands is not a solver obligation (two instances of the same pure computation on the "
                     "same 64 bits; the murmur-mix/FP-adder equivalence times out on minisat, cadical and z3); the unit proves that every other equal "
                     "pair is -0.0/+0.0, nil/nil or boolean/boolean and that those hash alike"])
S("val.cmp.antisym", "h_cmp_antisym", "compare is antisymmetric and total with results in {-1,0,1}", ["janet_compare"],
  [ex(M_CMPBITS, "antisymmetric"), ex(M_CMPSUB, "antisymmetric|total"), ex(M_CMPTYPE, "antisymmetric|total")])
S("val.cmp.trans", "h_cmp_trans", "compare is transitive (weak and strict), i.e. one total order", ["janet_compare"],
  [ex(M_CMPSUB, "transitive"), ex(M_CMPTYPE, "transitive")])
S("val.cmp.eq", "h_cmp_eq", "compare(x,y) == 0 exactly when x = y", ["janet_compare", "janet_equals"],
  [ex(M_EQBITS, "exactly when"), ex(M_CMPBITS, "exactly when"), ex(M_PTRDROP, "exactly when")])
S("val.cmp.num", "h_cmp_num", "compare(x,x) == 0 and compare on numbers is the numeric order", ["janet_compare"],
  [ex(M_CMPFLIP, "numeric order"), ex(M_CMPBITS, "reflexive|numeric order")])

# ---------------------------------------------------------------- string-like values (string.c) ----------------------
strbase = {"props": ["C03"], "src": ["string.c"], "harness": ["val_str.c"], "mode": "plain", "tier": "quick", "timeout": 120,
           "checks": ["bounds-check", "pointer-check", "signed-overflow-check", "div-by-zero-check", "conversion-check"]}
STR_WF = "operands are well-formed JanetStrings: pointer to the data member of a JanetStringHead followed by length+1 bytes, 0 <= length"
MAXLEN = 6


def T(id, entry, clause, fns, mutants, **kw):
    u = dict(strbase)
    u.update({"id": id, "entry": entry, "clause": clause, "functions": fns, "mutants": mutants})
    u.update(kw)
    units.append(u)


MS_MAX = {"name": "compare-max-instead-of-min", "file": "string.c", "find": "int32_t len = xlen > ylen ? ylen : xlen;", "replace": "int32_t len = xlen > ylen ? xlen : ylen;"}
MS_LENFLIP = {"name": "compare-length-order-flipped", "file": "string.c", "find": "return xlen < ylen ? -1 : 1;", "replace": "return xlen < ylen ? 1 : -1;"}
MS_SIGN = {"name": "compare-sign-flipped", "file": "string.c", "find": "if (res) return res > 0 ? 1 : -1;", "replace": "if (res) return res > 0 ? -1 : 1;"}
MS_NOLEN = {"name": "equalconst-length-test-dropped", "file": "string.c", "find": "if (lhash != rhash || llen != rlen)", "replace": "if (lhash != rhash)"}
MS_SHORT = {"name": "equalconst-last-byte-ignored", "file": "string.c", "find": "return !memcmp(lhs, rhs, rlen);", "replace": "return !memcmp(lhs, rhs, rlen > 0 ? rlen - 1 : 0);"}
MS_NONEG = {"name": "equalconst-negation-dropped", "file": "string.c", "find": "return !memcmp(lhs, rhs, rlen);", "replace": "return memcmp(lhs, rhs, rlen);"}

T("str.compare.calls", "h_str_compare_calls", "string order for ALL lengths: the common prefix is compared byte-wise (memcmp contract), then the shorter string is smaller; "
  "memcmp never reads past either string", ["janet_string_compare"],
  [ex(MS_MAX, "memcmp precondition|common prefix"), ex(MS_LENFLIP, "shorter string"), ex(MS_SIGN, "sign of the first")],
  replace_calls=["memcmp:v_memcmp"], **{"class": "full-domain"},
  assumes=[STR_WF, "memcmp is replaced by its contract: requires n <= both lengths (asserted), returns an arbitrary int (sign = order of the first differing byte)"])
T("str.equalconst.calls", "h_str_equalconst_calls", "string equality for ALL lengths: equal exactly when hash and length agree and the bytes are equal (memcmp contract) or it is the same object; "
  "memcmp never reads past either operand", ["janet_string_equalconst"],
  [ex(MS_NOLEN, "memcmp precondition|string equality"), ex(MS_NONEG, "string equality")],
  replace_calls=["memcmp:v_memcmp"], **{"class": "full-domain"},
  assumes=[STR_WF, "memcmp is replaced by its contract: requires n <= both lengths (asserted), returns an arbitrary int (0 = all n bytes equal)"])
T("str.compare.bytes", "h_str_compare_bytes", "string order is the lexicographic order on unsigned bytes with prefixes first; antisymmetric; 0 exactly for the same bytes", ["janet_string_compare"],
  [ex(MS_SIGN, "lexicographic"), ex(MS_LENFLIP, "lexicographic|antisymmetric"), ex(MS_MAX, "pointer_dereference|memcmp|lexicographic")],
  unwind=MAXLEN + 2, defines=["-DVAL_MAXLEN=%d" % MAXLEN], bound="string lengths <= %d (all byte contents); CBMC's memcmp model unwound" % MAXLEN, **{"class": "bounded"},
  assumes=[STR_WF])
T("str.equal.bytes", "h_str_equal_bytes", "two strings are = exactly when their cached hashes agree and they have the same bytes (content, not identity); "
  "symmetric; equal strings have equal hashes and compare as 0", ["janet_string_equal", "janet_string_equalconst"],
  [ex(MS_SHORT, "same bytes"), ex(MS_NONEG, "same bytes"), ex(MS_NOLEN, "pointer_dereference|memcmp|same bytes")],
  unwind=MAXLEN + 2, defines=["-DVAL_MAXLEN=%d" % MAXLEN], bound="string lengths <= %d (all byte contents, all cached hashes); memcmp model unwound" % MAXLEN, **{"class": "bounded"},
  assumes=[STR_WF])

# ---------------------------------------------------------------- struct canonical layout (struct.c) -----------------
MT_TIE = {"name": "put-tie-not-broken-by-compare", "file": "struct.c", "find": "status = janet_compare(key, kv->key);", "replace": "status = -1;"}
MT_HASH = {"name": "put-hash-order-dropped", "file": "struct.c", "find": "            else if (hash < otherhash)\n                status = -1;\n", "replace": ""}
# not used: dropping `dist = otherdist;` after the swap is NOT detected at <= 3 keys / capacity 4 (equivalent within the bound)


def L(id, n, cap, k, tier, timeout, mutants, extra=()):
    units.append({"id": id, "props": ["C03"], "tier": tier, "class": "bounded",
                  "bound": "%d pairwise distinct keys out of an abstract universe of %d with an arbitrary hash function, capacity %d, every insertion order" % (n, k, cap),
                  "clause": "structs built from the same key/value pairs in any insertion order have bit-identical bucket arrays "
                            "(hence the same cached hash and janet_equals: compare by content, not by construction order)"
                            + ("; the real lookup finds every key with its value" if "-DVAL_LOOKUP" in extra else ""),
                  "src": ["struct.c"], "link": ["wrap.c"],
                  "harness": ["val_struct.c"], "entry": "h_struct_layout", "mode": "plain", "replace_calls": ["janet_gcalloc:v_gcalloc"],
                  "defines": ["-DVAL_N=%d" % n, "-DVAL_CAP=%d" % cap, "-DVAL_K=%d" % k] + list(extra), "unwind": max(cap, k + 1) + 2, "timeout": timeout,
                  "functions": ["janet_struct_put_ext", "janet_struct_begin"] + (["janet_struct_find", "janet_struct_rawget"] if "-DVAL_LOOKUP" in extra else []),
                  "checks": ["bounds-check", "pointer-check", "signed-overflow-check", "div-by-zero-check"],
                  "assumes": ["janet_hash/janet_compare/janet_equals on keys are replaced by their contracts: hash an arbitrary function of the key "
                              "(symbolic table), compare a consistent total order, equals its equality (the laws proved by units val.*)",
                              "janet_gcalloc returns a fresh zeroed block of the requested size",
                              "janet_tablen is replaced by a stub returning the unit's capacity (a power of two >= number of keys; the real one returns 8 for 2 or 3 keys)",
                              "keys are non-nil non-NaN; values are arbitrary non-nil words"],
                  "mutants": mutants})


L("struct.layout.cap4", 2, 4, 4, "quick", 120, [ex(MT_TIE, "independent of insertion order"), ex(MT_HASH, "independent of insertion order")])
L("struct.layout.cap8", 2, 8, 4, "thorough", 600, [ex(MT_TIE, "independent of insertion order")])
MT_FIND = {"name": "find-wraparound-scan-dropped", "file": "struct.c", "find": "    for (i = 0; i < index; i++)\n        if (janet_checktype(st[i].key, JANET_NIL) || janet_equals(st[i].key, key))\n            return st + i;\n", "replace": ""}
L("struct.lookup.cap4", 2, 4, 4, "thorough", 600, [ex(MT_FIND, "maps each key|pointer_dereference"), ex(MT_TIE, "independent of insertion order")], extra=["-DVAL_LOOKUP"])
L("struct.layout.cap4.n3", 3, 4, 4, "thorough", 600, [ex(MT_TIE, "independent of insertion order")])

json.dump({"units": units}, open(os.path.join(V, "units", "C03.json"), "w"), indent=1)
print(len(units), "units")
