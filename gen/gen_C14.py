#!/usr/bin/env python3
"""generates units/C14.json (one unit per int64 method so the 16 cores are used)"""
import json, os
V = os.path.dirname(os.path.dirname(os.path.abspath(__file__)))
RC = ["janet_unwrap_s64:unwrap_s64_stub", "janet_unwrap_u64:unwrap_u64_stub", "janet_abstract:abstract_stub",
      "janet_arity:arity_stub", "janet_fixarity:fixarity_stub"]
base = {"props": ["C14"], "src": ["inttypes.c"], "harness": ["inttypes_arith.c"], "mode": "plain", "replace_calls": RC,
        "checks": ["signed-overflow-check", "div-by-zero-check", "bounds-check", "pointer-check"], "timeout": 120,
        "assumes": ["janet_unwrap_s64/u64 may return any 64-bit value (recorded per argument slot); janet_abstract returns a writable 8-byte box"]}
units = []
def U(id, entry, clause, **kw):
    u = dict(base); u.update({"id": id, "entry": entry, "clause": clause, "tier": "quick", "class": "full-domain"}); u.update(kw); units.append(u)
for T in ("s64", "u64"):
    for name in ("add", "sub", "mul", "and", "or", "xor"):
        U("it.%s.%s" % (T, name), "h_%s_%s" % (T, name), "int/%s %s: exact two's-complement result for all 2^128 operand pairs; no UB" % (T, name), unwind=3, functions=["cfun_it_%s_%s" % (T, name)], **({"cbmc": ["--z3"]} if name == "mul" else {}))
        U("it.%s.%s.fold3" % (T, name), "h_%s_%s_fold3" % (T, name), "int/%s %s: variadic call is the left fold" % (T, name), unwind=4, functions=["cfun_it_%s_%s" % (T, name)], **({"cbmc": ["--z3"]} if name == "mul" else {}))
    for name in ("lshift", "rshift"):
        kw = {}
        if T == "s64" and name == "lshift":
            kw = {"skip": ["arithmetic overflow on signed shl", "shift operand is negative"], "undecided_clauses": ["`(int64_t) a << k` is formally undefined in C for negative a or when bits are shifted out (every supported compiler yields the low 64 bits, which is what the postcondition states); the generated overflow-on-shl obligations are excluded"]}
        U("it.%s.%s" % (T, name), "h_%s_%s" % (T, name), "int/%s %s, distance 0..63, all 2^64 operands: %s" % (T, name, "low 64 bits of a * 2^k" if name == "lshift" else ("arithmetic shift (sign kept, floor(a / 2^k)) - as brshift on ordinary numbers" if T == "s64" else "logical shift")),
          unwind=3, functions=["cfun_it_%s_%s" % (T, name)], checks=base["checks"] + ["undefined-shift-check"],
          mutants=[{"name": "cast-covers-whole-expression", "file": "inttypes.c", "find": "        *box = (T) ((uint64_t) (*box)) oper ((uint64_t) janet_unwrap_##type(argv[i])); \\", "replace": "        *box = (T) (((uint64_t) (*box)) oper ((uint64_t) janet_unwrap_##type(argv[i]))); \\", "expect": "arithmetic shift|sign"}] if (T == "s64" and name == "rshift") else [], **kw)
    U("it.%s.subi" % T, "h_%s_subi" % T, "int/%s r-: other - self" % T, functions=["cfun_it_%s_subi" % T])
    U("it.%s.not" % T, "h_%s_not" % T, "int/%s ~" % T, functions=["cfun_it_%s_not" % T])
skip_mul = {"s64.divf": True, "s64.divfi": True}
for T, names in (("s64", ["div", "rem", "divi", "remi", "divf", "divfi", "mod", "modi"]), ("u64", ["div", "rem", "divi", "remi", "mod", "modi"])):
    for name in names:
        kw = {}
        if "%s.%s" % (T, name) in skip_mul:
            # DESIGN R5: 'x * op2' cannot overflow because x == op1/op2, which no installed solver proves with two symbolic
            # operands; that single obligation is discharged only in the constant-divisor units below.
            kw["skip"] = [r"arithmetic overflow on signed \* in x \* op2", r"arithmetic overflow on signed - in x - "]
            kw["undecided_clauses"] = ["overflow-freedom of x*op2 and of the final x - adjust in floor division with both operands symbolic (they hold only because x == op1/op2; decided per constant divisor only)"]
        U("it.%s.%s.ub" % (T, name), "h_%s_%s_ub" % (T, name),
          "int/%s %s: no signed overflow / division trap for ANY operands; zero divisor %s" % (T, name, "yields the dividend" if name.startswith("mod") else "raises"),
          unwind=3, functions=["cfun_it_%s_%s" % (T, name)],
          replay={"kind": "janet", "vars": {"A": {"lhs": r"g_val\[0l?\]", "fmt": "sbits"}, "B": {"lhs": r"g_val\[1l?\]", "fmt": "sbits"}},
                  "script": "(def a (int/%s \"{A}\"))\n(def b (int/%s \"{B}\"))\n(def m (get a :%s))\n(print \"calling\")\n(try (print (m a b)) ([e] (print \"raised: \" e)))\n" % (T, T, {"div": "/", "rem": "%", "divi": "r/", "remi": "r%", "divf": "div", "divfi": "rdiv", "mod": "mod", "modi": "rmod"}[name])}, **kw)
DIVS = ["1", "-1", "2", "-2", "3", "-3", "7", "-7", "10", "2147483648LL", "-2147483648LL", "4294967297LL", "-4294967297LL",
        "9007199254740992LL", "9223372036854775807LL", "-9223372036854775807LL", "(-9223372036854775807LL-1)"]
QUICKD = {"-1", "3", "-7", "(-9223372036854775807LL-1)"}
for T, names in (("s64", ["div", "rem", "divi", "remi", "divf", "divfi", "mod", "modi"]), ("u64", ["div", "rem", "divi", "remi", "mod", "modi"])):
    for name in names:
        for d in DIVS:
            tag = d.replace("(", "").replace(")", "").replace("LL", "").replace("-", "m")
            U("it.%s.%s.const.%s" % (T, name, tag), "h_%s_%s_const" % (T, name),
              "int/%s %s with divisor %s: exact quotient/remainder for all 2^64 dividends" % (T, name, d),
              unwind=3, defines=["-DDIVISOR=%s" % d], functions=["cfun_it_%s_%s" % (T, name)],
              tier="quick" if d in QUICKD and name in ("divf", "mod", "div", "rem") else "thorough", timeout=300,
              bound="divisor fixed to %s, dividend fully symbolic" % d, **{"class": "bounded"},
              replay={"kind": "janet", "vars": {"A": {"lhs": r"g_val\[%dl?\]" % (1 if name.endswith("i") else 0), "fmt": "sbits"}},
                  "script": "(def a (int/%s \"{A}\"))\n(def b (int/%s \"%s\"))\n(def m (get a :%s))\n(try (print (m a b)) ([e] (print \"raised: \" e)))\n" % (T, T, str(eval(d.replace("LL", ""))), {"div": "/", "rem": "%", "divf": "div", "mod": "mod", "divi": "/", "remi": "%", "divfi": "div", "modi": "mod"}[name])})
U("it.cmp.i64.double", "h_cmp_i64_double", "compare int/s64 with a double: exact mathematical order for every int64 and every non-NaN double", functions=["compare_int64_double"], replace_calls=[],
  replay={"kind": "janet", "vars": {"X": {"lhs": r"x", "fmt": "sbits"}, "Y": {"lhs": r"y", "fmt": "double"}},
          "script": "(def x (int/s64 \"{X}\"))\n(def y {Y})\n(def got (compare x y))\n(print \"compare \" x \" \" y \" = \" got)\n# oracle: exact comparison through 64-bit integers when y is integral and in range\n(def yi (if (and (>= y -9223372036854775808) (< y 9223372036854775808) (= y (math/trunc y))) (int/s64 (string/format \"%.0f\" y))))\n(def want (cond (>= y 9223372036854775808) -1 (< y -9223372036854775808) 1 yi (cond (< x yi) -1 (> x yi) 1 0) nil))\n(when (and want (not= want got)) (print \"REPLAY-FAIL want \" want))\n"})
U("it.cmp.u64.double", "h_cmp_u64_double", "compare int/u64 with a double: exact mathematical order for every uint64 and every non-NaN double", functions=["compare_uint64_double"], replace_calls=[],
  replay={"kind": "janet", "vars": {"X": {"lhs": r"x", "fmt": "bits"}, "Y": {"lhs": r"y", "fmt": "double"}},
          "script": "(def x (int/u64 \"{X}\"))\n(def y {Y})\n(def got (compare x y))\n(print \"compare \" x \" \" y \" = \" got)\n(def want (cond (>= y 18446744073709551616) -1 (< y 0) 1 nil))\n(when (and want (not= want got)) (print \"REPLAY-FAIL want \" want))\n"})
U("it.cmp.callbacks", "h_cmp_callbacks", "abstract compare/hash callbacks of int/s64 and int/u64", functions=["janet_int64_compare", "janet_uint64_compare", "janet_int64_hash"], replace_calls=[])
json.dump({"units": units}, open(os.path.join(V, "units", "C14.json"), "w"), indent=1)
print(len(units), "units")
