#!/usr/bin/env python3
"""C15/C02: single-instruction contracts on the real interpreter loop run_vm for the value-computing and data-movement
opcodes (harness/vm_ops.c).  One unit per opcode (or small family) so that a failure names the instruction."""
import json, os
V = os.path.dirname(os.path.dirname(os.path.abspath(__file__)))
BOUND = ("one Janet frame of 4 slots inside an 8-word function; the operand registers are enumerated over aliasing patterns (destination == source, both sources equal, all distinct) "
         "and immediates over a spread of values (for signed bytes: -128, -1, 0, 1, 127 and a few more), because the instruction word must be concrete for CBMC to resolve instruction dispatch; "
         "run_vm is compiled in its portable switch-dispatch configuration (vm.c:56-73; same opcode bodies, CBMC does not resolve the GCC computed gotos) and with the documented "
         "tagged-struct value representation (JANET_NO_NANBOX); slot contents (types and payloads), the cells above the slots, auto-suspend and GC counters are unconstrained")
WRAP = ["janet_wrap_number", "janet_wrap_nil", "janet_wrap_true", "janet_wrap_false", "janet_wrap_boolean", "janet_wrap_function",
        "janet_wrap_array", "janet_wrap_tuple", "janet_wrap_table", "janet_wrap_struct", "janet_wrap_buffer", "janet_wrap_string"]
STUBS = ["janet_collect:vo_collect_stub", "janet_binop_call:vo_binop_call_stub", "janet_mcall:vo_mcall_stub", "janet_unary_call:vo_unary_call_stub",
         "fmod:vo_fmod_stub", "janet_compare:vo_compare_stub", "janet_equals:vo_equals_stub",
         "janet_in:vo_in_stub", "janet_get:vo_get_stub", "janet_put:vo_put_stub", "janet_getindex:vo_getindex_stub", "janet_putindex:vo_putindex_stub",
         "janet_lengthv:vo_lengthv_stub", "janet_next_impl:vo_next_stub"]
A_STEP = "run_vm is entered the way the debugger single-steps (RESUME_NO_USEVAL|RESUME_NO_SKIP) and stopped by a breakpoint word after the instruction (and at every jump target)"
A_GC = "janet_collect does not move the stack"
A_GENERIC = ("generic method dispatch (janet_binop_call / janet_mcall / janet_unary_call) returns any value or raises, and does not write the caller's frame; "
             "which method is found and what it computes is the contract of the operand's type (int/s64, int/u64: C14 units)")
A_PANIC = "janet_panic* do not return (prelude.h): 'raises' is observed as 'does not reach the next instruction'"
common = dict(props=["C15", "C02"], tier="quick", **{"class": "bounded"}, bound=BOUND, src=["vm.c"], link=["fiber.c", "wrap.c"],
  link_keep={"fiber.c": ["janet_fiber_status", "janet_env_valid"], "wrap.c": WRAP},
  harness=["vm_ops.c"], pre=["vm_switch_pre.h"], mode="plain", nanbox=False, replace_calls=STUBS,
  functions=["run_vm"], checks=["bounds-check", "pointer-check", "signed-overflow-check"], unwind=20, unwinding_assertions=True, timeout=600,
  undecided_clauses=["the obligation count includes the (trivially discharged) checks of the opcode bodies that the one-instruction program cannot reach",
                     "operand register numbers and immediates other than the enumerated ones (the opcode bodies do not depend on them other than as indices/values)"])
units = []
# doubles: the result is compared with the same C expression evaluated in the harness; cvc5's floating-point theory closes that by congruence (z3 bit-blasts as soon as there is more than one instruction instance) (SAT bit-blasting of two adders/dividers does not finish)
FP = ["--cvc5", "--fpa"]
# measured 45-70 s on the (shared, loaded) build machine: two double divisions / a floor per instruction instance
THOROUGH = {"vm.op.div", "vm.op.div.imm", "vm.op.divf", "vm.op.mod", "vm.op.shr", "vm.op.shr.imm"}
def U(**k):
    u = dict(common); u.update(k)
    if u["id"] in THOROUGH or u["id"].endswith(".distance"):
        u["tier"] = "thorough"
    u["assumes"] = [A_STEP, A_GC, A_PANIC] + k.get("assumes", [])
    # the same instruction contracts are what C14 ("operators on ordinary numbers equal IEEE-754 double arithmetic ... 32-bit
    # bitwise operators equal two's-complement results") and C03 (the ordering operators agree with compare) state
    import re as _re
    i = u["id"]
    if _re.match(r"vm\.op\.(add|sub|mul|div|divf|mod|rem|band|bor|bxor|bnot|shl|shr|shru)(\.imm)?$", i):
        u["props"] = ["C15", "C02", "C14"]
    if _re.match(r"vm\.op\.(gt|lt|gte|lte|eq|neq|cmp)(\.imm)?$", i):
        u["props"] = ["C15", "C02", "C03"]
    units.append(u)
def M(name, find, replace, expect, **k):
    d = {"name": name, "file": "vm.c", "find": find, "replace": replace, "expect": expect}; d.update(k); return d

# ---------------------------------------------------------------- group 1: arithmetic
GEN2 = "; if either operand is not a number, generic method dispatch is called exactly once with the method names %s / %s and the two operands in order (first, second), and its result goes to the destination; no other slot changes; execution continues at the next instruction"
GENI = "; if the operand is not a number, generic method dispatch is called exactly once with the method name %s and the arguments (operand, immediate as a number) in that order, and its result goes to the destination; no other slot changes; execution continues at the next instruction"
ARITH = [  # key, define, opcode, immediate opcode, method, doc of numeric result, C operator text in the vm_binop macro use
  ("add", "VO_ADD", "JOP_ADD", "JOP_ADD_IMMEDIATE", "+", "the IEEE double sum x + y"),
  ("sub", "VO_SUB", "JOP_SUBTRACT", "JOP_SUBTRACT_IMMEDIATE", "-", "the IEEE double difference x - y (first minus second)"),
  ("mul", "VO_MUL", "JOP_MULTIPLY", "JOP_MULTIPLY_IMMEDIATE", "*", "the IEEE double product x * y"),
  ("div", "VO_DIV", "JOP_DIVIDE", "JOP_DIVIDE_IMMEDIATE", "/", "the IEEE double quotient x / y (first divided by second)"),
  ("divf", "VO_DIVF", "JOP_DIVIDE_FLOOR", None, "div", "floor(x / y)"),
  ("mod", "VO_MOD", "JOP_MODULO", None, "mod", "the floored modulo x - y*floor(x/y), and x itself when y is 0"),
  ("rem", "VO_REM", "JOP_REMAINDER", None, "%", "C fmod(x, y) (callee contract: fmod is called once with the operands in order and its result stored bit for bit)"),
]
def arith_mutants(key, op, opi):
    mm = []
    body = {"add": "vm_binop(+);", "sub": "vm_binop(-);", "mul": "vm_binop(*);", "div": "vm_binop( /);"}
    if key in body:
        other = {"add": "vm_binop(-);", "sub": "vm_binop(+);", "mul": "vm_binop( /);", "div": "vm_binop(*);"}[key]
        mm.append(M("wrong-operator", "VM_OP(%s)\n    %s" % (op, body[key]), "VM_OP(%s)\n    %s" % (op, other), "IEEE double result|method names"))
    if key == "divf":
        mm.append(M("no-floor", "stack[A] = janet_wrap_number(floor(x1 / x2));", "stack[A] = janet_wrap_number(trunc(x1 / x2));", "IEEE double result"))
        mm.append(M("operands-swapped-generic", 'janet_binop_call("div", "rdiv", op1, op2);', 'janet_binop_call("div", "rdiv", op2, op1);', "in order"))
    if key == "mod":
        mm.append(M("zero-case-dropped", "            if (x2 == 0) {\n                stack[A] = janet_wrap_number(x1);", "            if (0) {\n                stack[A] = janet_wrap_number(x1);", "IEEE double result"))
        mm.append(M("wrong-method-name", 'janet_binop_call("mod", "rmod", op1, op2);', 'janet_binop_call("mod", "r%", op1, op2);', "method names"))
    if key == "rem":
        mm.append(M("fmod-swapped", "janet_wrap_number(fmod(x1, x2));", "janet_wrap_number(fmod(x2, x1));", "fmod of the operands in order"))
        mm.append(M("dest-is-operand-slot", 'stack[A] = janet_binop_call("%", "r%", op1, op2);', 'stack[B] = janet_binop_call("%", "r%", op1, op2);', "destination slot|other slot"))
    return mm
def arith_imm_mutants(key, opi):
    body = {"add": "vm_binop_immediate(+);", "sub": "vm_binop_immediate(-);", "mul": "vm_binop_immediate(*);", "div": "vm_binop_immediate( /);"}[key]
    other = {"add": "vm_binop_immediate(-);", "sub": "vm_binop_immediate(+);", "mul": "vm_binop_immediate( /);", "div": "vm_binop_immediate(*);"}[key]
    return [M("wrong-operator", "VM_OP(%s)\n    %s" % (opi, body), "VM_OP(%s)\n    %s" % (opi, other), "IEEE double result|method name")]
for key, dfn, op, opi, meth, doc in ARITH:
    U(id="vm.op." + key, entry="h_vo_arith", defines=["-D" + dfn], cbmc=FP, assumes=[A_GENERIC] + (["fmod is the C library function (its result is taken as is)"] if key == "rem" else []),
      clause=("%s: for two numbers x (first operand) and y (second operand) the destination slot receives exactly %s" % (op, doc)) + GEN2 % (":" + meth, ":r" + meth),
      mutants=arith_mutants(key, op, opi))
    if opi:
        U(id="vm.op." + key + ".imm", entry="h_vo_arith_imm", defines=["-D" + dfn], cbmc=FP, assumes=[A_GENERIC],
          clause=("%s: for a number x and the signed-byte immediate y the destination slot receives exactly %s" % (opi, doc)) + GENI % (":" + meth),
          mutants=arith_imm_mutants(key, opi))

# two-instruction variant of one arithmetic instruction: generic dispatch (which may raise) is entered with the frame committed
U(id="vm.op.add.commit", entry="h_vo_arith", defines=["-DVO_ADD", "-DVO_TWO_STEP"], cbmc=FP, assumes=[A_GENERIC, "a NOOP is executed first so that the interpreter's pc differs from the frame's pc when the instruction starts"],
  clause="JOP_ADD after another instruction: the frame's pc is committed to this instruction before generic dispatch (janet_binop_call, which may raise) - all arithmetic instructions share the macro",
  mutants=[M("commit-dropped", "            stack[A] = wrap(x1 op x2);\\\n            vm_pcnext();\\\n        } else {\\\n            vm_commit();\\\n", "            stack[A] = wrap(x1 op x2);\\\n            vm_pcnext();\\\n        } else {\\\n", "committed before")])


# ---------------------------------------------------------------- group 2: bitwise
A_SHL = "signed left shift wraps to 32 bits (documented GCC/clang behaviour; ISO C leaves an overflowing signed << undefined): the signed-overflow check is therefore not enabled for the shift-left units"
RANGE_DROP = M("lhs-range-check-dropped",
  "            if (!rangecheck(y1)) { vm_commit(); janet_panicf(\"value %v out of range for \" msg, op1); }\\\n            if (!janet_checkintrange(y2))",
  "            if (!janet_checkintrange(y2))", "first operand")
RHS_DROP = M("rhs-range-check-dropped",
  "            if (!janet_checkintrange(y2)) { vm_commit(); janet_panicf(\"rhs must be valid 32-bit signed integer, got %f\", op2); }\\\n", "", "second operand")
BIT = [  # key, define, opcode, body text, mutated body, what
  ("band", "VO_BAND", "JOP_BAND", "vm_bitop(&);", "vm_bitop( |);", "&", "x & y"),
  ("bor", "VO_BOR", "JOP_BOR", "vm_bitop( |);", "vm_bitop(^);", "|", "x | y"),
  ("bxor", "VO_BXOR", "JOP_BXOR", "vm_bitop(^);", "vm_bitop( |);", "^", "x ^ y"),
  ("shl", "VO_SHL", "JOP_SHIFT_LEFT", "vm_bitop( <<);", "vm_bitop( >>);", "<<", "x shifted left by y bits, truncated to 32 bits, for shift distances 0 <= y <= 31"),
  ("shr", "VO_SHR", "JOP_SHIFT_RIGHT", "vm_bitop( >>);", "vm_bitop( <<);", ">>", "x shifted right by y bits with the sign preserved, for shift distances 0 <= y <= 31"),
  ("shru", "VO_SHRU", "JOP_SHIFT_RIGHT_UNSIGNED", "vm_bitopu( >>);", "vm_bitop( >>);", ">>", "x (an unsigned 32-bit integer) shifted right by y bits with zero fill, for shift distances 0 <= y <= 31"),
]
for key, dfn, op, body, mbody, meth, doc in BIT:
    signed = "unsigned" if key == "shru" else "signed"
    chk = ["bounds-check", "pointer-check"] + ([] if key == "shl" else ["signed-overflow-check"])
    U(id="vm.op." + key, entry="h_vo_bitop", defines=["-D" + dfn], checks=chk, cbmc=FP, assumes=[A_GENERIC] + ([A_SHL] if key == "shl" else []),
      clause=("%s: for two numbers x, y where x is a 32-bit %s integer and y a 32-bit signed integer the destination receives exactly the number %s; two numbers of which one is not such an integer raise" % (op, signed, doc)) + GEN2 % (":" + meth, ":r" + meth),
      mutants=[M("wrong-operator", "VM_OP(%s)\n    %s" % (op, body), "VM_OP(%s)\n    %s" % (op, mbody), "32-bit integer result|signedness"), RANGE_DROP if key != "bxor" else RHS_DROP])
    if key.startswith("sh"):
        ib = body.replace("vm_bitopu(", "vm_bitopu_immediate(").replace("vm_bitop(", "vm_bitop_immediate(")
        im = mbody.replace("vm_bitopu(", "vm_bitopu_immediate(").replace("vm_bitop(", "vm_bitop_immediate(")
        U(id="vm.op." + key + ".imm", entry="h_vo_bitop_imm", defines=["-D" + dfn], checks=chk, cbmc=FP, assumes=[A_GENERIC] + ([A_SHL] if key == "shl" else []),
          clause=("%s_IMMEDIATE: for a number x that is a 32-bit %s integer and the signed-byte immediate y the destination receives exactly the number %s; a number that is not such an integer raises" % (op, signed, doc)) + GENI % (":" + meth),
          mutants=[M("wrong-operator", "VM_OP(%s_IMMEDIATE)\n    %s" % (op, ib), "VM_OP(%s_IMMEDIATE)\n    %s" % (op, im), "32-bit integer result|signedness")])
U(id="vm.op.bnot", entry="h_vo_bnot", defines=["-DVO_BNOT"], cbmc=FP, assumes=[A_GENERIC],
  clause="JOP_BNOT: for a number x that is a 32-bit signed integer the destination receives exactly the number ~x; a non-number goes to generic method dispatch exactly once with the method name :~ and its result goes to the destination; no other slot changes; execution continues at the next instruction",
  mutants=[M("negate-instead-of-invert", "janet_wrap_integer(~janet_unwrap_integer(op))", "janet_wrap_integer(-janet_unwrap_integer(op))", "bit-wise inverse"),
           M("wrong-method", 'janet_unary_call("~", op)', 'janet_unary_call("-", op)', "method name")])

# ---------------------------------------------------------------- group 3: comparisons
A_CMP = "janet_compare returns any int or raises (its order is the subject of the C03 units); janet_equals returns any int (C03 units)"
CMPTXT = "; if either operand is not a number, janet_compare is called exactly once with the two operands in order and the destination is exactly true or false according to (result %s 0); no other slot changes; execution continues at the next instruction"
COMP = [("gt", "VO_GT", "JOP_GREATER_THAN", ">", "vm_compop( >);", "vm_compop( >=);", True),
        ("lt", "VO_LT", "JOP_LESS_THAN", "<", "vm_compop( <);", "vm_compop( <=);", True),
        ("gte", "VO_GTE", "JOP_GREATER_THAN_EQUAL", ">=", "vm_compop( >=);", "vm_compop( >);", False),
        ("lte", "VO_LTE", "JOP_LESS_THAN_EQUAL", "<=", "vm_compop( <=);", "vm_compop( <);", False)]
SWAP_CMP = M("compare-operands-swapped", "stack[A] = janet_wrap_boolean(janet_compare(op1, op2) op 0);", "stack[A] = janet_wrap_boolean(0 op janet_compare(op2, op1));", "in order")
for key, dfn, op, sym, body, mbody, hasimm in COMP:
    U(id="vm.op." + key, entry="h_vo_compop", defines=["-D" + dfn], assumes=[A_CMP],
      clause=("%s: for two numbers the destination is exactly true or false according to the IEEE comparison x %s y (false whenever either is NaN)" % (op, sym)) + CMPTXT % sym,
      mutants=[M("boundary-flipped", "VM_OP(%s)\n    %s" % (op, body), "VM_OP(%s)\n    %s" % (op, mbody), "IEEE comparison|three-way"), SWAP_CMP])
    if hasimm:
        U(id="vm.op." + key + ".imm", entry="h_vo_compop_imm", defines=["-D" + dfn], assumes=[A_CMP],
          clause=("%s_IMMEDIATE: for a number x and the signed-byte immediate y the destination is exactly true or false according to the IEEE comparison x %s y" % (op, sym)) + (CMPTXT % sym).replace("the two operands in order", "the operand and then the immediate as a number"),
          mutants=[M("boundary-flipped", "VM_OP(%s_IMMEDIATE)\n    %s" % (op, body.replace("vm_compop(", "vm_compop_imm(")), "VM_OP(%s_IMMEDIATE)\n    %s" % (op, mbody.replace("vm_compop(", "vm_compop_imm(")), "IEEE comparison|three-way")])
U(id="vm.op.eq", entry="h_vo_eqop", defines=["-DVO_EQ"], assumes=[A_CMP],
  clause="JOP_EQUALS: janet_equals is called exactly once with the two operands in order and the destination is exactly true if it answers non-zero, false otherwise; no other slot changes; next instruction",
  mutants=[M("operands-swapped", "VM_OP(JOP_EQUALS)\n    stack[A] = janet_wrap_boolean(janet_equals(stack[B], stack[C]));", "VM_OP(JOP_EQUALS)\n    stack[A] = janet_wrap_boolean(janet_equals(stack[C], stack[B]));", "in order"),
           M("negated", "VM_OP(JOP_EQUALS)\n    stack[A] = janet_wrap_boolean(janet_equals(", "VM_OP(JOP_EQUALS)\n    stack[A] = janet_wrap_boolean(!janet_equals(", "according to janet_equals")])
U(id="vm.op.neq", entry="h_vo_eqop", defines=["-DVO_NEQ"], assumes=[A_CMP],
  clause="JOP_NOT_EQUALS: janet_equals is called exactly once with the two operands in order and the destination is exactly false if it answers non-zero, true otherwise; no other slot changes; next instruction",
  mutants=[M("negation-dropped", "stack[A] = janet_wrap_boolean(!janet_equals(stack[B], stack[C]));", "stack[A] = janet_wrap_boolean(janet_equals(stack[B], stack[C]));", "according to janet_equals")])
U(id="vm.op.eq.imm", entry="h_vo_eqop_imm", defines=["-DVO_EQ"],
  clause="JOP_EQUALS_IMMEDIATE: the destination is exactly true if the operand is a number with the IEEE value of the signed-byte immediate, false otherwise (any non-number is not equal); nothing is called; no other slot changes; next instruction",
  mutants=[M("ge-instead-of-eq", "(janet_unwrap_number(stack[B]) == (double) CS)", "(janet_unwrap_number(stack[B]) >= (double) CS)", "exactly true or false"),
           M("type-test-dropped", "janet_wrap_boolean(janet_checktype(stack[B], JANET_NUMBER) && (janet_unwrap_number(stack[B]) == (double) CS))", "janet_wrap_boolean((janet_unwrap_number(stack[B]) == (double) CS))", "exactly true or false")])
U(id="vm.op.neq.imm", entry="h_vo_eqop_imm", defines=["-DVO_NEQ"],
  clause="JOP_NOT_EQUALS_IMMEDIATE: the destination is exactly false if the operand is a number with the IEEE value of the signed-byte immediate, true otherwise (any non-number is not equal); nothing is called; no other slot changes; next instruction",
  mutants=[M("or-became-and", "janet_wrap_boolean(!janet_checktype(stack[B], JANET_NUMBER) || (janet_unwrap_number(stack[B]) != (double) CS))", "janet_wrap_boolean(!janet_checktype(stack[B], JANET_NUMBER) && (janet_unwrap_number(stack[B]) != (double) CS))", "exactly true or false")])
U(id="vm.op.cmp", entry="h_vo_cmp3", defines=["-DVO_CMP3"], assumes=[A_CMP],
  clause="JOP_COMPARE (cmp): janet_compare is called exactly once with the two operands in order and the destination receives its three-way result as a number; no other slot changes; next instruction",
  mutants=[M("operands-swapped", "janet_wrap_integer(janet_compare(stack[B], stack[C]))", "janet_wrap_integer(janet_compare(stack[C], stack[B]))", "in order")])


# ---------------------------------------------------------------- group 4: data access
A_ACC = "the data-access function (janet_in / janet_get / janet_put / janet_getindex / janet_putindex / janet_lengthv / janet_next_impl) returns any value or raises and does not write the caller's frame; what it computes is the subject of the C04/C15 get/put units"
NEXT3 = "; no other slot changes; execution continues at the next instruction"
U(id="vm.op.in", entry="h_vo_get_like", defines=["-DVO_IN"], assumes=[A_ACC],
  clause="JOP_IN (in ds key): janet_in is called exactly once with (first operand, second operand) and its result goes to the destination" + NEXT3,
  mutants=[M("operands-swapped", "stack[A] = janet_in(stack[B], stack[C]);", "stack[A] = janet_in(stack[C], stack[B]);", "data structure, key"),
           M("get-instead-of-in", "stack[A] = janet_in(stack[B], stack[C]);", "stack[A] = janet_get(stack[B], stack[C]);", "named after")])
U(id="vm.op.get", entry="h_vo_get_like", defines=["-DVO_GET"], assumes=[A_ACC],
  clause="JOP_GET (get ds key): janet_get is called exactly once with (first operand, second operand) and its result goes to the destination" + NEXT3,
  mutants=[M("operands-swapped", "stack[A] = janet_get(stack[B], stack[C]);", "stack[A] = janet_get(stack[C], stack[B]);", "data structure, key"),
           M("in-instead-of-get", "stack[A] = janet_get(stack[B], stack[C]);", "stack[A] = janet_in(stack[B], stack[C]);", "named after")])
U(id="vm.op.next", entry="h_vo_get_like", defines=["-DVO_NEXT"], assumes=[A_ACC],
  clause="JOP_NEXT (next ds key): the next-key function is called exactly once with (first operand, second operand) and its result goes to the destination" + NEXT3,
  mutants=[M("operands-swapped", "janet_next_impl(stack[B], stack[C], 1);", "janet_next_impl(stack[C], stack[B], 1);", "data structure, key"),
           M("result-to-wrong-slot", "        vm_restore();\n        stack[A] = temp;", "        vm_restore();\n        stack[B] = temp;", "destination slot|other slot")])
U(id="vm.op.put", entry="h_vo_put", defines=["-DVO_PUT"], assumes=[A_ACC],
  clause="JOP_PUT (put ds key value): janet_put is called exactly once with (A, B, C) = (data structure, key, value); no slot changes (put has no destination); execution continues at the next instruction",
  mutants=[M("key-value-swapped", "janet_put(stack[A], stack[B], stack[C]);", "janet_put(stack[A], stack[C], stack[B]);", "data structure, key, value"),
           M("useval-mark-dropped", "    fiber->flags |= JANET_FIBER_RESUME_NO_USEVAL;\n    janet_put(", "    janet_put(", "no destination")])
U(id="vm.op.getindex", entry="h_vo_index", defines=["-DVO_GETINDEX"], assumes=[A_ACC],
  clause="JOP_GET_INDEX: janet_getindex is called exactly once with (operand, unsigned-byte immediate index) and its result goes to the destination" + NEXT3,
  mutants=[M("signed-index", "stack[A] = janet_getindex(stack[B], C);", "stack[A] = janet_getindex(stack[B], CS);", "unsigned byte"),
           M("wrong-ds", "stack[A] = janet_getindex(stack[B], C);", "stack[A] = janet_getindex(stack[A], C);", "data structure, index")])
U(id="vm.op.putindex", entry="h_vo_index", defines=["-DVO_PUTINDEX"], assumes=[A_ACC],
  clause="JOP_PUT_INDEX: janet_putindex is called exactly once with (A, unsigned-byte immediate index, B) = (data structure, index, value); no slot changes; execution continues at the next instruction",
  mutants=[M("ds-value-swapped", "janet_putindex(stack[A], C, stack[B]);", "janet_putindex(stack[B], C, stack[A]);", "data structure, index, value")])
U(id="vm.op.length", entry="h_vo_length", defines=["-DVO_LENGTH"], assumes=[A_ACC],
  clause="JOP_LENGTH (length ds): janet_lengthv is called exactly once with the operand and its result goes to the destination" + NEXT3,
  mutants=[M("operand-is-dest", "stack[A] = janet_lengthv(stack[E]);", "stack[A] = janet_lengthv(stack[A]);", "receives the operand")])

# two-instruction variants: the frame must be committed before the call that may raise (error attribution: C02)
for tag, dfn, anchor in [("length", "VO_LENGTH", "    VM_OP(JOP_LENGTH)\n    vm_commit();\n"), ("in", "VO_IN", "    VM_OP(JOP_IN)\n    vm_commit();\n"), ("get", "VO_GET", "    VM_OP(JOP_GET)\n    vm_commit();\n"),
                         ("put", "VO_PUT", "    VM_OP(JOP_PUT)\n    vm_commit();\n"),
                         ("getindex", "VO_GETINDEX", "    VM_OP(JOP_GET_INDEX)\n    vm_commit();\n"), ("putindex", "VO_PUTINDEX", "    VM_OP(JOP_PUT_INDEX)\n    vm_commit();\n")]:
    U(id="vm.op.%s.commit" % tag, entry=("h_vo_get_like" if tag in ("in", "get", "next") else "h_vo_index" if tag in ("getindex", "putindex") else "h_vo_%s" % tag), defines=["-D" + dfn, "-DVO_TWO_STEP"], assumes=[A_ACC, "a NOOP is executed first so that the interpreter's pc differs from the frame's pc when the instruction starts"],
      clause="%s after another instruction: the frame's pc is committed to this instruction before the data-access function (which may raise) is called - an error is attributed to the form that raised it" % ("JOP_" + {"getindex": "GET_INDEX", "putindex": "PUT_INDEX"}.get(tag, tag.upper())),
      mutants=[M("commit-dropped", anchor, anchor.replace("    vm_commit();\n", ""), "committed before")])

# ---------------------------------------------------------------- group 5: moves, loads, jumps, typecheck, error, return
U(id="vm.op.move", entry="h_vo_move", defines=["-DVO_MOVE"],
  clause="JOP_MOVE_NEAR (A <- 16-bit register E) and JOP_MOVE_FAR (16-bit register E <- A): the destination slot holds the source slot's value unchanged; no other slot changes; next instruction",
  mutants=[M("near-direction", "VM_OP(JOP_MOVE_NEAR)\n    stack[A] = stack[E];", "VM_OP(JOP_MOVE_NEAR)\n    stack[E] = stack[A];", "source slot|other slot"),
           M("far-direction", "VM_OP(JOP_MOVE_FAR)\n    stack[E] = stack[A];", "VM_OP(JOP_MOVE_FAR)\n    stack[A] = stack[E];", "source slot|other slot")])
U(id="vm.op.load.const", entry="h_vo_loadk", defines=["-DVO_LOADK"],
  clause="JOP_LOAD_NIL / LOAD_TRUE / LOAD_FALSE / LOAD_SELF: the destination slot (24-bit register D) holds exactly nil / true / false / the function whose frame is running; no other slot changes; next instruction",
  mutants=[M("true-false-swapped", "VM_OP(JOP_LOAD_TRUE)\n    stack[D] = janet_wrap_true();", "VM_OP(JOP_LOAD_TRUE)\n    stack[D] = janet_wrap_false();", "documented constant"),
           M("nil-to-A", "VM_OP(JOP_LOAD_NIL)\n    stack[D] = janet_wrap_nil();", "VM_OP(JOP_LOAD_NIL)\n    stack[A + 1] = janet_wrap_nil();", "documented constant|other slot")])
U(id="vm.op.load.int", entry="h_vo_loadi", defines=["-DVO_LOADI"], cbmc=FP,
  clause="JOP_LOAD_INTEGER: the destination slot holds the signed 16-bit immediate as a number (-32768 .. 32767); no other slot changes; next instruction",
  mutants=[M("unsigned-immediate", "stack[A] = janet_wrap_integer(ES);", "stack[A] = janet_wrap_integer(E);", "signed 16-bit")])
U(id="vm.op.load.constant", entry="h_vo_loadc", defines=["-DVO_LOADC"],
  clause="JOP_LOAD_CONSTANT: the destination slot holds the function's constant number E unchanged; an index outside the constants raises; constants and other slots do not change; next instruction",
  mutants=[M("bound-off-by-one", "vm_assert(cindex < func->def->constants_length, \"invalid constant\");", "vm_assert(cindex <= func->def->constants_length, \"invalid constant\");", "outside the function's constants|upper bound|dereference"),
           M("index-minus-one", "stack[A] = func->def->constants[cindex];", "stack[A] = func->def->constants[cindex > 0 ? cindex - 1 : 0];", "indexed constant")])
UPV_UND = ["the value transfer for CLOSED environments (upvalue lives in the environment): CBMC 6.11 mis-translates `env->as.values[vindex]` (dereference of a pointer read from a non-first union member; minimal reproducer described in harness/vm_ops.c), so only the bound checks of a closed environment are covered; both kinds of open environment are fully covered"]
UPV_ASS = ["the function has three environments: a closed one (values in the environment), an open one on another fiber's stack and an open one that is the running frame itself; environments needing re-validation after unmarshalling (negative offset) are not covered"]
U(id="vm.op.upvalue.load", entry="h_vo_upvalue_load", defines=["-DVO_UPVALUE"], assumes=UPV_ASS, undecided_clauses=common["undecided_clauses"] + UPV_UND,
  clause="JOP_LOAD_UPVALUE: the destination slot receives the current value of upvalue C of environment B - from the owning fiber's stack when it is still open (another fiber's frame or the running frame itself; closed environments: see undecided clauses); a bad environment or upvalue index raises; nothing else changes; next instruction",
  mutants=[M("open-closed-confused", "        if (env->offset > 0) {\n            /* On stack */\n            stack[A] = env->as.fiber->data[env->offset + vindex];", "        if (env->offset < 0) {\n            /* On stack */\n            stack[A] = env->as.fiber->data[env->offset + vindex];", "upvalue's current value|dereference|bounds"),
           M("length-check-off-by-one", "        vm_assert(env->length > vindex, \"invalid upvalue index\");\n        vm_assert(janet_env_valid(env), \"invalid upvalue environment\");\n        if (env->offset > 0) {\n            /* On stack */", "        vm_assert(env->length >= vindex, \"invalid upvalue index\");\n        vm_assert(janet_env_valid(env), \"invalid upvalue environment\");\n        if (env->offset > 0) {\n            /* On stack */", "outside the environment|bound|dereference")])
U(id="vm.op.upvalue.set", entry="h_vo_upvalue_set", defines=["-DVO_UPVALUE"], assumes=UPV_ASS, undecided_clauses=common["undecided_clauses"] + UPV_UND,
  clause="JOP_SET_UPVALUE: upvalue C of environment B receives the value of slot A - on the owning fiber's stack when it is still open (another fiber's frame or the running frame itself; closed environments: see undecided clauses); a bad environment or upvalue index raises; nothing else changes; next instruction",
  mutants=[M("offset-forgotten", "env->as.fiber->data[env->offset + vindex] = stack[A];", "env->as.fiber->data[vindex] = stack[A];", "holds the source slot's value|keeps its value"),
           M("length-check-off-by-one", "        vm_assert(env->length > vindex, \"invalid upvalue index\");\n        vm_assert(janet_env_valid(env), \"invalid upvalue environment\");\n        if (env->offset > 0) {\n            env->as.fiber", "        vm_assert(env->length >= vindex, \"invalid upvalue index\");\n        vm_assert(janet_env_valid(env), \"invalid upvalue environment\");\n        if (env->offset > 0) {\n            env->as.fiber", "outside the environment|bound|dereference|keeps its value")])
A_INT = "an interrupt request is the auto_suspend flag of the VM (janet_interpreter_interrupt)"
U(id="vm.op.jump", entry="h_vo_jump", defines=["-DVO_JUMPS"], assumes=[A_INT],
  clause="JOP_JUMP: execution continues at the instruction the signed 24-bit offset away (forwards and backwards); a backward jump honours a requested interrupt by suspending the fiber at the jump; no slot changes",
  mutants=[M("direction-reversed", "VM_OP(JOP_JUMP)\n    vm_maybe_auto_suspend(DS <= 0);\n    pc += DS;", "VM_OP(JOP_JUMP)\n    vm_maybe_auto_suspend(DS <= 0);\n    pc -= DS;", "documented next instruction"),
           M("no-interrupt-check", "VM_OP(JOP_JUMP)\n    vm_maybe_auto_suspend(DS <= 0);", "VM_OP(JOP_JUMP)\n    vm_maybe_auto_suspend(DS < -5);", "honours a requested interrupt")])
JC = [("jump.if", "JOP_JUMP_IF", "the slot is truthy (anything but nil and false)", "    if (janet_truthy(stack[A])) {\n        vm_maybe_auto_suspend(ES <= 0);\n        pc += ES;\n    } else {\n        pc++;\n    }", "    if (!janet_checktype(stack[A], JANET_NIL)) {\n        vm_maybe_auto_suspend(ES <= 0);\n        pc += ES;\n    } else {\n        pc++;\n    }"),
      ("jump.ifnot", "JOP_JUMP_IF_NOT", "the slot is falsey (nil or false)", "    if (janet_truthy(stack[A])) {\n        pc++;\n    } else {\n        vm_maybe_auto_suspend(ES <= 0);\n        pc += ES;\n    }", "    if (!janet_checktype(stack[A], JANET_NIL)) {\n        pc++;\n    } else {\n        vm_maybe_auto_suspend(ES <= 0);\n        pc += ES;\n    }"),
      ("jump.ifnil", "JOP_JUMP_IF_NIL", "the slot is nil (false is not nil)", "    if (janet_checktype(stack[A], JANET_NIL)) {\n        vm_maybe_auto_suspend(ES <= 0);\n        pc += ES;\n    } else {\n        pc++;\n    }", "    if (!janet_truthy(stack[A])) {\n        vm_maybe_auto_suspend(ES <= 0);\n        pc += ES;\n    } else {\n        pc++;\n    }"),
      ("jump.ifnotnil", "JOP_JUMP_IF_NOT_NIL", "the slot is not nil (false is not nil)", "    if (janet_checktype(stack[A], JANET_NIL)) {\n        pc++;\n    } else {\n        vm_maybe_auto_suspend(ES <= 0);\n        pc += ES;\n    }", "    if (!janet_truthy(stack[A])) {\n        pc++;\n    } else {\n        vm_maybe_auto_suspend(ES <= 0);\n        pc += ES;\n    }")]
for key, op, cond, body, mbody in JC:
    U(id="vm.op." + key, entry="h_vo_jump_cond", defines=["-DVO_JUMPS", "-DVO_JOP=" + op], assumes=[A_INT],
      bound=BOUND + "; for the conditional jumps the TYPE of the tested slot is enumerated over all 16 types (booleans with both payloads) instead of being symbolic, its payload stays unconstrained",
      clause="%s: if %s, execution continues at the instruction the signed 16-bit offset away (a backward jump honours a requested interrupt), otherwise at the next instruction; no slot changes" % (op, cond),
      mutants=[M("nil-false-confused", "VM_OP(%s)\n%s" % (op, body), "VM_OP(%s)\n%s" % (op, mbody), "documented next instruction|interrupt|leave the interpreter")])
U(id="vm.op.typecheck", entry="h_vo_typecheck", defines=["-DVO_TYPECHECK"],
  clause="JOP_TYPECHECK: continues at the next instruction iff the type of slot A is in the 16-bit type mask E, raises otherwise; no slot changes",
  mutants=[M("mask-shifted", "    if (!(janet_checktypes((X), (TS)))) { \\", "    if (!(janet_checktypes((X), (TS) << 1))) { \\", "not in the mask")])
U(id="vm.op.error", entry="h_vo_error", defines=["-DVO_ERROR"],
  clause="JOP_ERROR (error e): the fiber leaves the interpreter with JANET_SIGNAL_ERROR and the value of slot D (24-bit register, as the compiler emits it) unchanged as the error value; frame committed at the instruction; no slot changes",
  mutants=[M("wrong-signal", "vm_return(JANET_SIGNAL_ERROR, stack[D]);", "vm_return(JANET_SIGNAL_USER0, stack[D]);", "error signal"),
           M("wrong-slot", "vm_return(JANET_SIGNAL_ERROR, stack[D]);", "vm_return(JANET_SIGNAL_ERROR, stack[B]);", "error value")])
U(id="vm.op.return", entry="h_vo_return", defines=["-DVO_RETURN"], link_keep={"fiber.c": ["janet_fiber_status", "janet_fiber_popframe"], "wrap.c": WRAP},
  assumes=["the frame has no captured environment (detaching is the contract of janet_fiber_popframe, C05 units)", "this unit covers the return from the frame the interpreter was entered with; the return into a calling Janet frame is vm.op.return.caller"],
  clause="JOP_RETURN / JOP_RETURN_NIL from the entrance frame: run_vm returns JANET_SIGNAL_OK with the value of slot D (24-bit register) resp. nil, unchanged, and the frame is popped; no slot changes",
  mutants=[M("returns-wrong-slot", "    VM_OP(JOP_RETURN) {\n        Janet retval = stack[D];", "    VM_OP(JOP_RETURN) {\n        Janet retval = stack[E];", "value returned"),
           M("nil-return-not-nil", "    VM_OP(JOP_RETURN_NIL) {\n        Janet retval = janet_wrap_nil();", "    VM_OP(JOP_RETURN_NIL) {\n        Janet retval = stack[0];", "value returned")])


# ---------------------------------------------------------------- group 6: argument lists and literals
A_FIBER = "fiber.c's push functions append their arguments in order at the end of the argument area and may move the whole stack to a bigger block (C05 fiber.push units); the stubs do exactly that, with and without moving"
PUSH_STUBS = ["janet_fiber_push:vo_push_stub", "janet_fiber_push2:vo_push2_stub", "janet_fiber_push3:vo_push3_stub", "janet_fiber_pushn:vo_pushn_stub", "janet_indexed_view:vo_indexed_view_stub"]
REFRESH = "    stack = fiber->data + fiber->frame;\n    vm_checkgc_pcnext();\n\n    VM_OP(%s)"
for n, op, nxt, args in [(1, "JOP_PUSH", "JOP_PUSH_2", "janet_fiber_push(fiber, stack[D]);"), (2, "JOP_PUSH_2", "JOP_PUSH_3", "janet_fiber_push2(fiber, stack[A], stack[E]);"), (3, "JOP_PUSH_3", "JOP_PUSH_ARRAY", "janet_fiber_push3(fiber, stack[A], stack[B], stack[C]);")]:
    swapped = {1: "janet_fiber_push(fiber, stack[E]);", 2: "janet_fiber_push2(fiber, stack[E], stack[A]);", 3: "janet_fiber_push3(fiber, stack[A], stack[C], stack[B]);"}[n]
    U(id="vm.op.push%d" % n, entry="h_vo_push", defines=["-DVO_PUSH=%d" % n], replace_calls=STUBS + PUSH_STUBS, assumes=[A_FIBER],
      clause="%s: the operand values are appended to the fiber's argument area in operand order, unchanged (one push of width %d); the interpreter goes on with the stack block fiber.c left (also when it was moved); no slot changes; next instruction" % (op, n),
      mutants=[M("stack-not-refreshed", "    %s\n" % args + REFRESH % nxt, "    %s\n" % args + (REFRESH % nxt).replace("    stack = fiber->data + fiber->frame;\n", ""), "live stack block"),
               M("operands-wrong", args, swapped, "operand order")])
U(id="vm.op.push.array", entry="h_vo_push_array", defines=["-DVO_PUSH=4"], replace_calls=STUBS + PUSH_STUBS,
  assumes=[A_FIBER, "janet_indexed_view answers whether the value is an array or tuple and yields its elements (util.c)"],
  clause="JOP_PUSH_ARRAY: the elements of the array or tuple in slot D are appended to the argument area, all of them in order (one block push of exactly the viewed elements); any other operand raises; no slot changes; next instruction",
  mutants=[M("length-minus-one", "janet_fiber_pushn(fiber, vals, len);", "janet_fiber_pushn(fiber, vals, len - 1);", "viewed elements"),
           M("stack-not-refreshed", "    }\n    stack = fiber->data + fiber->frame;\n    vm_checkgc_pcnext();\n\n    VM_OP(JOP_CALL)", "    }\n    vm_checkgc_pcnext();\n\n    VM_OP(JOP_CALL)", "live stack block")])
MAKE_STUBS = ["janet_array_n:vo_array_n_stub", "janet_tuple_n:vo_tuple_n_stub", "janet_table:vo_table_stub", "janet_table_put:vo_table_put_stub", "janet_struct_begin:vo_struct_begin_stub",
              "janet_struct_put:vo_struct_put_stub", "janet_struct_end:vo_struct_end_stub", "janet_buffer:vo_buffer_stub", "janet_buffer_init:vo_buffer_init_stub", "janet_buffer_deinit:vo_buffer_deinit_stub",
              "janet_to_string_b:vo_to_string_b_stub", "janet_string:vo_string_stub"]
A_MAKE = "the constructors (janet_array_n, janet_tuple_n, janet_table/janet_table_put, janet_struct_begin/put/end, janet_buffer, janet_buffer_init/deinit, janet_to_string_b, janet_string) build the value from what they are given (C03/C04/C17 units); here they record their arguments"
MK = [(1, "array", "JOP_MAKE_ARRAY", "a new array of the arguments in order", [M("count-minus-one", "stack[D] = janet_wrap_array(janet_array_n(mem, count));", "stack[D] = janet_wrap_array(janet_array_n(mem, count - 1));", "all of it"),
                                                                      M("args-not-consumed", "        stack[D] = janet_wrap_array(janet_array_n(mem, count));\n        fiber->stacktop = fiber->stackstart;", "        stack[D] = janet_wrap_array(janet_array_n(mem, count));", "ends where documented")]),
      (2, "tuple", "JOP_MAKE_TUPLE", "a new (parenthesised) tuple of the arguments in order", [M("always-bracket", "        if (opcode == JOP_MAKE_BRACKET_TUPLE)\n            janet_tuple_flag(tup)", "        if (opcode != JOP_NOOP)\n            janet_tuple_flag(tup)", "bracket")]),
      (3, "btuple", "JOP_MAKE_BRACKET_TUPLE", "a new bracket tuple of the arguments in order", [M("never-bracket", "        if (opcode == JOP_MAKE_BRACKET_TUPLE)\n            janet_tuple_flag(tup)", "        if (opcode == JOP_MAKE_TUPLE)\n            janet_tuple_flag(tup)", "bracket")]),
      (4, "table", "JOP_MAKE_TABLE", "a new table with the pairs (argument 2i, argument 2i+1) put in order; an odd argument count raises", [M("key-value-swapped", "janet_table_put(table, mem[i], mem[i + 1]);", "janet_table_put(table, mem[i + 1], mem[i]);", "key, value"),
                                                                      M("odd-check-dropped", "        if (count & 1) {\n            vm_commit();\n            janet_panicf(\"expected even number of arguments to table constructor", "        if (0) {\n            vm_commit();\n            janet_panicf(\"expected even number of arguments to table constructor", "odd number|bounds|dereference")]),
      (5, "struct", "JOP_MAKE_STRUCT", "a new struct with the pairs (argument 2i, argument 2i+1) put in order; an odd argument count raises", [M("last-pair-skipped", "        for (int32_t i = 0; i < count; i += 2)\n            janet_struct_put(st, mem[i], mem[i + 1]);", "        for (int32_t i = 2; i < count; i += 2)\n            janet_struct_put(st, mem[i], mem[i + 1]);", "per pair|argument order")]),
      (6, "string", "JOP_MAKE_STRING", "a new string: the text of every argument, appended in order", [M("reverse-order", "        for (int32_t i = 0; i < count; i++)\n            janet_to_string_b(&buffer, mem[i]);", "        for (int32_t i = 0; i < count; i++)\n            janet_to_string_b(&buffer, mem[count - 1 - i]);", "argument order")]),
      (7, "buffer", "JOP_MAKE_BUFFER", "a new buffer: the text of every argument, appended in order", [M("first-skipped", "        for (int32_t i = 0; i < count; i++)\n            janet_to_string_b(buffer, mem[i]);", "        for (int32_t i = 1; i < count; i++)\n            janet_to_string_b(buffer, mem[i]);", "appended once|argument order")])]
for n, key, op, doc, muts in MK:
    U(id="vm.op.make." + key, entry="h_vo_make", defines=["-DVO_MAKE", "-DVO_MK=%d" % n], replace_calls=STUBS + MAKE_STUBS, assumes=[A_MAKE],
      bound=BOUND + "; the argument area holds 0..4 values (symbolic count)",
      clause="%s: the destination slot (24-bit register D) receives %s, taken from the fiber's argument area data[stackstart..stacktop); the argument area is empty afterwards; no other slot changes; next instruction" % (op, doc),
      mutants=muts)


U(id="vm.op.return.caller", entry="h_vo_return_caller", defines=["-DVO_RETURN_CALLER"], link_keep={"fiber.c": ["janet_fiber_status", "janet_fiber_popframe"], "wrap.c": WRAP},
  assumes=["neither frame has a captured environment (detaching is the contract of janet_fiber_popframe, C05 units)"],
  bound=BOUND + "; two frames (caller and callee) of 4 slots each; the caller's call instruction is a concrete word whose destination register is enumerated",
  clause="JOP_RETURN / JOP_RETURN_NIL into a calling Janet frame: the callee's frame is popped, the value of slot D (resp. nil) arrives unchanged in the destination register of the caller's call instruction, no other caller slot changes, and the caller continues after its call instruction",
  mutants=[M("value-to-slot-0", "        if (entrance_frame) vm_return_no_restore(JANET_SIGNAL_OK, retval);\n        vm_restore();\n        stack[A] = retval;\n        vm_checkgc_pcnext();\n    }\n\n    VM_OP(JOP_RETURN_NIL)", "        if (entrance_frame) vm_return_no_restore(JANET_SIGNAL_OK, retval);\n        vm_restore();\n        stack[0] = retval;\n        vm_checkgc_pcnext();\n    }\n\n    VM_OP(JOP_RETURN_NIL)", "destination register|other slot"),
           M("entrance-test-inverted", "    VM_OP(JOP_RETURN_NIL) {\n        Janet retval = janet_wrap_nil();\n        int entrance_frame = janet_stack_frame(stack)->flags & JANET_STACKFRAME_ENTRANCE;", "    VM_OP(JOP_RETURN_NIL) {\n        Janet retval = janet_wrap_nil();\n        int entrance_frame = !(janet_stack_frame(stack)->flags & JANET_STACKFRAME_ENTRANCE);", "does not leave the interpreter")])
U(id="vm.op.closure", entry="h_vo_closure", defines=["-DVO_CLOSURE"], replace_calls=STUBS + ["janet_gcalloc:vo_gcalloc_stub"],
  assumes=["janet_gcalloc returns a fresh object of the requested kind and size (C01 units)"],
  bound=BOUND + "; the running function has two environments and two nested definitions; the nested definition names 0..2 environments (enumerated: own frame / inherited, with and without an already captured frame)",
  clause="JOP_CLOSURE: the destination slot receives a new function for the E-th nested definition; each of its environments is the one the definition names - the running frame's own environment (created on the first capture with this fiber, this frame and all its slots, and reused by later closures of the same frame) or one of the running function's environments; a bad definition index raises; nothing else changes; next instruction",
  mutants=[M("always-new-env", "                    if (!frame->env) {\n                        /* Lazy capture of current stack frame */", "                    if (1) {\n                        /* Lazy capture of current stack frame */", "created on first capture and reused"),
           M("inherit-off-by-one", "                    fn->envs[i] = func->envs[inherit];", "                    fn->envs[i] = func->envs[inherit > 0 ? inherit - 1 : inherit];", "the one its definition names"),
           M("env-length-wrong", "                        env->length = func->def->slotcount;", "                        env->length = func->def->arity;", "all its slots")])

# ---------------------------------------------------------------- obligations that FAIL on the pinned tree (candidate findings)
# Generated with disabled_reason so that they do not turn every C15 run red; run one with  VO_FINDINGS=1 python3 gen/gen_C15_vm.py
# and then  bin/vcheck C15 --unit vm.op.bnot.range --no-evidence -v
FINDINGS_ON = bool(os.environ.get("VO_FINDINGS"))
def F(reason, **k):
    if not FINDINGS_ON:
        k["disabled_reason"] = reason
    U(**k)
F("FAILS on the real code (candidate defect, low severity): JOP_BNOT converts any number with (int32_t) and never range-checks, unlike band/bor/bxor/blshift/brshift which raise "
  "'value ... out of range for 32-bit signed integers'. Failing obligation: vo_bnot.assertion.2 'bnot of a number that is not a 32-bit signed integer raises (as band, bor, bxor do)'. "
  "Reproducer on /repo/_build/janet: (bnot 1e10) => 2147483647, (bnot 0.5) => -1, (bnot math/nan) => 2147483647 (out-of-range double->int32 conversion, undefined behaviour in C), while (band 1e10 1) and (band 0.5 1) raise. "
  "Both the inlined and the called bnot use the same opcode, so C15's equality holds; the documented meaning 'bit-wise inverse of integer x' does not.",
  id="vm.op.bnot.range", entry="h_vo_bnot", defines=["-DVO_BNOT", "-DVO_BNOT_RANGE"], cbmc=FP, assumes=[A_GENERIC],
  clause="JOP_BNOT: a number operand that is not a 32-bit signed integer raises, as for every other bitwise operator (each x must be an integer)",
  mutants=[M("negate-instead-of-invert", "janet_wrap_integer(~janet_unwrap_integer(op))", "janet_wrap_integer(-janet_unwrap_integer(op))", "bit-wise inverse")])
for key, dfn, op in [("shl", "VO_SHL", "JOP_SHIFT_LEFT"), ("shr", "VO_SHR", "JOP_SHIFT_RIGHT"), ("shru", "VO_SHRU", "JOP_SHIFT_RIGHT_UNSIGNED")]:
    jn = {"shl": "blshift", "shr": "brshift", "shru": "brushift"}[key]
    for imm in (False, True):
        F("FAILS on the real code (candidate defect): the shift distance is any 32-bit integer (register form) resp. any signed byte (immediate form) and is handed to the C shift operator unchecked; "
          "a distance < 0 or >= 32 is undefined behaviour in C and gives CPU-dependent results (x86 masks the distance to 5 bits, ARM does not). Failing obligations: run_vm.undefined-shift.* 'shift distance is negative' / 'shift distance too large' in the body of %s%s. "
          "Reproducer on /repo/_build/janet (x86-64): (%s 1 32) => 1 and (%s 1 33) => 2 (the documented 'x bit shifted left by 32' is 0 modulo 2^32 or 4294967296 as a number), (blshift 1 -1) => -2147483648, (brshift -8 33) => -4; "
          "the same expressions give other values on CPUs that do not mask the distance, and the compiler may fold them differently." % (op, "_IMMEDIATE" if imm else "", jn, jn),
          id="vm.op.%s%s.distance" % (key, ".imm" if imm else ""), entry="h_vo_bitop_imm" if imm else "h_vo_bitop", defines=["-D" + dfn], cbmc=FP,
          checks=["undefined-shift-check"], only="shift distance|REACH", assumes=[A_GENERIC],
          clause="%s%s: every shift the instruction executes has a distance in 0..31 (anything else is undefined in C: the result would depend on CPU and compiler); other distances raise or are given a defined meaning" % (op, "_IMMEDIATE" if imm else ""),
          mutants=[M("rhs-range-check-dropped", RHS_DROP["find"], "", "shift distance")])

json.dump({"units": units}, open(os.path.join(V, 'units', 'C15_vm.json'), 'w'), indent=1)
print('%d units' % len(units))
