#!/usr/bin/env python3
"""generates /verif/units/C02_emit.json: C02 component contracts for the instruction emitters (emit.c, far-register machinery),
   call / constructor compilation (compile.c janetc_pushslots, janetc_call, janetc_toslots*, janetc_maker) and symbol
   resolution (compile.c janetc_resolve).  Harnesses: harness/comp_emit.c, harness/comp_call.c, harness/comp_resolve.c"""
import json, os

VERIF = os.path.dirname(os.path.dirname(os.path.abspath(__file__)))
CHECKS = ["bounds-check", "pointer-check"]

A_ALLOC = ("register allocator (janetc_regalloc_temp / _freetemp / _1 / _touch) replaced by its contract: hands out only registers that are "
           "not live - a free register below 0xF0 or the reserved temporary 0xF0+tag; any far register; freetemp frees registers below 0xF0 "
           "only; a tag must not be requested while in use (asserted) - see the regalloc.* units")
A_SLOT = ("operand slots are of the four kinds the compiler creates: local register 0..0xFFFF outside the reserved 0xF0..0xFF "
          "(janetc_farslot/gettarget), constant (janetc_cslot: index -1), upvalue (envindex >= 0), reference to a one-element array "
          "(JANET_SLOT_REF: index -1, array constant); other flag bits arbitrary")
A_UP = "requires: upvalue slots have index <= 0xFF and envindex <= 0xFF, what JOP_LOAD_UPVALUE / JOP_SET_UPVALUE can address (the unchecked rest: comp.emit.upvalue-range)"
A_WR = "requires: a written destination (wr) is not a constant slot"
A_LOADCONST = ("janetc_loadconst replaced by its contract (proved in comp.emit.loadconst): exactly one instruction after which the near register "
               "holds the constant; janetc_const may report 'too many constants'")
A_VM = ("abstract machine of harness/comp_emit.c: register-transfer instructions with the operand fields and effects of vm.c "
        "(MOVE_NEAR, MOVE_FAR, LOAD_NIL/TRUE/FALSE/INTEGER/CONSTANT, LOAD_UPVALUE, SET_UPVALUE, GET_INDEX, PUT_INDEX) over symbolic initial contents")
A_NOGROW = "instruction and source-map vectors preallocated (40 entries); growth (janet_v_grow) is proved in comp.srcmap.emit"

RC_BASE = ["janet_v_grow:em_nogrow_stub", "janetc_cerror:em_cerror_stub", "janetc_regalloc_temp:em_temp_stub",
           "janetc_regalloc_freetemp:em_freetemp_stub", "janetc_regalloc_1:em_alloc1_stub", "janetc_regalloc_touch:em_touch_stub"]


def M(name, find, replace, expect, file="emit.c", **kw):
    d = {"name": name, "file": file, "find": find, "replace": replace, "expect": expect}
    d.update(kw)
    return d


def emit_unit(uid, entry, functions, clause, mutants, props=("C02",), cls="full-domain", tier="quick", defines=None, rc=None,
              assumes=None, bound=None, timeout=300, extra=None):
    u = {"id": uid, "props": list(props), "tier": tier, "class": cls, "clause": clause,
         "src": ["emit.c"], "harness": ["comp_emit.c"], "entry": entry, "mode": "plain", "nanbox": False,
         "functions": functions, "replace_calls": RC_BASE + (rc if rc is not None else ["janetc_loadconst:em_loadconst_stub"]),
         "checks": CHECKS, "unwind": 14, "unwinding_assertions": True, "timeout": timeout,
         "defines": defines or [],
         "assumes": assumes if assumes is not None else [A_VM, A_ALLOC, A_SLOT, A_UP, A_WR, A_LOADCONST, A_NOGROW],
         "mutants": mutants}
    if bound:
        u["bound"] = bound
    if extra:
        u.update(extra)
    return u


units = []
HELPERS = ["janetc_regnear", "janetc_regfar", "janetc_movenear", "janetc_moveback", "janetc_free_regnear", "janetc_allocfar", "janetc_emit"]
ABCF = ("for every kind of operand slot (near/far local, constant, upvalue, reference; any flags): (a) when the requested instruction executes "
        "each source operand field names a register holding its slot's value, (b) the instruction is emitted once with opcode and immediate "
        "unchanged and its index is returned, (c) with wr the written result reaches the destination slot (MOVE_FAR / SET_UPVALUE / PUT_INDEX 0), "
        "(f) no live register, upvalue or reference cell other than the destination changes, and every temporary tag is released")

M_NOBACK1 = M("moveback-dropped", "    if (wr)\n        janetc_moveback(c, s, reg);\n    janetc_free_regnear(c, s, reg, JANETC_REGTEMP_0);\n    return label;\n}\n\nint32_t janetc_emit_s(",
              "    janetc_free_regnear(c, s, reg, JANETC_REGTEMP_0);\n    return label;\n}\n\nint32_t janetc_emit_s(", "reaches the destination")
M_LABEL1 = M("label-before-load", "static int32_t emit1s(JanetCompiler *c, uint8_t op, JanetSlot s, int32_t rest, int wr) {\n    int32_t reg = janetc_regnear(c, s, JANETC_REGTEMP_0);\n    int32_t label = janet_v_count(c->buffer);",
             "static int32_t emit1s(JanetCompiler *c, uint8_t op, JanetSlot s, int32_t rest, int wr) {\n    int32_t label = janet_v_count(c->buffer);\n    int32_t reg = janetc_regnear(c, s, JANETC_REGTEMP_0);",
             "requested opcode|source operand|immediate")
M_NEARLIMIT = M("near-limit-too-wide", "    if (s.envindex < 0 && s.index >= 0 && s.index <= 0xFF) {\n        return s.index;\n    }\n    int32_t reg = janetc_regalloc_temp",
                "    if (s.envindex < 0 && s.index >= 0 && s.index <= 0x1FF) {\n        return s.index;\n    }\n    int32_t reg = janetc_regalloc_temp", "source operand|reaches the destination")
M_MOVEDIR = M("far-load-wrong-direction", "                    ((uint32_t)(dest) << 8) |\n                    JOP_MOVE_NEAR);", "                    ((uint32_t)(dest) << 8) |\n                    JOP_MOVE_FAR);", "source operand|clobbered")
M_FREEWRONG = M("free-condition-flipped", "    if (reg != s.index ||\n            s.envindex >= 0 ||", "    if (reg == s.index ||\n            s.envindex >= 0 ||", "only a register taken|tag is released")
M_UPFIELDS = M("upvalue-fields-swapped", "                    ((uint32_t)(src.index) << 24) |\n                    ((uint32_t)(src.envindex) << 16) |\n                    ((uint32_t)(dest) << 8) |\n                    JOP_LOAD_UPVALUE);",
               "                    ((uint32_t)(src.index) << 16) |\n                    ((uint32_t)(src.envindex) << 24) |\n                    ((uint32_t)(dest) << 8) |\n                    JOP_LOAD_UPVALUE);", "source operand|holds the slot")
M_NODEREF = M("reference-not-dereferenced", "        if (src.flags & JANET_SLOT_REF) {\n            janetc_emit(c,", "        if (0) {\n            janetc_emit(c,", "source operand|holds the slot|source's value")
M_PUTSWAP = M("put-index-operands-swapped", "                    (src << 16) |\n                    (refreg << 8) |\n                    JOP_PUT_INDEX);", "                    (refreg << 16) |\n                    (src << 8) |\n                    JOP_PUT_INDEX);",
              "reaches the destination|register-transfer|reference cell|holds the register")

units.append(emit_unit("comp.emit.s", "h_emit_s", ["janetc_emit_s"] + HELPERS,
                       "janetc_emit_s (op | 24-bit register; PUSH, PUSH_ARRAY, RETURN, TAILCALL, ERROR, MAKE_*, LOAD_SELF): " + ABCF,
                       [M("moveback-dropped", "    janetc_emit(c, op | (reg << 8));\n    if (wr)\n        janetc_moveback(c, s, reg);", "    janetc_emit(c, op | (reg << 8));", "reaches the destination"),
                        M("spill-move-wrong-direction", "janetc_emit(c, JOP_MOVE_FAR | (nearreg << 8) | (reg << 16));", "janetc_emit(c, JOP_MOVE_NEAR | (nearreg << 8) | (reg << 16));", "source operand"),
                        M_NODEREF]))
for sfx, what, muts in (
        ("si", "janetc_emit_si (op | A | signed 16-bit immediate; conditional jumps with an offset to be patched, LOAD_INTEGER)", [M_NOBACK1, M_LABEL1, M_NEARLIMIT]),
        ("su", "janetc_emit_su (op | A | unsigned 16-bit immediate; CLOSURE with its definition index)", [M_MOVEDIR, M_FREEWRONG,
                                                                                                      M("immediate-shift-wrong", "    janetc_emit(c, op | (reg << 8) | ((uint32_t)rest << 16));\n    if (wr)\n        janetc_moveback(c, s, reg);\n    janetc_free_regnear(c, s, reg, JANETC_REGTEMP_0);\n    return label;\n}\n\nint32_t janetc_emit_s(",
                                                                                                        "    janetc_emit(c, op | (reg << 8) | ((uint32_t)rest << 24));\n    if (wr)\n        janetc_moveback(c, s, reg);\n    janetc_free_regnear(c, s, reg, JANETC_REGTEMP_0);\n    return label;\n}\n\nint32_t janetc_emit_s(", "immediate")]),
        ("st", "janetc_emit_st (op | A | 16 type bits; TYPECHECK; requires 0 <= tflags <= 0xFFFF - wider values would be cut silently; no caller in the compiler)", [M_UPFIELDS, M_LABEL1])):
    units.append(emit_unit("comp.emit." + sfx, "h_emit_" + sfx, ["janetc_emit_" + sfx, "emit1s"] + HELPERS, what + ": " + ABCF, muts))

units.append(emit_unit("comp.emit.ss", "h_emit_ss", ["janetc_emit_ss"] + HELPERS,
                       "janetc_emit_ss (op | A | 16-bit register; CALL, PUSH_2, LENGTH, BNOT, MOVE_*): " + ABCF,
                       [M("operands-swapped", "    janetc_emit(c, op | (reg1 << 8) | (reg2 << 16));\n    janetc_free_regnear(c, s2, reg2, JANETC_REGTEMP_1);", "    janetc_emit(c, op | (reg2 << 8) | (reg1 << 16));\n    janetc_free_regnear(c, s2, reg2, JANETC_REGTEMP_1);", "source operand|reaches the destination"),
                        M("same-temporary-tag", "    int32_t reg2 = janetc_regfar(c, s2, JANETC_REGTEMP_1);", "    int32_t reg2 = janetc_regfar(c, s2, JANETC_REGTEMP_0);", "requested only while"),
                        M_PUTSWAP], props=("C02", "C15")))
M_NOBACK2 = M("moveback-dropped", "    janetc_free_regnear(c, s2, reg2, JANETC_REGTEMP_1);\n    if (wr)\n        janetc_moveback(c, s1, reg1);\n    janetc_free_regnear(c, s1, reg1, JANETC_REGTEMP_0);\n    return label;\n}\n\nint32_t janetc_emit_ss(",
              "    janetc_free_regnear(c, s2, reg2, JANETC_REGTEMP_1);\n    janetc_free_regnear(c, s1, reg1, JANETC_REGTEMP_0);\n    return label;\n}\n\nint32_t janetc_emit_ss(", "reaches the destination")
units.append(emit_unit("comp.emit.ssi", "h_emit_ssi", ["janetc_emit_ssi", "emit2s"] + HELPERS,
                       "janetc_emit_ssi (op | A | B | signed 8-bit immediate; ADD_IMMEDIATE ... comparisons with immediates): " + ABCF,
                       [M_NOBACK2, M("immediate-in-wrong-field", "    janetc_emit(c, op | (reg1 << 8) | (reg2 << 16) | ((uint32_t)rest << 24));", "    janetc_emit(c, op | (reg1 << 8) | (reg2 << 24) | ((uint32_t)rest << 16));", "immediate|source operand"),
                        M_NEARLIMIT], props=("C02", "C15")))
units.append(emit_unit("comp.emit.ssu", "h_emit_ssu", ["janetc_emit_ssu", "emit2s"] + HELPERS,
                       "janetc_emit_ssu (op | A | B | unsigned 8-bit immediate; GET_INDEX, PUT_INDEX, SIGNAL, SHIFT_RIGHT_UNSIGNED_IMMEDIATE): " + ABCF,
                       [M("second-operand-uses-first-tag", "    int32_t reg2 = janetc_regnear(c, s2, JANETC_REGTEMP_1);\n    int32_t label = janet_v_count(c->buffer);\n    janetc_emit(c, op | (reg1 << 8) | (reg2 << 16) | ((uint32_t)rest << 24));",
                          "    int32_t reg2 = janetc_regnear(c, s2, JANETC_REGTEMP_0);\n    int32_t label = janet_v_count(c->buffer);\n    janetc_emit(c, op | (reg1 << 8) | (reg2 << 16) | ((uint32_t)rest << 24));", "requested only while"),
                        M_MOVEDIR, M_UPFIELDS], props=("C02", "C15")))
units.append(emit_unit("comp.emit.sss", "h_emit_sss", ["janetc_emit_sss"] + HELPERS,
                       "janetc_emit_sss (op | A | B | C; arithmetic, comparison, GET, IN, PUT, PUSH_3, ...): " + ABCF,
                       [M("operands-2-3-swapped", "janetc_emit(c, op | (reg1 << 8) | (reg2 << 16) | ((uint32_t)reg3 << 24));", "janetc_emit(c, op | (reg1 << 8) | (reg3 << 16) | ((uint32_t)reg2 << 24));", "source operand"),
                        M("third-temporary-not-released", "    janetc_free_regnear(c, s3, reg3, JANETC_REGTEMP_2);\n", "", "tag is released"),
                        M("moveback-dropped", "    janetc_free_regnear(c, s3, reg3, JANETC_REGTEMP_2);\n    if (wr)\n        janetc_moveback(c, s1, reg1);", "    janetc_free_regnear(c, s3, reg3, JANETC_REGTEMP_2);", "reaches the destination"),
                        M_FREEWRONG], props=("C02", "C15"), timeout=600))

json.dump({"units": units}, open(os.path.join(VERIF, "units", "C02_emit.json"), "w"), indent=1)
print("wrote", len(units), "units")
