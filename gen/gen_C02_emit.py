#!/usr/bin/env python3
"""generates /verif/units/C02_emit.json: C02 component contracts for the instruction emitters (emit.c, far-register machinery),
   call / constructor compilation (compile.c janetc_pushslots, janetc_call, janetc_toslots*, janetc_maker) and symbol
   resolution (compile.c janetc_resolve).  Harnesses: harness/comp_emit.c, harness/comp_call.c, harness/comp_resolve.c"""
import json, os, copy

VERIF = os.path.dirname(os.path.dirname(os.path.abspath(__file__)))
CHECKS = ["bounds-check", "pointer-check"]

A_ALLOC = ("register allocator (janetc_regalloc_temp / _freetemp / _1 / _touch / _free) replaced by its contract: hands out only registers that are "
           "not live - a free register below 0xF0 or the reserved temporary 0xF0+tag; any far register; freetemp frees registers below 0xF0 "
           "only; a tag must not be requested while in use (asserted) - see the regalloc.* units")
A_SLOT = ("operand slots are of the four kinds the compiler creates: local register 0..0xFFFF outside the reserved 0xF0..0xFF "
          "(janetc_farslot/gettarget), constant (janetc_cslot: index -1), upvalue (envindex >= 0), reference to a one-element array "
          "(JANET_SLOT_REF: index -1, array constant); other flag bits arbitrary")
A_UP = "requires: upvalue slots have index <= 0xFF and envindex <= 0xFF, what JOP_LOAD_UPVALUE / JOP_SET_UPVALUE can address (the unchecked rest: comp.emit.upvalue-range)"
A_WR = "requires: a written destination (wr) is not a constant slot"
A_LOADCONST = ("janetc_loadconst replaced by its contract (proved in comp.emit.loadconst): exactly one instruction after which the near register "
               "holds the constant; janetc_const may report 'too many constants'")
A_VM = ("abstract machine of harness/comp_emit.c: register-transfer instructions with the operand fields and effects of vm.c "
        "(MOVE_NEAR, MOVE_FAR, LOAD_NIL/TRUE/FALSE/INTEGER/CONSTANT, LOAD_UPVALUE, SET_UPVALUE, GET_INDEX, PUT_INDEX) over symbolic initial contents")
A_NOGROW = "instruction and source-map vectors preallocated (40 entries); growth (janet_v_grow) is proved in comp.srcmap.emit"

RC_BASE = ["janet_v_grow:em_nogrow_stub", "janetc_cerror:em_cerror_stub", "janetc_regalloc_temp:em_temp_stub",
           "janetc_regalloc_freetemp:em_freetemp_stub", "janetc_regalloc_1:em_alloc1_stub", "janetc_regalloc_touch:em_touch_stub",
           "janetc_regalloc_free:em_free_stub"]


def M(name, find, replace, expect, file="emit.c", **kw):
    d = {"name": name, "file": file, "find": find, "replace": replace, "expect": expect}
    d.update(kw)
    return d


def emit_unit(uid, entry, functions, clause, mutants, props=("C02",), cls="full-domain", tier="quick", defines=None, rc=None,
              assumes=None, bound=None, timeout=300, extra=None):
    u = {"id": uid, "props": list(props), "tier": tier, "class": cls, "clause": clause,
         "src": ["emit.c"], "harness": ["comp_emit.c"], "entry": entry, "mode": "plain", "nanbox": False,
         "functions": functions, "replace_calls": RC_BASE + (rc if rc is not None else ["janetc_loadconst:em_loadconst_stub"]),
         "checks": CHECKS, "unwind": 14, "unwinding_assertions": True, "timeout": timeout,
         "defines": defines or [],
         "assumes": assumes if assumes is not None else [A_VM, A_ALLOC, A_SLOT, A_UP, A_WR, A_LOADCONST, A_NOGROW],
         "mutants": mutants}
    if bound:
        u["bound"] = bound
    if extra:
        u.update(extra)
    return u


units = []
HELPERS = ["janetc_regnear", "janetc_regfar", "janetc_movenear", "janetc_moveback", "janetc_free_regnear", "janetc_allocfar", "janetc_emit"]
ABCF = ("for every kind of operand slot (near/far local, constant, upvalue, reference; any flags): (a) when the requested instruction executes "
        "each source operand field names a register holding its slot's value, (b) the instruction is emitted once with opcode and immediate "
        "unchanged and its index is returned, (c) with wr the written result reaches the destination slot (MOVE_FAR / SET_UPVALUE / PUT_INDEX 0), "
        "(f) no live register, upvalue or reference cell other than the destination changes, and every temporary tag is released")

M_NOBACK1 = M("moveback-dropped", "    if (wr)\n        janetc_moveback(c, s, reg);\n    janetc_free_regnear(c, s, reg, JANETC_REGTEMP_0);\n    return label;\n}\n\nint32_t janetc_emit_s(",
              "    janetc_free_regnear(c, s, reg, JANETC_REGTEMP_0);\n    return label;\n}\n\nint32_t janetc_emit_s(", "reaches the destination")
M_LABEL1 = M("label-before-load", "static int32_t emit1s(JanetCompiler *c, uint8_t op, JanetSlot s, int32_t rest, int wr) {\n    int32_t reg = janetc_regnear(c, s, JANETC_REGTEMP_0);\n    int32_t label = janet_v_count(c->buffer);",
             "static int32_t emit1s(JanetCompiler *c, uint8_t op, JanetSlot s, int32_t rest, int wr) {\n    int32_t label = janet_v_count(c->buffer);\n    int32_t reg = janetc_regnear(c, s, JANETC_REGTEMP_0);",
             "requested opcode|source operand|immediate")
M_NEARLIMIT = M("near-limit-too-wide", "    if (s.envindex < 0 && s.index >= 0 && s.index <= 0xFF) {\n        return s.index;\n    }\n    int32_t reg = janetc_regalloc_temp",
                "    if (s.envindex < 0 && s.index >= 0 && s.index <= 0x1FF) {\n        return s.index;\n    }\n    int32_t reg = janetc_regalloc_temp", "source operand|reaches the destination")
M_MOVEDIR = M("far-load-wrong-direction", "                    ((uint32_t)(dest) << 8) |\n                    JOP_MOVE_NEAR);", "                    ((uint32_t)(dest) << 8) |\n                    JOP_MOVE_FAR);", "source operand|clobbered")
M_FREEWRONG = M("free-condition-flipped", "    if (reg != s.index ||\n            s.envindex >= 0 ||", "    if (reg == s.index ||\n            s.envindex >= 0 ||", "only a register taken|tag is released")
M_UPFIELDS = M("upvalue-fields-swapped", "                    ((uint32_t)(src.index) << 24) |\n                    ((uint32_t)(src.envindex) << 16) |\n                    ((uint32_t)(dest) << 8) |\n                    JOP_LOAD_UPVALUE);",
               "                    ((uint32_t)(src.index) << 16) |\n                    ((uint32_t)(src.envindex) << 24) |\n                    ((uint32_t)(dest) << 8) |\n                    JOP_LOAD_UPVALUE);", "source operand|holds the slot")
M_NODEREF = M("reference-not-dereferenced", "        if (src.flags & JANET_SLOT_REF) {\n            janetc_emit(c,", "        if (0) {\n            janetc_emit(c,", "source operand|holds the slot|source's value")
M_PUTSWAP = M("put-index-operands-swapped", "                    (src << 16) |\n                    (refreg << 8) |\n                    JOP_PUT_INDEX);", "                    (refreg << 16) |\n                    (src << 8) |\n                    JOP_PUT_INDEX);",
              "reaches the destination|register-transfer|reference cell|holds the register")

units.append(emit_unit("comp.emit.s", "h_emit_s", ["janetc_emit_s"] + HELPERS,
                       "janetc_emit_s (op | 24-bit register; PUSH, PUSH_ARRAY, RETURN, TAILCALL, ERROR, MAKE_*, LOAD_SELF): " + ABCF,
                       [M("register-in-wrong-field", "    janetc_emit(c, op | (reg << 8));\n    if (wr)\n        janetc_moveback(c, s, reg);", "    janetc_emit(c, op | (reg << 16));\n    if (wr)\n        janetc_moveback(c, s, reg);", "source operand|reaches the destination|requested opcode"),
                        M("spill-move-wrong-direction", "janetc_emit(c, JOP_MOVE_FAR | (nearreg << 8) | (reg << 16));", "janetc_emit(c, JOP_MOVE_NEAR | (nearreg << 8) | (reg << 16));", "source operand"),
                        M_NODEREF]))
for sfx, what, muts in (
        ("si", "janetc_emit_si (op | A | signed 16-bit immediate; conditional jumps with an offset to be patched, LOAD_INTEGER)", [M_NOBACK1, M_LABEL1, M_NEARLIMIT]),
        ("su", "janetc_emit_su (op | A | unsigned 16-bit immediate; CLOSURE with its definition index)", [M_MOVEDIR, M_FREEWRONG,
                                                                                                      M("immediate-shift-wrong", "    janetc_emit(c, op | (reg << 8) | ((uint32_t)rest << 16));\n    if (wr)\n        janetc_moveback(c, s, reg);\n    janetc_free_regnear(c, s, reg, JANETC_REGTEMP_0);\n    return label;\n}\n\nint32_t janetc_emit_s(",
                                                                                                        "    janetc_emit(c, op | (reg << 8) | ((uint32_t)rest << 24));\n    if (wr)\n        janetc_moveback(c, s, reg);\n    janetc_free_regnear(c, s, reg, JANETC_REGTEMP_0);\n    return label;\n}\n\nint32_t janetc_emit_s(", "immediate")]),
        ("st", "janetc_emit_st (op | A | 16 type bits; TYPECHECK; requires 0 <= tflags <= 0xFFFF - wider values would be cut silently; no caller in the compiler)", [M_UPFIELDS, M_LABEL1])):
    units.append(emit_unit("comp.emit." + sfx, "h_emit_" + sfx, ["janetc_emit_" + sfx, "emit1s"] + HELPERS, what + ": " + ABCF, muts))

units.append(emit_unit("comp.emit.ss", "h_emit_ss", ["janetc_emit_ss"] + HELPERS,
                       "janetc_emit_ss (op | A | 16-bit register; CALL, PUSH_2, LENGTH, BNOT, MOVE_*): " + ABCF,
                       [M("operands-swapped", "    janetc_emit(c, op | (reg1 << 8) | (reg2 << 16));\n    janetc_free_regnear(c, s2, reg2, JANETC_REGTEMP_1);", "    janetc_emit(c, op | (reg2 << 8) | (reg1 << 16));\n    janetc_free_regnear(c, s2, reg2, JANETC_REGTEMP_1);", "source operand|reaches the destination"),
                        M("same-temporary-tag", "    int32_t reg2 = janetc_regfar(c, s2, JANETC_REGTEMP_1);", "    int32_t reg2 = janetc_regfar(c, s2, JANETC_REGTEMP_0);", "requested only while"),
                        M_PUTSWAP], props=("C02", "C15")))
M_NOBACK2 = M("moveback-dropped", "    janetc_free_regnear(c, s2, reg2, JANETC_REGTEMP_1);\n    if (wr)\n        janetc_moveback(c, s1, reg1);\n    janetc_free_regnear(c, s1, reg1, JANETC_REGTEMP_0);\n    return label;\n}\n\nint32_t janetc_emit_ss(",
              "    janetc_free_regnear(c, s2, reg2, JANETC_REGTEMP_1);\n    janetc_free_regnear(c, s1, reg1, JANETC_REGTEMP_0);\n    return label;\n}\n\nint32_t janetc_emit_ss(", "reaches the destination")
units.append(emit_unit("comp.emit.ssi", "h_emit_ssi", ["janetc_emit_ssi", "emit2s"] + HELPERS,
                       "janetc_emit_ssi (op | A | B | signed 8-bit immediate; ADD_IMMEDIATE ... comparisons with immediates): " + ABCF,
                       [M_NOBACK2, M("immediate-in-wrong-field", "    janetc_emit(c, op | (reg1 << 8) | (reg2 << 16) | ((uint32_t)rest << 24));", "    janetc_emit(c, op | (reg1 << 8) | (reg2 << 24) | ((uint32_t)rest << 16));", "immediate|source operand"),
                        M_NEARLIMIT], props=("C02", "C15")))
units.append(emit_unit("comp.emit.ssu", "h_emit_ssu", ["janetc_emit_ssu", "emit2s"] + HELPERS,
                       "janetc_emit_ssu (op | A | B | unsigned 8-bit immediate; GET_INDEX, PUT_INDEX, SIGNAL, SHIFT_RIGHT_UNSIGNED_IMMEDIATE): " + ABCF,
                       [M("second-operand-uses-first-tag", "    int32_t reg2 = janetc_regnear(c, s2, JANETC_REGTEMP_1);\n    int32_t label = janet_v_count(c->buffer);\n    janetc_emit(c, op | (reg1 << 8) | (reg2 << 16) | ((uint32_t)rest << 24));",
                          "    int32_t reg2 = janetc_regnear(c, s2, JANETC_REGTEMP_0);\n    int32_t label = janet_v_count(c->buffer);\n    janetc_emit(c, op | (reg1 << 8) | (reg2 << 16) | ((uint32_t)rest << 24));", "requested only while"),
                        M_MOVEDIR, M_UPFIELDS], props=("C02", "C15")))
SSS_MUT = [M("operands-2-3-swapped", "janetc_emit(c, op | (reg1 << 8) | (reg2 << 16) | ((uint32_t)reg3 << 24));", "janetc_emit(c, op | (reg1 << 8) | (reg3 << 16) | ((uint32_t)reg2 << 24));", "source operand"),
           M("third-temporary-not-released", "    janetc_free_regnear(c, s3, reg3, JANETC_REGTEMP_2);\n", "", "tag is released"),
           M("moveback-dropped", "    janetc_free_regnear(c, s3, reg3, JANETC_REGTEMP_2);\n    if (wr)\n        janetc_moveback(c, s1, reg1);", "    janetc_free_regnear(c, s3, reg3, JANETC_REGTEMP_2);", "reaches the destination"),
           M_FREEWRONG]
units.append(emit_unit("comp.emit.sss.read", "h_emit_sss", ["janetc_emit_sss"] + HELPERS,
                       "janetc_emit_sss with three source operands (wr = 0: PUT, PUSH_3, ...): " + ABCF,
                       [SSS_MUT[0], SSS_MUT[1], SSS_MUT[3]], props=("C02", "C15"), defines=["-DEM_FIX_WR=0"], timeout=600))
units.append(emit_unit("comp.emit.sss.write", "h_emit_sss", ["janetc_emit_sss"] + HELPERS,
                       "janetc_emit_sss with a written first operand (wr = 1: arithmetic, comparison, GET, IN, NEXT, ...): " + ABCF,
                       SSS_MUT, props=("C02", "C15"), defines=["-DEM_FIX_WR=1"], timeout=600))


# ---------------------------------------------------------------- janetc_copy and the helpers one by one
A_EQ = "janet_equals (used by janetc_sequal on constant / reference slots) replaced by identity of type and payload"
units.append(emit_unit("comp.emit.copy", "h_copy", ["janetc_copy", "janetc_sequal", "janetc_movenear", "janetc_moveback", "janetc_allocnear", "janetc_emit"],
                       "janetc_copy(dest, src): for every pair of slot kinds the destination afterwards holds the source's value (near/far register, upvalue, "
                       "reference cell; through a temporary when neither is a near register), the source keeps its value, nothing else changes, copying a slot "
                       "onto itself emits nothing, and a constant destination is refused with a compile error",
                       [M("constant-destination-accepted", "    if (dest.flags & JANET_SLOT_CONSTANT) {\n        janetc_cerror(c, \"cannot write to constant\");\n        return;\n    }", "", "compile error"),
                        M("near-source-test-wrong", "    if (src.envindex < 0 && src.index >= 0 && src.index <= 0xFF) {\n        janetc_moveback(c, dest, src.index);", "    if (src.envindex < 0 && src.index >= 0 && src.index <= 0xFFF) {\n        janetc_moveback(c, dest, src.index);", "holds the source"),
                        M("temporary-not-released", "    /* Cleanup */\n    janetc_regalloc_freetemp(&c->scope->ra, nearreg, JANETC_REGTEMP_3);\n", "", "tag is released"),
                        M_NODEREF, M_PUTSWAP],
                       rc=["janetc_loadconst:em_loadconst_stub", "janet_equals:em_equals_stub"],
                       assumes=[A_VM, A_ALLOC, A_SLOT, A_UP, A_LOADCONST, A_EQ, A_NOGROW]))
M_MOVEDIR_H = dict(M_MOVEDIR, expect="holds the slot|no other register")
M_NEARLIMIT_H = dict(M_NEARLIMIT, expect="holds the slot|fits an 8-bit")
units.append(emit_unit("comp.emit.movenear", "h_movenear", ["janetc_movenear"],
                       "janetc_movenear(reg, slot): afterwards the near register holds the slot's value - constant loaded, reference cell read with GET_INDEX 0, "
                       "upvalue read with LOAD_UPVALUE, far local moved with MOVE_NEAR, nothing for the register itself - and nothing else changes",
                       [M_MOVEDIR_H, M_UPFIELDS, M_NODEREF,
                        M("self-move-test-dropped-wrongly", "    } else if (src.index != dest) {\n        janet_assert(src.index >= 0, \"bad slot\");\n        janetc_emit(c,\n                    ((uint32_t)(src.index) << 16) |",
                          "    } else if (src.index > dest) {\n        janet_assert(src.index >= 0, \"bad slot\");\n        janetc_emit(c,\n                    ((uint32_t)(src.index) << 16) |", "holds the slot")],
                       assumes=[A_VM, A_SLOT, A_UP, A_LOADCONST, A_NOGROW]))
units.append(emit_unit("comp.emit.moveback", "h_moveback", ["janetc_moveback"],
                       "janetc_moveback(slot, reg): afterwards the destination slot holds the near register's value - MOVE_FAR to a local, SET_UPVALUE, or "
                       "PUT_INDEX 0 on the reference array loaded into a temporary that is released again - and nothing else changes",
                       [M_PUTSWAP, M("upvalue-written-with-load", "                    ((uint32_t)(src) << 8) |\n                    JOP_SET_UPVALUE);", "                    ((uint32_t)(src) << 8) |\n                    JOP_LOAD_UPVALUE);", "holds the register|upvalue"),
                        M("reference-temporary-kept", "        janetc_regalloc_freetemp(&c->scope->ra, refreg, JANETC_REGTEMP_5);\n", "", "tag is released"),
                        M("far-move-wrong-direction", "                    ((uint32_t)(src) << 8) |\n                    JOP_MOVE_FAR);", "                    ((uint32_t)(src) << 8) |\n                    JOP_MOVE_NEAR);", "holds the register|clobbered")],
                       assumes=[A_VM, A_ALLOC, A_SLOT, A_UP, A_WR, A_LOADCONST, A_NOGROW, "requires: the source register is not the reserved temporary 0xF5 of tag 5, which janetc_moveback takes itself for the reference array (callers hold tags 0..3)"]))
units.append(emit_unit("comp.emit.regnear", "h_regnear", ["janetc_regnear", "janetc_free_regnear", "janetc_movenear"],
                       "janetc_regnear(slot, tag) returns a register below 256 that holds the slot's value: the slot's own register for a near local, otherwise a "
                       "temporary held under the tag; no live register changes; janetc_free_regnear then gives exactly that temporary back (and never frees the slot's own register)",
                       [M_NEARLIMIT_H, M_FREEWRONG, M("value-not-loaded", "    int32_t reg = janetc_regalloc_temp(&c->scope->ra, tag);\n    janetc_movenear(c, reg, s);\n    return reg;", "    int32_t reg = janetc_regalloc_temp(&c->scope->ra, tag);\n    return reg;", "holds the slot")],
                       assumes=[A_VM, A_ALLOC, A_SLOT, A_UP, A_LOADCONST, A_NOGROW]))
units.append(emit_unit("comp.emit.regfar", "h_regfar", ["janetc_regfar", "janetc_free_regnear", "janetc_movenear", "janetc_allocfar"],
                       "janetc_regfar(slot, tag) returns a register below 65536 that holds the slot's value: any local in place, otherwise a register taken from the "
                       "allocator (the value is spilled with MOVE_FAR when only a reserved temporary was available); the tag is free again on return; no live register changes",
                       [M("spill-threshold-wrong", "    if (nearreg >= 0xF0) {\n        reg = janetc_allocfar(c);", "    if (nearreg > 0xF0) {\n        reg = janetc_allocfar(c);", "re-taken|taken from the allocator|only a register"),
                        M("spill-move-wrong-direction", "janetc_emit(c, JOP_MOVE_FAR | (nearreg << 8) | (reg << 16));", "janetc_emit(c, JOP_MOVE_NEAR | (nearreg << 8) | (reg << 16));", "holds the slot"),
                        M("upvalue-taken-for-local", "    if (s.envindex < 0 && s.index >= 0) {\n        return s.index;\n    }\n    int32_t reg;", "    if (s.index >= 0) {\n        return s.index;\n    }\n    int32_t reg;", "holds the slot")],
                       assumes=[A_VM, A_ALLOC, A_SLOT, A_UP, A_LOADCONST, A_NOGROW]))

# ---------------------------------------------------------------- constants
# conversion-check also flags signed -> unsigned conversions, which C defines (modulo 2^32) and emit.c uses on purpose: not counted
ONLY_NO_S2U = "^(?!.*signed to unsigned type conversion)"
A_CONSTSTUB = ("janetc_const replaced by its contract (proved for small tables in comp.emit.const): returns an index below 0xFFFF at which the function's "
               "constant table holds the value, or reports 'too many constants'")
RC_LC = ["janetc_const:em_const_stub"]
LC_CLAUSE = ("janetc_loadconst(k, reg): exactly one load instruction after which the near register holds exactly the constant k - nil, true, false, "
             "a number that is a 16-bit integer (LOAD_INTEGER) or any other value through the constant table (LOAD_CONSTANT with the index janetc_const returned)")
M_LC = [M("true-false-swapped", "(janet_unwrap_boolean(k) ? JOP_LOAD_TRUE : JOP_LOAD_FALSE)", "(janet_unwrap_boolean(k) ? JOP_LOAD_FALSE : JOP_LOAD_TRUE)", "exactly the constant"),
        M("integer-range-too-wide", "if (dval < INT16_MIN || dval > INT16_MAX)", "if (dval < INT16_MIN || dval > UINT16_MAX)", "exactly the constant"),
        M("fraction-truncated", "            if (dval != i || (i == 0 && signbit(dval)))\n                goto do_constant;\n", "            if (i == 0 && signbit(dval))\n                goto do_constant;\n", "exactly the constant"),
        M("constant-index-in-wrong-field", "                            (cindex << 16) |\n                            (reg << 8) |\n                            JOP_LOAD_CONSTANT);", "                            (cindex << 8) |\n                            (reg << 16) |\n                            JOP_LOAD_CONSTANT);", "exactly the constant|other register")]
units.append(emit_unit("comp.emit.loadconst", "h_loadconst", ["janetc_loadconst"], LC_CLAUSE + "; every constant except -0.0 and NaN (comp.emit.loadconst.negzero, .nan)",
                       M_LC, rc=RC_LC, defines=["-DEM_REAL_LOADCONST"], cls="bounded", bound="all constants of all 16 types and all payloads except the number -0.0 and NaN numbers; all near registers",
                       assumes=[A_VM, A_CONSTSTUB, A_NOGROW], extra={"checks": CHECKS + ["conversion-check", "float-overflow-check"], "only": ONLY_NO_S2U}))
units.append(emit_unit("comp.emit.loadconst.negzero", "h_loadconst", ["janetc_loadconst"], LC_CLAUSE + "; including the number -0.0",
                       [M("revert-cc9eb16-negative-zero-as-integer", "            if (dval != i || (i == 0 && signbit(dval)))", "            if (dval != i)", "exactly the constant"), M_LC[0]], rc=RC_LC, defines=["-DEM_REAL_LOADCONST", "-DEM_NEGZERO"], cls="bounded", bound="as comp.emit.loadconst plus -0.0",
                       assumes=[A_VM, A_CONSTSTUB, A_NOGROW]))
units.append(emit_unit("comp.emit.loadconst.nan", "h_loadconst", ["janetc_loadconst"], LC_CLAUSE + "; including NaN, without undefined float-to-integer conversion",
                       [M_LC[0]], rc=RC_LC, defines=["-DEM_REAL_LOADCONST", "-DEM_NAN"], cls="bounded", bound="as comp.emit.loadconst plus NaN numbers",
                       assumes=[A_VM, A_CONSTSTUB, A_NOGROW], extra={"checks": CHECKS + ["conversion-check", "float-overflow-check"], "only": ONLY_NO_S2U}))
units.append(emit_unit("comp.emit.const", "h_const", ["janetc_const"],
                       "janetc_const(x): the constant goes to the table of the nearest enclosing FUNCTION scope; an equal constant (janet_equals) already in the "
                       "table is shared - its index is returned and no entry is added - otherwise x is appended and the new index returned; existing entries keep "
                       "their indices; the index fits the 16-bit field of LOAD_CONSTANT",
                       [M("equal-test-inverted", "        if (janet_equals(x, scope->consts[i]))\n            return i;", "        if (!janet_equals(x, scope->consts[i]))\n            return i;", "holds the constant|share"),
                        M("block-scope-table", "        if (scope->flags & JANET_SCOPE_FUNCTION)\n            break;\n        scope = scope->parent;\n    }\n    /* Check if already added */",
                          "        break;\n    }\n    /* Check if already added */", "pointer|enclosing function|appended|holds the constant|preallocated vectors"),
                        M("returns-next-index", "    janet_v_push(scope->consts, x);\n    return len;", "    janet_v_push(scope->consts, x);\n    return len + 1;", "index is in the table|appended")],
                       rc=["janet_equals:emc_equals_stub"], defines=["-DEM_REAL_CONST"], cls="bounded",
                       bound="constant table of 0..4 entries (capacity 8, no growth), 0..2 block scopes between the current scope and the function scope; janet_equals an arbitrary equivalence over the entries and x",
                       assumes=["janet_equals replaced by an arbitrary equivalence relation over the table entries and x (class numbers)", A_NOGROW]))

# ---------------------------------------------------------------- obligations the real code does not meet (reported; see known findings)
units.append(emit_unit("comp.emit.s.wr-nonlocal", "h_emit_s", ["janetc_emit_s"] + HELPERS,
                       "janetc_emit_s with a written destination of ANY kind (upvalue, reference): " + ABCF, [M_NODEREF], defines=["-DEM_S_ANYDEST"]))
REL = ("(d) every register taken from the register allocator during the call (temporaries and janetc_allocfar spills) is given back before the emitter returns, "
       "so compiling an instruction does not consume registers")
units.append(emit_unit("comp.emit.release.s", "h_emit_s", ["janetc_emit_s"] + HELPERS, "janetc_emit_s: " + REL,
                       [M("free-dropped", "    janetc_free_regnear(c, s, reg, JANETC_REGTEMP_0);\n    return label;\n}\n\nint32_t janetc_emit_sl(", "    return label;\n}\n\nint32_t janetc_emit_sl(", "comp.emit.release")], defines=["-DEM_CHECK_RELEASE"]))
units.append(emit_unit("comp.emit.release.ss", "h_emit_ss", ["janetc_emit_ss"] + HELPERS, "janetc_emit_ss: " + REL,
                       [M("free-dropped", "    janetc_free_regnear(c, s2, reg2, JANETC_REGTEMP_1);\n    if (wr)\n        janetc_moveback(c, s1, reg1);\n    janetc_free_regnear(c, s1, reg1, JANETC_REGTEMP_0);\n    return label;\n}\n\nint32_t janetc_emit_ssi(",
                          "    if (wr)\n        janetc_moveback(c, s1, reg1);\n    janetc_free_regnear(c, s1, reg1, JANETC_REGTEMP_0);\n    return label;\n}\n\nint32_t janetc_emit_ssi(", "comp.emit.release")], defines=["-DEM_CHECK_RELEASE"]))
for w in (0, 1):
    units.append(emit_unit("comp.emit.release.sss.wr%d" % w, "h_emit_sss", ["janetc_emit_sss"] + HELPERS, "janetc_emit_sss, wr = %d (and, by the same helpers, _si/_su/_ssi/_ssu): " % w + REL,
                           [M("free-dropped", "    janetc_free_regnear(c, s3, reg3, JANETC_REGTEMP_2);\n", "", "comp.emit.release|tag is released")], defines=["-DEM_CHECK_RELEASE", "-DEM_FIX_WR=%d" % w], timeout=600))
units.append(emit_unit("comp.emit.upvalue-range", "h_upvalue_range", ["janetc_copy", "janetc_movenear", "janetc_moveback", "janetc_emit"],
                       "KNOWN FINDING (open): an upvalue whose register or environment number exceeds the 8-bit fields of LOAD_UPVALUE / SET_UPVALUE (a captured local beyond "
                       "register 255, the 257th captured environment) is still read and written correctly (janetc_copy between it and a near local), or a compile error is reported",
                       [dict(M_UPFIELDS, expect="upvalue-range")], defines=["-DEM_MAXUP=0xFFFF"], rc=["janetc_loadconst:em_loadconst_stub", "janet_equals:em_equals_stub"],
                       assumes=[A_VM, A_ALLOC, A_SLOT, A_LOADCONST, A_NOGROW],
                       extra={"known_finding_obligations": ["em_upvalue_range_read.assertion.1", "em_upvalue_range_write.assertion.1"]}))


units.append(emit_unit("comp.emit.sl", "h_emit_sl", ["janetc_emit_sl", "emit1s"] + HELPERS,
                       "janetc_emit_sl(op, slot, label) (no caller in the compiler): the conditional jump it emits, executed at its own index, continues at instruction `label` - "
                       "also when the tested slot first has to be brought into a near register; 'jump is too far' otherwise; " + ABCF,
                       [M_LABEL1]))
units.append({"id": "comp.regalloc.temp-roundtrip", "props": ["C02"], "tier": "quick", "class": "bounded",
              "bound": "allocator of 1..10 chunks (registers 0..319) with arbitrary contents and capacity 16 (no reallocation)",
              "clause": "a temporary register taken with janetc_regalloc_temp and given back with janetc_regalloc_freetemp leaves the set of allocated registers exactly as it was - "
                        "also when registers 0..0xEF are all live and the reserved temporary 0xF0+tag is handed out: emitting an instruction consumes no register, so the number of "
                        "live locals does not limit the size of the code that follows",
              "src": ["emit.c", "regalloc.c"], "harness": ["comp_emit.c"], "entry": "h_temp_roundtrip", "mode": "plain", "nanbox": False,
              "functions": ["janetc_regalloc_temp", "janetc_regalloc_freetemp", "janetc_regalloc_1", "janetc_regalloc_free"],
              "checks": CHECKS + ["signed-overflow-check"], "unwind": 18, "unwinding_assertions": True, "timeout": 300, "defines": ["-DEM_REAL_REGALLOC"],
              "assumes": ["representation invariant wf_ra of the regalloc.* units: chunk 7 (once it exists) has the 16 reserved temporaries allocated; the tag requested is free"],
              "mutants": [M("revert-d1e5cf2-far-register-kept", "        /* Give the far register back: the reserved temporary is used instead */\n        janetc_regalloc_free(ra, reg);\n", "", "as it was", file="regalloc.c"),
                          M("free-never", "    if (reg < 0xF0)\n        janetc_regalloc_free(ra, reg);", "", "as it was", file="regalloc.c")]})

# ================================================================ compile.c: calls and constructors (harness/comp_call.c)
CALL_RC = ["janetc_emit_s:cl_emit_s_stub", "janetc_emit_ss:cl_emit_ss_stub", "janetc_emit_sss:cl_emit_sss_stub", "janetc_freeslot:cl_freeslot_stub",
           "janet_sfree:cl_sfree_stub", "janetc_allocfar:cl_allocfar_stub", "janet_formatc:cl_formatc_stub", "janet_cstring:cl_cstring_stub"]
A_EMITSTUB = ("janetc_emit_s/_ss/_sss replaced by recording stubs: a PUSH/PUSH_2/PUSH_3/PUSH_ARRAY appends its operands, in field order, to a ghost argument "
              "stack exactly as vm.c pushes them; CALL/TAILCALL/MAKE_* are recorded with their operands (the emitters themselves: comp.emit.*)")
A_FREESTUB = "janetc_freeslot / janet_sfree replaced by counters; janetc_allocfar by a counter of fresh registers (4000, 4001, ..)"


def call_unit(uid, entry, functions, clause, mutants, rc, bound, props=("C02",), assumes=None, defines=None, unwind=12, tier="quick", timeout=300, extra=None):
    u = {"id": uid, "props": list(props), "tier": tier, "class": "bounded", "bound": bound, "clause": clause,
         "src": ["compile.c"], "link": ["wrap.c"], "link_keep": {"wrap.c": ["janet_wrap_nil", "janet_wrap_tuple", "janet_wrap_struct"]},
         "harness": ["comp_call.c"], "entry": entry, "mode": "plain", "nanbox": False, "functions": functions,
         "replace_calls": CALL_RC + rc, "checks": CHECKS + ["signed-overflow-check"], "unwind": unwind, "unwinding_assertions": True, "timeout": timeout,
         "defines": defines or [], "assumes": [A_EMITSTUB, A_FREESTUB] + (assumes or []), "mutants": mutants}
    if extra:
        u.update(extra)
    return u


def MC(name, find, replace, expect, **kw):
    return M(name, find, replace, expect, file="compile.c", **kw)


units.append(call_unit("comp.call.pushslots", "h_pushslots", ["janetc_pushslots"],
                       "janetc_pushslots: the emitted PUSH / PUSH_2 / PUSH_3 / PUSH_ARRAY instructions build exactly the argument vector - every argument once, strictly left "
                       "to right, a spliced argument element-wise (PUSH_ARRAY) at its own position and never as a single value; the result is the argument count, or "
                       "-1 - (number of unspliced arguments) when there is a splice",
                       [MC("push2-operands-swapped", "            janetc_emit_ss(c, JOP_PUSH_2, slots[i], slots[i + 1], 0);\n            i += 2;\n            min_arity += 2;\n        } else if (slots[i + 2].flags",
                           "            janetc_emit_ss(c, JOP_PUSH_2, slots[i + 1], slots[i], 0);\n            i += 2;\n            min_arity += 2;\n        } else if (slots[i + 2].flags", "left to right"),
                        MC("splice-after-pair-skipped", "            janetc_emit_s(c, JOP_PUSH_ARRAY, slots[i + 2], 0);\n            i += 3;", "            i += 3;", "pushed exactly once|left to right"),
                        MC("second-of-pair-not-checked-for-splice", "        } else if (slots[i + 1].flags & JANET_SLOT_SPLICED) {", "        } else if (0) {", "never pushed as a single value|spliced at its own"),
                        MC("arity-sign", "    return has_splice ? (-1 - min_arity) : min_arity;", "    return has_splice ? (-min_arity) : min_arity;", "minimum argument count")],
                       [], "argument vectors of 0..7 slots, each local or constant, spliced or not (every window of three consecutive slots the loop can see)"))
units.append(call_unit("comp.call.call", "h_call", ["janetc_call", "janetc_pushslots", "has_spliced", "janetc_freeslots", "janetc_gettarget", "janetc_cslot", "janetc_error"],
                       "janetc_call: unless the callee is a constant function whose optimizer accepts the unspliced arguments (then the optimizer's result is the value and no "
                       "call is emitted), the arguments are pushed left to right, then exactly one call instruction naming the callee follows: TAILCALL only in tail position "
                       "(and always there, except in the top-level scope) with the result marked returned, otherwise CALL writing the returned target slot (near hint or fresh "
                       "register); a provably wrong argument count for a constant callee is a compile error and nothing else is; every argument slot and the vector are released once, after the call",
                       [MC("tailcall-everywhere", "        if ((opts.flags & JANET_FOPTS_TAIL) &&\n                /* Prevent top level tail calls for better errors */\n                !(c->scope->flags & JANET_SCOPE_TOP)) {",
                           "        if (!(c->scope->flags & JANET_SCOPE_TOP)) {", "only in tail position"),
                        MC("call-operands-swapped", "janetc_emit_ss(c, JOP_CALL, retslot, fun, 1);", "janetc_emit_ss(c, JOP_CALL, fun, retslot, 1);", "names the callee|returned slot"),
                        MC("specialise-spliced", "    if (fun.flags & JANET_SLOT_CONSTANT && !has_spliced(slots)) {", "    if (fun.flags & JANET_SLOT_CONSTANT) {", "only a constant function"),
                        MC("min-arity-check-inverted", "                        if (min_arity < min) {", "                        if (min_arity > min) {", "provably wrong"),
                        MC("slots-not-freed", "    janetc_freeslots(c, slots);\n    return retslot;\n}\n\nstatic JanetSlot janetc_maker", "    return retslot;\n}\n\nstatic JanetSlot janetc_maker", "released")],
                       ["janetc_funopt:cl_funopt_stub"], "0..7 arguments (local/constant, spliced or not); callee a local or a constant of any of the 16 types; arities 0..100; any form options; any scope flags",
                       props=("C02", "C15"),
                       assumes=["janetc_funopt replaced by a stub returning no optimizer or one whose can_optimize/optimize are recording harness functions"]))
units.append(call_unit("comp.call.toslots", "h_toslots", ["janetc_toslots", "janetc_fopts_default"],
                       "janetc_toslots: the argument forms are evaluated strictly left to right, each exactly once, for their value (not in tail position, no target, not dropped, "
                       "splice allowed); slot k of the result is the value of form k",
                       [MC("reverse-order", "    for (i = 0; i < len; i++) {\n        janet_v_push(ret, janetc_value(subopts, vals[i]));", "    for (i = len - 1; i >= 0; i--) {\n        janet_v_push(ret, janetc_value(subopts, vals[i]));", "left to right"),
                        MC("tail-flag-leaks", "    subopts.flags |= JANET_FOPTS_ACCEPT_SPLICE;\n    for (i = 0; i < len; i++) {", "    subopts.flags |= JANET_FOPTS_ACCEPT_SPLICE | JANET_FOPTS_TAIL;\n    for (i = 0; i < len; i++) {", "not in tail position")],
                       ["janetc_value:cl_value_stub", "janet_v_grow:cl_grow_stub"], "0..7 argument forms; the result vector is allocated once with room for all",
                       assumes=["janetc_value replaced by a stub that checks the order and options of its calls and returns a fresh slot numbered by the form"]))
units.append(call_unit("comp.call.toslotskv", "h_toslotskv", ["janetc_toslotskv", "janetc_fopts_default"],
                       "janetc_toslotskv (struct and table literals): for every present entry of the literal, in table order, the key is evaluated and then immediately its value; "
                       "the result vector is key, value, key, value ... in that order; empty buckets contribute nothing",
                       [MC("value-before-key", "        janet_v_push(ret, janetc_value(subopts, kvs[i].key));\n        janet_v_push(ret, janetc_value(subopts, kvs[i].value));", "        janet_v_push(ret, janetc_value(subopts, kvs[i].value));\n        janet_v_push(ret, janetc_value(subopts, kvs[i].key));", "immediately before"),
                        MC("nil-keys-kept", "        if (janet_checktype(kvs[i].key, JANET_NIL)) continue;\n        janet_v_push(ret, janetc_value(subopts, kvs[i].key));", "        janet_v_push(ret, janetc_value(subopts, kvs[i].key));", "nothing for empty buckets|only present")],
                       ["janetc_value:cl_value_kv_stub", "janet_v_grow:cl_grow_stub", "janet_dictionary_view:cl_dictview_stub"], "literal with 4 buckets, each present or empty",
                       assumes=["janetc_value replaced by a recording stub; janet_dictionary_view by a stub handing out the 4-bucket table"]))
MAKER = call_unit("comp.call.maker", "h_maker", ["janetc_maker", "janetc_pushslots", "janetc_freeslots", "janetc_gettarget", "janetc_cslot"],
                       "janetc_maker (array, tuple, struct, table, buffer, string constructors): the elements are pushed left to right (splices at their position), then exactly "
                       "the requested MAKE_* instruction writes the returned target slot; only tuples and structs whose elements are all unspliced constants are folded into "
                       "a constant (element k = constant k, pair k = constants 2k, 2k+1) - arrays, tables and buffers are built afresh on every evaluation",
                       [MC("arrays-folded", "    } else if (can_inline && (op == JOP_MAKE_TUPLE)) {", "    } else if (can_inline && (op == JOP_MAKE_TUPLE || op == JOP_MAKE_ARRAY)) {", "only immutable"),
                        MC("spliced-constant-folded", "        if (!(slots[i].flags & JANET_SLOT_CONSTANT) ||\n                (slots[i].flags & JANET_SLOT_SPLICED)) {", "        if (!(slots[i].flags & JANET_SLOT_CONSTANT)) {", "unspliced constant"),
                        MC("struct-key-value-swapped", "            janet_struct_put(st, k, v);", "            janet_struct_put(st, v, k);", "pair k"),
                        MC("no-write-flag", "        janetc_emit_s(c, op, retslot, 1);\n    }\n\n    return retslot;", "        janetc_emit_s(c, op, retslot, 0);\n    }\n\n    return retslot;", "written to the returned slot")],
                       ["janet_tuple_begin:cl_tuple_begin_stub", "janet_tuple_end:cl_tuple_end_stub", "janet_struct_begin:cl_struct_begin_stub", "janet_struct_put:cl_struct_put_stub", "janet_struct_end:cl_struct_end_stub"],
                       "0..7 element slots (even count for struct/table), local or constant, spliced or not; the seven MAKE_* opcodes; any form options",
                       assumes=["janet_tuple_begin/_end, janet_struct_begin/_put/_end replaced by recording stubs over static storage"])
MAKER["defines"] = ["-DCL_MAXN=4"]
MAKER["bound"] = MAKER["bound"].replace("0..7 element slots", "0..4 element slots")
units.append(MAKER)
MAKER7 = copy.deepcopy(MAKER)
MAKER7["id"] = "comp.call.maker.n7"; MAKER7["defines"] = []; MAKER7["bound"] = MAKER7["bound"].replace("0..4 element slots", "0..7 element slots")
units.append(MAKER7)
units.append(call_unit("comp.call.value-call", "h_value_call", ["janetc_value"],
                       "janetc_value on a call form (f a1 .. an): the callee is evaluated first, then the arguments (janetc_toslots), then the call is compiled from exactly these "
                       "with the form's own context (tail position, hint, drop); the callee's slot is released after the call; in tail position the value is returned, with a hint it is "
                       "delivered in the hint slot; the value of a call is never spliced; source position and recursion budget of the enclosing form are restored",
                       [MC("arguments-before-callee", "                    JanetSlot head = janetc_value(subopts, tup[0]);\n                    subopts.flags = JANET_FUNCTION | JANET_CFUNCTION;\n                    ret = janetc_call(opts, janetc_toslots(c, tup + 1, janet_tuple_length(tup) - 1), head);",
                           "                    JanetSlot *args_first = janetc_toslots(c, tup + 1, janet_tuple_length(tup) - 1);\n                    JanetSlot head = janetc_value(subopts, tup[0]);\n                    ret = janetc_call(opts, args_first, head);", "callee is evaluated before"),
                        MC("call-loses-tail-context", "                    ret = janetc_call(opts, janetc_toslots(c, tup + 1, janet_tuple_length(tup) - 1), head);", "                    ret = janetc_call(subopts, janetc_toslots(c, tup + 1, janet_tuple_length(tup) - 1), head);", "inherits the context"),
                        MC("mapping-not-restored", "    c->current_mapping = last_mapping;\n    c->recursion_guard++;\n    return ret;", "    c->recursion_guard++;\n    return ret;", "source position")],
                       ["macroexpand1:cl_macroexpand1_stub", "janetc_resolve:cl_resolve_stub", "janetc_toslots:cl_toslots_stub", "janetc_call:cl_call_stub", "janetc_return:cl_return_stub", "janetc_copy:cl_copy_stub"],
                       "call forms with a symbol as callee and 0..3 arguments; any form options", unwind=12,
                       assumes=["macroexpand1 replaced by its contract for a form that is neither macro call nor special (moves the source cursor, returns 0)",
                                "janetc_resolve, janetc_toslots, janetc_call, janetc_return, janetc_copy replaced by recording stubs (their contracts: comp.resolve.*, comp.call.toslots, comp.call.call, comp.emit.copy)"]))
units.append(call_unit("comp.call.toslots.mutation-order", "h_toslots", ["janetc_toslots"],
                       "KNOWN FINDING (open): left-to-right evaluation of arguments also when an argument reads a mutable local variable and a LATER argument assigns it: the slot handed on for the earlier "
                       "argument must still denote the value it had when it was evaluated (it must not be the variable's own register)",
                       [MC("reverse-order", "    for (i = 0; i < len; i++) {\n        janet_v_push(ret, janetc_value(subopts, vals[i]));", "    for (i = len - 1; i >= 0; i--) {\n        janet_v_push(ret, janetc_value(subopts, vals[i]));", "left to right")],
                       ["janetc_value:cl_value_stub", "janet_v_grow:cl_grow_stub"], "0..7 argument forms", defines=["-DCL_MUTATION_ORDER"], extra={"known_finding_obligations": ["cl_check_mutation_order.assertion.1"]},
                       assumes=["janetc_value replaced by a stub: a form may be a reference to the mutable local in register 77 (its slot is that register, as janetc_resolve returns it) and a later form may assign register 77"]))


# ================================================================ compile.c: symbol resolution (harness/comp_resolve.c)
units.append({
    "id": "comp.resolve", "props": ["C02"], "tier": "quick", "class": "bounded",
    "bound": "chain of 1..3 scopes (root function scope; each further scope a function or a block, dead-code or not), 0..2 bindings per scope over two symbols and ended-block entries, "
             "bindings that are registers 0..0xFFFF, constants or reference arrays, 0..2 well-formed environment references already present per inner function scope",
    "clause": "janetc_resolve: a symbol denotes its innermost enclosing binding (latest in a scope; the environment is not consulted - shadowing); a constant or reference binding is the same "
              "everywhere; a binding of the same function is a frame register; a binding of an enclosing function becomes an upvalue whose environment index designates, by the interpreter's "
              "closure rule Env(F,j), exactly the frame of the defining function, which is marked as captured, with the register recorded and the binding kept; existing environment references "
              "keep index and meaning and only function scopes get any; dead-code scopes capture nothing; an unbound symbol is the global (constant for def/macro, reference array for var and "
              "dynamic bindings, only var assignable), deprecations are linted, and no binding at all is a compile error",
    "src": ["compile.c"], "link": ["wrap.c"], "link_keep": {"wrap.c": ["janet_wrap_nil", "janet_wrap_keyword", "janet_wrap_symbol"]},
    "harness": ["comp_resolve.c"], "entry": "h_resolve", "mode": "plain", "nanbox": False,
    "functions": ["janetc_resolve", "janetc_cslot", "janetc_error"],
    "replace_calls": ["janet_v_grow:rs_grow_stub", "janetc_regalloc_touch:rs_touch_stub", "janet_formatc:rs_formatc_stub", "janet_resolve_ext:rs_resolve_ext_stub",
                      "janet_table_get:rs_table_get_stub", "janet_csymbol:rs_csymbol_stub", "lookup_missing:rs_lookup_missing_stub", "janetc_lintf:rs_lintf_stub"],
    "checks": CHECKS + ["signed-overflow-check"], "unwind": 6, "unwinding_assertions": True, "timeout": 600, "defines": [],
    "assumes": ["janet_resolve_ext / janet_table_get (missing-symbol handler) / lookup_missing replaced by stubs returning an arbitrary binding, handler value and handler result",
                "janetc_regalloc_touch replaced by a recorder; janet_v_grow by a stub that hands a preallocated 4-entry block to an empty environment vector",
                "representation invariant of the scopes: existing environment references designate a frame (Env defined); the root scope is a function scope and has no references"],
    "mutants": [MC("first-binding-wins", "        for (i = len - 1; i >= 0; i--) {\n            pair = scope->syms + i;", "        for (i = 0; i < len; i++) {\n            pair = scope->syms + i;", "innermost binding wins|same in every context"),
                MC("function-boundary-ignored", "        if (scope->flags & JANET_SCOPE_FUNCTION)\n            foundlocal = 0;", "", "upvalue of the current function|frame of the function"),
                MC("env-flag-not-set", "    scope->flags |= JANET_SCOPE_ENV;\n", "", "marked as having a captured frame"),
                MC("binding-not-kept", "    pair->keep = 1;\n", "", "captured binding is kept"),
                MC("env-dedupe-compares-position", "                if (scope->envs[j].envindex == envindex) {", "                if (j == envindex) {", "frame of the function|upvalue of the current"),
                MC("parent-frame-marker-wrong", "    int32_t envindex = -1;\n    while (scope) {", "    int32_t envindex = 0;\n    while (scope) {", "frame of the function"),
                MC("dead-code-captures", "    if (unused || foundlocal) {", "    if (foundlocal) {", "captures nothing"),
                MC("var-not-mutable", "                ret.flags |= JANET_SLOT_REF | JANET_SLOT_NAMED | JANET_SLOT_MUTABLE | JANET_SLOTTYPE_ANY;", "                ret.flags |= JANET_SLOT_REF | JANET_SLOT_NAMED | JANET_SLOTTYPE_ANY;", "only a var is assignable")]})

import copy
u2 = copy.deepcopy(units[-1])
u2["id"] = "comp.resolve.upvalue-range"
u2["defines"] = ["-DRS_UPVALUE_RANGE"]
u2["clause"] = ("janetc_resolve never hands out an upvalue slot that JOP_LOAD_UPVALUE / JOP_SET_UPVALUE cannot address (captured register or environment number above 255) "
                "without reporting a compile error - a function with more than 255 live locals may capture any of them")
u2["mutants"] = [u2["mutants"][2]]
u2["clause"] = "KNOWN FINDING (open): " + u2["clause"]
u2["known_finding_obligations"] = ["rs_check_upvalue_range.assertion.1"]
units.append(u2)

DISABLED = {
    "comp.emit.loadconst.nan": "formal undefined behaviour only: janetc_loadconst evaluates (int32_t) dval for a NaN constant before the dval != i test sends it to the constant table "
                               "(obligation janetc_loadconst.overflow.3, float to signed integer conversion); every supported compiler yields some int32 and the following comparison "
                               "rejects it, so no wrong code results - (def n math/nan) (fn [] n) loads the constant correctly",
    "comp.emit.sl": "dead code: janetc_emit_sl has no caller in /repo/src. Its jump offset is computed from count - 1 before the operand is loaded, so the jump lands at "
                    "label + 1 + (number of load instructions) instead of label (obligation h_emit_sl.assertion.1); not reachable from any Janet program",
    "comp.emit.s.wr-nonlocal": "latent, no reachable caller: janetc_emit_s with wr = 1 and an upvalue / reference destination passes the far spill register of janetc_regfar to "
                               "janetc_moveback, which encodes it in 8-bit fields (obligations em_check.assertion.9, em_frame_checks.assertion.1). All five callers with wr = 1 "
                               "(compile.c janetc_maker, specials.c quasiquote/destructure/fn) pass janetc_gettarget or janetc_farslot slots, which are local; comp.emit.s proves that case",
}
THOROUGH = ("comp.emit.sss.read", "comp.emit.sss.write", "comp.emit.release.sss.wr0", "comp.emit.release.sss.wr1", "comp.call.maker.n7")
for u in units:
    if u["id"] in ("comp.emit.release.s", "comp.emit.release.ss"):
        # open on the tree with d1e5cf2: janetc_regfar's janetc_allocfar spill is never freed (janetc_free_regnear -> freetemp ignores registers >= 0xF0)
        u["clause"] = "KNOWN FINDING (open): " + u["clause"]
        u["known_finding_obligations"] = ["em_check_release.assertion.1"]
    if u["id"] in DISABLED:
        u["disabled_reason"] = DISABLED[u["id"]]
    if u["id"] in THOROUGH:
        u["tier"] = "thorough"

json.dump({"units": units}, open(os.path.join(VERIF, "units", "C02_emit.json"), "w"), indent=1)
print("wrote", len(units), "units")
