#!/usr/bin/env python3
"""generates /verif/units/C02_specials.json: C02 contracts of the special-form compilers of specials.c
   (if, do, upscope, break, def, var, set, quote, splice, quasiquote, fn) - harness/comp_specials.c."""
import json, os

VERIF = os.path.dirname(os.path.dirname(os.path.abspath(__file__)))
CHECKS = ["bounds-check", "pointer-check", "signed-overflow-check"]

A_VALUE = ("janetc_value (sub-form compilation) is the contract stub sp_value_stub: it emits 0..2 arbitrary instruction words through the real "
           "janetc_emit, in tail position a return of the form's value, with a hint a copy (real janetc_copy) into the hint slot which "
           "becomes the result; the result is a constant (nil, false, true, 0, 7) or a local register; sub-forms compile without error")
A_RA = ("register allocation is abstracted: janetc_regalloc_1 returns any register 0..0xEF that does not hold a sub-form's value, "
        "janetc_regalloc_temp any of 0xF0..0xFF; init/clone/deinit keep only the max field; touch/free are recorded")
A_GROW = "the instruction and source-map vectors are preallocated with 40 entries; janet_v_grow is asserted unreachable (its growth path is proved in comp.srcmap.emit)"
A_THROW = "janetc_throwaway leaves no instruction and no mapping behind (proved in comp.srcmap.throwaway); here it records the dead form"
A_INTERP = ("the reference interpreter sp_run gives the opcodes JUMP, JUMP_IF, JUMP_IF_NOT, JUMP_IF_NIL, JUMP_IF_NOT_NIL, MOVE_NEAR, MOVE_FAR, LOAD_NIL/TRUE/FALSE/INTEGER, "
            "RETURN, RETURN_NIL the meaning documented for the virtual machine (proved for the real VM in the C15 vm units)")
A_ERR = "janetc_error / janetc_cerror record the error (status JANET_COMPILE_ERROR)"

BASE_REPLACE = [
    "janet_sfree:sp_sfree",
    "janetc_value:sp_value_stub",
    "janetc_throwaway:sp_throwaway_stub",
    "janetc_regalloc_init:sp_ra_init_stub",
    "janetc_regalloc_clone:sp_ra_clone_stub",
    "janetc_regalloc_deinit:sp_ra_deinit_stub",
    "janetc_regalloc_1:sp_ra_1_stub",
    "janetc_regalloc_temp:sp_ra_temp_stub",
    "janetc_regalloc_freetemp:sp_ra_freetemp_stub",
    "janetc_regalloc_touch:sp_ra_touch_stub",
    "janetc_regalloc_free:sp_ra_free_stub",
    "janetc_cerror:sp_cerror_stub",
    "janetc_error:sp_error_stub",
    "janet_v_grow:sp_nogrow_stub",
    "janetc_const:sp_const_stub",
]
COMPILE_KEEP = ["janetc_scope", "janetc_popscope", "janetc_popscope_keepslot", "janetc_cslot", "janetc_fopts_default", "janetc_gettarget", "janetc_freeslot"]
WRAP_KEEP = ["janet_wrap_nil", "janet_truthy", "janet_wrap_number"]


def M(name, find, replace, expect, file="specials.c", **kw):
    d = {"name": name, "file": file, "find": find, "replace": replace, "expect": expect}
    d.update(kw)
    return d


def unit(uid, entry, fn, clause, bound, mutants, assumes, tier="quick", defines=None, replace=None, compile_keep=None, wrap_keep=None,
         unwind=18, timeout=300, extra=None, functions=None):
    u = {"id": uid, "props": ["C02"], "tier": tier, "class": "bounded", "bound": bound, "clause": clause,
         "src": ["specials.c", "emit.c"], "link": ["compile.c", "wrap.c"],
         "link_keep": {"compile.c": compile_keep or COMPILE_KEEP, "wrap.c": wrap_keep or WRAP_KEEP},
         "harness": ["comp_specials.c"], "entry": entry, "mode": "plain", "nanbox": False,
         "functions": functions or [fn, "janetc_scope", "janetc_popscope", "janetc_emit", "janetc_copy"],
         "replace_calls": BASE_REPLACE + (replace or []),
         "checks": CHECKS, "unwind": unwind, "unwinding_assertions": True, "timeout": timeout,
         "assumes": assumes, "mutants": mutants, "defines": defines or []}
    if extra:
        u.update(extra)
    return u


units = []
BOUND_CTX = ("each sub-form emits 0..2 instructions and yields a constant (nil, false, true, 0, 7) or a local register; 2 instructions before the form; "
             "context: value used (with or without a near hint slot), value dropped, or tail position (tail and hint not combined); registers < 256; "
             "instruction vectors preallocated with 40 entries (no growth); execution of the emitted code bounded by 16 steps (asserted sufficient)")

# ------------------------------------------------------------------ if
IF_CLAUSE = ("if: the condition is evaluated first and exactly once, then exactly one branch: the true branch iff the condition's value is neither nil "
             "nor false%s; both branches deliver their value to the same result slot (nil without else branch), in tail position the selected branch "
             "returns, a dropped value is not delivered; control continues right after the if; a constant condition leaves only the selected branch's code; "
             "scopes are closed, earlier code and sub-form code unchanged, source map in step")
IF_MUT = [
    M("false-condition-skips-else", "    c->buffer[labeljr] |= (labelr - labeljr) << 16;", "    c->buffer[labeljr] |= (labeld - labeljr) << 16;", "selected branch|result slot|other branch"),
    M("else-value-not-delivered", "    right = janetc_value(bodyopts, falsebody);\n    if (!drop && !tail) janetc_copy(c, target, right);",
      "    right = janetc_value(bodyopts, falsebody);", "result slot"),
    M("jump-over-else-off-by-one", "    if (!tail) c->buffer[labeljd] |= (labeld - labeljd) << 8;", "    if (!tail) c->buffer[labeljd] |= (labeld - labeljd + 1) << 8;", "continues|stays inside"),
    M("constant-false-is-truthy", "if (ifnjmp == JOP_JUMP_IF_NOT && !janet_truthy(cond.constant)) swap_condition = 1;",
      "if (ifnjmp == JOP_JUMP_IF_NOT && janet_checktype(cond.constant, JANET_NIL)) swap_condition = 1;", "selected branch|other branch|result slot"),
    M("condition-compiled-in-tail", "    condopts = janetc_fopts_default(c);\n    bodyopts = opts;", "    condopts = opts;\n    bodyopts = opts;", "condition is compiled for its value"),
]
units.append(unit(
    "comp.if", "h_if", "janetc_if", IF_CLAUSE % "",
    "(if c a), (if c a nil), (if c a b); " + BOUND_CTX, IF_MUT,
    [A_VALUE, A_RA, A_GROW, A_THROW, A_INTERP, A_ERR, "the condition is not of the form (= nil x) / (not= nil x) (see comp.if.nilcheck)"],
    defines=["-DSP_IF_SHAPE=0"]))
units.append(unit(
    "comp.if.nilcheck", "h_if", "janetc_if",
    IF_CLAUSE % "; for a condition (= nil x) or (= x nil) the true branch iff x is nil, for (not= nil x) iff x is not nil (x evaluated once, the comparison not called); any other function (<) is an ordinary condition",
    "condition (f nil x) or (f x nil) with f a function tagged =, not= or <; " + BOUND_CTX,
    [M("eq-shortcut-inverted", "        ifnjmp = JOP_JUMP_IF_NOT_NIL;\n    } else if", "        ifnjmp = JOP_JUMP_IF_NIL;\n    } else if", "selected branch|other branch|result slot"),
     M("neq-constant-not-swapped", "        if (ifnjmp == JOP_JUMP_IF_NIL && janet_checktype(cond.constant, JANET_NIL)) swap_condition = 1;\n", "", "selected branch|other branch|result slot"),
     M("shortcut-ignores-function", "    if (tag != fun_tag) return 0;\n", "", "condition is compiled first|selected branch|other branch|result slot")],
    [A_VALUE, A_RA, A_GROW, A_THROW, A_INTERP, A_ERR],
    defines=["-DSP_IF_SHAPE=1"]))

json.dump({"units": units}, open(os.path.join(VERIF, "units", "C02_specials.json"), "w"), indent=1)
print("wrote %d units" % len(units))
