#!/usr/bin/env python3
"""generates /verif/units/C02_specials.json: C02 contracts of the special-form compilers of specials.c
   (if, do, upscope, break, def, var, set, quote, splice, quasiquote, fn) - harness/comp_specials.c."""
import json, os

VERIF = os.path.dirname(os.path.dirname(os.path.abspath(__file__)))
CHECKS = ["bounds-check", "pointer-check", "signed-overflow-check"]

A_VALUE = ("janetc_value (sub-form compilation) is the contract stub sp_value_stub: it emits 0..2 arbitrary instruction words through the real "
           "janetc_emit, in tail position a return of the form's value, with a hint a copy (real janetc_copy) into the hint slot which "
           "becomes the result; the result is a constant (nil, false, true, 0, 7) or a local register; sub-forms compile without error")
A_RA = ("register allocation is abstracted: janetc_regalloc_1 returns any register 0..0xEF that does not hold a sub-form's value, "
        "janetc_regalloc_temp any of 0xF0..0xFF; init/clone/deinit keep only the max field; touch/free are recorded")
A_GROW = "the instruction and source-map vectors are preallocated with 40 entries; janet_v_grow is asserted unreachable (its growth path is proved in comp.srcmap.emit)"
A_THROW = "janetc_throwaway leaves no instruction and no mapping behind (proved in comp.srcmap.throwaway); here it records the dead form"
A_INTERP = ("the reference interpreter sp_run gives the opcodes JUMP, JUMP_IF, JUMP_IF_NOT, JUMP_IF_NIL, JUMP_IF_NOT_NIL, MOVE_NEAR, MOVE_FAR, LOAD_NIL/TRUE/FALSE/INTEGER, "
            "RETURN, RETURN_NIL the meaning documented for the virtual machine (proved for the real VM in the C15 vm units)")
A_ERR = "janetc_error / janetc_cerror record the error (status JANET_COMPILE_ERROR)"

BASE_REPLACE = [
    "janet_sfree:sp_sfree",
    "janetc_value:sp_value_stub",
    "janetc_throwaway:sp_throwaway_stub",
    "janetc_regalloc_init:sp_ra_init_stub",
    "janetc_regalloc_clone:sp_ra_clone_stub",
    "janetc_regalloc_deinit:sp_ra_deinit_stub",
    "janetc_regalloc_1:sp_ra_1_stub",
    "janetc_regalloc_temp:sp_ra_temp_stub",
    "janetc_regalloc_freetemp:sp_ra_freetemp_stub",
    "janetc_regalloc_touch:sp_ra_touch_stub",
    "janetc_regalloc_free:sp_ra_free_stub",
    "janetc_cerror:sp_cerror_stub",
    "janetc_error:sp_error_stub",
    "janet_v_grow:sp_nogrow_stub",
    "janetc_const:sp_const_stub",
    "janet_equals:sp_equals_stub",
]
COMPILE_KEEP = ["janetc_scope", "janetc_popscope", "janetc_popscope_keepslot", "janetc_cslot", "janetc_fopts_default", "janetc_gettarget", "janetc_freeslot"]
WRAP_KEEP = ["janet_wrap_nil", "janet_truthy", "janet_wrap_number"]


def M(name, find, replace, expect, file="specials.c", **kw):
    d = {"name": name, "file": file, "find": find, "replace": replace, "expect": expect}
    d.update(kw)
    return d


def unit(uid, entry, fn, clause, bound, mutants, assumes, tier="quick", defines=None, replace=None, compile_keep=None, wrap_keep=None,
         unwind=7, timeout=300, extra=None, functions=None, grow=None, override=None):
    ov = dict(override or {})
    if grow:
        ov["janet_v_grow"] = grow
    u = {"id": uid, "props": ["C02"], "tier": tier, "class": "bounded", "bound": bound, "clause": clause,
         "src": ["specials.c", "emit.c"], "link": ["compile.c", "wrap.c"],
         "link_keep": {"compile.c": compile_keep or COMPILE_KEEP, "wrap.c": wrap_keep or WRAP_KEEP},
         "harness": ["comp_specials.c"], "entry": entry, "mode": "plain", "nanbox": False,
         "functions": functions or [fn, "janetc_scope", "janetc_popscope", "janetc_emit", "janetc_copy"],
         "replace_calls": [((r.split(":")[0] + ":" + ov[r.split(":")[0]]) if r.split(":")[0] in ov else r) for r in BASE_REPLACE if ov.get(r.split(":")[0], "") is not None] + (replace or []),
         "checks": CHECKS, "unwind": unwind, "unwindset": {"sp_run.0": 14}, "unwinding_assertions": True, "timeout": timeout,
         "assumes": assumes, "mutants": mutants, "defines": defines or []}
    if extra:
        u.update(extra)
    return u


units = []
BOUND_CTX = ("each sub-form emits 0..2 instructions and yields a constant (nil, false, true, 0, 7) or a local register; 2 instructions before the form; "
             "context: value used (with or without a near hint slot), value dropped, or tail position (tail and hint not combined); registers < 256; "
             "instruction vectors preallocated with 40 entries (no growth); execution of the emitted code bounded by 16 steps (asserted sufficient)")

# ------------------------------------------------------------------ if
IF_CLAUSE = ("if: the condition is evaluated first and exactly once, then exactly one branch: the true branch iff the condition's value is neither nil "
             "nor false%s; both branches deliver their value to the same result slot (nil without else branch), in tail position the selected branch "
             "returns, a dropped value is not delivered; control continues right after the if; a constant condition leaves only the selected branch's code; "
             "scopes are closed, earlier code and sub-form code unchanged, source map in step")
IF_MUT = [
    M("false-condition-skips-else", "    c->buffer[labeljr] |= (labelr - labeljr) << 16;", "    c->buffer[labeljr] |= (labeld - labeljr) << 16;", "selected branch|result slot|other branch"),
    M("else-value-not-delivered", "    right = janetc_value(bodyopts, falsebody);\n    if (!drop && !tail) janetc_copy(c, target, right);",
      "    right = janetc_value(bodyopts, falsebody);", "result slot"),
    M("jump-over-else-off-by-one", "    if (!tail) c->buffer[labeljd] |= (labeld - labeljd) << 8;", "    if (!tail) c->buffer[labeljd] |= (labeld - labeljd + 1) << 8;", "continues|stays inside"),
    M("constant-false-is-truthy", "if (ifnjmp == JOP_JUMP_IF_NOT && !janet_truthy(cond.constant)) swap_condition = 1;",
      "if (ifnjmp == JOP_JUMP_IF_NOT && janet_checktype(cond.constant, JANET_NIL)) swap_condition = 1;", "selected branch|other branch|result slot"),
    M("condition-compiled-in-tail", "    condopts = janetc_fopts_default(c);\n    bodyopts = opts;", "    condopts = opts;\n    bodyopts = opts;", "condition is compiled for its value"),
]
IF_A = [A_VALUE, A_RA, A_GROW, A_THROW, A_INTERP, A_ERR, "the condition is not of the form (= nil x) / (not= nil x) (see comp.if.nilcheck)"]
IF_SHAPES = "(if c a), (if c a nil), (if c a b); "


def bound_ctx(ctx, kmax=2):
    return ("each sub-form emits 0..%d instructions" % kmax + " and yields a constant (nil, false, true, 0, 7) or a local register; 2 instructions before the form; "
            "context: " + ctx + "; registers < 32; instruction vectors preallocated with 32 entries (no growth); execution of the emitted code bounded "
            "by 12 steps (asserted sufficient)")


units.append(unit(
    "comp.if.used", "h_if", "janetc_if", IF_CLAUSE % "", IF_SHAPES + bound_ctx("value used, no hint slot, non-constant condition"),
    [IF_MUT[0], IF_MUT[1], IF_MUT[2]], IF_A, tier="thorough", timeout=900, defines=["-DSP_IF_SHAPE=0", "-DSP_CTX=0", "-DSP_CONDCONST=0", "-DSP_HINT=0"]))
units.append(unit(
    "comp.if.used.hint", "h_if", "janetc_if", IF_CLAUSE % "", IF_SHAPES + bound_ctx("value used, delivered into a hint slot (any register, possibly the register of a sub-form's value), non-constant condition"),
    [IF_MUT[0], M("hint-ignored", "    target = (drop || tail)\n             ? janetc_cslot(janet_wrap_nil())\n             : janetc_gettarget(opts);",
                  "    opts.flags &= ~JANET_FOPTS_HINT;\n    target = (drop || tail)\n             ? janetc_cslot(janet_wrap_nil())\n             : janetc_gettarget(opts);", "usable hint")],
    IF_A, tier="thorough", timeout=900, defines=["-DSP_IF_SHAPE=0", "-DSP_CTX=0", "-DSP_CONDCONST=0", "-DSP_HINT=1"]))
units.append(unit(
    "comp.if.used.const", "h_if", "janetc_if", IF_CLAUSE % "", IF_SHAPES + bound_ctx("value used (with or without hint slot), constant condition (nil, false, true, 0, 7)"),
    [IF_MUT[3], M("constant-branch-value-not-delivered", "        right = janetc_value(bodyopts, truebody);\n        if (!drop && !tail) janetc_copy(c, target, right);",
                  "        right = janetc_value(bodyopts, truebody);", "result slot"),
     M("dead-branch-compiled-in", "        if (!janet_checktype(falsebody, JANET_NIL)) {\n            janetc_throwaway(bodyopts, falsebody);", "        if (!janet_checktype(falsebody, JANET_NIL)) {\n            janetc_value(bodyopts, falsebody);", "other branch|dead branch|result slot")],
    IF_A, defines=["-DSP_IF_SHAPE=0", "-DSP_CTX=0", "-DSP_CONDCONST=1"]))
units.append(unit(
    "comp.if.drop", "h_if", "janetc_if", IF_CLAUSE % "", IF_SHAPES + bound_ctx("value dropped; constant or non-constant condition"),
    [IF_MUT[2], M("no-jump-over-else-when-dropped", "    if (!tail && !(drop && janet_checktype(falsebody, JANET_NIL))) janetc_emit(c, JOP_JUMP);", "    if (!tail && !drop) janetc_emit(c, JOP_JUMP);", "other branch|stays inside|continues")],
    IF_A, defines=["-DSP_IF_SHAPE=0", "-DSP_CTX=1"]))
units.append(unit(
    "comp.if.tail", "h_if", "janetc_if", IF_CLAUSE % "", IF_SHAPES + bound_ctx("tail position; constant or non-constant condition"),
    [IF_MUT[4], M("branches-lose-tail-position", "    bodyopts = opts;\n    bodyopts.flags &= ~JANET_FOPTS_ACCEPT_SPLICE;", "    bodyopts = opts;\n    bodyopts.flags &= ~(JANET_FOPTS_ACCEPT_SPLICE | JANET_FOPTS_TAIL);", "tail position|inherit"),
     IF_MUT[0]],
    IF_A, defines=["-DSP_IF_SHAPE=0", "-DSP_CTX=2"]))
units.append(unit(
    "comp.if.nilcheck", "h_if", "janetc_if",
    IF_CLAUSE % "; for a condition (= nil x) or (= x nil) the true branch iff x is nil, for (not= nil x) iff x is not nil (x evaluated once, the comparison not called); any other function (<) is an ordinary condition",
    "condition (f nil x) or (f x nil) with f a function tagged =, not= or <; every sub-form emits exactly 1 instruction (the layouts with 0..2 are covered by comp.if.used/.drop/.tail); " + bound_ctx("value used (with or without hint), dropped or tail"),
    [M("eq-shortcut-inverted", "        ifnjmp = JOP_JUMP_IF_NOT_NIL;\n    } else if", "        ifnjmp = JOP_JUMP_IF_NIL;\n    } else if", "selected branch|other branch|result slot"),
     M("neq-constant-not-swapped", "        if (ifnjmp == JOP_JUMP_IF_NIL && janet_checktype(cond.constant, JANET_NIL)) swap_condition = 1;\n", "", "selected branch|other branch|result slot"),
     M("shortcut-ignores-function", "    if (tag != fun_tag) return 0;\n", "", "condition is compiled first|selected branch|other branch|result slot")],
    [A_VALUE, A_RA, A_GROW, A_THROW, A_INTERP, A_ERR],
    tier="thorough", timeout=900, defines=["-DSP_IF_SHAPE=1", "-DSP_KFIX=1"]))

# ------------------------------------------------------------------ do / upscope
DO_CLAUSE = ("%s: the sub-forms are compiled and evaluated once each in order; every form but the last for effect only (value dropped and its register released, "
             "never in tail position); the last form inherits the context (tail, hint, drop) and its value is the value of the form (nil and no code when empty); %s")
DO_BOUND = "0..3 sub-forms whose results are constants, temporaries or named locals; " + bound_ctx("value used (with or without hint), dropped or tail position")
DO_A = [A_VALUE, A_RA, A_GROW, A_INTERP, A_ERR]
DO_UW = {"unwindset": {"sp_run.0": 14, "janetc_do.0": 4, "janetc_upscope.0": 4}}
units.append(unit(
    "comp.do", "h_do", "janetc_do",
    DO_CLAUSE % ("do", "the forms are compiled in a lexical scope of the do which is popped afterwards, the result register staying allocated in the enclosing scope"),
    DO_BOUND,
    [M("last-form-dropped-too", "        if (i != argn - 1) {\n            subopts.flags = JANET_FOPTS_DROP;\n        } else {\n            subopts = opts;\n            subopts.flags &= ~JANET_FOPTS_ACCEPT_SPLICE;\n        }\n        ret = janetc_value(subopts, argv[i]);\n        if (i != argn - 1) {\n            janetc_freeslot(c, ret);\n        }\n    }\n    janetc_popscope_keepslot",
       "        if (i != argn) {\n            subopts.flags = JANET_FOPTS_DROP;\n        } else {\n            subopts = opts;\n            subopts.flags &= ~JANET_FOPTS_ACCEPT_SPLICE;\n        }\n        ret = janetc_value(subopts, argv[i]);\n        if (i != argn - 1) {\n            janetc_freeslot(c, ret);\n        }\n    }\n    janetc_popscope_keepslot", "last form inherits|returns its value"),
     M("result-register-not-kept", "    janetc_popscope_keepslot(c, ret);\n    return ret;", "    janetc_popscope(c);\n    return ret;", "stays allocated"),
     M("dropped-register-leaked", "            janetc_freeslot(c, ret);\n        }\n    }\n    janetc_popscope_keepslot", "        }\n    }\n    janetc_popscope_keepslot", "is released"),
     M("no-scope", "    janetc_scope(&tempscope, c, 0, \"do\");\n", "", "plain lexical scope|scope the form opened")],
    DO_A, extra=DO_UW))
units.append(unit(
    "comp.upscope", "h_do", "janetc_upscope",
    DO_CLAUSE % ("upscope", "no scope is opened: the forms are compiled in the enclosing scope"),
    DO_BOUND,
    [M("upscope-all-dropped", "    for (i = 0; i < argn; i++) {\n        if (i != argn - 1) {\n            subopts.flags = JANET_FOPTS_DROP;\n        } else {\n            subopts = opts;\n            subopts.flags &= ~JANET_FOPTS_ACCEPT_SPLICE;\n        }\n        ret = janetc_value(subopts, argv[i]);\n        if (i != argn - 1) {\n            janetc_freeslot(c, ret);\n        }\n    }\n    return ret;",
       "    for (i = 0; i < argn; i++) {\n        if (i != argn - 1) {\n            subopts.flags = JANET_FOPTS_DROP;\n        } else {\n            subopts = opts;\n            subopts.flags &= ~JANET_FOPTS_ACCEPT_SPLICE;\n        }\n        ret = janetc_value(subopts, argv[i]);\n        if (i != argn - 1) {\n            janetc_freeslot(c, ret);\n        }\n    }\n    return janetc_cslot(janet_wrap_nil());", "value of the do is the value of its last form"),
     M("upscope-order-reversed", "        ret = janetc_value(subopts, argv[i]);\n        if (i != argn - 1) {\n            janetc_freeslot(c, ret);\n        }\n    }\n    return ret;",
       "        ret = janetc_value(subopts, argv[argn - 1 - i]);\n        if (i != argn - 1) {\n            janetc_freeslot(c, ret);\n        }\n    }\n    return ret;", "in order|last form")],
    DO_A, defines=["-DSP_UPSCOPE=1"], extra=DO_UW))

# ------------------------------------------------------------------ break
units.append(unit(
    "comp.break", "h_break", "janetc_break",
    "break: leaves the NEAREST enclosing loop or function: inside a loop the value form is evaluated, dropped and control goes to the loop exit (placeholder patched by "
    "while; the loop yields nil), inside a loop compiled as function likewise with a return of nil, inside a function body it returns the value (nil without); "
    "outside of both, or with two arguments, a compile error and no code; the form itself yields nil; scopes untouched",
    "chains of 1..3 scopes with arbitrary FUNCTION / WHILE / CLOSURE / ENV / TOP flags; 0..2 arguments; " + bound_ctx("any"),
    [M("loop-function-returns-value", "        if (!(scope->flags & JANET_SCOPE_WHILE) && argn) {", "        if (argn) {", "leaves the loop function with nil|value of a loop break"),
     M("break-crosses-function", "        if (scope->flags & (JANET_SCOPE_FUNCTION | JANET_SCOPE_WHILE))\n            break;\n        scope = scope->parent;\n    }\n    if (NULL == scope) {",
       "        if (scope->flags & JANET_SCOPE_WHILE)\n            break;\n        scope = scope->parent;\n    }\n    if (NULL == scope) {", "function body|compile error|well-placed"),
     M("placeholder-untagged", "        janetc_emit(c, 0x80 | JOP_JUMP);", "        janetc_emit(c, JOP_JUMP);", "placeholder|stays inside"),
     M("value-not-evaluated-in-loop", "        if (argn) {\n            subopts.flags |= JANET_FOPTS_DROP;\n            janetc_value(subopts, argv[0]);\n        }\n        /* Tag", "        /* Tag", "compiled once|evaluated before")],
    [A_VALUE, A_RA, A_GROW, A_INTERP, A_ERR]))

# ------------------------------------------------------------------ def / var / set
BIND_KEEP = COMPILE_KEEP + ["janetc_farslot", "janetc_nameslot"]
A_GROW2 = A_GROW + "; the one-element vectors of a binding (SlotHeadPair, SymPair) are preallocated too (sp_grow_stub)"
BIND_BOUND = ("(%s name value) with a symbol as name, in a local (non top-level) scope; the value is a constant, a temporary, a named definition or a named variable; " +
              bound_ctx("value used (with or without hint), dropped or tail position"))
BIND_CLAUSE = ("%s: the value form is compiled and evaluated exactly once (never dropped, never as tail call), the name is added to the current scope as %s binding whose "
               "slot holds the value after execution; %s; the form yields the bound value; no scope is opened")
units.append(unit(
    "comp.def.local", "h_def", "janetc_def",
    BIND_CLAUSE % ("def", "an immutable", "the binding may share the value's register only when that is not a variable (a later set of the variable must not change the definition)"),
    BIND_BOUND % "def",
    [M("def-aliases-variable", "    int canAlias = !(flags & JANET_SLOT_MUTABLE) &&\n                   !(ret.flags & JANET_SLOT_MUTABLE) &&", "    int canAlias = !(flags & JANET_SLOT_MUTABLE) &&", "never aliases a variable"),
     M("def-value-dropped", "    subopts.flags = opts.flags & ~(JANET_FOPTS_TAIL | JANET_FOPTS_DROP);", "    subopts.flags = opts.flags & ~JANET_FOPTS_DROP;", "not compiled as tail call"),
     M("def-copy-skipped", "        JanetSlot localslot = janetc_farslot(c);\n        janetc_copy(c, localslot, ret);", "        JanetSlot localslot = janetc_farslot(c);", "bound to the value")],
    [A_VALUE, A_RA, A_GROW2, A_INTERP, A_ERR, "janet_table (attribute table) returns an arbitrary pointer; it is not used for a local binding without metadata"],
    compile_keep=BIND_KEEP, grow="sp_grow_stub", functions=["janetc_def", "dohead_destructure", "destructure", "defleaf", "namelocal", "janetc_nameslot", "janetc_copy"]))
units.append(unit(
    "comp.var.local", "h_def", "janetc_var",
    BIND_CLAUSE % ("var", "a mutable", "a new variable never shares its register with another named binding nor with the variable that receives the form's value"),
    BIND_BOUND % "var",
    [M("var-not-mutable", "        return namelocal(c, sym, JANET_SLOT_MUTABLE, s);", "        return namelocal(c, sym, 0, s);", "binding is mutable|never shares"),
     M("var-aliases-named", "    } else if (!isUnnamedRegister) {\n        /* Slot is not able to be named */", "    } else if (!isUnnamedRegister && !(ret.flags & JANET_SLOT_NAMED)) {\n        /* Slot is not able to be named */", "never shares|does not live in the register")],
    [A_VALUE, A_RA, A_GROW2, A_INTERP, A_ERR, "janet_table (attribute table) returns an arbitrary pointer; it is not used for a local binding without metadata"],
    compile_keep=BIND_KEEP, grow="sp_grow_stub", defines=["-DSP_VAR=1"], functions=["janetc_var", "dohead_destructure", "destructure", "varleaf", "namelocal", "janetc_nameslot", "janetc_copy"]))
SET_KEEP = COMPILE_KEEP + ["janetc_resolve", "lookup_missing"]
units.append(unit(
    "comp.set.name", "h_set", "janetc_varset",
    "set: assigning to a name evaluates the value form once and moves the value into the variable's register (local variable) or stores it into the ref cell bound to the name "
    "(top-level variable); the form yields the assigned value; assigning to a definition is a compile error and emits nothing",
    "(set a v) where a resolves in the current scope to a local variable, a local definition or a top-level variable (ref cell); " + bound_ctx("value used (with or without hint), dropped or tail position"),
    [M("set-on-def-allowed", "        if (!(dest.flags & JANET_SLOT_MUTABLE)) {", "        if (0) {", "definition is a compile error"),
     M("set-without-store", "        subopts.flags = JANET_FOPTS_HINT;\n        subopts.hint = dest;\n        JanetSlot ret = janetc_value(subopts, argv[1]);\n        janetc_copy(opts.compiler, dest, ret);",
       "        subopts.hint = dest;\n        JanetSlot ret = janetc_value(subopts, argv[1]);", "holds the new value|stored into the ref cell"),
     M("set-value-tail", "        subopts.flags = JANET_FOPTS_HINT;\n        subopts.hint = dest;", "        subopts.flags = JANET_FOPTS_HINT | (opts.flags & JANET_FOPTS_TAIL);\n        subopts.hint = dest;", "not as tail call")],
    [A_VALUE, A_RA, A_GROW, A_INTERP, A_ERR, "janetc_const (constant table of the function) returns index 0 and records the constant: the only table constant is the ref cell array; LOAD_CONSTANT 0 yields it",
     "the name is found in the current scope (real janetc_resolve, first loop); global lookup and upvalue capture are not exercised"],
    compile_keep=SET_KEEP, replace=["janetc_lintf:sp_lintf_stub"], functions=["janetc_varset", "janetc_resolve", "janetc_copy"]))
units.append(unit(
    "comp.set.field", "h_set", "janetc_varset",
    "set: (set (ds key) v) evaluates ds, then key, then v, once each, none dropped or in tail position, then puts v under key into ds (one PUT after all three evaluations) and yields v; "
    "an l-value tuple of another length is a compile error and emits nothing",
    "(set (ds key) v) and (set (ds key extra) v); " + bound_ctx("value used (with or without hint), dropped or tail position", 1),
    [M("put-operands-swapped", "        janetc_emit_sss(opts.compiler, JOP_PUT, ds, key, rvalue, 0);", "        janetc_emit_sss(opts.compiler, JOP_PUT, ds, rvalue, key, 0);", "exactly one put"),
     M("key-before-ds", "        JanetSlot ds = janetc_value(subopts, tup[0]);\n        JanetSlot key = janetc_value(subopts, tup[1]);", "        JanetSlot key = janetc_value(subopts, tup[1]);\n        JanetSlot ds = janetc_value(subopts, tup[0]);", "in this order|then key"),
     M("value-may-be-tail", "        opts.flags &= ~(JANET_FOPTS_TAIL | JANET_FOPTS_DROP);", "        opts.flags &= ~JANET_FOPTS_DROP;", "none compiled as tail call|control continues")],
    [A_VALUE, A_RA, A_GROW, A_INTERP, A_ERR, "PUT a b c stores reg c under key reg b into reg a (reference interpreter)"],
    compile_keep=COMPILE_KEEP, replace=["janetc_resolve:sp_resolve_unreach_stub"], defines=["-DSP_SET_SHAPE=1", "-DSP_HINT=0", "-DSP_KMAX=1"], functions=["janetc_varset", "janetc_emit_sss"]))
units[-1]["bound"] = units[-1]["bound"].replace("value used (with or without hint)", "value used (no hint slot: see comp.set.field.hint)")
units.append(unit(
    "comp.set.field.hint", "h_set", "janetc_varset",
    "set: (set (ds key) v) whose own value is delivered into a variable (hint slot), e.g. (set x (set (ds key) v)): ds, key and v are evaluated in order and v is put under key into ds "
    "even when ds or key is the receiving variable itself; the form yields v",
    "(set (ds key) v) compiled with a hint slot (any register below 24; a sub-form whose value lives in that register is that variable); " + bound_ctx("value used with hint", 1),
    [M("put-operands-swapped", "        janetc_emit_sss(opts.compiler, JOP_PUT, ds, key, rvalue, 0);", "        janetc_emit_sss(opts.compiler, JOP_PUT, ds, rvalue, key, 0);", "exactly one put")],
    [A_VALUE, A_RA, A_GROW, A_INTERP, A_ERR, "PUT a b c stores reg c under key reg b into reg a (reference interpreter)"],
    compile_keep=COMPILE_KEEP, replace=["janetc_resolve:sp_resolve_unreach_stub"], defines=["-DSP_SET_SHAPE=1", "-DSP_CTX=0", "-DSP_HINT=1", "-DSP_KMAX=1"], functions=["janetc_varset", "janetc_emit_sss"],
    extra={"finding": "FAILS on the pinned tree (genuine defect): janetc_varset keeps JANET_FOPTS_HINT for the value form, so v is written into the receiving variable before the PUT "
                      "reads ds / key. Reproducers: (defn f [] (var x @{}) (set x (set (x :k) 5)) x) (f) -> error 'expected array, table or buffer, got 5'; "
                      "(defn g [] (var x @{}) (def t x) (var k :a) (set k (set (x k) 5)) [k t]) (g) -> (5 @{5 5}) instead of (5 @{:a 5})"}))

# ------------------------------------------------------------------ quote / splice / quasiquote
units.append(unit(
    "comp.quote", "h_quote", "janetc_quote",
    "quote: (quote x) is the constant x itself for any datum x; nothing is compiled or emitted; any other argument count is a compile error",
    "0..2 arguments, x any type tag and payload; " + bound_ctx("any"),
    [M("quote-yields-nil", "    return janetc_cslot(argv[0]);\n}", "    return janetc_cslot(janet_wrap_nil());\n}", "constant x itself"),
     M("quote-arity-unchecked", "    if (argn != 1) {\n        janetc_cerror(opts.compiler, \"expected 1 argument to quote\");", "    if (argn < 1) {\n        janetc_cerror(opts.compiler, \"expected 1 argument to quote\");", "exactly one argument")],
    [A_GROW, A_ERR, "janetc_cslot(x) is the constant slot of x (real code)"], functions=["janetc_quote", "janetc_cslot"]))
units.append(unit(
    "comp.splice", "h_splice", "janetc_splice",
    "splice: (splice x) is only accepted where the enclosing form takes a list of values (flag ACCEPT_SPLICE), with exactly one argument - otherwise a compile error and no code; "
    "x is compiled once in the context of the splice form and its slot is returned marked as spliced",
    "0..2 arguments; " + bound_ctx("any, with and without ACCEPT_SPLICE"),
    [M("splice-accepted-anywhere", "    if (!(opts.flags & JANET_FOPTS_ACCEPT_SPLICE)) {", "    if (0) {", "compile error and emits nothing"),
     M("splice-flag-lost", "    ret.flags |= JANET_SLOT_SPLICED;\n    return ret;", "    return ret;", "marked as spliced")],
    [A_VALUE, A_RA, A_GROW, A_INTERP, A_ERR], functions=["janetc_splice"]))
for QT, QTXT in ((0, "~(a ,f2 (quasiquote (unquote a3)))"), (1, "~((foo a1) ,f2 a3)"), (2, "~(,f1 ,f2 a3)"), (3, "~((unquote) a2 ,f3)")):
  units.append(unit(
    "comp.quasiquote.t%d" % QT, "h_quasiquote", "quasiquote",
    "quasiquote: a datum is itself; (unquote f) at level 0 evaluates f (for its value, splice accepted) and everything else is data: a tuple / bracketed tuple / array template is "
    "rebuilt at run time by the same kind of constructor from its elements in order - data elements as constants, unquoted elements as their values (a spliced value stays "
    "spliced), nested tuples rebuilt recursively; an unquote without argument is data; an unquote under a nested quasiquote belongs to that level and is not evaluated; "
    "unquoted forms are evaluated left to right, once; templates nested deeper than the recursion guard are a compile error",
    "templates: a bare datum, a bare (unquote f), or the first 0..3 elements of " + QTXT + " as tuple, bracket tuple or array (unquoted values constant, register or spliced); "
    "recursion guard 0..4 or the default 1024; tables and structs not exercised; " + bound_ctx("any"),
    [M("unquote-at-inner-level-evaluated", "                    if (level == 0) {\n                        JanetFopts subopts = janetc_fopts_default(opts.compiler);", "                    if (level <= 1) {\n                        JanetFopts subopts = janetc_fopts_default(opts.compiler);", "deeper quasiquote level|nested tuple is rebuilt"),
     M("nested-quasiquote-level-not-counted", "                } else if (!janet_cstrcmp(head, \"quasiquote\")) {\n                    level++;", "                } else if (!janet_cstrcmp(head, \"quasiquote\")) {\n                    level += 0;", "deeper quasiquote level|nested tuple is rebuilt"),
     M("bracket-kind-lost", "            return qq_slots(opts, slots, (janet_tuple_flag(tup) & JANET_TUPLE_FLAG_BRACKETCTOR)\n                            ? JOP_MAKE_BRACKET_TUPLE", "            return qq_slots(opts, slots, (janet_tuple_flag(tup) & JANET_TUPLE_FLAG_BRACKETCTOR)\n                            ? JOP_MAKE_TUPLE", "same kind of sequence"),
     M("depth-guard-off-by-one", "    if (depth == 0) {\n        janetc_cerror(opts.compiler, \"quasiquote too deeply nested\");", "    if (depth < 0) {\n        janetc_cerror(opts.compiler, \"quasiquote too deeply nested\");", "deeper than the guard"),
     M("unquote-splice-not-accepted", "                        subopts.flags |= JANET_FOPTS_ACCEPT_SPLICE;\n                        return janetc_value(subopts, tup[1]);", "                        return janetc_value(subopts, tup[1]);", "splice is accepted"),
     M("elements-reversed", "            for (i = 0; i < len; i++)\n                janet_v_push(slots, quasiquote(subopts, tup[i], depth - 1, level));", "            for (i = 0; i < len; i++)\n                janet_v_push(slots, quasiquote(subopts, tup[len - 1 - i], depth - 1, level));", "element|left to right")],
    [A_VALUE, A_GROW + "; slot vectors of the constructors come from a pool of 6 preallocated vectors", A_ERR,
     "janetc_pushslots / janetc_freeslots / janetc_emit_s are recording stubs: a constructor is the event push(elements); make-op target",
     "janet_cstrcmp compares the interned symbols unquote / quasiquote by identity; fresh registers are 0, 1, 2, ... (never the live hint register)"],
    replace=["janet_cstrcmp:sp_cstrcmp_stub", "janetc_pushslots:sp_pushslots_stub", "janetc_freeslots:sp_freeslots_stub", "janetc_emit_s:sp_emit_s_stub",
             "janet_dictionary_view:sp_dictview_stub", "janet_dictionary_next:sp_dictnext_stub"],
    grow="sp_grow_qq_stub", override={"janetc_regalloc_1": "sp_ra_1_seq_stub"}, functions=["quasiquote", "qq_slots", "janetc_quasiquote", "janetc_gettarget"],
    defines=["-DSP_QQ_TEMPLATE=%d" % QT], extra={"unwindset": {"sp_run.0": 14, "quasiquote.0": 4, "quasiquote.1": 4}}))
QQM = units[-4]["mutants"]
units[-4]["mutants"] = [QQM[0], QQM[1], QQM[3], QQM[5]]
units[-3]["mutants"] = [QQM[2], QQM[3], QQM[5]]
units[-2]["mutants"] = [QQM[4], QQM[5], QQM[2]]
units[-1]["mutants"] = [QQM[5], M("unquote-arity-unchecked", "            if (len > 1 && janet_checktype(tup[0], JANET_SYMBOL)) {", "            if (len > 0 && janet_checktype(tup[0], JANET_SYMBOL)) {", "argument-less unquote|nested tuple is rebuilt|bounds|pointer")]

# ------------------------------------------------------------------ fn: parameter list
FN_TAILS = [(0, "none", "no tail"), (1, "rest", "& rest"), (2, "extra", "& alone (extra arguments ignored)"), (3, "keys", "&keys k"), (4, "named1", "&named n1"), (5, "named2", "&named n1 n2"), (None, "body", None)]
FN_MUT = {}
for FT, FTN, FTX in FN_TAILS:
  units.append(unit(
    "comp.fn." + FTN, "h_fn", "janetc_fn",
    "fn: for every parameter list of the documented grammar - fixed* [&opt opt+] [& rest | & | &keys k | &named n+] - arity counts the positional parameters, min arity those before &opt, "
    "max arity is arity unless &, &keys or &named accept more, VARARG / STRUCTARG say how the remaining arguments are collected; positional parameter k, then the rest parameter or "
    "&keys struct, is bound to register k (where the VM puts argument k), named parameters are destructured from the struct in register arity; the body is compiled in the new "
    "function scope in order, last form in tail position (empty body returns nil); the enclosing code gets exactly one CLOSURE of the registered definition and is marked as creating a closure; "
    "a symbol name allows self reference, a name is recorded in the definition",
    (("all 9 parameter lists with 0..2 fixed and 0..2 optional symbol parameters and tail " + FTX + "; unnamed function, one body form; ") if FT is not None else
     "parameter lists [p0] and [p0 & p1]; unnamed / symbol-named / keyword-named; 0..2 body forms; ") + "destructured (non-symbol) parameters not exercised; " + bound_ctx("any"),
    [M("rest-counts-as-positional", "                        vararg = 1;\n                        arity -= 2;\n                    } else {\n                        errmsg = \"& in unexpected location\";", "                        vararg = 1;\n                        arity -= 1;\n                    } else {\n                        errmsg = \"& in unexpected location\";", "arity = number of positional"),
     M("min-arity-off-by-one", "                    min_arity = i;\n                    arity--;", "                    min_arity = i + 1;\n                    arity--;", "min arity"),
     M("keys-not-structarg", "                        vararg = 1;\n                        structarg = 1;\n                        arity -= 2;", "                        vararg = 1;\n                        arity -= 2;", "STRUCTARG iff"),
     M("extra-args-rejected", "    max_arity = (vararg || allow_extra) ? INT32_MAX : arity;", "    max_arity = vararg ? INT32_MAX : arity;", "max arity"),
     M("min-arity-zero-without-opt", "    if (!seenopt) min_arity = arity;\n", "", "min arity"),
     M("body-order-reversed", "            JanetSlot s = janetc_value(subopts, argv[argi]);", "            JanetSlot s = janetc_value(subopts, argv[argn - 1 - (argi - parami - 1)]);", "in order|tail position"),
     M("closure-flag-missing", "    c->scope->flags |= JANET_SCOPE_CLOSURE;\n    janetc_scope(&fnscope, c, JANET_SCOPE_FUNCTION, \"function\");", "    janetc_scope(&fnscope, c, JANET_SCOPE_FUNCTION, \"function\");", "marked as creating a closure")],
    [A_VALUE, A_GROW + "; the symbol vector of the function scope and the named-parameter slot vector are preallocated (sp_grow_fn_stub)", A_ERR,
     "fresh registers are 0, 1, 2, ... in allocation order (janetc_regalloc_1 of an empty function register file)",
     "janetc_pop_funcdef takes the function scope's code out of the buffer, pops the scope and returns a definition with slotcount = registers handed out; janetc_addfuncdef registers it and returns its index; janet_def_addflags is a no-op",
     "destructure (proved in comp.destructure.*) is a recording stub; janet_table / janet_table_put (keyword -> symbol table of named parameters) are recording stubs; janet_cstrcmp compares the interned marker symbols by identity"],
    compile_keep=COMPILE_KEEP + ["janetc_farslot", "janetc_nameslot"],
    replace=["janet_cstrcmp:sp_cstrcmp_fn_stub", "destructure:sp_destructure_stub", "janet_table:sp_table_stub", "janet_table_put:sp_table_put_stub",
             "janetc_pop_funcdef:sp_pop_funcdef_fn_stub", "janetc_addfuncdef:sp_addfuncdef_fn_stub", "janet_def_addflags:sp_addflags_stub"],
    grow="sp_grow_fn_stub", override={"janetc_regalloc_1": "sp_ra_1_seq_stub"}, wrap_keep=WRAP_KEEP + ["janet_wrap_keyword", "janet_wrap_table", "janet_unwrap_symbol"],
    functions=["janetc_fn", "janetc_farslot", "janetc_nameslot", "janetc_scope"],
    unwind=10, defines=(["-DSP_FN_TAIL=%d" % FT] if FT is not None else [])))
  FM = units[-1]["mutants"]
  units[-1]["mutants"] = {0: [FM[1], FM[4]], 1: [FM[0], FM[1]], 2: [FM[3], FM[4]], 3: [FM[2], FM[1]], 4: [FM[1], FM[3]], 5: [FM[4], FM[0]], None: [FM[5], FM[6], FM[0]]}[FT]
units[-2]["mutants"][1] = M("named-struct-not-in-arity-slot", "                    namedargs = 1;\n                    named_table = janet_table(10);\n                    named_slot = janetc_farslot(c);", "                    namedargs = 1;\n                    named_table = janet_table(10);\n                    janetc_farslot(c);\n                    named_slot = janetc_farslot(c);", "register arity")
units[-3]["mutants"][1] = M("named-not-structarg", "                    vararg = 1;\n                    structarg = 1;\n                    arity--;\n                    seenamp = 1;\n                    namedargs = 1;", "                    vararg = 1;\n                    arity--;\n                    seenamp = 1;\n                    namedargs = 1;", "STRUCTARG iff")

# ------------------------------------------------------------------ def / var at top level
TOP_REPLACE = ["janet_table:sp_table_top_stub", "janet_table_clone:sp_table_clone_stub", "janet_table_put:sp_table_put_rec_stub", "janet_table_get:sp_table_get_stub",
               "janet_csymbol:sp_csymbol_stub", "janetc_make_sourcemap:sp_make_sourcemap_stub", "janet_resolve_ext:sp_resolve_ext_stub", "janet_array:sp_array_stub",
               "janet_array_push:sp_array_push_stub", "janetc_emit_sss:sp_emit_sss_rec_stub", "janetc_emit_ssu:sp_emit_ssu_rec_stub"]
TOP_A = [A_VALUE, A_RA, A_GROW2, A_ERR,
         "tables and arrays are recording stubs: janet_table (metadata) / janet_table_clone (entry) return fixed objects, janet_table_put is logged, janet_table_get answers the :redef flag, "
         "janet_resolve_ext the old binding of the name (none, def, var, redefinable def), janet_array / janet_array_push the new ref cell, janet_csymbol interns a C string as itself",
         "janetc_emit_sss / janetc_emit_ssu record their operands and emit one instruction (their encoding is proved in the emit units)"]
TOP_KEEP = BIND_KEEP
TOP_WRAP = WRAP_KEEP + ["janet_wrap_keyword", "janet_wrap_table", "janet_wrap_array", "janet_wrap_tuple", "janet_wrap_symbol", "janet_wrap_true", "janet_unwrap_array"]
units.append(unit(
    "comp.def.top", "h_def_top", "janetc_def",
    "def at top level: the value form is compiled once for its value; the environment maps the name to ONE new entry (copy of the metadata, source position); at run time the value is put "
    "under :value into that entry - or, with :redef, stored into element 0 of the entry's ref cell (the old cell when the name was a redefinable definition, else a new [nil] cell); "
    "the name is also bound for the rest of the chunk",
    "(def name value) in the top-level scope; :redef on or off; old binding none / def / var / redefinable def; " + bound_ctx("any"),
    [M("value-put-under-wrong-key", "            JanetSlot valsym = janetc_cslot(janet_ckeywordv(\"value\"));", "            JanetSlot valsym = janetc_cslot(janet_ckeywordv(\"ref\"));", "put under :value"),
     M("env-entry-not-written", "        /* Add env entry to env */\n        janet_table_put(c->env, janet_wrap_symbol(sym), janet_wrap_table(entry));", "        /* Add env entry to env */", "entered into the environment"),
     M("redef-always-new-cell", "            if (binding.type == JANET_BINDING_DYNAMIC_DEF || binding.type == JANET_BINDING_DYNAMIC_MACRO) {", "            if (0) {", "holds a ref cell|stored into element 0")],
    TOP_A, compile_keep=TOP_KEEP, wrap_keep=TOP_WRAP, replace=TOP_REPLACE, grow="sp_grow_stub", functions=["janetc_def", "defleaf", "namelocal", "dohead_destructure", "destructure"]))
units.append(unit(
    "comp.var.top", "h_def_top", "janetc_var",
    "var at top level: the value form is compiled once for its value; the environment maps the name to ONE new entry holding the ref cell - a new [nil] array, or with :redef the cell of the "
    "variable being redefined; at run time the value is stored into element 0 of that cell; no local is created",
    "(var name value) in the top-level scope; :redef on or off; old binding none / def / var / redefinable def; " + bound_ctx("any"),
    [M("var-store-wrong-index", "        janetc_emit_ssu(c, JOP_PUT_INDEX, refslot, s, 0, 0);\n        return 1;\n    } else {", "        janetc_emit_ssu(c, JOP_PUT_INDEX, refslot, s, 1, 0);\n        return 1;\n    } else {", "element 0 of the ref cell"),
     M("var-redef-ignores-old-cell", "        if (is_redef && (old_binding = janet_resolve_ext(c->env, sym),\n                         old_binding.type == JANET_BINDING_VAR)) {", "        if (0 && (old_binding = janet_resolve_ext(c->env, sym),\n                         old_binding.type == JANET_BINDING_VAR)) {", "holds the ref cell|new cell is created"),
     M("var-ref-not-in-entry", "        janet_table_put(entry, janet_ckeywordv(\"ref\"), janet_wrap_array(ref));\n        janet_table_put(entry, janet_ckeywordv(\"source-map\"),", "        janet_table_put(entry, janet_ckeywordv(\"source-map\"),", "holds the ref cell")],
    TOP_A, compile_keep=TOP_KEEP, wrap_keep=TOP_WRAP, replace=TOP_REPLACE, grow="sp_grow_stub", defines=["-DSP_VAR=1"], functions=["janetc_var", "varleaf", "dohead_destructure", "destructure"]))

# ------------------------------------------------------------------ if in a fresh compiler (memory safety of the label patching)
units.append(unit(
    "comp.if.drop.fresh", "h_if_fresh", "janetc_if",
    "if: compiling (if c a) with dropped value as the first code of a compiler (no instruction vector yet, real janet_v_grow) touches the instruction vector only inside its allocation; "
    "the code is the condition and one conditional jump to the instruction after the if",
    "(if c a), value dropped, no else branch; the condition a local or one instruction of code, the branch a constant; empty compiler (vectors NULL), real janet_v_grow with realloc never failing",
    [M("jump-target-off-by-one", "    c->buffer[labeljr] |= (labelr - labeljr) << 16;", "    c->buffer[labeljr] |= (labelr - labeljr + 1) << 16;", "skips to the instruction after")],
    [A_VALUE, A_RA, A_ERR, "janet_srealloc is realloc that never fails; janet_sfree is a no-op"],
    override={"janet_v_grow": None}, replace=["janet_srealloc:sp_srealloc"], functions=["janetc_if", "janetc_emit", "janet_v_grow"],
    extra={"src": ["specials.c", "emit.c", "vector.c"],
           "finding": "FAILS on the pinned tree (genuine defect, memory safety): specials.c janetc_if `if (!tail) c->buffer[labeljd] |= (labeld - labeljd) << 8;` also runs when no JUMP was "
                      "emitted (value dropped and no else branch): labeljd == count, a 4-byte read-modify-write one element past the vector when count == capacity (1 or 2 instructions). "
                      "Reproducer: valgrind /repo/_build/janet -e '(fn [x] (if x 1) 2)' -> Invalid read of size 4 at janetc_if (specials.c:675), 0 bytes after the block allocated by janet_v_grow"}))


# the two defects these units exposed are repaired (/repo 92200f8, 22a764c): the `finding` notes become revert mutants
for _u in units:
    if _u["id"] == "comp.set.field.hint":
        _u.pop("finding", None)
        _u["mutants"] = _u.get("mutants", []) + [{"name": "revert-22a764c-hint-honoured", "file": "specials.c", "find": "        opts.flags &= ~(JANET_FOPTS_TAIL | JANET_FOPTS_DROP | JANET_FOPTS_HINT);", "replace": "        opts.flags &= ~(JANET_FOPTS_TAIL | JANET_FOPTS_DROP);", "expect": "exactly one put|comp.set"}]
    if _u["id"] == "comp.if.drop.fresh":
        _u.pop("finding", None)
        _u["mutants"] = _u.get("mutants", []) + [{"name": "revert-92200f8-patch-without-jump", "file": "specials.c", "find": "    if (jump_emitted) c->buffer[labeljd] |= (labeld - labeljd) << 8;", "replace": "    if (!tail) c->buffer[labeljd] |= (labeld - labeljd) << 8;", "expect": "pointer|bounds|dereference"}]
json.dump({"units": units}, open(os.path.join(VERIF, "units", "C02_specials.json"), "w"), indent=1)
print("wrote %d units" % len(units))
