#!/usr/bin/env python3
"""generates units/C01_symcache.json: C01 / C03 - the symbol intern cache (symcache.c): findmem, put, resize, deinit, janet_symbol lookup path"""
import json, os
V = os.path.dirname(os.path.dirname(os.path.abspath(__file__)))
CHECKS = ["bounds-check", "pointer-check", "signed-overflow-check", "div-by-zero-check", "pointer-primitive-check", "undefined-shift-check"]
CAD = ["--sat-solver", "cadical"]
units = []

def unit(id, clause, entry, cls="bounded", tier="quick", **kw):
    u = {"id": id, "tier": tier, "class": cls, "clause": clause, "entry": entry}
    u.update(kw)
    units.append(u)

def mut(name, find, replace, expect, **kw):
    d = {"name": name, "file": "symcache.c", "find": find, "replace": replace, "expect": expect}
    d.update(kw)
    return d

UNIV = ("abstract text universe: K different texts; a symbol object is a real JanetStringHead block whose header carries the length and hash of its text, the bytes are not modelled; "
        "janet_string_equalconst replaced by its contract 'same text' (the stub asserts that callers pass the length and hash of the string looked for); "
        "the string hash (janet_string_calchash / cached header hash) and the length are ARBITRARY functions of the text (symbolic tables, all 2^32 hash values per text)")
WF = ("precondition wf_cache: capacity a power of two >= 4, cache an exact heap block; each slot NULL, the tombstone JANET_SYMCACHE_DELETED or a symbol object; no two live entries with the same text; "
      "every live entry reachable from its home slot by linear probing with wrap-around without crossing NULL (tombstones do not stop a probe); cache_count exact, cache_deleted >= number of tombstones "
      "(it is only an upper bound in the real code); 2*(cache_count+cache_deleted) <= capacity+2; at least one slot not live")
EXITS = "abort()/exit() (findmem's 'symcache failed to get memory', out of memory) are obligations: they must be unreachable"
S = dict(src=["symcache.c"], link=["util.c"], link_keep={"util.c": ["janet_tablen"]}, harness=["symcache_ops.c"], cbmc=CAD)
KOF = {4: 4, 8: 6}                 # more texts than a cache under the load clause holds live (cap/2 + 1), + 1
def D(cap, k=None, *more):
    return ["-DVC_OWN_EXIT", "-DSY_CAP=%d" % cap, "-DSY_K=%d" % (k or KOF[cap])] + list(more)
def bound(cap, k=None, extra=""):
    return ("cache capacity %d: ALL well-formed caches (any mix of live entries, tombstones and NULL slots allowed by the load clause; cache_deleted any upper bound); universe of %d texts with arbitrary "
            "hash and length functions (every home-slot / collision pattern); unbounded operation history (inductive invariant)%s" % (cap, k or KOF[cap], extra))

MOVE = "                if (firstEmpty != NULL) {\n                    *firstEmpty = test;\n                    janet_vm.cache[i] = JANET_SYMCACHE_DELETED;\n                    return firstEmpty;"
M_NULL = mut("move-leaves-null-not-tombstone", "janet_vm.cache[i] = JANET_SYMCACHE_DELETED;", "janet_vm.cache[i] = NULL;", "re-establishes wf_cache|stays interned")
M_NOMOVE = mut("tombstone-returned-without-moving", MOVE, "                if (firstEmpty != NULL) {\n                    return firstEmpty;", "holds the one interned object|re-establishes wf_cache")
M_STOP = mut("tombstone-stops-probe", "                    firstEmpty = janet_vm.cache + i;\n                continue;", "                    firstEmpty = janet_vm.cache + i;\n                goto notfound;", "finds every live text|holds the one interned object")
M_WRAP = mut("no-wrap-around", "bounds[3] = index;", "bounds[3] = 0;", "finds every live text|fatal exit|reachable from its home")
M_KEEP = mut("move-keeps-old-slot", "                    *firstEmpty = test;\n                    janet_vm.cache[i] = JANET_SYMCACHE_DELETED;", "                    *firstEmpty = test;", "re-establishes wf_cache")

# Capacity 2 is no longer a well-formed capacity (commit 9ee9625: janet_symcache_put never asks for fewer than 4 slots), so all
# capacity-2 units (sc.findmem.cap2, sc.deinit.cap2, sc.resize.cap2.*, sc.put.cap2.*) and every resize to 2 slots are dropped.
# ------------------------------------------------------------------ 1. findmem
for cap in (4, 8):
    unit("sc.findmem.cap%d" % cap,
         "janet_symcache_findmem on EVERY well-formed cache: success == 1 and the returned slot holds THE interned object iff the text is live; otherwise success == 0, nothing changed and the slot "
         "offered is free and reachable from the home slot (insertion keeps wf_cache); the set of interned objects and the counters are unchanged and wf_cache holds AFTER the lookup too "
         "(the move-to-first-tombstone keeps every entry reachable); no fatal exit",
         "h_findmem", tier="quick" if cap <= 4 else "thorough", timeout=300 if cap <= 4 else 600, bound=bound(cap), defines=D(cap), unwind=max(cap, KOF[cap] + 1) + 2,
         functions=["janet_symcache_findmem"], assumes=[UNIV, WF, EXITS],
         mutants=[M_NULL, M_NOMOVE, M_STOP, M_KEEP, M_WRAP], **S)

# ------------------------------------------------------------------ 3. deinit
DEI = [mut("slot-cleared-to-null", "        *bucket = JANET_SYMCACHE_DELETED;", "        *bucket = NULL;", "re-establishes wf_cache|stays interned|became a tombstone"),
       mut("deleted-not-counted", "        janet_vm.cache_deleted++;\n", "", "re-establishes wf_cache|cache_deleted incremented"),
       mut("count-not-decremented", "        janet_vm.cache_count--;\n", "", "re-establishes wf_cache|cache_count decremented"),
       mut("slot-not-cleared", "        *bucket = JANET_SYMCACHE_DELETED;\n", "", "re-establishes wf_cache|no longer interned")]
for cap in (4, 8):
    unit("sc.deinit.cap%d" % cap,
         "janet_symbol_deinit on EVERY well-formed cache: set' = set - {sym} exactly (the entry removed is the swept object itself), a tombstone is written, cache_count - 1 and cache_deleted + 1, "
         "every other interned symbol stays interned as the identical object and reachable (wf_cache re-established); a symbol that is not interned changes nothing",
         "h_deinit", tier="quick" if cap <= 4 else "thorough", timeout=300 if cap <= 4 else 600, bound=bound(cap), defines=D(cap), unwind=max(cap, KOF[cap] + 1) + 2,
         functions=["janet_symbol_deinit", "janet_symcache_findmem"],
         assumes=[UNIV, WF, EXITS, "precondition: the swept symbol is the interned object of its text, or no live entry carries its text (every symbol block the collector sweeps was interned by janet_symbol / janet_symbol_gen)"],
         mutants=DEI + [M_NULL], **S)

# ------------------------------------------------------------------ 2. resize under its contract
RSZ = [mut("entry-not-stored", "            *bucket = x;\n", "", "no entry lost|stays interned"),
       mut("walks-new-capacity", "for (i = 0; i < oldCapacity; ++i) {", "for (i = 0; i < newCapacity; ++i) {", "pointer_dereference|no entry lost|stays interned"),
       mut("deleted-not-reset", "    janet_vm.cache_deleted = 0;\n    /* Add all", "    /* Add all", "cache_deleted == 0")]
NEWMAX = {4: 8, 8: 8}                    # capacity 8: growth to 16 not attempted within 10 min (cf. tab.rehash.cap8.to16)
for cap in (4, 8):
    groups = [(4, 4)] + ([(8, 8)] if cap <= 4 else [])      # 8 -> 8: timeout after 600 s, not delivered
    for lo, hi in groups:
        unit("sc.resize.cap%d.to%s" % (cap, "%d" % hi if lo == hi else "%d-%d" % (lo, hi)),
             "janet_cache_resize under its contract, from EVERY well-formed cache and every new capacity that is a power of two >= 4 and > cache_count: new exact block without tombstones, the SAME set of interned objects "
             "(identical pointers - growth keeps every entry, none duplicated), cache_count unchanged, cache_deleted == 0, texts unique and every entry reachable from its home slot; old block freed validly",
             "h_resize", tier="quick" if cap <= 4 else "thorough", timeout=300 if cap <= 4 else 600,
             bound=bound(cap, cap // 2 + 1, extra="; new capacity: the powers of two in [max(count+1,%d), %d]" % (lo, hi)),
             defines=D(cap, cap // 2 + 1, "-DSY_NEWMAX=%d" % NEWMAX[cap], "-DSY_SIZE_MIN=%d" % lo, "-DSY_SIZE_MAX=%d" % hi), unwind=max(hi, cap, KOF[cap] + 1) + 2,
             functions=["janet_cache_resize", "janet_symcache_findmem"], assumes=[UNIV, WF, EXITS, "calloc / free: CBMC's library models"],
             mutants=[m for m in RSZ if not (m['name'] == 'walks-new-capacity' and lo == hi == cap)], **S)   # same capacity: that mutant is equivalent

# ------------------------------------------------------------------ 2. put
PUT_CLAUSE = ("janet_symcache_put (after the findmem of janet_symbol) on EVERY well-formed cache: set' = set + {x} - the new symbol is interned as the identical object, every other interned symbol stays "
              "interned as the identical object; cache_count + 1; wf_cache re-established including the load clause and a free slot for the next lookup")
P_CNT = mut("count-not-incremented", "    janet_vm.cache_count++;\n    *bucket = x;", "    *bucket = x;", "re-establishes I1..I4|cache_count incremented")
P_STORE = mut("symbol-not-stored", "    janet_vm.cache_count++;\n    *bucket = x;", "    janet_vm.cache_count++;", "re-establishes I1..I4|new symbol is interned")
P_STALE = mut("bucket-not-refreshed-after-resize", "        bucket = janet_symcache_find(x, &status);\n    }\n    /* Add x to the cache */", "    }\n    /* Add x to the cache */", "pointer_dereference|new symbol is interned|re-establishes")
P_LOAD = mut("load-check-ignores-tombstones", "if ((janet_vm.cache_count + janet_vm.cache_deleted) * 2 > janet_vm.cache_capacity) {", "if (janet_vm.cache_count * 2 > janet_vm.cache_capacity) {", "re-establishes I5|resized once")
P_FIX = mut("fix-9ee9625-reverted-cache-may-shrink-to-2", "        if (newcapacity < 4) newcapacity = 4;\n", "", "never shrinks below 4 slots")
for cap in (4, 8):
    tier = "quick" if cap <= 4 else "thorough"
    to = 300 if cap <= 4 else 600
    unit("sc.put.cap%d.stay" % cap, PUT_CLAUSE + " - every call that does not resize, up to capacity/2 + 1 entries (capacity 4: count 1 -> 2 -> 3): at least one slot stays free; resize is shown not to be reached below the load limit",
         "h_put", tier=tier, timeout=to, bound=bound(cap),
         defines=D(cap), unwind=max(cap, KOF[cap] + 1) + 2, functions=["janet_symcache_put", "janet_symcache_findmem"], replace_calls=["janet_cache_resize:sy_resize_unreachable"],
         assumes=[UNIV, WF, EXITS], mutants=[P_CNT, P_STORE], **S)
    for c in range(0, cap // 2 + 2):
        size = max(4, 1 << (2 * c + 1).bit_length())         # max(4, janet_tablen(2*c+1))
        if size > NEWMAX[cap] or c >= cap:
            continue
        k = max(2, c + 1)
        unit("sc.put.cap%d.grow.c%d" % (cap, c),
             PUT_CLAUSE + " - a cache with %d entries at the load limit: resized once to capacity max(4, janet_tablen(2*%d+1)) = %d (growth keeps every entry), then the symbol is stored" % (c, c, size),
             "h_put", tier=tier, timeout=to,
             bound="capacity %d, cache_count %d, cache_deleted %d (every such well-formed cache); new capacity %d; universe of %d texts with arbitrary hash / length functions" % (cap, c, cap // 2 + 1 - c, size, k),
             defines=D(cap, k, "-DSY_NEWMAX=%d" % NEWMAX[cap], "-DSY_PUT_COUNT=%d" % c), unwind=max(size, cap, k + 1) + 2,
             functions=["janet_symcache_put", "janet_symcache_findmem"], replace_calls=["janet_cache_resize:sy_resize_contract"],
             assumes=[UNIV, WF, EXITS, "janet_cache_resize replaced by its contract (proved of the real function by units sc.resize.*): requires I1..I4 and a power-of-two capacity >= 4 and > cache_count (the size put asks for is max(4, janet_tablen(2*count+1))); ensures a new exact block without "
                      "tombstones holding the same set of interned objects, cache_deleted == 0, cache_count unchanged, old block freed"] +
                     (["the instance old capacity 8 -> new capacity 8 of the resize contract is ASSUMED here: unit sc.resize.cap8.to8 did not finish within 600 s (proved: old capacity 4 to sizes 4 and 8, old capacity 8 to size 4)"] if cap == 8 and size == 8 else []),
             mutants=[P_CNT, P_STALE] + ([P_LOAD] if cap // 2 + 1 - c > 0 else []) + ([P_FIX] if c == 0 else []), **S)

# ------------------------------------------------------------------ 4. janet_symbol, lookup path
for cap in (4, 8):
    unit("sc.symbol.found.cap%d" % cap,
         "janet_symbol / janet_csymbol lookup path on EVERY well-formed cache: interning a text that is already interned returns the existing object (identical pointer), allocates nothing (no second copy), "
         "leaves the set and the counters unchanged and re-establishes wf_cache",
         "h_symbol_found", tier="quick" if cap <= 4 else "thorough", timeout=300 if cap <= 4 else 600, bound=bound(cap), defines=D(cap), unwind=max(cap, KOF[cap] + 1) + 2,
         functions=["janet_symbol", "janet_symcache_findmem"],
         assumes=[UNIV, WF, EXITS, "janet_string_calchash replaced by its contract (a function of the text); janet_gcalloc asserts that it is not reached on this path"],
         mutants=[mut("symbol-ignores-found", "    if (success)\n        return *bucket;\n", "", "no allocation|returns the existing object"),
                  dict(M_NOMOVE, expect="returns the existing object|no allocation|re-establishes wf_cache"), dict(M_STOP, expect="returns the existing object|no allocation")], **S)

# A proved (loop-contract) memory-safety unit for findmem, like tab.find.safety, was tried and is NOT delivered: the function
# writes through the loop-carried pointer firstEmpty (`*firstEmpty = test`), which a loop invariant cannot pin to the cache
# block (DESIGN R14): dfcc's write-set check fails after the loop havoc (2 attempts, 3-5 min each).

json.dump({"defaults": {"props": ["C01", "C03"], "mode": "plain", "timeout": 300, "checks": CHECKS}, "units": units},
          open(os.path.join(V, "units", "C01_symcache.json"), "w"), indent=1)
print(len(units), "units")
