#!/usr/bin/env python3
"""generates /verif/units/C02_C15.json (component-level contracts for C02 and C15):
   regalloc.c as a data structure (C02), cfuns.c can_be_imm (C15), bytecode.c janet_bytecode_remove_noops (C15, C02 source map)."""
import json, os

VERIF = os.path.dirname(os.path.dirname(os.path.abspath(__file__)))
CHECKS = ["bounds-check", "pointer-check", "signed-overflow-check", "undefined-shift-check", "conversion-check", "div-by-zero-check"]

REALLOC_ASSUME = ("realloc is modelled by vc_realloc (harness/comp_regalloc.c): new block, content nondeterministic except the "
                  "ghost register's word and word 7 (over-approximates ISO realloc), old block freed, never NULL (out of memory exits)")
MAXCNT_ASSUME = ("wf_ra bounds the allocator at 2^20 chunks (33.5M registers); janetc_allocfar reports an error past register 0xFFFF "
                 "(2048 chunks); functions that may append a chunk require count < 2^20")

ALLOC1_LOOP = {"janetc_regalloc_1": [{
    "loop_id": "0",
    "invariants": "0 <= chunk && chunk <= nchunks && nchunks == ra->count && bit == -1 && ((g_r >> 5) < chunk ==> ra->chunks[g_r >> 5] == 0xFFFFFFFFu)",
    "assigns": "chunk, bit", "decreases": "nchunks - chunk",
    "symbol_map": "chunk,janetc_regalloc_1::1::chunk;bit,janetc_regalloc_1::1::bit;nchunks,janetc_regalloc_1::1::nchunks;ra,janetc_regalloc_1::ra"}]}


def ra_unit(uid, entry, fn, clause, mutants, cls="proved", tier="quick", defines=None, loops=False, extra=None, timeout=120):
    u = {"id": uid, "props": ["C02"], "tier": tier, "class": cls, "clause": clause,
         "src": ["regalloc.c"], "harness": ["comp_regalloc.c"], "entry": entry, "mode": "dfcc",
         "enforce": ["%s/%s_c" % (fn, fn)],
         "checks": CHECKS, "timeout": timeout,
         "assumes": [MAXCNT_ASSUME], "mutants": mutants}
    if fn in ("janetc_regalloc_1", "pushchunk", "janetc_regalloc_temp", "janetc_regalloc_touch", "janetc_regalloc_check"):
        u["replace_calls"] = ["realloc:vc_realloc"]       # the only functions that can reach realloc
        u["assumes"] = [REALLOC_ASSUME, MAXCNT_ASSUME]
    if defines:
        u["defines"] = defines
    if loops:
        u["loops"] = ALLOC1_LOOP
        u["loop_counts"] = {"janetc_regalloc_1": 1}
    if extra:
        u.update(extra)
    return u


def M(name, find, replace, expect, file="regalloc.c", **kw):
    d = {"name": name, "file": file, "find": find, "replace": replace, "expect": expect}
    d.update(kw)
    return d


units = []

# ---------------------------------------------------------------- C02: register allocator
units.append(ra_unit(
    "regalloc.alloc1", "h_regalloc_1", "janetc_regalloc_1",
    "janetc_regalloc_1 returns a register whose bit was clear, sets exactly that bit (every other register keeps its state), never hands "
    "out a reserved temporary 0xF0-0xFF, is first-fit, raises max to cover the result and keeps wf_ra; any allocator with storage",
    [M("ctz-instead-of-cto", "bit = count_trailing_ones(block);", "bit = count_trailing_zeros(block);", "postcondition"),
     M("reserved-temps-in-wrong-chunk", "ra->count == 7 ? 0xFFFF0000 : 0", "ra->count == 8 ? 0xFFFF0000 : 0", "postcondition"),
     M("bit-not-set", "    ra->chunks[chunk] |= ithbit(bit);\n    reg = (chunk << 5) + bit;", "    reg = (chunk << 5) + bit;", "postcondition")],
    loops=True))
units.append(ra_unit(
    "regalloc.alloc1.empty", "h_regalloc_1", "janetc_regalloc_1",
    "same contract from the state janetc_regalloc_init leaves (capacity 0, chunks NULL): first allocation creates chunk 0 and returns register 0",
    [M("count-skips-one", "int32_t newcount = ra->count + 1;", "int32_t newcount = ra->count + 2;", "postcondition"),
     M("no-growth", "int32_t newcapacity = newcount * 2;", "int32_t newcapacity = newcount - 1;", "pointer_dereference|postcondition")],
    defines=["-DRA_EMPTY"], loops=True))
units.append(ra_unit(
    "regalloc.pushchunk", "h_pushchunk", "pushchunk",
    "pushchunk appends one chunk without changing the abstract register set (chunk 7 is born with the 16 reserved temporaries allocated); "
    "earlier words survive reallocation; wf_ra kept",
    [M("capacity-off-by-one", "if (newcount > ra->capacity) {", "if (newcount > ra->capacity + 1) {", "pointer_dereference|postcondition|bounds"),
     M("reserved-half-wrong", "0xFFFF0000 : 0", "0x0000FFFF : 0", "postcondition")]))
units.append(ra_unit(
    "regalloc.free", "h_free", "janetc_regalloc_free",
    "janetc_regalloc_free clears exactly its argument: that register leaves the set, every other register, count, max and the temp tags are unchanged",
    [M("clears-all-others", "ra->chunks[chunk] &= ~ithbit(bit);", "ra->chunks[chunk] &= ithbit(bit);", "postcondition"),
     M("bit-mask-too-narrow", "void janetc_regalloc_free(JanetcRegisterAllocator *ra, int32_t reg) {\n    int32_t chunk = reg >> 5;\n    int32_t bit = reg & 0x1F;",
       "void janetc_regalloc_free(JanetcRegisterAllocator *ra, int32_t reg) {\n    int32_t chunk = reg >> 5;\n    int32_t bit = reg & 0xF;", "postcondition")]))
units.append(ra_unit(
    "regalloc.temp", "h_temp", "janetc_regalloc_temp",
    "janetc_regalloc_temp returns a register < 256: a free near register (its bit was clear, now set, first fit) or, only when 0..0xEF are all "
    "allocated, the reserved temporary 0xF0+tag; refuses a tag already in use; no other near register changes and nothing is freed",
    [M("far-threshold-wrong", "if (reg > 0xFF) {", "if (reg > 0xFFF) {", "postcondition"),
     M("tag-check-dropped", "if (ra->regtemps & (1 << nth)) {", "if (0) {", "postcondition"),
     M("temp-base-wrong", "reg = 0xF0 + nth;", "reg = 0xE0 + nth;", "postcondition")],
    loops=True))
units.append(ra_unit(
    "regalloc.freetemp", "h_freetemp", "janetc_regalloc_freetemp",
    "janetc_regalloc_freetemp releases exactly its tag and frees the register iff it is below 0xF0 (no-op on the reserved temporaries, which stay allocated)",
    [M("frees-reserved-temps", "if (reg < 0xF0)", "if (reg <= 0xFF)", "postcondition"),
     M("tag-not-cleared", "ra->regtemps &= ~(1 << nth);", "ra->regtemps &= (1 << nth);", "postcondition")]))
for grow, tier, tmo in ((1, "quick", 120), (2, "thorough", 600)):
    sfx = "" if grow == 1 else ".grow2"
    bound = "the register lies at most %d chunk(s) (%d registers) beyond the allocator's current end: loop unwound %d times with unwinding assertion" % (grow, 32 * grow, grow + 1)
    units.append(ra_unit(
        "regalloc.touch" + sfx, "h_touch", "janetc_regalloc_touch",
        "janetc_regalloc_touch puts exactly its argument into the set (growing the chunk array as needed), every other register, max and tags unchanged",
        [M("overwrites-chunk", "    while (chunk >= ra->count) pushchunk(ra);\n    ra->chunks[chunk] |= ithbit(bit);", "    while (chunk >= ra->count) pushchunk(ra);\n    ra->chunks[chunk] = ithbit(bit);", "postcondition")],
        cls="bounded", tier=tier, defines=["-DRA_GROW=%d" % grow], timeout=tmo,
        extra={"bound": bound, "unwindset": {"janetc_regalloc_touch_wrapped_for_contract_checking.0": grow + 1}, "cbmc": ["--unwinding-assertions"]}))
    units.append(ra_unit(
        "regalloc.check" + sfx, "h_check", "janetc_regalloc_check",
        "janetc_regalloc_check answers membership of its argument (1 iff allocated, reserved temporaries included) and leaves the set unchanged",
        [M("growth-guard-off-by-one", "    while (chunk >= ra->count) pushchunk(ra);\n    return", "    while (chunk > ra->count) pushchunk(ra);\n    return", "postcondition|pointer_dereference"),
         M("wrong-bit", "return !!(ra->chunks[chunk] & ithbit(bit));", "return !!(ra->chunks[chunk] & nbits(bit));", "postcondition")],
        cls="bounded", tier=tier, defines=["-DRA_GROW=%d" % grow], timeout=tmo,
        extra={"bound": bound, "unwindset": {"janetc_regalloc_check_wrapped_for_contract_checking.0": grow + 1}, "cbmc": ["--unwinding-assertions"]}))
CLONE_MUT = [M("max-not-copied", "dest->max = src->max;", "dest->max = src->count;", "postcondition"),
             M("short-allocation", "size = sizeof(uint32_t) * (size_t) dest->capacity;", "size = sizeof(uint32_t) * (size_t) dest->count;", "postcondition|precondition")]
MEMCPY_ASSUME = "memcpy is replaced by the assumed contract memcpy_c (copies the ghost register's word and word 7; frame = destination bytes [0,n))"
units.append(ra_unit(
    "regalloc.clone", "h_clone", "janetc_regalloc_clone",
    "janetc_regalloc_clone makes a copy with an equal register set, count, capacity and max, no temp tag in use and its own storage; the source is unchanged",
    CLONE_MUT, extra={"replace": ["memcpy/memcpy_c"]}))
units[-1]["assumes"] = units[-1]["assumes"] + [MEMCPY_ASSUME]
units.append(ra_unit(
    "regalloc.clone.empty", "h_clone", "janetc_regalloc_clone",
    "clone of an allocator without storage (capacity 0, chunks NULL) is again one without storage, equal view",
    [CLONE_MUT[0], M("regtemps-not-reset", "dest->regtemps = 0;", "dest->regtemps = src->regtemps;", "postcondition")],
    defines=["-DRA_EMPTY"], extra={"replace": ["memcpy/memcpy_c"]}))
units.append(ra_unit(
    "regalloc.init", "h_init", "janetc_regalloc_init",
    "janetc_regalloc_init leaves a well-formed allocator whose set holds exactly the reserved temporaries, max 0, no tag in use",
    [M("count-one", "    ra->count = 0;\n    ra->capacity = 0;", "    ra->count = 1;\n    ra->capacity = 0;", "postcondition")]))

# ---------------------------------------------------------------- C15: small immediates
IMM_CHECKS = ["bounds-check", "pointer-check", "signed-overflow-check", "conversion-check", "float-overflow-check", "nan-check"]
def imm_unit(uid, entry, fn, clause, mutants):
    return {"id": uid, "props": ["C15"], "tier": "quick", "class": "proved", "clause": clause,
            "src": ["cfuns.c"], "link": ["util.c"], "link_keep": {"util.c": ["janet_checkint"]},
            "harness": ["comp_imm.c"], "entry": entry, "mode": "dfcc", "enforce": ["%s/%s_c" % (fn, fn)],
            "functions": [fn, "janet_checkint"],
            "checks": ["bounds-check", "pointer-check", "signed-overflow-check", "conversion-check"], "timeout": 120,
            "assumes": ["Janet values are the nan-boxed representation of this build (JANET_NANBOX_64)"],
            "mutants": mutants}
units.append(imm_unit(
    "cfuns.can_be_imm", "h_can_be_imm", "can_be_imm",
    "can_be_imm returns 1 iff the value IS the double of an integer in [-128,127] (negative zero is refused: as an immediate its sign would be lost), and then *out equals it; otherwise 0 and *out untouched (all 2^64 values)",
    [M("upper-bound-off", "if (integer > INT8_MAX || integer < INT8_MIN) return 0;", "if (integer > UINT8_MAX || integer < INT8_MIN) return 0;", "postcondition|conversion", file="cfuns.c"),
     M("lower-bound-off-by-one", "integer < INT8_MIN) return 0;", "integer <= INT8_MIN) return 0;", "postcondition", file="cfuns.c"),
     M("int-check-dropped", "if (!janet_checkint(x)) return 0;", "if (!janet_checktype(x, JANET_NUMBER)) return 0;", "postcondition|conversion|overflow", file="cfuns.c"),
     M("negative-zero-accepted", "    if (integer == 0 && signbit(janet_unwrap_number(x))) return 0;\n", "", "postcondition", file="cfuns.c")]))
units.append(imm_unit(
    "cfuns.can_slot_be_imm", "h_can_slot_be_imm", "can_slot_be_imm",
    "can_slot_be_imm accepts exactly the constant slots whose constant is an integer in [-128,127] and yields that integer",
    [M("constant-flag-ignored", "if (!(s.flags & JANET_SLOT_CONSTANT)) return 0;\n    return can_be_imm", "if (0) return 0;\n    return can_be_imm", "postcondition", file="cfuns.c")]))

# ---------------------------------------------------------------- C15/C02: noop removal (bounded stand-in)
NOOPS_MUT = [
    M("jump-forgets-own-shift", "instr += (uint32_t)(new_jump_target - old_jump_target + (i - j)) << 8;",
      "instr += (uint32_t)(new_jump_target - old_jump_target) << 8;", "POST jump target remapped", file="bytecode.c"),
    M("cond-jump-wrong-field", "instr += (uint32_t)(new_jump_target - old_jump_target + (i - j)) << 16;",
      "instr += (uint32_t)(new_jump_target - old_jump_target + (i - j)) << 8;", "POST conditional jump", file="bytecode.c"),
    M("jump-if-not-nil-not-rewritten", "            case JOP_JUMP_IF_NOT:\n            case JOP_JUMP_IF_NOT_NIL:\n                /* relative pc is in ES",
      "            case JOP_JUMP_IF_NOT:\n                /* relative pc is in ES", "POST conditional jump target", file="bytecode.c"),
    M("sourcemap-not-moved", "def->sourcemap[j] = def->sourcemap[i];", "def->sourcemap[j] = def->sourcemap[j];", "POST source mapping", file="bytecode.c"),
    M("death-pc-from-birth", "sm->death_pc = pc_map[sm->death_pc];", "sm->death_pc = pc_map[sm->birth_pc];", "POST symbol births and deaths", file="bytecode.c"),
    M("pc-map-after-increment", "        pc_map[i] = new_bytecode_length;\n        if (opcode != JOP_NOOP) {\n            new_bytecode_length++;\n        }",
      "        if (opcode != JOP_NOOP) {\n            new_bytecode_length++;\n        }\n        pc_map[i] = new_bytecode_length;", "POST", file="bytecode.c"),
]
for N, tier, tmo in ((4, "quick", 200), (6, "thorough", 600)):
    units.append({
        "id": "bytecode.remove_noops.n%d" % N, "props": ["C15", "C02"], "tier": tier, "class": "bounded",
        "bound": "bytecode length 0..%d (all instruction words, all in-range jump targets), symbol map 0..2 entries, source map present or NULL; loops unwound %d times with unwinding assertions" % (N, N + 2),
        "clause": "janet_bytecode_remove_noops: new length = number of non-noops; every non-noop instruction is found, in order, at pc_map(old pc) with opcode and operands unchanged; "
                  "a jump's new target is pc_map(old target); the source line/column travels with its instruction; symbol births/deaths are remapped, upvalue entries untouched; nothing else of the definition changes",
        "src": ["bytecode.c"], "harness": ["comp_noops.c"], "entry": "h_remove_noops", "mode": "plain",
        "functions": ["janet_bytecode_remove_noops"], "defines": ["-DNOOPS_N=%d" % N],
        "checks": ["bounds-check", "pointer-check", "signed-overflow-check", "undefined-shift-check", "div-by-zero-check"],
        "unwind": N + 2, "unwinding_assertions": True, "timeout": tmo, "cost": 3 if N == 4 else 10,
        "assumes": ["janet_smalloc/janet_sfree are modelled by malloc/free (harness/comp_noops.c); realloc is CBMC's built-in model",
                    "input well-formedness: jump targets within [0, length] (janet_verify), symbol entries birth <= death <= length or birth = UINT32_MAX (compile.c janetc_pop_funcdef)"],
        "undecided_clauses": ["bytecode longer than the bound (the relation between the code's pc_map and the counting specification needs a quantified loop invariant)",
                              "that jump offsets which fit their 24/16-bit field before the pass still fit afterwards is implied here only up to the bound"],
        "mutants": NOOPS_MUT if N == 4 else NOOPS_MUT[:2]})

# ---------------------------------------------------------------- C15/C02: noop removal, the part that closes for every length
_pre = "janet_bytecode_remove_noops::"
_L0 = {"loop_id": "0",
       "invariants": "0 <= i && i <= def->bytecode_length && new_bytecode_length <= (unsigned)i && (i == 0 ==> new_bytecode_length == 0) && "
                     "(i > 0 ==> (pc_map[0] == 0 && new_bytecode_length == pc_map[i-1] + ((def->bytecode[i-1] & 0x7F) != 0 ? 1u : 0u))) && "
                     "(g_k < i - 1 ==> pc_map[g_k+1] == pc_map[g_k] + ((def->bytecode[g_k] & 0x7F) != 0 ? 1u : 0u)) && (g_k < i ==> pc_map[g_k] <= (unsigned)g_k)",
       "assigns": "i, new_bytecode_length, __CPROVER_object_whole(pc_map)", "decreases": "def->bytecode_length - i",
       "symbol_map": "i,%s1::1::i;new_bytecode_length,%s1::new_bytecode_length;pc_map,%s1::pc_map;def,%sdef" % (_pre, _pre, _pre, _pre)}
def _L1(sm):
    return {"loop_id": "1", "invariants": "0 <= i && i <= def->bytecode_length && 0 <= j && j <= i",
            "assigns": "i, j, __CPROVER_object_whole(def->bytecode)" + (", __CPROVER_object_whole(def->sourcemap)" if sm else ""),
            "decreases": "def->bytecode_length - i", "symbol_map": "i,%s1::2::i;j,%s1::j;def,%sdef" % (_pre, _pre, _pre)}
_E = "def->symbolmap[g_e]"
_L2 = {"loop_id": "2",
       "invariants": ("0 <= i && i <= def->symbolmap_length && (g_e < def->symbolmap_length ==> (%s.slot_index == g_slot0 && "
                      "(g_e >= i ==> (%s.birth_pc == g_birth0 && %s.death_pc == g_death0)) && "
                      "(g_e < i ==> (g_birth0 == 0xFFFFFFFFu ? (%s.birth_pc == g_birth0 && %s.death_pc == g_death0) : "
                      "(%s.birth_pc == pc_map[g_birth0] && %s.death_pc == pc_map[g_death0])))))") % ((_E,) * 7),
       "assigns": "i, __CPROVER_object_whole(def->symbolmap)", "decreases": "def->symbolmap_length - i",
       "symbol_map": "i,%s1::3::i;pc_map,%s1::pc_map;def,%sdef" % (_pre, _pre, _pre)}
PCMAP_MUT = [
    NOOPS_MUT[5],
    M("last-map-entry-missing", "    pc_map[def->bytecode_length] = new_bytecode_length;\n", "", "postcondition", file="bytecode.c"),
    M("map-one-short", "janet_smalloc(sizeof(uint32_t) * (1 + def->bytecode_length));", "janet_smalloc(sizeof(uint32_t) * (def->bytecode_length));", "pointer_dereference|postcondition", file="bytecode.c"),
    M("upvalue-entries-rewritten", "if (sm->birth_pc < UINT32_MAX) {", "if (sm->birth_pc <= UINT32_MAX) {", "postcondition|loop_invariant", file="bytecode.c"),
    NOOPS_MUT[4],
]
PCMAP_MUT[0] = dict(PCMAP_MUT[0], expect="postcondition|loop_invariant")
PCMAP_MUT[4] = dict(PCMAP_MUT[4], expect="postcondition|loop_invariant")
for sm in (True, False):
    units.append({
        "id": "bytecode.remove_noops.pcmap" + ("" if sm else ".nosourcemap"), "props": ["C15", "C02"], "tier": "quick", "class": "proved",
        "clause": "janet_bytecode_remove_noops, any bytecode length: the pass's pc map is the counting map (pc_map[0]=0, pc_map[k+1]=pc_map[k]+[instruction k is not a noop]), "
                  "new length = pc_map[old length] = number of non-noops; symbol births/deaths are remapped through it, upvalue entries and slot indices untouched; "
                  "only bytecode, its length, source-map and symbol-map arrays change; all accesses other than the jump-target/symbol pc look-ups are in bounds"
                  + ("" if sm else " (definition without source map)"),
        "src": ["bytecode.c"], "harness": ["comp_noops_p.c"], "entry": "h_remove_noops_p", "mode": "dfcc",
        "enforce": ["janet_bytecode_remove_noops/janet_bytecode_remove_noops_c"], "replace_calls": ["realloc:vc_realloc_bc"],
        "defines": [] if sm else ["-DNOOPS_NOSM"],
        "loops": {"janet_bytecode_remove_noops": [_L0, _L1(sm), _L2]}, "loop_counts": {"janet_bytecode_remove_noops": 3},
        "checks": ["bounds-check", "pointer-check", "signed-overflow-check", "undefined-shift-check", "div-by-zero-check"],
        "skip": ["old_jump_target", "sm->(birth|death)_pc"], "timeout": 200,
        "assumes": ["janet_smalloc is modelled by malloc recording the block in ghost g_pcmap; janet_sfree is modelled as a no-op so that the map is readable in the post-state",
                    "realloc is modelled by vc_realloc_bc: new block, old block freed, never NULL (content not claimed in this unit)",
                    "bytecode length <= 2^26, symbol map length <= 2^20"],
        "undecided_clauses": ["skipped: bounds of pc_map[jump target] and pc_map[birth/death pc] and the overflow checks of the jump-offset arithmetic: they need the universally quantified "
                              "precondition 'every jump target / symbol entry is in range' at the loop index, which neither the ghost-index technique nor quantified loop invariants "
                              "(ignored by SAT, z3 timeout) can carry; decided up to the bound by bytecode.remove_noops.n4/.n6",
                              "instruction g lands at pc_map[g] with its jump target remapped, source mapping travels: bounded units only"],
        "mutants": PCMAP_MUT if sm else PCMAP_MUT[:2]})

out = os.path.join(VERIF, "units", "C02_C15.json")
json.dump({"units": units}, open(out, "w"), indent=1)
print("wrote %s: %d units" % (out, len(units)))
