#!/usr/bin/env python3
"""generates /verif/units/C09_asm.json: contracts on /repo/src/core/asm.c
   C09  instruction codec (read_instruction/doarg <-> janet_asm_decode_instruction), janet_disasm/janet_asm1 field round trip
   C10  doarg_1 / doarg range checks and name resolution, janet_asm1 structure (lengths, allocation, verification before return)
   Harnesses: harness/asm_codec.c, harness/asm_doarg.c, harness/asm_struct.c, harness/asm_disasm.c
   Usage: gen_C09_asm.py [--enable-failing]   (--enable-failing writes the units that FAIL on the pinned tree without their
   disabled_reason so that they can be run; the committed file keeps them disabled with the finding text)"""
import json, os, sys

VERIF = os.path.dirname(os.path.dirname(os.path.abspath(__file__)))
ENABLE_FAILING = "--enable-failing" in sys.argv
CHECKS = ["bounds-check", "pointer-check", "signed-overflow-check", "undefined-shift-check", "div-by-zero-check"]
WRAP = ["janet_wrap_number", "janet_wrap_nil", "janet_wrap_tuple", "janet_wrap_symbol"]


def M(name, find, replace, expect, file="asm.c", **kw):
    d = {"name": name, "file": file, "find": find, "replace": replace, "expect": expect}
    d.update(kw)
    return d


units = []


def add(u, failing=None):
    """failing: finding text -> the unit fails on the pinned tree; kept disabled with the text unless --enable-failing"""
    if failing and not ENABLE_FAILING:
        u["disabled_reason"] = failing
    elif failing:
        u["expected_to_fail"] = failing
    units.append(u)


# ------------------------------------------------------------------------------------------------------------------
# 1. instruction codec, one unit per shape and direction
# ------------------------------------------------------------------------------------------------------------------
A_LONGJMP = "an assembler error (janet_asm_longjmp, reached through janet_asm_error / janet_asm_errorv) does not return (stub: assume(0))"
A_TUPLE = ("janet_tuple_begin(n) returns a fresh block of exactly n elements with length n and flags 0, janet_tuple_end returns it "
           "unchanged (recording stub; interning/hash not modelled)")
A_CSYM = "janet_csymbol(s) is represented by the C string s itself (recording stub): two symbols are equal iff made from the same table entry"
A_FORMAT = "janet_formatc (error text) returns an arbitrary pointer (generated body)"
A_NONANBOX = "values in the documented tagged-struct configuration (nanbox: false); janet_wrap_* are the real wrap.c functions"
A_LAYOUT = ("specification of the word layout = operand macros of vm.c (A,B,C,D,E,CS,DS,ES) and the shape comments of enum "
            "JanetInstructionType in janet.h, written down in harness/asm_codec.c (ac_field/ac_place)")
A_SLOTCOUNT0 = "requires: def->slotcount >= 0 and a->bytecode_count >= 0 on entry (janet_asm1 sets them to arity + vararg and 0..length)"
A_OVF = ("the increment `ret + 1` of slotcount in doarg_1 is excluded here (skip) and is the obligation of unit asm.doarg1.slot")

# shape -> (operands [(bits, signed)], slot mask, text)
SHAPES = {
    "0":   ([], 0, "no operands (noop, retn)"),
    "S":   ([(24, 0)], 0b10, "one 24-bit slot (ret, push, ldn, mkarr ...)"),
    "L":   ([(24, 1)], 0, "one signed 24-bit jump offset relative to the instruction (jmp)"),
    "SS":  ([(8, 0), (16, 0)], 0b110, "8-bit slot, 16-bit slot (movn, movf, call, len ...)"),
    "SL":  ([(8, 0), (16, 1)], 0b10, "8-bit slot, signed 16-bit jump offset (jmpif, jmpno, jmpni, jmpnn)"),
    "ST":  ([(8, 0), (16, 0)], 0b10, "8-bit slot, 16-bit type set (tchck)"),
    "SI":  ([(8, 0), (16, 1)], 0b10, "8-bit slot, signed 16-bit immediate (ldi)"),
    "SU":  ([(8, 0), (16, 0)], 0b10, "8-bit slot, unsigned 16-bit immediate (no opcode of the pinned instruction set; exercised by re-typing ldi)"),
    "SD":  ([(8, 0), (16, 0)], 0b10, "8-bit slot, 16-bit index of a nested definition (clo)"),
    "SSS": ([(8, 0), (8, 0), (8, 0)], 0b1110, "three 8-bit slots (add, get, put ...)"),
    "SSI": ([(8, 0), (8, 0), (8, 1)], 0b110, "two 8-bit slots, signed 8-bit immediate (addim, ltim ...)"),
    "SSU": ([(8, 0), (8, 0), (8, 0)], 0b110, "two 8-bit slots, unsigned 8-bit immediate (geti, puti, sig, sruim)"),
    "SES": ([(8, 0), (8, 0), (8, 0)], 0b10, "8-bit slot, 8-bit environment index, 8-bit slot of that environment (ldu, setu)"),
    "SC":  ([(8, 0), (16, 0)], 0b10, "8-bit slot, 16-bit constant index (ldc)"),
}
# the doarg call sites of read_instruction: shape -> [(find, replace)] one-line mutants of the encoder
FIXED_S = "fixed: /repo 0ccef6e - read_instruction range-checked the 24-bit slot of JINT_S instructions as 2 bytes ((ret 65536) printed by disasm, rejected by asm)"
M_S16 = M("fix-reverted-slot-2-bytes", "instr |= doarg(a, JANET_OAT_SLOT, 1, 3, 0, argt[1]);\n            break;\n        }\n        case JINT_L:",
          "instr |= doarg(a, JANET_OAT_SLOT, 1, 2, 0, argt[1]);\n            break;\n        }\n        case JINT_L:", "accepts every instruction|gives back the word")
ENC_MUT = {
    "0": [M("arity-check-dropped", "            if (janet_tuple_length(argt) != 1)\n                janet_asm_error(a, \"expected 0 arguments: (op)\");",
            "            if (janet_tuple_length(argt) > 5)\n                janet_asm_error(a, \"expected 0 arguments: (op)\");", "exactly the operands")],
    "S": [M_S16, M("slot-at-wrong-byte", "instr |= doarg(a, JANET_OAT_SLOT, 1, 3, 0, argt[1]);\n            break;\n        }\n        case JINT_L:",
            "instr |= doarg(a, JANET_OAT_SLOT, 2, 3, 0, argt[1]);\n            break;\n        }\n        case JINT_L:", "every operand at the position")],
    "L": [M("label-unsigned", "instr |= doarg(a, JANET_OAT_LABEL, 1, 3, 1, argt[1]);", "instr |= doarg(a, JANET_OAT_LABEL, 1, 3, 0, argt[1]);", "outside the range|gives back the operands|position"),
          M("label-32-bits", "instr |= doarg(a, JANET_OAT_LABEL, 1, 3, 1, argt[1]);", "instr |= doarg(a, JANET_OAT_LABEL, 1, 4, 1, argt[1]);", "outside the range|shift")],
    "SS": [M("second-slot-one-byte-too-wide", "instr |= doarg(a, JANET_OAT_SLOT, 2, 2, 0, argt[2]);", "instr |= doarg(a, JANET_OAT_SLOT, 2, 3, 0, argt[2]);", "outside the range")],
    "SL": [M("first-slot-two-bytes", "instr |= doarg(a, JANET_OAT_SLOT, 1, 1, 0, argt[1]);\n            instr |= doarg(a, JANET_OAT_LABEL, 2, 2, 1, argt[2]);",
             "instr |= doarg(a, JANET_OAT_SLOT, 1, 2, 0, argt[1]);\n            instr |= doarg(a, JANET_OAT_LABEL, 2, 2, 1, argt[2]);", "outside the range")],
    "ST": [M("typeset-three-bytes", "instr |= doarg(a, JANET_OAT_TYPE, 2, 2, 0, argt[2]);", "instr |= doarg(a, JANET_OAT_TYPE, 2, 3, 0, argt[2]);", "outside the range")],
    "SI": [M("immediate-sign-flipped", "instr |= doarg(a, JANET_OAT_INTEGER, 2, 2, type == JINT_SI, argt[2]);", "instr |= doarg(a, JANET_OAT_INTEGER, 2, 2, type != JINT_SI, argt[2]);", "outside the range|gives back")],
    "SU": [M("immediate-sign-flipped", "instr |= doarg(a, JANET_OAT_INTEGER, 2, 2, type == JINT_SI, argt[2]);", "instr |= doarg(a, JANET_OAT_INTEGER, 2, 2, type != JINT_SI, argt[2]);", "outside the range|gives back")],
    "SD": [M("def-index-at-byte-3", "instr |= doarg(a, JANET_OAT_FUNCDEF, 2, 2, 0, argt[2]);", "instr |= doarg(a, JANET_OAT_FUNCDEF, 3, 2, 0, argt[2]);", "position")],
    "SSS": [M("third-slot-reads-second", "instr |= doarg(a, JANET_OAT_SLOT, 3, 1, 0, argt[3]);\n            break;\n        }\n        case JINT_SSI:",
              "instr |= doarg(a, JANET_OAT_SLOT, 3, 1, 0, argt[2]);\n            break;\n        }\n        case JINT_SSI:", "position|outside the range")],
    "SSI": [M("immediate-sign-flipped", "instr |= doarg(a, JANET_OAT_INTEGER, 3, 1, type == JINT_SSI, argt[3]);", "instr |= doarg(a, JANET_OAT_INTEGER, 3, 1, type != JINT_SSI, argt[3]);", "outside the range|gives back")],
    "SSU": [M("immediate-sign-flipped", "instr |= doarg(a, JANET_OAT_INTEGER, 3, 1, type == JINT_SSI, argt[3]);", "instr |= doarg(a, JANET_OAT_INTEGER, 3, 1, type != JINT_SSI, argt[3]);", "outside the range|gives back")],
    "SES": [M("env-shift-8", "            instr |= env << 16;", "            instr |= env << 8;", "position"),
            M("envslot-signed", "            instr |= doarg(b, JANET_OAT_SLOT, 3, 1, 0, argt[3]);", "            instr |= doarg(b, JANET_OAT_SLOT, 3, 1, 1, argt[3]);", "outside the range|gives back")],
    "SC": [M("constant-three-bytes", "instr |= doarg(a, JANET_OAT_CONSTANT, 2, 2, 0, argt[2]);", "instr |= doarg(a, JANET_OAT_CONSTANT, 2, 3, 0, argt[2]);", "outside the range")],
}
M_DOARG_MAX = M("range-max-off-by-one-bit", "    int32_t max = (1 << ((nbytes << 3) - hassign)) - 1;", "    int32_t max = (1 << ((nbytes << 3) - hassign + 1)) - 1;", "outside the range|shift")
M_DOARG_NOMIN = M("lower-bound-dropped", "    if (arg < min)\n        janet_asm_errorv", "    if (0)\n        janet_asm_errorv", "outside the range")
DEC_MUT = {
    "0": [M("noop-as-integer", "        case JINT_0:\n            ret = tup1(name);\n            break;", "        case JINT_0:\n            break;", "disassembled to a tuple")],
    "S": [M("slot-16-bits", "ret = tup2(name, janet_wrap_integer(oparg(1, 0xFFFFFF)));", "ret = tup2(name, janet_wrap_integer(oparg(1, 0xFFFF)));", "operand i is the field")],
    "L": [M("label-unsigned", "ret = tup2(name, janet_wrap_integer((int32_t)instr >> 8));", "ret = tup2(name, janet_wrap_integer(instr >> 8));", "operand i is the field")],
    "SS": [M("second-8-bits", "                       janet_wrap_integer(oparg(2, 0xFFFF)));", "                       janet_wrap_integer(oparg(2, 0xFF)));", "operand i is the field")],
    "SL": [M("offset-unsigned", "                        janet_wrap_integer((int32_t)instr >> 16));", "                        janet_wrap_integer(instr >> 16));", "operand i is the field")],
    "SI": [M("offset-unsigned", "                        janet_wrap_integer((int32_t)instr >> 16));", "                        janet_wrap_integer(instr >> 16));", "operand i is the field")],
    "SSS": [M("third-from-byte-2", "                       janet_wrap_integer(oparg(3, 0xFF)));", "                       janet_wrap_integer(oparg(2, 0xFF)));", "operand i is the field")],
    "SSI": [M("immediate-unsigned", "                       janet_wrap_integer((int32_t)instr >> 24));", "                       janet_wrap_integer(instr >> 24));", "operand i is the field")],
}
for s in ("ST", "SU", "SD", "SC"):
    DEC_MUT[s] = DEC_MUT["SS"]
for s in ("SSU", "SES"):
    DEC_MUT[s] = DEC_MUT["SSS"]
M_BRK = M("breakpoint-flag-ignored", "        if (instr & 0x80) {\n            janet_tuple_flag(ret) |= JANET_TUPLE_FLAG_BRACKETCTOR;", "        if (0) {\n            janet_tuple_flag(ret) |= JANET_TUPLE_FLAG_BRACKETCTOR;", "bracketed")

RT_EXP = "accepts every instruction|gives back the word"
RT_MUT = {
    "SS": M("second-slot-one-byte", "instr |= doarg(a, JANET_OAT_SLOT, 2, 2, 0, argt[2]);", "instr |= doarg(a, JANET_OAT_SLOT, 2, 1, 0, argt[2]);", RT_EXP),
    "SL": M("offset-unsigned", "instr |= doarg(a, JANET_OAT_LABEL, 2, 2, 1, argt[2]);", "instr |= doarg(a, JANET_OAT_LABEL, 2, 2, 0, argt[2]);", RT_EXP),
    "ST": M("typeset-one-byte", "instr |= doarg(a, JANET_OAT_TYPE, 2, 2, 0, argt[2]);", "instr |= doarg(a, JANET_OAT_TYPE, 2, 1, 0, argt[2]);", RT_EXP),
    "SC": M("constant-one-byte", "instr |= doarg(a, JANET_OAT_CONSTANT, 2, 2, 0, argt[2]);", "instr |= doarg(a, JANET_OAT_CONSTANT, 2, 1, 0, argt[2]);", RT_EXP),
}
RC_CODEC = ["janet_asm_longjmp:ac_longjmp_stub", "janet_tuple_begin:ac_tuple_begin_stub", "janet_tuple_end:ac_tuple_end_stub",
            "janet_csymbol:ac_csymbol_stub"]


def shape_defines(name):
    ops, slots, _ = SHAPES[name]
    d = ["-DAC_SHAPE=JINT_%s" % name, "-DAC_N=%d" % len(ops), "-DAC_SLOTS=%d" % slots]
    for i, (b, sg) in enumerate(ops, 1):
        d += ["-DAC_W%d=%d" % (i, b), "-DAC_S%d=%d" % (i, sg)]
    if name == "SU":
        d.append("-DAC_RETYPE=JOP_LOAD_INTEGER")
    return d


def codec_unit(uid, entry, shape, clause, functions, mutants, cls="full-domain", extra_def=None, bound=None, unwind=80, tier="quick", skip=True, timeout=300):
    if shape == "SSS" or (shape in ("S", "SSI", "SES") and entry != "h_dec") or (shape == "S" and entry == "h_dec"):
        tier = "thorough"       # one body per opcode of the shape: SSS (about 30 opcodes) 50-150 s; S, SSI, SES 20-55 s on a loaded machine
    u = {"id": uid, "props": ["C09", "C10"] if entry == "h_enc" else ["C09"], "tier": tier, "class": cls, "clause": clause,
         "src": ["bytecode.c", "asm.c"], "link": ["wrap.c"], "link_keep": {"wrap.c": WRAP},
         "harness": ["asm_codec.c"], "entry": entry, "mode": "plain", "nanbox": False, "functions": functions,
         "defines": shape_defines(shape) + (extra_def or []) + (["-DAC_RT"] if entry == "h_rt" else []),
         "replace_calls": RC_CODEC, "checks": CHECKS, "unwind": unwind, "unwinding_assertions": True, "timeout": timeout,
         "assumes": [A_LAYOUT, A_LONGJMP, A_TUPLE, A_CSYM, A_FORMAT, A_NONANBOX] + ([A_SLOTCOUNT0] if entry != "h_dec" else []),
         "mutants": mutants}
    if bound:
        u["bound"] = bound
    if skip and entry != "h_dec":
        u["skip"] = [r"doarg_1\.overflow\.\d+ arithmetic overflow on signed \+ in \(int32_t\)ret \+ 1"]
        u["undecided_clauses"] = [A_OVF]
        u["assumes"].append(A_OVF)
    return u


for name, (ops, slots, text) in SHAPES.items():
    low = name.lower()
    uw = 260 if name == "SES" else 80
    add(codec_unit("asm.codec.enc.%s" % low, "h_enc", name,
                   "read_instruction, shape JINT_%s - %s: for ANY double operands it returns a word only when there are exactly the operands of the shape, "
                   "each an integer inside the range of its field (out-of-range, fractional, NaN raise instead of being truncated into a neighbouring field); "
                   "the word is the opcode with each operand at the position/width/signedness the interpreter reads; slotcount covers the slot operands; "
                   "janet_asm_decode_instruction maps the word back to the same mnemonic and operands" % (name, text),
                   ["read_instruction", "doarg", "doarg_1"], [m for m in ENC_MUT[name] if m is not M_S16] + ([M_DOARG_MAX] if name == "SSS" else []) + ([M_DOARG_NOMIN] if name == "SI" else []),
                   unwind=uw))
    add(codec_unit("asm.codec.dec.%s" % low, "h_dec", name,
                   "janet_asm_decode_instruction, shape JINT_%s - %s: every word with an opcode of this shape is printed as (mnemonic operand...) "
                   "with each operand the field the interpreter reads (position, width, signedness); bracketed iff the breakpoint flag is set" % (name, text),
                   ["janet_asm_decode_instruction", "janet_asm_reverse_lookup"], DEC_MUT[name] + ([M_BRK] if name == "0" else [])))
    RT_CL = ("shape JINT_%s - %s: read_instruction accepts the tuple janet_asm_decode_instruction prints for ANY word of the shape (any nesting depth of "
             "the function being assembled) and returns the same word (breakpoint flag cleared)" % (name, text))
    rt_mut = [dict([m for m in ENC_MUT[name] if m is not M_S16][0], expect="accepts every instruction|gives back the word")] if name != "0" else [DEC_MUT["0"][0]]
    if name in RT_MUT:
        rt_mut = [RT_MUT[name]]
    if name == "S":
        u = codec_unit("asm.codec.rt.s", "h_rt", name, RT_CL, ["read_instruction", "doarg", "doarg_1", "janet_asm_decode_instruction"],
                       [M_S16, dict(ENC_MUT["S"][1], expect=RT_EXP)])
        u["fixed"] = FIXED_S
        add(u)
    elif name == "SES":
        add(codec_unit("asm.codec.rt.ses", "h_rt", name, RT_CL, ["read_instruction", "doarg", "doarg_1", "janet_asm_decode_instruction"], rt_mut, unwind=uw),
            failing="FINDING asm-upvalue-needs-parents: read_instruction walks (environment index + 1) parents of the assembler for ldu/setu and raises "
                    "'invalid environment index' when there are fewer - so (asm (disasm f)) fails for every closure f that uses an upvalue: "
                    "(def f ((fn [] (var x 1) (fn [] (++ x))))) (asm (disasm f)) -> error 'invalid environment index, instruction 0'. "
                    "Such an f captures outer variables, which C09's statement excludes; for definitions nested inside the function being assembled the restricted unit "
                    "asm.codec.rt.ses.nested applies. The environment index is treated as a nesting depth, which it is not (it indexes def->environments). "
                    "Failing obligation ac_longjmp_stub.assertion.1 'the assembler accepts every instruction the disassembler prints'.")
        add(codec_unit("asm.codec.rt.ses.nested", "h_rt", name, RT_CL + " - restricted to functions nested deeper than the environment index",
                       ["read_instruction", "doarg", "doarg_1", "janet_asm_decode_instruction"], rt_mut, cls="bounded", unwind=uw,
                       bound="assembler has an unbounded parent chain (top-level functions and shallow nesting fail: disabled unit asm.codec.rt.ses)",
                       extra_def=["-DAC_RT_PRE=(ac_a.parent&&ac_p.parent)"]))
    else:
        add(codec_unit("asm.codec.rt.%s" % low, "h_rt", name, RT_CL, ["read_instruction", "doarg", "doarg_1", "janet_asm_decode_instruction"], rt_mut, unwind=uw))

add({"id": "asm.optable", "props": ["C09"], "tier": "quick", "class": "full-domain",
     "clause": "the mnemonic table janet_ops is strictly sorted by name (what the assembler's binary search needs), every opcode of the instruction set has exactly "
               "one entry, and janet_asm_reverse_lookup returns the entry of the opcode in bits 0-6 of any word (NULL iff the opcode is not in the instruction set): "
               "looking up the mnemonic the disassembler printed finds the same opcode",
     "src": ["bytecode.c", "asm.c"], "harness": ["asm_codec.c"], "entry": "h_optable", "mode": "plain", "nanbox": False,
     "defines": shape_defines("0"), "functions": ["janet_asm_reverse_lookup"], "checks": CHECKS, "unwind": 80, "unwinding_assertions": True, "timeout": 300,
     "assumes": ["janet_strbinsearch (util.c) is a binary search that is correct on strictly sorted tables (not re-proved here)"],
     "mutants": [M("opcode-mask-8-bits", "    uint32_t opcode = instr & 0x7F;\n    for (i = 0; i < sizeof(janet_ops)", "    uint32_t opcode = instr & 0xFF;\n    for (i = 0; i < sizeof(janet_ops)", "reverse lookup"),
                 M("table-unsorted", "    {\"addim\", JOP_ADD_IMMEDIATE},\n    {\"band\", JOP_BAND},", "    {\"band\", JOP_BAND},\n    {\"addim\", JOP_ADD_IMMEDIATE},", "strictly sorted")]})


# ------------------------------------------------------------------------------------------------------------------
# 2. doarg_1 per argument kind, doarg range check
# ------------------------------------------------------------------------------------------------------------------
A_TABLES = ("janet_table_get replaced by a recording stub: returns nil (absent) or a planted integer 0 <= i < INT32_MAX - representation invariant of "
            "the assembler's four tables (janet_asm1 / janet_asm_addenv only store janet_wrap_integer(index >= 0); labels are keyed by keywords, "
            "slots and environments by symbols; the put side is asserted in the asm.asm1.* units)")
A_BINSEARCH = "janet_strbinsearch(type_aliases, key) returns NULL or an entry of type_aliases (the entry named key; util.c, not re-proved here)"
A_ADDENV = "janet_asm_addenv replaced by an assertion that it is unreachable (it is: only a table entry -1 leads to it and no entry is negative)"
RC_DOARG = ["janet_asm_longjmp:ad_longjmp_stub", "janet_table_get:ad_table_get_stub", "janet_strbinsearch:ad_strbinsearch_stub",
            "janet_asm_addenv:ad_addenv_stub"]
DOARG1_CLAUSE = ("doarg_1 with argument kind %s, for an ARBITRARY Janet value (any type, any payload): it returns only for an int32-valued number (taken literally)%s; "
                 "every other value raises; names are looked up once, only in the table of that kind of the assembler of the function being assembled; "
                 "%s; no read outside the argument")
KINDS = [
    ("slot", "SLOT", 0, ", or a symbol found in a->slots", "def->slotcount becomes max(old, slot + 1) without overflow",
     [M("slotcount-off-by-one", "    if (argtype == JANET_OAT_SLOT && ret >= a->def->slotcount)", "    if (argtype == JANET_OAT_SLOT && ret > a->def->slotcount)", "raises slotcount"),
      M("slot-names-from-defs", "        case JANET_OAT_SLOT:\n            c = &a->slots;", "        case JANET_OAT_SLOT:\n            c = &a->defs;", "table of its own kind")]),
    ("environment", "ENVIRONMENT", 1, ", or a symbol found in a->envs", "slotcount unchanged",
     [M("env-names-from-parent", "        case JANET_OAT_ENVIRONMENT:\n            c = &a->envs;", "        case JANET_OAT_ENVIRONMENT:\n            c = a->parent ? &a->parent->envs : &a->envs;", "function being assembled only")]),
    ("constant", "CONSTANT", 2, " (constants have no names)", "slotcount unchanged",
     [M("constant-names-from-slots", "        default:\n            c = NULL;\n            break;\n        case JANET_OAT_SLOT:", "        default:\n            c = &a->slots;\n            break;\n        case JANET_OAT_SLOT:", "a symbol names a slot")]),
    ("integer", "INTEGER", 3, " (immediates have no names)", "slotcount unchanged",
     [M("int-range-check-dropped", "            if (janet_checkintrange(y)) {\n                ret = (int32_t) y;", "            if (y == y) {\n                ret = (int32_t) y;", "integer in the int32 range"),
      M("immediate-counts-as-slot", "    if (argtype == JANET_OAT_SLOT && ret >= a->def->slotcount)", "    if (ret >= a->def->slotcount)", "only slot arguments change slotcount")]),
    ("type", "TYPE", 4, ", a type keyword (mask of its alias) or a tuple of integers and type keywords (OR of the elements)", "slotcount unchanged",
     [M("typeset-keeps-last-only", "                    ret |= doarg_1(a, JANET_OAT_SIMPLETYPE, t[i]);", "                    ret = doarg_1(a, JANET_OAT_SIMPLETYPE, t[i]);", "OR of its elements"),
      M("typeset-reads-one-past", "                for (i = 0; i < janet_tuple_length(t); i++) {\n                    ret |= doarg_1", "                for (i = 0; i <= janet_tuple_length(t); i++) {\n                    ret |= doarg_1", "bounds|pointer|OR of its|one alias search|unwinding")]),
    ("simpletype", "SIMPLETYPE", 5, " or a type keyword (mask of its alias); a tuple raises (no nested type sets)", "slotcount unchanged",
     [M("alias-mask-plus-nil", "                    ret = alias->mask;", "                    ret = alias->mask | JANET_TFLAG_NIL;", "mask of its alias"),
      M("simpletype-keyword-is-label", "            if (NULL != c && argtype == JANET_OAT_LABEL) {", "            if (argtype == JANET_OAT_SIMPLETYPE) {", "pointer|looked up|mask of its alias|tables of the assembler")]),
    ("label", "LABEL", 6, ", or a keyword found in a->labels: result = label index - index of the instruction being assembled (the offset JOP_JUMP* add to pc)", "slotcount unchanged",
     [M("offset-sign", "                    ret = janet_unwrap_integer(result) - a->bytecode_count;", "                    ret = janet_unwrap_integer(result) + a->bytecode_count;", "relative to the instruction|overflow"),
      M("label-absolute", "                    ret = janet_unwrap_integer(result) - a->bytecode_count;", "                    ret = janet_unwrap_integer(result);", "relative to the instruction")]),
    ("funcdef", "FUNCDEF", 7, ", or a symbol found in a->defs", "slotcount unchanged",
     [M("def-names-from-slots", "        case JANET_OAT_FUNCDEF:\n            c = &a->defs;", "        case JANET_OAT_FUNCDEF:\n            c = &a->slots;", "table of its own kind")]),
]
FIND_SLOT_OVF = ("FINDING asm-slotcount-increment-overflow (formal UB only): doarg_1 computes `a->def->slotcount = ret + 1` BEFORE doarg range-checks the slot, so "
                 "the slot number 2147483647 overflows a signed int: (asm '{:bytecode [(ret 2147483647)]}). The assembly is then rejected ('too large') and the "
                 "definition discarded, so no misbehaviour is observable on the pinned build. Failing obligations doarg_1.overflow 'arithmetic overflow on signed + "
                 "in (int32_t)ret + 1' and h_doarg1 'a slot argument raises slotcount to slot + 1'.")
for low, up, num, extra, sc, muts in KINDS:
    u = {"id": "asm.doarg1.%s" % low, "props": ["C10"], "tier": "quick", "class": "bounded",
         "bound": "type-set tuples of at most 2 elements (element values arbitrary); everything else unbounded",
         "clause": DOARG1_CLAUSE % (low, extra, sc),
         "src": ["bytecode.c", "asm.c"], "harness": ["asm_doarg.c"], "entry": "h_doarg1", "mode": "plain", "nanbox": False,
         "defines": ["-DAD_KIND=JANET_OAT_%s" % up, "-DAD_K=%d" % num], "functions": ["doarg_1"],
         "replace_calls": RC_DOARG, "checks": CHECKS, "unwind": 4, "unwinding_assertions": True, "timeout": 300,
         "assumes": [A_LONGJMP, A_TABLES, A_BINSEARCH, A_ADDENV, A_FORMAT, A_NONANBOX, A_SLOTCOUNT0], "mutants": muts}
    if low != "type":
        u["class"] = "full-domain" if low not in ("type",) else "bounded"
        if u["class"] == "full-domain":
            del u["bound"]
    add(u, failing=FIND_SLOT_OVF if low == "slot" else None)
# the slot kind without the one overflowing value, so that the rest of its contract stays proved
u = dict([x for x in units if x["id"] == "asm.doarg1.slot"][0])
u.pop("disabled_reason", None)
u.pop("expected_to_fail", None)
u.update({"id": "asm.doarg1.slot.below-max", "class": "bounded", "bound": "numeric slot arguments other than 2147483647 (that value: disabled unit asm.doarg1.slot)",
          "defines": u["defines"] + ["-DAD_NOT_INTMAX"]})
add(u)
add({"id": "asm.doarg.range", "props": ["C10"], "tier": "quick", "class": "full-domain",
     "clause": "doarg, for every (position, width, signedness) read_instruction uses and ANY int32 argument: it returns only if the argument is inside the range of an "
               "nbytes-wide signed/unsigned field; the result has no bit outside the operand's own field (nothing is truncated into a neighbouring field) and the field "
               "holds the value in two's complement",
     "src": ["bytecode.c", "asm.c"], "harness": ["asm_doarg.c"], "entry": "h_doarg_range", "mode": "plain", "nanbox": False,
     "defines": ["-DAD_KIND=JANET_OAT_INTEGER", "-DAD_K=3"], "functions": ["doarg"],
     "replace_calls": ["janet_asm_longjmp:ad_longjmp_stub", "doarg_1:ad_doarg1_stub"], "checks": CHECKS, "unwind": 4, "unwinding_assertions": True, "timeout": 300,
     "assumes": [A_LONGJMP, A_FORMAT, "doarg_1 replaced by a stub returning an arbitrary int32 (its contract: units asm.doarg1.*)"],
     "mutants": [M_DOARG_MAX, M_DOARG_NOMIN,
                 M("upper-bound-dropped", "    if (arg > max)\n        janet_asm_errorv", "    if (0)\n        janet_asm_errorv", "outside the range"),
                 M("signed-range-not-halved", "    int32_t max = (1 << ((nbytes << 3) - hassign)) - 1;", "    int32_t max = (1 << (nbytes << 3)) - 1;", "outside the range")]})


# ------------------------------------------------------------------------------------------------------------------
# 3. janet_asm1 structure, one unit per section of the description
# ------------------------------------------------------------------------------------------------------------------
RC_STRUCT = ["janet_gcalloc:as_gcalloc_stub", "janet_table_init:as_table_init_stub", "janet_table_deinit:as_table_deinit_stub",
             "janet_table_put:as_table_put_stub", "janet_table_get:as_table_get_stub", "janet_struct_get:as_struct_get_stub",
             "janet_csymbol:as_csymbol_stub", "janet_indexed_view:as_indexed_view_stub", "janet_keyeq:as_keyeq_stub",
             "janet_to_string:as_to_string_stub", "janet_strbinsearch:as_strbinsearch_stub", "read_instruction:as_read_instruction_stub",
             "janet_asm_longjmp:as_longjmp_stub", "_setjmp:as_setjmp_stub", "janet_verify:as_verify_stub", "janet_asm1:as_asm1_stub"]
A_STRUCT = [
    "description = table/struct whose fields are returned by a stub of janet_table_get / janet_struct_get keyed by the keyword text (janet_ckeyword(s) is represented by s); "
    "lists are (count, data) objects handed out by a stub of janet_indexed_view for arrays and tuples; element tuples are separate blocks of exactly their length; "
    "every other heap value is an opaque pointer",
    "janet_gcalloc returns a fresh block of the requested size (stub); malloc/realloc are CBMC's models and do not fail",
    "janet_table_init/put/deinit replaced by recording stubs that assert the table discipline (own live tables, entries 0 <= i < INT32_MAX, key kinds)",
    "read_instruction replaced by a stub returning an arbitrary word (or raising via its own errors - proved in asm.codec.enc.*); it asserts bytecode_count = index of the instruction",
    "janet_strbinsearch(janet_ops, name) returns NULL or an entry of janet_ops (util.c, not re-proved)",
    "janet_verify replaced by a stub that asserts its precondition (blocks match lengths), records the call and returns an arbitrary verdict (its contract: unit bytecode.verify)",
    "the nested janet_asm1 call is replaced by the contract proved here (raises through the parent or returns OK with a fresh definition)",
    "setjmp/longjmp: janet_asm_longjmp does not return; _setjmp returns 0, or 1 with an arbitrary error message to exercise the handler",
    "janet_keyeq returns an arbitrary truth value for keywords, 0 otherwise; janet_to_string returns an opaque string; janet_checkint (util.c) and janet_def_addflags (compile.c) are the real code",
    A_FORMAT, A_NONANBOX]
ASM1_COMMON = ("janet_asm1 on a description whose %s arbitrary (lists of up to 2 arbitrary elements, element tuples of 0..5 arbitrary values) and :bytecode arbitrary: every read is inside the "
               "description, every write inside the block allocated for it, no signed overflow; status OK only after janet_verify was called once on the returned definition "
               "with every array block matching its length and said 0, nothing verified is changed afterwards; an error result carries no definition; the name tables are "
               "released exactly once on every way out; table entries are integers 0 <= i < INT32_MAX under keys of the right kind")
M_VERIFY_IGNORED = M("verdict-ignored", "    if (verify_status) {\n        janet_asm_errorv", "    if (0) {\n        janet_asm_errorv", "only after janet_verify accepted")
M_NO_VERIFY = M("verify-skipped", "    int verify_status = janet_verify(def);", "    int verify_status = 0;", "only after janet_verify accepted")
M_LEAK_TABLES = M("tables-not-released-on-success", "    /* Finish everything and return funcdef */\n    janet_asm_deinit(&a);", "    /* Finish everything and return funcdef */", "released exactly once")
M_SLOTCOUNT_ORDER = M("slotcount-before-vararg", "    /* Check vararg */\n    x = janet_get1(s, janet_ckeywordv(\"vararg\"));\n    if (janet_truthy(x)) def->flags |= JANET_FUNCDEF_FLAG_VARARG;\n\n    /* Initialize slotcount */\n    def->slotcount = !!(def->flags & JANET_FUNCDEF_FLAG_VARARG) + def->arity;",
                      "    def->slotcount = !!(def->flags & JANET_FUNCDEF_FLAG_VARARG) + def->arity;\n    x = janet_get1(s, janet_ckeywordv(\"vararg\"));\n    if (janet_truthy(x)) def->flags |= JANET_FUNCDEF_FLAG_VARARG;", "slotcount covers the parameters")
M_STRUCTARG_AS_VARARG = M("structarg-sets-vararg", "    if (janet_truthy(x)) def->flags |= JANET_FUNCDEF_FLAG_STRUCTARG;", "    if (janet_truthy(x)) def->flags |= JANET_FUNCDEF_FLAG_VARARG;", "flags are set exactly")
M_HANDLER_DEF = M("error-result-keeps-definition", "        result.funcdef = NULL;\n        result.error = a.errmessage;", "        result.funcdef = def;\n        result.error = a.errmessage;", "carries no definition")
M_HANDLER_LEAK = M("tables-not-released-before-propagating", "        if (NULL != a.parent) {\n            janet_asm_deinit(&a);", "        if (NULL != a.parent) {", "released before an error is passed")


def struct_unit(uid, secs, what, mutants, extra_def=None, bound_extra="", failing=None, tier="quick", timeout=900, unwind=17, fixed=None, extra=None):
    tier = "thorough"           # 20-50 s (header, bytecode, depth-guard) to 60-260 s (the others) on a loaded machine
    u = {"id": uid, "props": ["C10"], "tier": tier, "class": "bounded",
         "bound": "lists of at most 2 elements, element tuples of at most 5 values (values arbitrary); one nesting level (the nested call is its contract)" + bound_extra,
         "clause": ASM1_COMMON % what,
         "src": ["bytecode.c", "asm.c"], "link": ["wrap.c", "util.c", "compile.c"],
         "link_keep": {"wrap.c": ["janet_wrap_number", "janet_wrap_nil", "janet_wrap_keyword"], "util.c": ["janet_checkint"], "compile.c": ["janet_def_addflags"]},
         "harness": ["asm_struct.c"], "entry": "h_asm1", "mode": "plain", "nanbox": False, "functions": ["janet_asm1", "janet_get1", "janet_asm_deinit"],
         "defines": ["-DAS_SEC_%s" % x for x in secs] + (extra_def or []),
         "replace_calls": RC_STRUCT, "replace_calls2": ["janet_asm1__entry:janet_asm1"],
         "checks": CHECKS, "unwind": unwind, "unwinding_assertions": True, "timeout": timeout, "object_bits": 10,
         "assumes": A_STRUCT, "mutants": mutants}
    if "one nesting level" in u["bound"] and not (extra_def and "-DAS_DEPTH_GUARD" in extra_def):
        u["bound"] += "; the assembler has at most 2 assemblers above it (the depth guard: asm.asm1.depth-guard*)"
    if fixed:
        u["fixed"] = fixed
    if extra:
        u.update(extra)
    add(u, failing=failing)


DEPTH_UNWINDSET = {"janet_asm1.0": 1030, "h_asm1.1": 1030}     # the depth-counting loop and the harness loop that links the parent chain
FIND_ARITY_OVF = ("FINDING asm-arity-overflow (formal UB only): `def->slotcount = !!(flags & VARARG) + def->arity` overflows for :arity 2147483647 with :vararg true: "
                  "(asm '{:arity 2147483647 :vararg true :bytecode [(retn)]}) - the wrapped negative slotcount is then rejected by janet_verify ('invalid assembly (2)'), no "
                  "misbehaviour on the pinned build. Failing obligation janet_asm1.overflow 'arithmetic overflow on signed + in ... + def->arity'.")
FIND_SM = ("FINDING asm-sourcemap-short-tuple (C10, reproduced with valgrind): janet_asm1 reads tup[0] and tup[1] of every :sourcemap entry without looking at the tuple's length: "
           "(asm {:bytecode ['(retn)] :sourcemap [(tuple)]}) reads 16 bytes past the empty tuple (valgrind: Invalid read of size 8 at asm.c:717 and :720, 0 bytes after a block of size 32). "
           "Failing obligations janet_asm1.pointer_dereference 'dereference failure: pointer outside object bounds in tup[...]'.")
FIND_SYM = ("FINDING asm-symbolmap-short-tuple (C10, reproduced with valgrind): janet_asm1 reads tup[0..3] of every :symbolmap entry without looking at the tuple's length: "
            "(asm {:bytecode ['(retn)] :symbolmap [(tuple 1)]}) reads past the one-element tuple (valgrind: Invalid read at asm.c:754-765). "
            "Failing obligations janet_asm1.pointer_dereference 'dereference failure: pointer outside object bounds in tup[...]'.")
FIND_DEPTH = ("FINDING asm-unbounded-recursion (C10/C19, reproduced: SIGSEGV): janet_asm1 recurses into every element of :closures/:defs with no depth limit; a description nested "
              "10000 deep overflows the native stack: (var s {:bytecode ['(retn)]}) (for i 0 10000 (set s {:bytecode ['(retn)] :closures [s]})) (asm s) -> Segmentation fault. "
              "Failing obligation as_asm1_stub.assertion 'no nested definition is assembled beyond the recursion limit'.")

struct_unit("asm.asm1.source-type", ["SOURCE_TYPE"], "top-level value is ANYTHING (number, string, nil, table, ...), its fields nil,",
            [
             M_HANDLER_DEF, M_HANDLER_LEAK])
struct_unit("asm.asm1.header", ["HEADER"], ":name :arity :min-arity :max-arity :vararg :structarg :source are",
            [M_VERIFY_IGNORED, M_NO_VERIFY], failing=FIND_ARITY_OVF)
struct_unit("asm.asm1.header.below-max", ["HEADER"], ":name :arity :min-arity :max-arity :vararg :structarg :source are",
            [M_VERIFY_IGNORED, M_NO_VERIFY, M_LEAK_TABLES, M_SLOTCOUNT_ORDER, M_STRUCTARG_AS_VARARG], extra_def=["-DAS_ARITY_BELOW_MAX"], bound_extra="; :arity other than 2147483647 (that value: disabled unit asm.asm1.header)",
            extra={"tier": "quick", "props": ["C10", "C09"],
                   "clause": ASM1_COMMON % ":name :arity :min-arity :max-arity :vararg :structarg :source are" + " C09 (asm . disasm): the definition handed to janet_verify has arity/min-arity/max-arity as described (defaults: 0 / arity / arity), the vararg and structarg flags exactly when the keys are truthy, and a slotcount covering arity + the rest parameter"})
struct_unit("asm.asm1.slots", ["SLOTS"], ":slots (names and tuples of names) is",
            [M("slot-alias-non-symbol-accepted", "                    if (!janet_checktype(t[j], JANET_SYMBOL))\n                        janet_asm_error(&a, \"slot names must be symbols\");", "", "slot names are symbols"),
             M("slot-alias-loop-one-past", "                for (j = 0; j < janet_tuple_length(t); j++) {", "                for (j = 0; j <= janet_tuple_length(t); j++) {", "pointer|bounds|unwinding")])
struct_unit("asm.asm1.constants", ["CONSTANTS"], ":constants is",
            [M("constants-block-one-short", "        def->constants = janet_malloc(sizeof(Janet) * (size_t) count);", "        def->constants = janet_malloc(sizeof(Janet) * (size_t) (count - (count > 0)));", "pointer|bounds|block of constants_length"),
             M("constants-length-not-set", "        def->constants_length = count;\n        def->constants = janet_malloc", "        def->constants_length = count + 1;\n        def->constants = janet_malloc", "block of constants_length")])
struct_unit("asm.asm1.closures", ["CLOSURES"], ":closures / :defs are",
            [M("defs-capacity-not-grown", "            if (a.defs_capacity < newlen) {", "            if (a.defs_capacity < newlen - 1) {", "pointer|bounds|block of defs_length"),
             M("defs-length-off-by-one", "            def->defs_length = newlen;", "            def->defs_length = newlen + 1;", "block of defs_length|pointer|bounds"),
             M("nested-with-grandparent", "            subres = janet_asm1(&a, arr[i], flags);", "            subres = janet_asm1(a.parent, arr[i], flags);", "with this assembler as its parent")])
struct_unit("asm.asm1.bytecode", [], "other fields are nil - :bytecode (labels, instruction tuples, anything else) is",
            [M("label-counts-as-instruction", "            if (janet_checktype(instr, JANET_KEYWORD)) {\n                janet_table_put(&a.labels, instr, janet_wrap_integer(blength));\n            } else if",
               "            if (janet_checktype(instr, JANET_KEYWORD)) {\n                janet_table_put(&a.labels, instr, janet_wrap_integer(blength++));\n            } else if", "exactly bytecode_length instructions"),
             M("bytecode-block-counts-tuples-minus-one", "        def->bytecode = janet_malloc(sizeof(uint32_t) * (size_t) blength);", "        def->bytecode = janet_malloc(sizeof(uint32_t) * (size_t) (blength - (blength > 0)));", "pointer|bounds|block of bytecode_length"),
             M("empty-tuple-mnemonic-read", "                if (janet_tuple_length(t) == 0) {\n                    op = 0;", "                if (janet_tuple_length(t) < 0) {\n                    op = 0;", "pointer|bounds|has a mnemonic"),
             M_VERIFY_IGNORED, M_LEAK_TABLES])
struct_unit("asm.asm1.sourcemap", ["SOURCEMAP"], ":sourcemap is",
            [M("fix-reverted-sourcemap-entry-length-unchecked", "            if (janet_tuple_length(tup) < 2) {\n                janet_asm_error(&a, \"expected tuple of 2 integers\");\n            }\n", "", "pointer|bounds"),
             M("sourcemap-entry-length-off-by-one", "            if (janet_tuple_length(tup) < 2) {", "            if (janet_tuple_length(tup) < 1) {", "pointer|bounds"),
             M("sourcemap-length-check-dropped", "        janet_asm_assert(&a, count == def->bytecode_length, \"sourcemap must have the same length as the bytecode\");", "", "one entry per instruction|pointer|bounds"),
             M("sourcemap-entry-type-check-dropped", "            JanetSourceMapping mapping;\n            if (!janet_checktype(entry, JANET_TUPLE)) {", "            JanetSourceMapping mapping;\n            if (0) {", "pointer|bounds")],
            fixed="fixed: /repo 3fa68a9 - " + FIND_SM)
struct_unit("asm.asm1.symbolmap", ["SYMBOLMAP"], ":symbolmap is",
            [M("fix-reverted-symbolmap-entry-length-unchecked", "            if (janet_tuple_length(tup) < 4) {\n                janet_asm_error(&a, \"expected tuple of 4 elements\");\n            }\n", "", "pointer|bounds"),
             M("symbolmap-block-one-short", "        def->symbolmap = janet_malloc(sizeof(JanetSymbolMap) * (size_t)count);", "        def->symbolmap = janet_malloc(sizeof(JanetSymbolMap) * (size_t)(count - (count > 0)));", "pointer|bounds|block of symbolmap_length"),
             M("symbolmap-entry-type-check-dropped", "            JanetSymbolMap ss;\n            if (!janet_checktype(entry, JANET_TUPLE)) {", "            JanetSymbolMap ss;\n            if (0) {", "pointer|bounds")],
            fixed="fixed: /repo 3fa68a9 - " + FIND_SYM)
struct_unit("asm.asm1.environments", ["ENVIRONMENTS"], ":environments is",
            [M("environments-block-one-short", "            def->environments = janet_realloc(def->environments, def->environments_length * sizeof(int32_t));", "            def->environments = janet_realloc(def->environments, (def->environments_length - 1) * sizeof(int32_t));", "pointer|bounds|block of environments_length"),
             M("environments-length-one-more", "        def->environments_length = count;\n        if (def->environments_length) {", "        def->environments_length = count + 1;\n        if (def->environments_length) {", "lengths of the description|block of environments_length|pointer|bounds")])
struct_unit("asm.asm1.depth-guard", ["CLOSURES"], ":closures / :defs are",
            [M("fix-reverted-no-depth-guard", "        janet_asm_assert(&a, depth < JANET_RECURSION_GUARD, \"recursed too deeply\");", "", "once the parent chain has"),
             M("depth-guard-off-by-one", "        janet_asm_assert(&a, depth < JANET_RECURSION_GUARD, \"recursed too deeply\");", "        janet_asm_assert(&a, depth <= JANET_RECURSION_GUARD, \"recursed too deeply\");", "once the parent chain has"),
             M("depth-counts-from-grandparent", "        for (JanetAssembler *p = parent; p != NULL; p = p->parent) depth++;", "        for (JanetAssembler *p = parent->parent; p != NULL; p = p->parent) depth++;", "once the parent chain has")],
            extra_def=["-DAS_DEPTH_GUARD", "-DAS_DEPTH=1024"],
            bound_extra="; the assembler has exactly JANET_RECURSION_GUARD (1024) assemblers above it: the description is refused before any nested definition is assembled",
            fixed="fixed: /repo f4335f4 - " + FIND_DEPTH, extra={"unwindset": DEPTH_UNWINDSET, "cbmc": ["--max-field-sensitivity-array-size", "1100"]})
struct_unit("asm.asm1.depth-guard.below", ["CLOSURES"], ":closures / :defs are",
            [M("nested-with-grandparent", "            subres = janet_asm1(&a, arr[i], flags);", "            subres = janet_asm1(a.parent, arr[i], flags);", "with this assembler as its parent"), M_NO_VERIFY],
            extra_def=["-DAS_DEPTH_GUARD", "-DAS_DEPTH=1023"],
            bound_extra="; the assembler has exactly JANET_RECURSION_GUARD - 1 (1023) assemblers above it: nested definitions are still assembled (REACH: nested assembly raises / returns)",
            extra={"unwindset": DEPTH_UNWINDSET, "cbmc": ["--max-field-sensitivity-array-size", "1100"]})


# ------------------------------------------------------------------------------------------------------------------
# 3b. cfun_asm: an accepted definition becomes a function without taking the process down
# ------------------------------------------------------------------------------------------------------------------
FIND_THUNK = ("FINDING asm-environments-abort (C10, reproduced: process aborts): cfun_asm wraps every accepted definition with janet_thunk, which janet_assert()s "
              "environments_length == 0 and abort()s otherwise; janet_asm1 copies :environments from the description and janet_verify does not look at it: "
              "(asm '{:bytecode [(retn)] :environments [0]}) -> 'janet internal error ... tried to create thunk that needs upvalues', SIGABRT (not catchable with try). "
              "Also hit by (asm (disasm f)) for a real closure: (def f ((fn [] (var x 1) (fn [] (fn [] x))))) (asm (disasm f)). "
              "Failing obligation abort.assertion.1 'the process is never taken down (abort)'.")


def cfun_unit(uid, extra_def, failing=None, bound=None):
    u = {"id": uid, "props": ["C10"], "tier": "quick", "class": "bounded" if bound else "full-domain",
         "clause": "cfun_asm (asm x): for any argument and any result of janet_asm (error, or a definition accepted by janet_verify with ANY environments_length) it returns "
                   "a function of that definition or raises a catchable error with a message; abort()/exit() are never reached",
         "src": ["bytecode.c", "asm.c"], "link": ["wrap.c"], "link_keep": {"wrap.c": ["janet_wrap_function"]},
         "harness": ["asm_cfun.c"], "entry": "h_cfun_asm", "mode": "plain", "nanbox": False, "functions": ["cfun_asm", "janet_thunk"],
         "defines": ["-DVC_OWN_EXIT"] + extra_def,
         "replace_calls": ["janet_asm:cf_asm_stub", "janet_gcalloc:cf_gcalloc_stub", "janet_panics:cf_panics_stub", "janet_panic:cf_panic_stub", "janet_cstring:cf_cstring_stub"],
         "checks": CHECKS, "unwind": 4, "unwinding_assertions": True, "timeout": 300,
         "assumes": ["janet_asm replaced by its contract (asm.asm1.*): ERROR without definition, or OK with a definition; environments_length >= 0 arbitrary "
                     "(janet_asm1 copies it from :environments, janet_verify does not constrain it)",
                     "janet_gcalloc returns a fresh block; janet_panics / janet_panicf do not return (catchable error); janet_cstring returns a string (stub)"],
         "mutants": [M("error-status-ignored", "    if (res.status != JANET_ASSEMBLE_OK) {\n        janet_panics", "    if (0) {\n        janet_panics", "pointer|function of the assembled"),
                     M("fix-reverted-environments-reach-thunk", "    if (res.funcdef->environments_length != 0) {\n        janet_panic(", "    if (0) {\n        janet_panic(", "never taken down"),
                     M("null-message-raised", "        janet_panics(res.error ? res.error : janet_cstring(\"invalid assembly\"));", "        janet_panics(res.error);", "with a message")]}
    if bound:
        u["bound"] = bound
    u["fixed"] = "fixed: /repo 116d89f - " + FIND_THUNK
    add(u, failing=failing)


cfun_unit("asm.cfun.no-abort", [])


# ------------------------------------------------------------------------------------------------------------------
# 4. janet_disasm followed by janet_asm1: field round trip
# ------------------------------------------------------------------------------------------------------------------
RC_DIS = ["janet_table:dd_table_stub", "janet_table_put:dd_table_put_stub", "janet_table_to_struct:dd_table_to_struct_stub", "janet_struct_get:dd_struct_get_stub",
          "janet_table_get:dd_table_get_stub", "janet_table_init:dd_table_init_stub", "janet_table_deinit:dd_table_deinit_stub", "janet_array:dd_array_stub",
          "janet_tuple_begin:dd_tuple_begin_stub", "janet_tuple_end:dd_tuple_end_stub", "janet_csymbol:dd_csymbol_stub", "janet_keyeq:dd_keyeq_stub",
          "janet_to_string:dd_to_string_stub", "janet_gcalloc:dd_gcalloc_stub", "janet_asm_decode_instruction:dd_decode_stub", "read_instruction:dd_read_stub",
          "janet_strbinsearch:dd_strbinsearch_stub", "janet_verify:dd_verify_stub", "_setjmp:dd_setjmp_stub", "janet_asm_longjmp:dd_longjmp_stub",
          "janet_disasm:dd_disasm_stub", "janet_asm1:dd_asm1_stub"]
A_DIS = [
    "definition under test: 0 <= min_arity <= arity <= max_arity, arity < INT32_MAX (what the compiler and the assembler produce; janet_verify does not check min/max arity), "
    "no breakpoint flag set in the bytecode (debugger state)",
    "instruction codec replaced by the contract proved in asm.codec.*: janet_asm_decode_instruction(w) yields a tuple that read_instruction maps back to w; the mnemonic lookup "
    "(janet_strbinsearch) finds an entry (asm.optable). NOT covered by that contract on the pinned tree: ldu/setu outside nested functions (disabled unit asm.codec.rt.ses)",
    "nested definitions by induction: janet_disasm of a nested definition is an opaque description and the nested janet_asm1 maps it back to an equal definition (represented by the same object)",
    "janet_verify accepts the reassembled definition (stub returns 0): it has equal fields; slotcount is recomputed from the operands (asm.codec.enc.*: covers every slot operand)",
    "tables / structs / arrays / tuples / keywords: recording stubs with exact block sizes (janet_table, janet_table_put, janet_table_to_struct, janet_struct_get, janet_array, "
    "janet_tuple_begin/end, janet_csymbol, janet_keyeq compares keyword text); janet_to_string of a string is that string (pp.c); janet_gcalloc returns a fresh block; "
    "_setjmp returns 0 and janet_asm_longjmp is an assertion failure (the assembler must accept); assembler name tables are no-ops (asm.asm1.*)",
    "janet_indexed_view, janet_checkint (util.c), janet_def_addflags (compile.c), janet_wrap_* (wrap.c) are the real code", A_NONANBOX]
DIS_MUT = [
    M("disasm-min-arity-prints-max", "static Janet janet_disasm_min_arity(JanetFuncDef *def) {\n    return janet_wrap_integer(def->min_arity);", "static Janet janet_disasm_min_arity(JanetFuncDef *def) {\n    return janet_wrap_integer(def->max_arity);", "same arity"),
    M("disasm-constants-repeat-first", "        constants->data[i] = def->constants[i];", "        constants->data[i] = def->constants[0];", "identical constants"),
    M("disasm-vararg-prints-structarg", "    return janet_wrap_boolean(def->flags & JANET_FUNCDEF_FLAG_VARARG);", "    return janet_wrap_boolean(def->flags & JANET_FUNCDEF_FLAG_STRUCTARG);", "vararg / structarg"),
    M("disasm-symbolmap-death-is-birth", "        t[1] = janet_wrap_integer(ss.death_pc);", "        t[1] = janet_wrap_integer(ss.birth_pc);", "symbol map entries"),
    M("disasm-environments-count-short", "    envs->count = def->environments_length;", "    envs->count = def->environments_length > 0 ? def->environments_length - 1 : 0;", "number of environments"),
    M("asm-max-arity-ignored", "    def->max_arity = janet_checkint(x) ? janet_unwrap_integer(x) : def->arity;", "    def->max_arity = def->arity;", "same arity"),
    M("asm-min-arity-reads-max-arity-key", "    x = janet_get1(s, janet_ckeywordv(\"min-arity\"));", "    x = janet_get1(s, janet_ckeywordv(\"max-arity\"));", "same arity|accepts the disassembly"),
    M("asm-sourcemap-column-from-line", "            mapping.column = janet_unwrap_integer(tup[1]);", "            mapping.column = janet_unwrap_integer(tup[0]);", "source map entries"),
    M("asm-defs-key-only-closures", "    if (janet_checktype(x, JANET_NIL)) {\n        x = janet_get1(s, janet_ckeywordv(\"defs\"));\n    }", "", "nested definitions"),
]
def rt_unit(sfx, defines, bound, mutants):
    add({"id": "asm.roundtrip.fields." + sfx, "props": ["C09"], "tier": "thorough", "class": "bounded",
         "bound": bound + "; values arbitrary; nested definitions by induction",
         "clause": "janet_disasm followed by janet_asm1: for any such definition the assembler accepts the disassembly and returns a definition with the same arity, min-arity, max-arity, "
                   "vararg/structarg flags, instruction words, constants (bit-identical), nested definitions (same order), environments, source map, symbol map, name and source; "
                   "all reads and writes of both functions in bounds. slotcount is NOT compared: the assembler ignores :slotcount and recomputes it (only 'covers the parameters' is asserted)",
         "src": ["bytecode.c", "asm.c"], "link": ["wrap.c", "util.c", "compile.c"],
         "link_keep": {"util.c": ["janet_checkint", "janet_indexed_view"], "compile.c": ["janet_def_addflags"]},
         "harness": ["asm_disasm.c"], "entry": "h_roundtrip", "mode": "plain", "nanbox": False, "defines": defines,
         "functions": ["janet_disasm", "janet_asm1", "janet_disasm_bytecode", "janet_disasm_constants", "janet_disasm_sourcemap", "janet_disasm_symbolslots", "janet_disasm_environments", "janet_disasm_defs"],
         "replace_calls": RC_DIS, "replace_calls2": ["janet_disasm__entry:janet_disasm", "janet_asm1__entry:janet_asm1"],
         "checks": CHECKS, "unwind": 18, "unwinding_assertions": True, "timeout": 900, "object_bits": 10,
         "assumes": A_DIS, "mutants": mutants})


rt_unit("len2", ["-DDD_MAX=2", "-DDD_FIX=2"], "exactly 2 instructions, constants, environments, nested definitions, symbol map entries (source map / symbol map / name / source present or absent)", DIS_MUT)
rt_unit("len1", ["-DDD_MAX=2", "-DDD_FIX=1"], "exactly 1 instruction, constant, environment, nested definition, symbol map entry", [DIS_MUT[0], DIS_MUT[5], DIS_MUT[7]])
rt_unit("len0", ["-DDD_MAX=2", "-DDD_FIX=0"], "1 instruction, no constants, environments, nested definitions; symbol map absent or empty", [DIS_MUT[2], DIS_MUT[6]])
rt_unit("mixed", ["-DDD_MAX=1"], "each list independently empty or of length 1", [DIS_MUT[3], DIS_MUT[4], DIS_MUT[8]])

if __name__ == "__main__":
    out = os.path.join(VERIF, "units", "C09_asm.json")
    json.dump({"units": units}, open(out, "w"), indent=1)
    print("wrote %s: %d units (%d disabled)" % (out, len(units), sum(1 for u in units if u.get("disabled_reason"))))
