#!/usr/bin/env python3
"""generates /verif/units/C09_asm.json: contracts on /repo/src/core/asm.c
   C09  instruction codec (read_instruction/doarg <-> janet_asm_decode_instruction), janet_disasm/janet_asm1 field round trip
   C10  doarg_1 / doarg range checks and name resolution, janet_asm1 structure (lengths, allocation, verification before return)
   Harnesses: harness/asm_codec.c, harness/asm_doarg.c, harness/asm_struct.c, harness/asm_disasm.c
   Usage: gen_C09_asm.py [--enable-failing]   (--enable-failing writes the units that FAIL on the pinned tree without their
   disabled_reason so that they can be run; the committed file keeps them disabled with the finding text)"""
import json, os, sys

VERIF = os.path.dirname(os.path.dirname(os.path.abspath(__file__)))
ENABLE_FAILING = "--enable-failing" in sys.argv
CHECKS = ["bounds-check", "pointer-check", "signed-overflow-check", "undefined-shift-check", "div-by-zero-check"]
WRAP = ["janet_wrap_number", "janet_wrap_nil", "janet_wrap_tuple", "janet_wrap_symbol"]


def M(name, find, replace, expect, file="asm.c", **kw):
    d = {"name": name, "file": file, "find": find, "replace": replace, "expect": expect}
    d.update(kw)
    return d


units = []


def add(u, failing=None):
    """failing: finding text -> the unit fails on the pinned tree; kept disabled with the text unless --enable-failing"""
    if failing and not ENABLE_FAILING:
        u["disabled_reason"] = failing
    elif failing:
        u["expected_to_fail"] = failing
    units.append(u)


# ------------------------------------------------------------------------------------------------------------------
# 1. instruction codec, one unit per shape and direction
# ------------------------------------------------------------------------------------------------------------------
A_LONGJMP = "an assembler error (janet_asm_longjmp, reached through janet_asm_error / janet_asm_errorv) does not return (stub: assume(0))"
A_TUPLE = ("janet_tuple_begin(n) returns a fresh block of exactly n elements with length n and flags 0, janet_tuple_end returns it "
           "unchanged (recording stub; interning/hash not modelled)")
A_CSYM = "janet_csymbol(s) is represented by the C string s itself (recording stub): two symbols are equal iff made from the same table entry"
A_FORMAT = "janet_formatc (error text) returns an arbitrary pointer (generated body)"
A_NONANBOX = "values in the documented tagged-struct configuration (nanbox: false); janet_wrap_* are the real wrap.c functions"
A_LAYOUT = ("specification of the word layout = operand macros of vm.c (A,B,C,D,E,CS,DS,ES) and the shape comments of enum "
            "JanetInstructionType in janet.h, written down in harness/asm_codec.c (ac_field/ac_place)")
A_SLOTCOUNT0 = "requires: def->slotcount >= 0 and a->bytecode_count >= 0 on entry (janet_asm1 sets them to arity + vararg and 0..length)"
A_OVF = ("the increment `ret + 1` of slotcount in doarg_1 is excluded here (skip) and is the obligation of unit asm.doarg1.slot")

# shape -> (operands [(bits, signed)], slot mask, text)
SHAPES = {
    "0":   ([], 0, "no operands (noop, retn)"),
    "S":   ([(24, 0)], 0b10, "one 24-bit slot (ret, push, ldn, mkarr ...)"),
    "L":   ([(24, 1)], 0, "one signed 24-bit jump offset relative to the instruction (jmp)"),
    "SS":  ([(8, 0), (16, 0)], 0b110, "8-bit slot, 16-bit slot (movn, movf, call, len ...)"),
    "SL":  ([(8, 0), (16, 1)], 0b10, "8-bit slot, signed 16-bit jump offset (jmpif, jmpno, jmpni, jmpnn)"),
    "ST":  ([(8, 0), (16, 0)], 0b10, "8-bit slot, 16-bit type set (tchck)"),
    "SI":  ([(8, 0), (16, 1)], 0b10, "8-bit slot, signed 16-bit immediate (ldi)"),
    "SU":  ([(8, 0), (16, 0)], 0b10, "8-bit slot, unsigned 16-bit immediate (no opcode of the pinned instruction set; exercised by re-typing ldi)"),
    "SD":  ([(8, 0), (16, 0)], 0b10, "8-bit slot, 16-bit index of a nested definition (clo)"),
    "SSS": ([(8, 0), (8, 0), (8, 0)], 0b1110, "three 8-bit slots (add, get, put ...)"),
    "SSI": ([(8, 0), (8, 0), (8, 1)], 0b110, "two 8-bit slots, signed 8-bit immediate (addim, ltim ...)"),
    "SSU": ([(8, 0), (8, 0), (8, 0)], 0b110, "two 8-bit slots, unsigned 8-bit immediate (geti, puti, sig, sruim)"),
    "SES": ([(8, 0), (8, 0), (8, 0)], 0b10, "8-bit slot, 8-bit environment index, 8-bit slot of that environment (ldu, setu)"),
    "SC":  ([(8, 0), (16, 0)], 0b10, "8-bit slot, 16-bit constant index (ldc)"),
}
# the doarg call sites of read_instruction: shape -> [(find, replace)] one-line mutants of the encoder
ENC_MUT = {
    "0": [M("arity-check-dropped", "            if (janet_tuple_length(argt) != 1)\n                janet_asm_error(a, \"expected 0 arguments: (op)\");",
            "            if (janet_tuple_length(argt) > 5)\n                janet_asm_error(a, \"expected 0 arguments: (op)\");", "exactly the operands")],
    "S": [M("slot-at-wrong-byte", "instr |= doarg(a, JANET_OAT_SLOT, 1, 2, 0, argt[1]);\n            break;\n        }\n        case JINT_L:",
            "instr |= doarg(a, JANET_OAT_SLOT, 2, 2, 0, argt[1]);\n            break;\n        }\n        case JINT_L:", "every operand at the position")],
    "L": [M("label-unsigned", "instr |= doarg(a, JANET_OAT_LABEL, 1, 3, 1, argt[1]);", "instr |= doarg(a, JANET_OAT_LABEL, 1, 3, 0, argt[1]);", "outside the range|gives back the operands|position"),
          M("label-32-bits", "instr |= doarg(a, JANET_OAT_LABEL, 1, 3, 1, argt[1]);", "instr |= doarg(a, JANET_OAT_LABEL, 1, 4, 1, argt[1]);", "outside the range|shift")],
    "SS": [M("second-slot-one-byte-too-wide", "instr |= doarg(a, JANET_OAT_SLOT, 2, 2, 0, argt[2]);", "instr |= doarg(a, JANET_OAT_SLOT, 2, 3, 0, argt[2]);", "outside the range")],
    "SL": [M("first-slot-two-bytes", "instr |= doarg(a, JANET_OAT_SLOT, 1, 1, 0, argt[1]);\n            instr |= doarg(a, JANET_OAT_LABEL, 2, 2, 1, argt[2]);",
             "instr |= doarg(a, JANET_OAT_SLOT, 1, 2, 0, argt[1]);\n            instr |= doarg(a, JANET_OAT_LABEL, 2, 2, 1, argt[2]);", "outside the range")],
    "ST": [M("typeset-three-bytes", "instr |= doarg(a, JANET_OAT_TYPE, 2, 2, 0, argt[2]);", "instr |= doarg(a, JANET_OAT_TYPE, 2, 3, 0, argt[2]);", "outside the range")],
    "SI": [M("immediate-sign-flipped", "instr |= doarg(a, JANET_OAT_INTEGER, 2, 2, type == JINT_SI, argt[2]);", "instr |= doarg(a, JANET_OAT_INTEGER, 2, 2, type != JINT_SI, argt[2]);", "outside the range|gives back")],
    "SU": [M("immediate-sign-flipped", "instr |= doarg(a, JANET_OAT_INTEGER, 2, 2, type == JINT_SI, argt[2]);", "instr |= doarg(a, JANET_OAT_INTEGER, 2, 2, type != JINT_SI, argt[2]);", "outside the range|gives back")],
    "SD": [M("def-index-at-byte-3", "instr |= doarg(a, JANET_OAT_FUNCDEF, 2, 2, 0, argt[2]);", "instr |= doarg(a, JANET_OAT_FUNCDEF, 3, 2, 0, argt[2]);", "position")],
    "SSS": [M("third-slot-reads-second", "instr |= doarg(a, JANET_OAT_SLOT, 3, 1, 0, argt[3]);\n            break;\n        }\n        case JINT_SSI:",
              "instr |= doarg(a, JANET_OAT_SLOT, 3, 1, 0, argt[2]);\n            break;\n        }\n        case JINT_SSI:", "position|outside the range")],
    "SSI": [M("immediate-sign-flipped", "instr |= doarg(a, JANET_OAT_INTEGER, 3, 1, type == JINT_SSI, argt[3]);", "instr |= doarg(a, JANET_OAT_INTEGER, 3, 1, type != JINT_SSI, argt[3]);", "outside the range|gives back")],
    "SSU": [M("immediate-sign-flipped", "instr |= doarg(a, JANET_OAT_INTEGER, 3, 1, type == JINT_SSI, argt[3]);", "instr |= doarg(a, JANET_OAT_INTEGER, 3, 1, type != JINT_SSI, argt[3]);", "outside the range|gives back")],
    "SES": [M("env-shift-8", "            instr |= env << 16;", "            instr |= env << 8;", "position"),
            M("env-two-bytes", "env = doarg(a, JANET_OAT_ENVIRONMENT, 0, 1, 0, argt[2]);", "env = doarg(a, JANET_OAT_ENVIRONMENT, 0, 2, 0, argt[2]);", "outside the range")],
    "SC": [M("constant-three-bytes", "instr |= doarg(a, JANET_OAT_CONSTANT, 2, 2, 0, argt[2]);", "instr |= doarg(a, JANET_OAT_CONSTANT, 2, 3, 0, argt[2]);", "outside the range")],
}
M_DOARG_MAX = M("range-max-off-by-one-bit", "    int32_t max = (1 << ((nbytes << 3) - hassign)) - 1;", "    int32_t max = (1 << ((nbytes << 3) - hassign + 1)) - 1;", "outside the range|shift")
M_DOARG_NOMIN = M("lower-bound-dropped", "    if (arg < min)\n        janet_asm_errorv", "    if (0)\n        janet_asm_errorv", "outside the range")
DEC_MUT = {
    "0": [M("noop-as-integer", "        case JINT_0:\n            ret = tup1(name);\n            break;", "        case JINT_0:\n            break;", "disassembled to a tuple")],
    "S": [M("slot-16-bits", "ret = tup2(name, janet_wrap_integer(oparg(1, 0xFFFFFF)));", "ret = tup2(name, janet_wrap_integer(oparg(1, 0xFFFF)));", "operand i is the field")],
    "L": [M("label-unsigned", "ret = tup2(name, janet_wrap_integer((int32_t)instr >> 8));", "ret = tup2(name, janet_wrap_integer(instr >> 8));", "operand i is the field")],
    "SS": [M("second-8-bits", "                       janet_wrap_integer(oparg(2, 0xFFFF)));", "                       janet_wrap_integer(oparg(2, 0xFF)));", "operand i is the field")],
    "SL": [M("offset-unsigned", "                        janet_wrap_integer((int32_t)instr >> 16));", "                        janet_wrap_integer(instr >> 16));", "operand i is the field")],
    "SI": [M("offset-unsigned", "                        janet_wrap_integer((int32_t)instr >> 16));", "                        janet_wrap_integer(instr >> 16));", "operand i is the field")],
    "SSS": [M("third-from-byte-2", "                       janet_wrap_integer(oparg(3, 0xFF)));", "                       janet_wrap_integer(oparg(2, 0xFF)));", "operand i is the field")],
    "SSI": [M("immediate-unsigned", "                       janet_wrap_integer((int32_t)instr >> 24));", "                       janet_wrap_integer(instr >> 24));", "operand i is the field")],
}
for s in ("ST", "SU", "SD", "SC"):
    DEC_MUT[s] = DEC_MUT["SS"]
for s in ("SSU", "SES"):
    DEC_MUT[s] = DEC_MUT["SSS"]
M_BRK = M("breakpoint-flag-ignored", "        if (instr & 0x80) {\n            janet_tuple_flag(ret) |= JANET_TUPLE_FLAG_BRACKETCTOR;", "        if (0) {\n            janet_tuple_flag(ret) |= JANET_TUPLE_FLAG_BRACKETCTOR;", "bracketed")

RC_CODEC = ["janet_asm_longjmp:ac_longjmp_stub", "janet_tuple_begin:ac_tuple_begin_stub", "janet_tuple_end:ac_tuple_end_stub",
            "janet_csymbol:ac_csymbol_stub"]


def shape_defines(name):
    ops, slots, _ = SHAPES[name]
    d = ["-DAC_SHAPE=JINT_%s" % name, "-DAC_N=%d" % len(ops), "-DAC_SLOTS=%d" % slots]
    for i, (b, sg) in enumerate(ops, 1):
        d += ["-DAC_W%d=%d" % (i, b), "-DAC_S%d=%d" % (i, sg)]
    if name == "SU":
        d.append("-DAC_RETYPE=JOP_LOAD_INTEGER")
    return d


def codec_unit(uid, entry, shape, clause, functions, mutants, cls="full-domain", extra_def=None, bound=None, unwind=80, tier="quick", skip=True, timeout=300):
    u = {"id": uid, "props": ["C09", "C10"] if entry == "h_enc" else ["C09"], "tier": tier, "class": cls, "clause": clause,
         "src": ["bytecode.c", "asm.c"], "link": ["wrap.c"], "link_keep": {"wrap.c": WRAP},
         "harness": ["asm_codec.c"], "entry": entry, "mode": "plain", "nanbox": False, "functions": functions,
         "defines": shape_defines(shape) + (extra_def or []),
         "replace_calls": RC_CODEC, "checks": CHECKS, "unwind": unwind, "unwinding_assertions": True, "timeout": timeout,
         "assumes": [A_LAYOUT, A_LONGJMP, A_TUPLE, A_CSYM, A_FORMAT, A_NONANBOX] + ([A_SLOTCOUNT0] if entry != "h_dec" else []),
         "mutants": mutants}
    if bound:
        u["bound"] = bound
    if skip and entry != "h_dec":
        u["skip"] = [r"doarg_1\.overflow\.\d+ arithmetic overflow on signed \+ in \(int32_t\)ret \+ 1"]
        u["undecided_clauses"] = [A_OVF]
        u["assumes"].append(A_OVF)
    return u


for name, (ops, slots, text) in SHAPES.items():
    low = name.lower()
    uw = 260 if name == "SES" else 80
    add(codec_unit("asm.codec.enc.%s" % low, "h_enc", name,
                   "read_instruction, shape JINT_%s - %s: for ANY double operands it returns a word only when there are exactly the operands of the shape, "
                   "each an integer inside the range of its field (out-of-range, fractional, NaN raise instead of being truncated into a neighbouring field); "
                   "the word is the opcode with each operand at the position/width/signedness the interpreter reads; slotcount covers the slot operands; "
                   "janet_asm_decode_instruction maps the word back to the same mnemonic and operands" % (name, text),
                   ["read_instruction", "doarg", "doarg_1"], ENC_MUT[name] + ([M_DOARG_MAX] if name == "SSS" else []) + ([M_DOARG_NOMIN] if name == "SI" else []),
                   unwind=uw))
    add(codec_unit("asm.codec.dec.%s" % low, "h_dec", name,
                   "janet_asm_decode_instruction, shape JINT_%s - %s: every word with an opcode of this shape is printed as (mnemonic operand...) "
                   "with each operand the field the interpreter reads (position, width, signedness); bracketed iff the breakpoint flag is set" % (name, text),
                   ["janet_asm_decode_instruction", "janet_asm_reverse_lookup"], DEC_MUT[name] + ([M_BRK] if name == "0" else [])))
    RT_CL = ("shape JINT_%s - %s: read_instruction accepts the tuple janet_asm_decode_instruction prints for ANY word of the shape (any nesting depth of "
             "the function being assembled) and returns the same word (breakpoint flag cleared)" % (name, text))
    rt_mut = [ENC_MUT[name][0]] if name != "0" else [DEC_MUT["0"][0]]
    if name == "S":
        add(codec_unit("asm.codec.rt.s", "h_rt", name, RT_CL, ["read_instruction", "doarg", "doarg_1", "janet_asm_decode_instruction"], rt_mut),
            failing="FINDING asm-S-slot-16-bit: the single slot operand of JINT_S instructions is a 24-bit field (vm.c D = *pc >> 8, janet.h 'Slot(3)', "
                    "janet_verify allows slots up to 0xFFFFFF, the disassembler prints 24 bits) but read_instruction range-checks it as 2 bytes: a verified "
                    "word like (push 65536) / (ret 70000) is printed by disasm and rejected by asm ('instruction argument 65536 is too large, must be 2 bytes'). "
                    "Failing obligation ac_longjmp_stub.assertion.1 'the assembler accepts every instruction the disassembler prints'.")
        add(codec_unit("asm.codec.rt.s.16bit", "h_rt", name, RT_CL + " - restricted to slot operands below 65536", ["read_instruction", "doarg", "doarg_1", "janet_asm_decode_instruction"],
                       rt_mut, cls="bounded", bound="slot operand < 0x10000 (the full 24-bit field fails: disabled unit asm.codec.rt.s)", extra_def=["-DAC_RT_PRE=((w>>8)<0x10000u)"]))
    elif name == "SES":
        add(codec_unit("asm.codec.rt.ses", "h_rt", name, RT_CL, ["read_instruction", "doarg", "doarg_1", "janet_asm_decode_instruction"], rt_mut, unwind=uw),
            failing="FINDING asm-upvalue-needs-parents: read_instruction walks (environment index + 1) parents of the assembler for ldu/setu and raises "
                    "'invalid environment index' when there are fewer - so (asm (disasm f)) fails for every closure f that uses an upvalue: "
                    "(def f ((fn [] (var x 1) (fn [] (++ x))))) (asm (disasm f)) -> error 'invalid environment index, instruction 0'. "
                    "Failing obligation ac_longjmp_stub.assertion.1 'the assembler accepts every instruction the disassembler prints'.")
        add(codec_unit("asm.codec.rt.ses.nested", "h_rt", name, RT_CL + " - restricted to functions nested deeper than the environment index",
                       ["read_instruction", "doarg", "doarg_1", "janet_asm_decode_instruction"], rt_mut, cls="bounded", unwind=uw,
                       bound="assembler has an unbounded parent chain (top-level functions and shallow nesting fail: disabled unit asm.codec.rt.ses)",
                       extra_def=["-DAC_RT_PRE=(ac_a.parent&&ac_p.parent)"]))
    else:
        add(codec_unit("asm.codec.rt.%s" % low, "h_rt", name, RT_CL, ["read_instruction", "doarg", "doarg_1", "janet_asm_decode_instruction"], rt_mut, unwind=uw))

add({"id": "asm.optable", "props": ["C09"], "tier": "quick", "class": "full-domain",
     "clause": "the mnemonic table janet_ops is strictly sorted by name (what the assembler's binary search needs), every opcode of the instruction set has exactly "
               "one entry, and janet_asm_reverse_lookup returns the entry of the opcode in bits 0-6 of any word (NULL iff the opcode is not in the instruction set): "
               "looking up the mnemonic the disassembler printed finds the same opcode",
     "src": ["bytecode.c", "asm.c"], "harness": ["asm_codec.c"], "entry": "h_optable", "mode": "plain", "nanbox": False,
     "defines": shape_defines("0"), "functions": ["janet_asm_reverse_lookup"], "checks": CHECKS, "unwind": 80, "unwinding_assertions": True, "timeout": 300,
     "assumes": ["janet_strbinsearch (util.c) is a binary search that is correct on strictly sorted tables (not re-proved here)"],
     "mutants": [M("opcode-mask-8-bits", "    uint32_t opcode = instr & 0x7F;\n    for (i = 0; i < sizeof(janet_ops)", "    uint32_t opcode = instr & 0xFF;\n    for (i = 0; i < sizeof(janet_ops)", "reverse lookup"),
                 M("table-unsorted", "    {\"addim\", JOP_ADD_IMMEDIATE},\n    {\"band\", JOP_BAND},", "    {\"band\", JOP_BAND},\n    {\"addim\", JOP_ADD_IMMEDIATE},", "strictly sorted")]})

if __name__ == "__main__":
    out = os.path.join(VERIF, "units", "C09_asm.json")
    json.dump({"units": units}, open(out, "w"), indent=1)
    print("wrote %s: %d units (%d disabled)" % (out, len(units), sum(1 for u in units if u.get("disabled_reason"))))
