#!/usr/bin/env python3
"""generates units/C16_C20.json (component-level units for C16 stream I/O state machine / listener discipline and
C20 pending-work counter discipline, all on src/core/ev.c)"""
import json, os

VERIF = os.path.dirname(os.path.dirname(os.path.abspath(__file__)))
A_ATOMIC = "janet_atomic_inc/dec/load (capi.c, one GCC __atomic builtin each) are given their sequential meaning (harness/ev_atomic.h); no concurrency"
units = []
FP_NOISE2 = "janet_ev_default_threaded_callback|janet_go_thread_subr|janet_thread_chan_cb|janet_timeout_cb|janet_signal_callback"
FP_NOISE = "cfun_.*|janet_cfun_.*|janet_chanat_.*|janet_stream_(mark|marshal|tostring)|mutexgc|rwlockgc|ev_callback_read|ev_callback_write"


def U(**kw):
    kw.setdefault("tier", "quick")
    kw.setdefault("src", ["ev.c"])
    kw.setdefault("timeout", 200)
    units.append(kw)


# ---------------------------------------------------------------- C20 counter primitives (dfcc)
U(id="ev.refcount.inc", props=["C20"], **{"class": "full-domain"},
  clause="janet_ev_inc_refcount adds exactly one to the pending-work counter and writes nothing else of the VM",
  harness=["ev_counter.c"], entry="h_inc", mode="dfcc",
  enforce=["janet_ev_inc_refcount/janet_ev_inc_refcount_c"], checks=["bounds-check", "pointer-check", "signed-overflow-check"],
  assumes=[A_ATOMIC, "counter below INT32_MAX at entry (2^31 simultaneously pending operations out of scope)"],
  mutants=[{"name": "inc-becomes-dec", "file": "ev.c", "find": "    janet_atomic_inc(&janet_vm.listener_count);",
            "replace": "    janet_atomic_dec(&janet_vm.listener_count);", "expect": "postcondition"}])
U(id="ev.refcount.dec", props=["C20"], **{"class": "full-domain"},
  clause="janet_ev_dec_refcount removes exactly one from the pending-work counter and writes nothing else of the VM",
  harness=["ev_counter.c"], entry="h_dec", mode="dfcc",
  enforce=["janet_ev_dec_refcount/janet_ev_dec_refcount_c"], checks=["bounds-check", "pointer-check", "signed-overflow-check"],
  assumes=[A_ATOMIC],
  mutants=[{"name": "dec-dropped", "file": "ev.c", "find": "    janet_atomic_dec(&janet_vm.listener_count);",
            "replace": "", "expect": "postcondition"}])
U(id="ev.loop_done", props=["C20"], **{"class": "full-domain"},
  clause="janet_loop_done is true iff the run queue is empty, no timer is pending and the pending-work counter is zero (the loop neither stops while a fiber waits on an outstanding operation nor keeps running when nothing is left)",
  harness=["ev_counter.c"], entry="h_loop_done", mode="dfcc",
  enforce=["janet_loop_done/janet_loop_done_c"], checks=["bounds-check", "pointer-check"],
  assumes=[A_ATOMIC],
  mutants=[{"name": "timers-ignored", "file": "ev.c", "find": "             janet_vm.tq_count ||\n", "replace": "", "expect": "postcondition"},
           {"name": "queue-test-flipped", "file": "ev.c", "find": "return !((janet_vm.spawn.head != janet_vm.spawn.tail) ||",
            "replace": "return !((janet_vm.spawn.head == janet_vm.spawn.tail) ||", "expect": "postcondition"}])


# ---------------------------------------------------------------- listener discipline / pairing (plain mode, loop-free)
ASYNC = dict(harness=["ev_async.c"], mode="plain", nanbox=False, link=["wrap.c"],
             # CBMC's function-pointer removal makes every address-taken two-parameter function of ev.c a candidate of
             # fiber->ev_callback(); the harness installs its own recording callbacks, so these bodies are unreachable -
             # removed to keep symex from walking into them under symbolic guards
             remove_bodies=FP_NOISE,
             replace_calls=["janet_gcroot:gcroot_stub", "janet_gcunroot:gcunroot_stub", "free:free_stub", "close:close_stub"],
             checks=["bounds-check", "pointer-check", "signed-overflow-check"],
             # the TU is all of ev.c; count only obligations of the functions under proof, the harness and its stubs
             only=r"^(janet_async_end|janet_async_start_fiber|janet_stream_close|janet_stream_close_impl|janet_stream_gc|janet_ev_inc_refcount|janet_ev_dec_refcount|janet_atomic_inc|janet_atomic_dec|h_[a-z_]+|start_common|close_impl_common|rec_cb|closing_cb|[a-z]+_stub)\.")
A_ASYNC = [A_ATOMIC, "janet_gcroot/janet_gcunroot succeed and only record their argument; free(3) and close(2) only record their argument (close returns any value)",
           "input state: 3 fibers and 2 streams with every field nondeterministic under the registration invariant WF (a registered fiber has a callback and waits on exactly that stream)"]
U(id="ev.async.start", props=["C16", "C20"], **{"class": "full-domain"},
  clause="janet_async_start_fiber on a free slot: takes exactly one pending-work count owned by a non-NULL ev_callback, roots the stream once, registers the fiber as reader/writer exactly as the mode says, starts the state machine once, and keeps every other registration",
  entry="h_async_start", functions=["janet_async_start_fiber"], assumes=A_ASYNC + ["precondition: the slot(s) named by mode are free (see disabled unit ev.async.start.busy for what happens otherwise)"],
  mutants=[{"name": "inc-dropped", "file": "ev.c", "find": "    janet_ev_inc_refcount();\n    janet_gcroot(janet_wrap_abstract(stream));", "replace": "    janet_gcroot(janet_wrap_abstract(stream));", "expect": "C20 pairing: async start takes exactly one"},
           {"name": "writer-registered-as-reader", "file": "ev.c", "find": "        stream->write_fiber = fiber;\n    }\n    fiber->ev_callback = callback;", "replace": "        stream->read_fiber = fiber;\n    }\n    fiber->ev_callback = callback;", "expect": "C16 listener"},
           {"name": "double-async-allowed", "file": "ev.c", "find": "    janet_assert(!fiber->ev_callback, \"double async on fiber\");", "replace": "", "expect": "double async"}],
  **ASYNC)
U(id="ev.async.end", props=["C16", "C20"], **{"class": "full-domain"},
  clause="janet_async_end releases exactly one pending-work count exactly when ev_callback != NULL, clears it (idempotent), unroots the stream once, frees the operation state once and clears exactly this fiber's reader/writer registration",
  entry="h_async_end", functions=["janet_async_end"], assumes=A_ASYNC,
  mutants=[{"name": "callback-not-cleared", "file": "ev.c", "find": "        fiber->ev_callback = NULL;\n        if (!(fiber->flags & JANET_FIBER_EV_FLAG_IN_FLIGHT)) {", "replace": "        if (!(fiber->flags & JANET_FIBER_EV_FLAG_IN_FLIGHT)) {", "expect": "C20 pairing"},
           {"name": "clears-foreign-reader", "file": "ev.c", "find": "        if (fiber->ev_stream->read_fiber == fiber) {", "replace": "        if (fiber->ev_stream->read_fiber != NULL) {", "expect": "C16 listener"},
           {"name": "dec-dropped", "file": "ev.c", "find": "            janet_ev_dec_refcount();\n        }\n    }\n}\n\nvoid janet_async_in_flight", "replace": "        }\n    }\n}\n\nvoid janet_async_in_flight", "expect": "C20 pairing: async end releases"}],
  **ASYNC)
U(id="ev.async.pair", props=["C20"], **{"class": "full-domain"},
  clause="start followed by end is the identity on the pending-work counter, the gcroot balance of the stream and the registrations: every increment is owned by exactly one later decrement",
  entry="h_async_pair", functions=["janet_async_start_fiber", "janet_async_end"], assumes=A_ASYNC + ["POSIX: JANET_FIBER_EV_FLAG_IN_FLIGHT is never set (janet_async_in_flight is a no-op)"],
  mutants=[{"name": "unroot-dropped", "file": "ev.c", "find": "        janet_gcunroot(janet_wrap_abstract(fiber->ev_stream));\n", "replace": "", "expect": "pinned objects"},
           {"name": "double-inc", "file": "ev.c", "find": "    janet_ev_inc_refcount();\n    janet_gcroot(", "replace": "    janet_ev_inc_refcount(); janet_ev_inc_refcount();\n    janet_gcroot(", "expect": "C20 pairing"}],
  **ASYNC)
U(id="ev.stream.close_impl", props=["C20", "C16"], **{"class": "full-domain"},
  clause="janet_stream_close_impl calls close(2) at most once per handle: exactly once for an open closeable handle, the handle becomes -1, a second call is a no-op",
  entry="h_close_impl", functions=["janet_stream_close_impl"], assumes=A_ASYNC[1:2],
  mutants=[{"name": "handle-not-reset", "file": "ev.c", "find": "        stream->handle = -1;\n#ifdef JANET_EV_POLL", "replace": "#ifdef JANET_EV_POLL", "expect": "C20 resources"},
           {"name": "closeable-test-dropped", "file": "ev.c", "find": "        if (canclose) close(stream->handle);", "replace": "        close(stream->handle);", "expect": "C20 resources"}],
  **ASYNC)
U(id="ev.stream.gc", props=["C20"], **{"class": "full-domain"},
  clause="janet_stream_gc closes the handle of a stream that was never closed, exactly once, and nothing for a closed stream",
  entry="h_stream_gc", functions=["janet_stream_gc", "janet_stream_close_impl"], assumes=A_ASYNC[1:2],
  mutants=[{"name": "gc-does-not-close", "file": "ev.c", "find": "    JanetStream *stream = (JanetStream *)p;\n    janet_stream_close_impl(stream);\n", "replace": "    JanetStream *stream = (JanetStream *)p;\n", "expect": "C20 resources"}],
  **ASYNC)
U(id="ev.stream.close", props=["C16", "C20"], **{"class": "full-domain"},
  clause="janet_stream_close wakes the pending reader and the pending writer exactly once each (CLOSE event, before the descriptor is closed), leaves no registration behind, releases one pending-work count per woken fiber and closes the descriptor exactly once",
  entry="h_stream_close", functions=["janet_stream_close", "janet_stream_close_impl", "janet_async_end"], cbmc=["--sat-solver", "cadical"],
  assumes=A_ASYNC + ["the callbacks behave on CLOSE as every stream callback of ev.c/net.c does: cancel the fiber, then janet_async_end (harness closing_cb)", "POSIX: JANET_FIBER_EV_FLAG_IN_FLIGHT is never set"],
  mutants=[{"name": "writer-not-woken", "file": "ev.c", "find": "    if (wf && wf->ev_callback) {\n        wf->ev_callback(wf, JANET_ASYNC_EVENT_CLOSE);", "replace": "    if (wf && wf->ev_callback) {\n", "expect": "C16 close"},
           {"name": "close-before-notify", "file": "ev.c", "find": "    JanetFiber *wf = stream->write_fiber;\n    if (rf && rf->ev_callback) {", "replace": "    JanetFiber *wf = stream->write_fiber;\n    janet_stream_close_impl(stream);\n    if (rf && rf->ev_callback) {", "expect": "C16 close: pending fibers are notified before"}],
  **ASYNC)
U(id="ev.async.start.busy", props=["C16"], tier="quick", **{"class": "full-domain"},
  clause="a fiber pending on a stream is not silently unregistered when another fiber starts the same kind of operation on that stream (C16: none is silently dropped or left suspended forever because another fiber uses the same stream)",
  entry="h_async_start_busy", functions=["janet_async_start_fiber"], assumes=A_ASYNC,
  mutants=[{"name": "inc-dropped", "file": "ev.c", "find": "    janet_ev_inc_refcount();\n    janet_gcroot(janet_wrap_abstract(stream));", "replace": "    janet_gcroot(janet_wrap_abstract(stream));", "expect": "."}],
  **ASYNC)


# ---------------------------------------------------------------- C16 POSIX write state machine (dfcc harness + loop contract)
# do-while: the loop head is the start of the body, reached on entry (nothing accepted yet in this event) and on every EINTR
# retry (the failed call accepted nothing); what the last call returned is known exactly after the loop exit
READ_WIP = {"disabled_reason": "under construction: does not finish in 10 minutes yet"}
WRITE_INV = "g_accepted == g_acc0 && (nwrote == 0 || nwrote == -1)"
U(id="ev.write.step", props=["C16"], **{"class": "proved"},
  clause="ev_callback_write, any message length and offset: write/send/sendto gets exactly (bytes + start, len - start); afterwards start has advanced by the number written and equals the bytes the kernel accepted (none re-sent, none skipped); the fiber completes with nil iff start >= len, is cancelled on error/disconnect/close, and EAGAIN leaves the operation pending and untouched",
  harness=["ev_write.c"], entry="h_write", mode="dfcc", functions=["ev_callback_write"], nanbox=False, link=["wrap.c"],
  replace_calls=["write:write_stub", "send:send_stub", "sendto:sendto_stub", "__errno_location:errno_stub",
                 "janet_schedule:schedule_stub", "janet_cancel:cancel_stub", "janet_async_end:async_end_stub"],
  loops={"ev_callback_write": [{"loop_id": "0", "invariants": WRITE_INV,
                                "assigns": "nwrote, g_w_called, g_last_ret, g_accepted, g_errno",
                                "symbol_map": "nwrote,ev_callback_write::1::1::2::nwrote"}]},
  loop_counts={"ev_callback_write": 1},
  checks=["bounds-check", "pointer-check", "signed-overflow-check", "conversion-check"],
  only=r"^(ev_callback_write|h_write|kernel_accepts|[a-z_]+_stub)\.",
  assumes=["write(2)/send(2)/sendto(2): return -1 with any errno, or r in 0..n having accepted exactly r bytes; read only [buf, buf+n)",
           "janet_schedule/janet_cancel/janet_async_end are recorders (their own contracts: units ev.async.end, C06/C07 scheduling units)",
           "termination of the EINTR retry loop is not claimed (the loop contract has no decreases clause)",
           "dest_abst != NULL iff mode is SENDTO (the six callers of janet_ev_write_generic)"],
  mutants=[{"name": "offset-overwritten", "file": "ev.c", "find": "                    start += nwrote;", "replace": "                    start = nwrote;", "expect": "C16 write"},
           {"name": "resend-from-zero", "file": "ev.c", "find": "nwrote = write(stream->handle, bytes + start, nbytes);", "replace": "nwrote = write(stream->handle, bytes, nbytes);", "expect": "exactly \\(bytes"},
           {"name": "completes-early", "file": "ev.c", "find": "            state->start = start;\n            if (start >= len) {", "replace": "            state->start = start;\n            if (start >= len - 1) {", "expect": "C16 write"},
           {"name": "eagain-cancels", "file": "ev.c", "find": "                    if (errno == EAGAIN || errno == EWOULDBLOCK) break;\n                    janet_cancel(fiber, janet_ev_lasterr());\n                    janet_async_end(fiber);\n                    break;\n                }\n\n                /* Unless using datagrams", "replace": "                    janet_cancel(fiber, janet_ev_lasterr());\n                    janet_async_end(fiber);\n                    break;\n                }\n\n                /* Unless using datagrams", "expect": "EAGAIN"}])


U(id="ev.read.step", props=["C16"], **{"class": "bounded"}, defines=["-DRD_MAXCALLS=1"], cbmc=["--sat-solver", "cadical"], bound="at most 1 successful read per readiness event (the next call reports EAGAIN), no two EINTR in a row; every buffer size, request size, mode and state",
  clause="ev_callback_read, any request and state: each read/recv/recvfrom gets exactly the free range after the bytes already received and at most the outstanding count; count, bytes_read and bytes_left move by exactly the bytes delivered; a plain read resumes with the buffer at the first data, a chunked read only with all n bytes or at end of stream, end of stream before any byte resumes with nil, an error cancels, EAGAIN leaves the operation pending and untouched",
  harness=["ev_read.c"], entry="h_read", mode="plain", functions=["ev_callback_read"], nanbox=False, link=["wrap.c"],
  replace_calls=["read:read_stub", "recv:recv_stub", "recvfrom:recvfrom_stub", "__errno_location:errno_stub", "janet_buffer_extra:buffer_extra_stub",
                 "janet_schedule:schedule_stub", "janet_cancel:cancel_stub", "janet_async_end:async_end_stub", "janet_abstract:abstract_stub", "janet_ev_lasterr:lasterr_stub"],
  remove_bodies="janet_loop.*|janet_ev_.*|janet_thread_chan_cb",
  checks=["bounds-check", "pointer-check", "signed-overflow-check", "conversion-check"], unwind=4, unwinding_assertions=True, timeout=600,
  only=r"^(ev_callback_read|h_read|kernel_delivers|[a-z_]+_stub)\.",
  assumes=["read(2)/recv(2)/recvfrom(2): return -1 with any errno, or r in 0..n having delivered exactly r bytes into [buf, buf+r)",
           "janet_buffer_extra makes room for n more bytes and keeps the contents (units seq.buffer.extra); janet_schedule/janet_cancel/janet_async_end are recorders"],
  mutants=[{"name": "chunk-resumes-early", "file": "ev.c", "find": "            if (!state->is_chunk || bytes_left == 0 || nread == 0) {\n                Janet resume_val;\n#ifdef JANET_NET\n                if (state->mode == JANET_ASYNC_READMODE_RECVFROM) {\n                    void *abst = janet_abstract(&janet_address_type, socklen);", "replace": "            if (!state->is_chunk || bytes_left <= 1 || nread == 0) {\n                Janet resume_val;\n#ifdef JANET_NET\n                if (state->mode == JANET_ASYNC_READMODE_RECVFROM) {\n                    void *abst = janet_abstract(&janet_address_type, socklen);", "expect": "exactly the requested count"},
           {"name": "reads-over-old-bytes", "file": "ev.c", "find": "                    nread = read(stream->handle, buffer->data + buffer->count, read_limit);", "replace": "                    nread = read(stream->handle, buffer->data, read_limit);", "expect": "directly after"},
           {"name": "count-not-advanced", "file": "ev.c", "find": "            buffer->count += nread;\n            bytes_left -= nread;", "replace": "            bytes_left -= nread;", "expect": "grew by exactly|directly after"},
           {"name": "eos-resumes-with-buffer", "file": "ev.c", "find": "            if (state->bytes_read == 0 && (state->mode != JANET_ASYNC_READMODE_RECVFROM)) {\n                janet_schedule(fiber, janet_wrap_nil());\n                janet_async_end(fiber);\n                break;\n            }", "replace": "", "expect": "nil"}])

U(id="ev.read.step.loop", tier="thorough", props=["C16"], **{"class": "bounded"}, cbmc=["--sat-solver", "cadical"], bound="at most 3 successful reads per readiness event (chunk mode loops while data keeps coming), no two EINTR in a row; every buffer size, request size, mode and state",
  clause="ev_callback_read, any request and state: each read/recv/recvfrom gets exactly the free range after the bytes already received and at most the outstanding count; count, bytes_read and bytes_left move by exactly the bytes delivered; a plain read resumes with the buffer at the first data, a chunked read only with all n bytes or at end of stream, end of stream before any byte resumes with nil, an error cancels, EAGAIN leaves the operation pending and untouched",
  harness=["ev_read.c"], entry="h_read", mode="plain", functions=["ev_callback_read"], nanbox=False, link=["wrap.c"],
  replace_calls=["read:read_stub", "recv:recv_stub", "recvfrom:recvfrom_stub", "__errno_location:errno_stub", "janet_buffer_extra:buffer_extra_stub",
                 "janet_schedule:schedule_stub", "janet_cancel:cancel_stub", "janet_async_end:async_end_stub", "janet_abstract:abstract_stub", "janet_ev_lasterr:lasterr_stub"],
  remove_bodies="janet_loop.*|janet_ev_.*|janet_thread_chan_cb",
  checks=["bounds-check", "pointer-check", "signed-overflow-check", "conversion-check"], unwind=6, unwinding_assertions=True, timeout=1500,
  only=r"^(ev_callback_read|h_read|kernel_delivers|[a-z_]+_stub)\.",
  assumes=["read(2)/recv(2)/recvfrom(2): return -1 with any errno, or r in 0..n having delivered exactly r bytes into [buf, buf+r)",
           "janet_buffer_extra makes room for n more bytes and keeps the contents (units seq.buffer.extra); janet_schedule/janet_cancel/janet_async_end are recorders"],
  mutants=[{"name": "chunk-resumes-early", "file": "ev.c", "find": "            if (!state->is_chunk || bytes_left == 0 || nread == 0) {\n                Janet resume_val;\n#ifdef JANET_NET\n                if (state->mode == JANET_ASYNC_READMODE_RECVFROM) {\n                    void *abst = janet_abstract(&janet_address_type, socklen);", "replace": "            if (!state->is_chunk || bytes_left <= 1 || nread == 0) {\n                Janet resume_val;\n#ifdef JANET_NET\n                if (state->mode == JANET_ASYNC_READMODE_RECVFROM) {\n                    void *abst = janet_abstract(&janet_address_type, socklen);", "expect": "exactly the requested count"},
           {"name": "reads-over-old-bytes", "file": "ev.c", "find": "                    nread = read(stream->handle, buffer->data + buffer->count, read_limit);", "replace": "                    nread = read(stream->handle, buffer->data, read_limit);", "expect": "directly after"},
           {"name": "count-not-advanced", "file": "ev.c", "find": "            buffer->count += nread;\n            bytes_left -= nread;", "replace": "            bytes_left -= nread;", "expect": "grew by exactly|directly after"},
           {"name": "eos-resumes-with-buffer", "file": "ev.c", "find": "            if (state->bytes_read == 0 && (state->mode != JANET_ASYNC_READMODE_RECVFROM)) {\n                janet_schedule(fiber, janet_wrap_nil());\n                janet_async_end(fiber);\n                break;\n            }", "replace": "", "expect": "nil"}])

# ---------------------------------------------------------------- C20 self-pipe owner of the counter
A_PIPE = "self-pipe: a read/write of one event record (<= PIPE_BUF) is atomic: transfers the whole record or returns -1 with any errno (kernel behaviour, assumed)"
POST = dict(harness=["ev_post.c"], checks=["bounds-check", "pointer-check", "signed-overflow-check"],
            only=r"^(janet_ev_post_event|janet_ev_handle_selfpipe|janet_ev_dec_refcount|janet_atomic_inc|janet_atomic_dec|h_[a-z_]+|handle_common|rec_tcb|[a-z_]+_stub)\.")
U(id="ev.post_event", props=["C20"], **{"class": "proved"},
  clause="janet_ev_post_event takes exactly one pending-work count on the target VM and, when it returns, exactly one complete event carrying (cb, msg) is in that VM's self-pipe to own it (retry loops: EINTR and 4 back-pressure tries, closed by loop contracts)",
  entry="h_post", mode="dfcc", functions=["janet_ev_post_event"],
  replace_calls=["write:pwrite_stub", "__errno_location:errno_stub", "sleep:sleep_stub"],
  loops={"janet_ev_post_event": [
      {"loop_id": "1", "invariants": "0 <= tries && tries <= 4 && g_pw_events == 0", "decreases": "tries",
       "assigns": "tries, status, g_pw_events, g_pw_last, g_errno", "symbol_map": "tries,janet_ev_post_event::1::tries;status,janet_ev_post_event::1::1::status"},
      {"loop_id": "0", "invariants": "g_pw_events == 0",
       "assigns": "status, g_pw_events, g_pw_last, g_errno", "symbol_map": "status,janet_ev_post_event::1::1::status"}]},
  loop_counts={"janet_ev_post_event": 4},
  assumes=[A_ATOMIC, A_PIPE, "termination of the EINTR retry loop is not claimed"],
  mutants=[{"name": "inc-dropped", "file": "ev.c", "find": "    janet_atomic_inc(&vm->listener_count);\n", "replace": "", "expect": "C20 pairing"},
           {"name": "failed-write-taken-as-success", "file": "ev.c", "find": "        if (status > 0) break;\n        sleep(0);", "replace": "        if (status >= -1) break;\n        sleep(0);", "expect": "C20 pairing"}],
  **POST)


# the `goto recur` back-edge and the EINTR do-while share their loop head: goto-instrument --dfcc aborts on contracts for them
# (probed: "_loop_head_or_end ... Unreachable"), hence a bounded environment with unwinding assertions
HANDLE = dict(mode="plain", functions=["janet_ev_handle_selfpipe"], defines=["-DEV_K=2"],
  replace_calls=["read:pread_stub", "__errno_location:errno_stub"], remove_bodies=FP_NOISE2,
  unwind=8, unwinding_assertions=True, bound="at most 2 events queued in the self-pipe and at most 2 EINTR interruptions (unwinding assertions hold for unwind 8)")
U(id="ev.selfpipe.handle", props=["C20"], **{"class": "bounded"},
  clause="janet_ev_handle_selfpipe drains the self-pipe: each event's callback runs exactly once with its own message and exactly one pending-work count is released per event (events carrying a callback)",
  entry="h_handle", assumes=[A_ATOMIC, A_PIPE, "every queued event carries a non-NULL callback (see disabled unit ev.selfpipe.pair.nullcb)", "termination of the EINTR retry loop is not claimed"],
  mutants=[{"name": "dec-dropped", "file": "ev.c", "find": "            response.cb(response.msg);\n            janet_ev_dec_refcount();", "replace": "            response.cb(response.msg);", "expect": "C20 pairing"},
           {"name": "stops-after-first-event", "file": "ev.c", "find": "            janet_ev_dec_refcount();\n        }\n        goto recur;", "replace": "            janet_ev_dec_refcount();\n        }", "expect": "drained"}],
  **HANDLE, **POST)
U(id="ev.selfpipe.handle.burst", props=["C20"], **{"class": "bounded"},
  clause="janet_ev_handle_selfpipe drains the self-pipe completely even for a burst of events (the pipe is registered edge-triggered, so events left behind would never be reported again): it returns only after a read found the pipe empty, every event handled exactly once",
  entry="h_handle_burst", assumes=[A_ATOMIC, A_PIPE, "every queued event carries a non-NULL callback"],
  mutants=[{"name": "bounded-batch", "file": "ev.c", "find": "recur:\n    do {\n        status = read(janet_vm.selfpipe[0], &response, sizeof(response));\n    } while (status == -1 && errno == EINTR);\n    if (status > 0) {", "replace": "    int batch = 0;\nrecur:\n    if (batch++ >= 32) return;\n    do {\n        status = read(janet_vm.selfpipe[0], &response, sizeof(response));\n    } while (status == -1 && errno == EINTR);\n    if (status > 0) {", "expect": "drained"}],
  **dict(HANDLE, defines=["-DEV_K=40", "-DEV_BURST=40"], unwind=44, bound="a burst of exactly 40 queued events, no EINTR (unwinding assertions hold for unwind 44)"), **dict(POST, harness=["ev_post.c", "ev_post_burst.c"]))
U(id="ev.selfpipe.pair.nullcb", props=["C20"], tier="thorough", **{"class": "bounded"},
  disabled_reason="GENUINE DEFECT (C API, reproduced with a C program against libjanet, see harness/ev_post.c): janet_ev_post_event takes a pending-work count for every event, janet_ev_handle_selfpipe releases it only when cb != NULL; janet_loop1_interrupt posts cb == NULL, so each call leaks one count and janet_loop() never returns after all tasks have finished. Not reachable from Janet code (no core function calls janet_loop1_interrupt).",
  clause="every event posted to the self-pipe - with or without callback - releases the pending-work count its post took",
  entry="h_handle_nullcb", assumes=[A_ATOMIC, A_PIPE],
  mutants=[{"name": "dec-dropped", "file": "ev.c", "find": "            response.cb(response.msg);\n            janet_ev_dec_refcount();", "replace": "            response.cb(response.msg);", "expect": "."}],
  **HANDLE, **POST)


json.dump({"units": units}, open(os.path.join(VERIF, 'units', 'C16_C20.json'), 'w'), indent=1)
print('%d units' % len(units))
