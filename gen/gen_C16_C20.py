#!/usr/bin/env python3
"""generates units/C16_C20.json (component-level units for C16 stream I/O state machine / listener discipline and
C20 pending-work counter discipline, all on src/core/ev.c)"""
import json, os

VERIF = os.path.dirname(os.path.dirname(os.path.abspath(__file__)))
A_ATOMIC = "janet_atomic_inc/dec/load (capi.c, one GCC __atomic builtin each) are given their sequential meaning (harness/ev_atomic.h); no concurrency"
units = []
FP_NOISE = "cfun_.*|janet_cfun_.*|janet_chanat_.*|janet_stream_(mark|marshal|tostring)|mutexgc|rwlockgc|ev_callback_read|ev_callback_write"


def U(**kw):
    kw.setdefault("tier", "quick")
    kw.setdefault("src", ["ev.c"])
    kw.setdefault("timeout", 200)
    units.append(kw)


# ---------------------------------------------------------------- C20 counter primitives (dfcc)
U(id="ev.refcount.inc", props=["C20"], **{"class": "full-domain"},
  clause="janet_ev_inc_refcount adds exactly one to the pending-work counter and writes nothing else of the VM",
  harness=["ev_counter.c"], entry="h_inc", mode="dfcc",
  enforce=["janet_ev_inc_refcount/janet_ev_inc_refcount_c"], checks=["bounds-check", "pointer-check", "signed-overflow-check"],
  assumes=[A_ATOMIC, "counter below INT32_MAX at entry (2^31 simultaneously pending operations out of scope)"],
  mutants=[{"name": "inc-becomes-dec", "file": "ev.c", "find": "    janet_atomic_inc(&janet_vm.listener_count);",
            "replace": "    janet_atomic_dec(&janet_vm.listener_count);", "expect": "postcondition"}])
U(id="ev.refcount.dec", props=["C20"], **{"class": "full-domain"},
  clause="janet_ev_dec_refcount removes exactly one from the pending-work counter and writes nothing else of the VM",
  harness=["ev_counter.c"], entry="h_dec", mode="dfcc",
  enforce=["janet_ev_dec_refcount/janet_ev_dec_refcount_c"], checks=["bounds-check", "pointer-check", "signed-overflow-check"],
  assumes=[A_ATOMIC],
  mutants=[{"name": "dec-dropped", "file": "ev.c", "find": "    janet_atomic_dec(&janet_vm.listener_count);",
            "replace": "", "expect": "postcondition"}])
U(id="ev.loop_done", props=["C20"], **{"class": "full-domain"},
  clause="janet_loop_done is true iff the run queue is empty, no timer is pending and the pending-work counter is zero (the loop neither stops while a fiber waits on an outstanding operation nor keeps running when nothing is left)",
  harness=["ev_counter.c"], entry="h_loop_done", mode="dfcc",
  enforce=["janet_loop_done/janet_loop_done_c"], checks=["bounds-check", "pointer-check"],
  assumes=[A_ATOMIC],
  mutants=[{"name": "timers-ignored", "file": "ev.c", "find": "             janet_vm.tq_count ||\n", "replace": "", "expect": "postcondition"},
           {"name": "queue-test-flipped", "file": "ev.c", "find": "return !((janet_vm.spawn.head != janet_vm.spawn.tail) ||",
            "replace": "return !((janet_vm.spawn.head == janet_vm.spawn.tail) ||", "expect": "postcondition"}])


# ---------------------------------------------------------------- listener discipline / pairing (plain mode, loop-free)
ASYNC = dict(harness=["ev_async.c"], mode="plain", nanbox=False, link=["wrap.c"],
             # CBMC's function-pointer removal makes every address-taken two-parameter function of ev.c a candidate of
             # fiber->ev_callback(); the harness installs its own recording callbacks, so these bodies are unreachable -
             # removed to keep symex from walking into them under symbolic guards
             remove_bodies=FP_NOISE,
             replace_calls=["janet_gcroot:gcroot_stub", "janet_gcunroot:gcunroot_stub", "free:free_stub", "close:close_stub"],
             checks=["bounds-check", "pointer-check", "signed-overflow-check"],
             # the TU is all of ev.c; count only obligations of the functions under proof, the harness and its stubs
             only=r"^(janet_async_end|janet_async_start_fiber|janet_stream_close|janet_stream_close_impl|janet_stream_gc|janet_ev_inc_refcount|janet_ev_dec_refcount|janet_atomic_inc|janet_atomic_dec|h_[a-z_]+|start_common|close_impl_common|rec_cb|closing_cb|[a-z]+_stub)\.")
A_ASYNC = [A_ATOMIC, "janet_gcroot/janet_gcunroot succeed and only record their argument; free(3) and close(2) only record their argument (close returns any value)",
           "input state: 3 fibers and 2 streams with every field nondeterministic under the registration invariant WF (a registered fiber has a callback and waits on exactly that stream)"]
U(id="ev.async.start", props=["C16", "C20"], **{"class": "full-domain"},
  clause="janet_async_start_fiber on a free slot: takes exactly one pending-work count owned by a non-NULL ev_callback, roots the stream once, registers the fiber as reader/writer exactly as the mode says, starts the state machine once, and keeps every other registration",
  entry="h_async_start", functions=["janet_async_start_fiber"], assumes=A_ASYNC + ["precondition: the slot(s) named by mode are free (see disabled unit ev.async.start.busy for what happens otherwise)"],
  mutants=[{"name": "inc-dropped", "file": "ev.c", "find": "    janet_ev_inc_refcount();\n    janet_gcroot(janet_wrap_abstract(stream));", "replace": "    janet_gcroot(janet_wrap_abstract(stream));", "expect": "C20 pairing: async start takes exactly one"},
           {"name": "writer-registered-as-reader", "file": "ev.c", "find": "        stream->write_fiber = fiber;\n    }\n    fiber->ev_callback = callback;", "replace": "        stream->read_fiber = fiber;\n    }\n    fiber->ev_callback = callback;", "expect": "C16 listener"},
           {"name": "double-async-allowed", "file": "ev.c", "find": "    janet_assert(!fiber->ev_callback, \"double async on fiber\");", "replace": "", "expect": "double async"}],
  **ASYNC)
U(id="ev.async.end", props=["C16", "C20"], **{"class": "full-domain"},
  clause="janet_async_end releases exactly one pending-work count exactly when ev_callback != NULL, clears it (idempotent), unroots the stream once, frees the operation state once and clears exactly this fiber's reader/writer registration",
  entry="h_async_end", functions=["janet_async_end"], assumes=A_ASYNC,
  mutants=[{"name": "callback-not-cleared", "file": "ev.c", "find": "        fiber->ev_callback = NULL;\n        if (!(fiber->flags & JANET_FIBER_EV_FLAG_IN_FLIGHT)) {", "replace": "        if (!(fiber->flags & JANET_FIBER_EV_FLAG_IN_FLIGHT)) {", "expect": "C20 pairing"},
           {"name": "clears-foreign-reader", "file": "ev.c", "find": "        if (fiber->ev_stream->read_fiber == fiber) {", "replace": "        if (fiber->ev_stream->read_fiber != NULL) {", "expect": "C16 listener"},
           {"name": "dec-dropped", "file": "ev.c", "find": "            janet_ev_dec_refcount();\n        }\n    }\n}\n\nvoid janet_async_in_flight", "replace": "        }\n    }\n}\n\nvoid janet_async_in_flight", "expect": "C20 pairing: async end releases"}],
  **ASYNC)
U(id="ev.async.pair", props=["C20"], **{"class": "full-domain"},
  clause="start followed by end is the identity on the pending-work counter, the gcroot balance of the stream and the registrations: every increment is owned by exactly one later decrement",
  entry="h_async_pair", functions=["janet_async_start_fiber", "janet_async_end"], assumes=A_ASYNC + ["POSIX: JANET_FIBER_EV_FLAG_IN_FLIGHT is never set (janet_async_in_flight is a no-op)"],
  mutants=[{"name": "unroot-dropped", "file": "ev.c", "find": "        janet_gcunroot(janet_wrap_abstract(fiber->ev_stream));\n", "replace": "", "expect": "pinned objects"},
           {"name": "double-inc", "file": "ev.c", "find": "    janet_ev_inc_refcount();\n    janet_gcroot(", "replace": "    janet_ev_inc_refcount(); janet_ev_inc_refcount();\n    janet_gcroot(", "expect": "C20 pairing"}],
  **ASYNC)
U(id="ev.stream.close_impl", props=["C20", "C16"], **{"class": "full-domain"},
  clause="janet_stream_close_impl calls close(2) at most once per handle: exactly once for an open closeable handle, the handle becomes -1, a second call is a no-op",
  entry="h_close_impl", functions=["janet_stream_close_impl"], assumes=A_ASYNC[1:2],
  mutants=[{"name": "handle-not-reset", "file": "ev.c", "find": "        stream->handle = -1;\n#ifdef JANET_EV_POLL", "replace": "#ifdef JANET_EV_POLL", "expect": "C20 resources"},
           {"name": "closeable-test-dropped", "file": "ev.c", "find": "        if (canclose) close(stream->handle);", "replace": "        close(stream->handle);", "expect": "C20 resources"}],
  **ASYNC)
U(id="ev.stream.gc", props=["C20"], **{"class": "full-domain"},
  clause="janet_stream_gc closes the handle of a stream that was never closed, exactly once, and nothing for a closed stream",
  entry="h_stream_gc", functions=["janet_stream_gc", "janet_stream_close_impl"], assumes=A_ASYNC[1:2],
  mutants=[{"name": "gc-does-not-close", "file": "ev.c", "find": "    JanetStream *stream = (JanetStream *)p;\n    janet_stream_close_impl(stream);\n", "replace": "    JanetStream *stream = (JanetStream *)p;\n", "expect": "C20 resources"}],
  **ASYNC)
U(id="ev.stream.close", props=["C16", "C20"], **{"class": "full-domain"},
  clause="janet_stream_close wakes the pending reader and the pending writer exactly once each (CLOSE event, before the descriptor is closed), leaves no registration behind, releases one pending-work count per woken fiber and closes the descriptor exactly once",
  entry="h_stream_close", functions=["janet_stream_close", "janet_stream_close_impl", "janet_async_end"], cbmc=["--sat-solver", "cadical"],
  assumes=A_ASYNC + ["the callbacks behave on CLOSE as every stream callback of ev.c/net.c does: cancel the fiber, then janet_async_end (harness closing_cb)", "POSIX: JANET_FIBER_EV_FLAG_IN_FLIGHT is never set"],
  mutants=[{"name": "writer-not-woken", "file": "ev.c", "find": "    if (wf && wf->ev_callback) {\n        wf->ev_callback(wf, JANET_ASYNC_EVENT_CLOSE);", "replace": "    if (wf && wf->ev_callback) {\n", "expect": "C16 close"},
           {"name": "close-before-notify", "file": "ev.c", "find": "    JanetFiber *wf = stream->write_fiber;\n    if (rf && rf->ev_callback) {", "replace": "    JanetFiber *wf = stream->write_fiber;\n    janet_stream_close_impl(stream);\n    if (rf && rf->ev_callback) {", "expect": "C16 close: pending fibers are notified before"}],
  **ASYNC)
U(id="ev.async.start.busy", props=["C16"], tier="thorough", **{"class": "full-domain"},
  disabled_reason="GENUINE DEFECT (reproduced): janet_async_start_fiber overwrites stream->read_fiber/write_fiber of a fiber that is still waiting; no caller checks the slot. Two fibers reading one stream: the first is never resumed and the program hangs at exit. Reproducer: (def [r w] (os/pipe)) (ev/spawn (pp (ev/read r 10))) (ev/spawn (pp (ev/read r 10))) (ev/sleep 0.05) (ev/write w \"hello\") (ev/sleep 0.05) (ev/write w \"world\") (ev/close w) -> prints only hello, then hangs.",
  clause="a fiber pending on a stream is not silently unregistered when another fiber starts the same kind of operation on that stream (C16: none is silently dropped or left suspended forever because another fiber uses the same stream)",
  entry="h_async_start_busy", functions=["janet_async_start_fiber"], assumes=A_ASYNC,
  mutants=[{"name": "inc-dropped", "file": "ev.c", "find": "    janet_ev_inc_refcount();\n    janet_gcroot(janet_wrap_abstract(stream));", "replace": "    janet_gcroot(janet_wrap_abstract(stream));", "expect": "."}],
  **ASYNC)

# @@MORE@@

json.dump({"units": units}, open(os.path.join(VERIF, 'units', 'C16_C20.json'), 'w'), indent=1)
print('%d units' % len(units))
