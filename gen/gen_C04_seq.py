#!/usr/bin/env python3
"""generates units/C04_seq.json: C04 (sequence part) + C17 (C level) - array.c / buffer.c / capi.c index decoding"""
import json, os
V = os.path.dirname(os.path.dirname(os.path.abspath(__file__)))
CHECKS = ["bounds-check", "pointer-check", "signed-overflow-check", "div-by-zero-check", "conversion-check",
          "pointer-primitive-check", "undefined-shift-check", "float-overflow-check"]
ALLOC = ("realloc model (seq_common.h): fails or returns a fresh block of n bytes, frees the old block, "
         "keeps the element at the ghost index; all other content arbitrary")
units = []

def unit(id, clause, entry, enforce=None, cls="proved", tier="quick", **kw):
    u = {"id": id, "tier": tier, "class": cls, "clause": clause, "entry": entry}
    if enforce:
        u["enforce"] = [enforce]
    u.update(kw)
    units.append(u)

def mut(name, file, find, replace, expect, **kw):
    d = {"name": name, "file": file, "find": find, "replace": replace, "expect": expect}
    d.update(kw)
    return d

def loop(inv, assigns, dec, smap):
    return {"loop_id": "0", "invariants": inv, "assigns": assigns, "decreases": dec, "symbol_map": smap}

# ------------------------------------------------------------------ array.c core
A = dict(src=["array.c"], link=["wrap.c"], harness=["seq_array.c"])
unit("seq.array.ensure",
     "janet_array_ensure (growth >= 1), every size: no overflow in the growth arithmetic, 0 <= count <= capacity and data valid for capacity afterwards, capacity >= requested, count and every element unchanged",
     "h_array_ensure", "janet_array_ensure/janet_array_ensure_c", assumes=[ALLOC], **A,
     mutants=[mut("no-clamp", "array.c", "if (new_capacity > INT32_MAX) new_capacity = INT32_MAX;\n    capacity = (int32_t) new_capacity;\n    newData",
                  "capacity = (int32_t) new_capacity;\n    newData", "overflow|conversion|postcondition"),
              mut("cap-not-updated", "array.c", "array->data = newData;\n    array->capacity = capacity;\n}\n\n/* Set the count", "array->data = newData;\n}\n\n/* Set the count", "postcondition")])
unit("seq.array.setcount",
     "janet_array_setcount, every size: negative count ignored; else length becomes count, surviving elements unchanged, every new element is nil, every write inside the (possibly regrown) block, invariant preserved",
     "h_array_setcount", "janet_array_setcount/janet_array_setcount_c", assumes=[ALLOC], **A,
     loops={"janet_array_setcount": [loop(
         "i >= g_oldcount && i <= count && ((g_idx >= 0 && g_idx < g_oldcount) ==> array->data[g_idx].u64 == g_val) && ((g_idx >= g_oldcount && g_idx < i) ==> array->data[g_idx].u64 == 0xFFF8800000000001ul)",
         "i, __CPROVER_object_whole(array->data)", "count - i",
         "i,janet_array_setcount::1::1::i;count,janet_array_setcount::count;array,janet_array_setcount::array")]},
     loop_counts={"janet_array_setcount": 1},
     mutants=[mut("fill-off-by-one", "array.c", "for (i = array->count; i < count; i++) {\n            array->data[i] = janet_wrap_nil();", "for (i = array->count; i <= count; i++) {\n            array->data[i] = janet_wrap_nil();", "pointer_dereference|loop_invariant|assigns"),
              mut("no-nil-fill", "array.c", "            array->data[i] = janet_wrap_nil();\n", "            ;\n", "postcondition|loop_invariant"),
              mut("no-ensure", "array.c", "        janet_array_ensure(array, count, 1);\n        for (i", "        for (i", "pointer_dereference|postcondition|assigns")])
unit("seq.array.push",
     "janet_array_push, every size: raises at INT32_MAX elements (no count overflow), else appends x at index old count, prefix unchanged, write inside the block, invariant preserved",
     "h_array_push", "janet_array_push/janet_array_push_c", assumes=[ALLOC], **A,
     mutants=[mut("ensure-old-count", "array.c", "janet_array_ensure(array, newcount, 2);\n    array->data[array->count] = x;", "janet_array_ensure(array, array->count, 2);\n    array->data[array->count] = x;", "pointer_dereference|postcondition|assigns"),
              mut("no-overflow-guard", "array.c", "if (array->count == INT32_MAX) {\n        janet_panic(\"array overflow\");\n    }\n    int32_t newcount = array->count + 1;\n    janet_array_ensure(array, newcount, 2);\n    array->data",
                  "int32_t newcount = array->count + 1;\n    janet_array_ensure(array, newcount, 2);\n    array->data", "overflow")])
unit("seq.array.pop", "janet_array_pop: returns the last element and shortens by one, nil on the empty array; reads inside the block; nothing else changes",
     "h_array_pop", "janet_array_pop/janet_array_pop_c", **A,
     mutants=[mut("post-decrement", "array.c", "return array->data[--array->count];", "return array->data[array->count--];", "pointer_dereference|postcondition")])
unit("seq.array.peek", "janet_array_peek: returns the last element, nil on the empty array; reads inside the block; array unchanged",
     "h_array_peek", "janet_array_peek/janet_array_peek_c", **A,
     mutants=[mut("peek-past-end", "array.c", "return array->data[array->count - 1];", "return array->data[array->count];", "pointer_dereference|postcondition")])

# ------------------------------------------------------------------ capi.c index decoding
K = dict(src=["capi.c"], link=["wrap.c", "util.c"], link_keep={"util.c": ["janet_checkint"]}, harness=["seq_capi.c"],
         defines=["-DVC_OWN_PANIC", "-DSEQ_MAXLEN=2147483646"], object_bits=8, cbmc=["--sat-solver", "cadical"],
         replace=["janet_panicf/janet_panicf_c", "janet_signalv/janet_signalv_c", "pthread_exit/pthread_exit_c", "janet_length/janet_length_c"])
KA = ["janet_panicf / janet_signalv do not return (contract ensures false)",
      "length < INT32_MAX: at length == INT32_MAX the expression `length + 1` in janet_gethalfrange overflows (formal UB; two's complement wrap-around happens to give the right result)"]
unit("seq.capi.gethalfrange",
     "janet_gethalfrange, all arguments, 0 <= length < INT32_MAX: returns only for a 32-bit integer raw in [-length-1,length]; result is raw or raw+length+1, hence in [0,length]; else raises; no signed overflow; reads only argv[n]",
     "h_gethalfrange", "janet_gethalfrange/janet_gethalfrange_c", cls="full-domain", functions=["janet_gethalfrange", "janet_getinteger"], assumes=KA, **K,
     mutants=[mut("no-plus-one", "capi.c", "if (not_raw < 0) not_raw += length + 1;", "if (not_raw < 0) not_raw += length;", "postcondition"),
              mut("upper-bound-dropped", "capi.c", "if (not_raw < 0 || not_raw > length)\n        janet_panicf(\"%s index %d out of range [%d,%d]\"", "if (not_raw < 0)\n        janet_panicf(\"%s index %d out of range [%d,%d]\"", "postcondition")])
unit("seq.capi.getargindex",
     "janet_getargindex, all arguments, length >= 0: returns only for a 32-bit integer; result is raw or raw+length and lies in [0,length]; else raises; no signed overflow",
     "h_getargindex", cls="full-domain", functions=["janet_getargindex", "janet_getinteger"], assumes=KA[:1], **K,
     mutants=[mut("lower-bound-dropped", "capi.c", "if (not_raw < 0 || not_raw > length)\n        janet_panicf(\"%s index %d out of range [%d,%d)\"", "if (not_raw > length)\n        janet_panicf(\"%s index %d out of range [%d,%d)\"", "assertion")])
unit("seq.capi.getstartend",
     "janet_getstartrange / janet_getendrange: absent or nil argument gives 0 resp. length, otherwise the half-range decoding; result in [0,length]; argv[n] is never read for n >= argc",
     "h_getstartend", cls="full-domain", functions=["janet_getstartrange", "janet_getendrange", "janet_gethalfrange"], assumes=KA, **K,
     mutants=[mut("argc-check-off-by-one", "capi.c", "if (n >= argc || janet_checktype(argv[n], JANET_NIL)) {\n        return 0;", "if (n > argc || janet_checktype(argv[n], JANET_NIL)) {\n        return 0;", "pointer_dereference"),
              mut("end-default-zero", "capi.c", "        return length;\n    }\n    return janet_gethalfrange(argv, n, length, \"end\");", "        return 0;\n    }\n    return janet_gethalfrange(argv, n, length, \"end\");", "assertion")])
unit("seq.capi.getslice",
     "janet_getslice: arity 1..3; 0 <= start <= end <= length; start/end are the decoded arguments (defaults 0/length, negative indices from the end), an end before start gives the empty range at start; else raises",
     "h_getslice", cls="full-domain", functions=["janet_getslice", "janet_getstartrange", "janet_getendrange"],
     assumes=KA + ["janet_gethalfrange replaced by its contract (proved in seq.capi.gethalfrange)", "janet_length(argv[0]) returns some length in [0, INT32_MAX) (in-tree callers checked argv[0] with janet_getbytes/janet_getindexed first)"],
     **dict(K, replace=K["replace"] + ["janet_gethalfrange/janet_gethalfrange_c"]),
     mutants=[mut("no-clamp", "capi.c", "    if (range.end < range.start)\n        range.end = range.start;\n", "", "assertion"),
              mut("end-from-slot-1", "capi.c", "range.end = janet_getendrange(argv, argc, 2, length);", "range.end = janet_getendrange(argv, argc, 1, length);", "assertion")])

# ------------------------------------------------------------------ buffer.c core
B = dict(src=["buffer.c"], harness=["seq_buffer.c"], defines=["-DSEQ_ELEM_BYTES", "-DSEQ_TRACK_REALLOC"])
BA = [ALLOC, "memcpy/memset models (seq_common.h): ranges must be valid (memcpy: disjoint) - counted obligations; destination range becomes arbitrary except the byte at the ghost offset",
      "janet_gcpressure: GC accounting only, no effect on the buffer"]
FOREIGN = "; a buffer over foreign memory (NO_REALLOC) is never reallocated (raises instead)"
unit("seq.buffer.ensure",
     "janet_buffer_ensure (growth >= 1), every size: no overflow in the growth arithmetic, 0 <= count <= capacity and data valid for capacity afterwards, capacity >= requested, count and every byte unchanged" + FOREIGN,
     "h_buffer_ensure", "janet_buffer_ensure/janet_buffer_ensure_c", assumes=BA, **B,
     mutants=[mut("no-foreign-check", "buffer.c", "if (capacity <= buffer->capacity) return;\n    janet_buffer_can_realloc(buffer);", "if (capacity <= buffer->capacity) return;", "postcondition"),
              mut("no-clamp", "buffer.c", "capacity = big_capacity > INT32_MAX ? INT32_MAX : (int32_t) big_capacity;", "capacity = (int32_t) big_capacity;", "overflow|postcondition")])
unit("seq.buffer.setcount",
     "janet_buffer_setcount, every size: negative count ignored; else length becomes count, surviving bytes unchanged, every new byte is 0, memset inside the (possibly regrown) block, invariant preserved" + FOREIGN,
     "h_buffer_setcount", "janet_buffer_setcount/janet_buffer_setcount_c", assumes=BA, **B,
     mutants=[mut("memset-too-long", "buffer.c", "memset(buffer->data + oldcount, 0, count - oldcount);", "memset(buffer->data + oldcount, 0, count);", "memset model|assigns|pointer"),
              mut("fill-ones", "buffer.c", "memset(buffer->data + oldcount, 0, count - oldcount);", "memset(buffer->data + oldcount, 1, count - oldcount);", "postcondition")])
unit("seq.buffer.extra",
     "janet_buffer_extra, every size and n: raises if count + n > INT32_MAX, no overflow in the doubling; afterwards room for n more bytes, count and every byte unchanged, invariant preserved" + FOREIGN,
     "h_buffer_extra", "janet_buffer_extra/janet_buffer_extra_c", assumes=BA, **B,
     mutants=[mut("no-overflow-guard", "buffer.c", "if ((int64_t)n + buffer->count > INT32_MAX) {\n        janet_panic(\"buffer overflow\");\n    }\n    int32_t new_size", "int32_t new_size", "overflow|postcondition"),
              mut("double-unguarded", "buffer.c", "int32_t new_capacity = (new_size > (INT32_MAX / 2)) ? INT32_MAX : (new_size * 2);", "int32_t new_capacity = new_size * 2;", "overflow"),
              mut("no-foreign-check", "buffer.c", "if (new_size > buffer->capacity) {\n        janet_buffer_can_realloc(buffer);", "if (new_size > buffer->capacity) {", "postcondition")])
unit("seq.buffer.push_bytes",
     "janet_buffer_push_bytes (length >= 0, source outside the buffer block), every size: appends exactly the source bytes, prefix unchanged, raises instead of exceeding INT32_MAX, memcpy ranges valid and disjoint" + FOREIGN,
     "h_buffer_push_bytes", "janet_buffer_push_bytes/janet_buffer_push_bytes_c", assumes=BA, **B,
     mutants=[mut("copy-to-start", "buffer.c", "memcpy(buffer->data + buffer->count, string, length);", "memcpy(buffer->data, string, length);", "postcondition|memcpy model"),
              mut("no-extra", "buffer.c", "    janet_buffer_extra(buffer, length);\n    memcpy", "    memcpy", "memcpy model|postcondition|assigns|overflow")])
unit("seq.buffer.push_bytes.self",
     "janet_buffer_push_bytes appending the buffer's own bytes after the caller reserved room (buffer/push-string b b): no reallocation, memcpy source and destination disjoint and inside the block, the appended bytes equal the old prefix",
     "h_buffer_push_bytes_self", "janet_buffer_push_bytes/janet_buffer_push_bytes_self_c", assumes=BA, **B,
     mutants=[mut("copy-to-start", "buffer.c", "memcpy(buffer->data + buffer->count, string, length);", "memcpy(buffer->data, string, length);", "postcondition|memcpy model")])
for bits, nb, m in [(8, 1, mut("no-extra", "buffer.c", "janet_buffer_extra(buffer, 1);\n    buffer->data[buffer->count] = byte;", "buffer->data[buffer->count] = byte;", "pointer_dereference|assigns|postcondition|overflow")),
                    (16, 2, mut("extra-too-small", "buffer.c", "janet_buffer_extra(buffer, 2);", "janet_buffer_extra(buffer, 1);", "pointer_dereference|assigns|postcondition|overflow")),
                    (32, 4, mut("extra-too-small", "buffer.c", "janet_buffer_extra(buffer, 4);", "janet_buffer_extra(buffer, 3);", "pointer_dereference|assigns|postcondition|overflow")),
                    (64, 8, mut("wrong-shift", "buffer.c", "buffer->data[buffer->count + 7] = (x >> 56) & 0xFF;", "buffer->data[buffer->count + 7] = (x >> 48) & 0xFF;", "postcondition"))]:
    unit("seq.buffer.push_u%d" % bits,
         "janet_buffer_push_u%d, every size: appends the %d byte(s) of x in little-endian order, prefix unchanged, raises instead of exceeding INT32_MAX, every write inside the block" % (bits, nb) + FOREIGN,
         "h_buffer_push_u%d" % bits, "janet_buffer_push_u%d/janet_buffer_push_u%d_c" % (bits, bits), assumes=BA, mutants=[m], **B)

# ------------------------------------------------------------------ array.c registered C functions
CF = dict(src=["array.c"], link=["wrap.c", "util.c"], link_keep={"util.c": ["safe_memcpy"]}, harness=["seq_array_cfun.c"])
CFA = [ALLOC, "memcpy/memmove models (seq_common.h): ranges must be valid (memcpy: disjoint) - counted obligations; pointwise effect on the ghost element",
       "capi.c getters are stubs: slot 0 is a well-formed array, integer slots return the slot's low 32 bits, each asserts slot index < argc; janet_arity/janet_fixarity return only for an accepted argc",
       "janet_gcalloc returns a fresh block"]
unit("seq.cfun.array.push",
     "array/push, every size and argument count: raises instead of exceeding INT32_MAX elements, else length grows by the number of xs, xs appended in order, prefix unchanged, memcpy inside the (regrown) block and argv, returns arr",
     "h_cfun_array_push", "cfun_array_push/cfun_array_push_c", assumes=CFA, **CF,
     mutants=[mut("copy-one-too-many", "array.c", "memcpy(array->data + array->count, argv + 1, (size_t)(argc - 1) * sizeof(Janet));", "memcpy(array->data + array->count, argv + 1, (size_t)argc * sizeof(Janet));", "memcpy model|assigns|pointer"),
              mut("no-overflow-guard", "array.c", "if (INT32_MAX - argc + 1 <= array->count) {\n        janet_panic(\"array overflow\");\n    }\n    int32_t newcount = array->count - 1 + argc;", "int32_t newcount = array->count - 1 + argc;", "overflow")])
unit("seq.cfun.array.insert", 
     "array/insert, every size (count + argc <= INT32_MAX): index in [0,len] or negative from the end, else raises; result is old prefix ++ xs ++ old tail; no overflow; memmove/memcpy inside the block; returns arr",
     "h_cfun_array_insert", "cfun_array_insert/cfun_array_insert_c", tier="thorough", timeout=600, cbmc=["--sat-solver", "cadical"],
     assumes=CFA + ["domain restriction count + argc <= INT32_MAX: `array->count + argc - 2` is evaluated left to right and its intermediate sum overflows for a 16 GiB array although the result fits"], **CF,
     mutants=[mut("index-check-dropped", "array.c", "if (at < 0 || at > array->count)\n        janet_panicf(\"insertion index", "if (at < 0)\n        janet_panicf(\"insertion index", "memmove model|postcondition|overflow|pointer|assigns")])
unit("seq.cfun.array.remove.small-n",
     "array/remove restricted to n + len <= INT32_MAX: index in [0,len] or negative from the end, n >= 0, else raises; removes min(n, len-at) elements at at: prefix unchanged, tail moved down, memmove inside the block; returns arr",
     "h_cfun_array_remove", "cfun_array_remove/cfun_array_remove_c", tier="thorough", timeout=600, cbmc=["--sat-solver", "cadical"],
     assumes=CFA + ["restricted domain n + len <= INT32_MAX; the unrestricted unit seq.cfun.array.remove fails (genuine defect)"],
     **dict(CF, defines=["-DSEQ_REMOVE_NO_OVERFLOW"]),
     mutants=[mut("no-clamp", "array.c", "    if (n > array->count - at) {\n        n = array->count - at;\n    }\n", "", "memmove model|postcondition|overflow|pointer|assigns")])
unit("seq.cfun.array.remove",
     "array/remove, ALL arguments: no signed overflow in at + n, memmove inside the block, removes min(n, len-at) elements",
     "h_cfun_array_remove", "cfun_array_remove/cfun_array_remove_c", tier="quick", timeout=600, cbmc=["--sat-solver", "cadical"], assumes=CFA, **CF,
     mutants=[mut("no-clamp", "array.c", "    if (n > array->count - at) {\n        n = array->count - at;\n    }\n", "", "memmove model|postcondition|overflow|pointer|assigns")])
unit("seq.cfun.array.ensure.growth-pos",
     "array/ensure restricted to growth >= 1: capacity at least the requested one, length and contents unchanged, invariant preserved; returns arr",
     "h_cfun_array_ensure", "cfun_array_ensure/cfun_array_ensure_c",
     assumes=CFA + ["restricted domain growth >= 1; the unrestricted unit seq.cfun.array.ensure fails (genuine defect)"],
     **dict(CF, defines=["-DSEQ_ENSURE_GROWTH_POS"]),
     mutants=[mut("arguments-swapped", "array.c", "janet_array_ensure(array, newcount, growth);\n    return argv[0];", "janet_array_ensure(array, growth, newcount);\n    return argv[0];", "postcondition|overflow")])
unit("seq.cfun.array.ensure",
     "array/ensure, ALL arguments: either raises or capacity at least the requested one with contents unchanged; no overflow / invalid allocation size",
     "h_cfun_array_ensure", "cfun_array_ensure/cfun_array_ensure_c", tier="quick", assumes=CFA, **CF,
     mutants=[mut("arguments-swapped", "array.c", "janet_array_ensure(array, newcount, growth);\n    return argv[0];", "janet_array_ensure(array, growth, newcount);\n    return argv[0];", "postcondition|overflow")])
for nm, cl, mu in [
    ("pop", "array/pop: arity 1; returns the last element and shortens by one, nil for the empty array; nothing else changes",
     mut("post-decrement", "array.c", "return array->data[--array->count];", "return array->data[array->count--];", "pointer_dereference|postcondition")),
    ("peek", "array/peek: arity 1; returns the last element, nil for the empty array; array unchanged",
     mut("peek-past-end", "array.c", "return array->data[array->count - 1];", "return array->data[array->count];", "pointer_dereference|postcondition")),
    ("clear", "array/clear: arity 1; length becomes 0, capacity and block kept; returns arr",
     mut("clear-capacity", "array.c", "JanetArray *array = janet_getarray(argv, 0);\n    array->count = 0;\n    return argv[0];", "JanetArray *array = janet_getarray(argv, 0);\n    array->capacity = 0;\n    return argv[0];", "postcondition|assigns")),
    ("trim", "array/trim: arity 1; capacity becomes the length (no block for the empty array), length and contents unchanged, old block released exactly once; returns arr",
     mut("trim-keeps-capacity", "array.c", "            array->data = newData;\n            array->capacity = array->count;", "            array->data = newData;", "postcondition"))]:
    unit("seq.cfun.array." + nm, cl, "h_cfun_array_" + nm, "cfun_array_%s/cfun_array_%s_c" % (nm, nm), assumes=CFA, mutants=[mu], **CF)
# array/fill, array/new-filled, array/slice, array/concat, array/join: not delivered (see final report)

json.dump({"defaults": {"props": ["C04", "C17"], "mode": "dfcc", "timeout": 120, "object_bits": 7, "checks": CHECKS}, "units": units},
          open(os.path.join(V, "units", "C04_seq.json"), "w"), indent=1)
print(len(units), "units")
