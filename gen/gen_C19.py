#!/usr/bin/env python3
"""C19: recursion-measure contracts for the direct-recursion cycles of the C core.

For every member M of a recursion cycle the contract at EVERY call of a member from inside M is a decreases-style
obligation on the lexicographic measure (depth, -rank):

    depth(callee) > depth(caller)  ||  (depth(callee) == depth(caller) && (rank(callee) < rank(caller) || leaf-argument))

where depth is the function's own depth term (marsh.c: flags & 0xFFFF; gc.c: GUARD - static depth; compiler:
GUARD - c->recursion_guard; ...), plus, for members that do not test the limit themselves, depth(callee) <= GUARD + 1.
Together with the guard test of the guarded members (checked by the same units: beyond the limit they do not return
normally and reach no call site) this bounds the native recursion depth by (GUARD + 2) * (max rank).

Technique (DESIGN C19): the contracts are installed as asserting stubs at all call sites with
`goto-instrument --replace-calls member:stub`; the entry member is then re-attached with a second
`--replace-calls member__entry:member`, so the unit executes the REAL body of one member with every recursive call
replaced by its contract. Loops are unwound twice without unwinding assertion (bounded; the depth terms are not
assigned in loops), site coverage over the group is mandatory (REACH-ANY)."""
import json, os, re
V = os.path.dirname(os.path.dirname(os.path.abspath(__file__)))

LEAF_JANET = "(janet_checktype({x}, JANET_NIL) || janet_checktype({x}, JANET_BOOLEAN) || janet_checktype({x}, JANET_NUMBER) || janet_checktype({x}, JANET_STRING) || janet_checktype({x}, JANET_SYMBOL) || janet_checktype({x}, JANET_KEYWORD))"

CYCLES = [
 {'name': 'marshal', 'file': 'marsh.c', 'link': ['wrap.c'], 'replay': {'kind': 'janet', 'script_file': 'c19_marshal_deep.janet', 'timeout': 240},
  'remove_bodies': 'unmarshal_one.*|janet_unmarshal.*|janet_marshal|janet_marshal_(size|int64|int|ptr|byte|bytes|abstract)|janet_env_lookup.*',
  'depth': '(flags & 0xFFFF)', 'limit': 'JANET_RECURSION_GUARD', 'nanbox': False,
  'hooks': [dict(name='marshal', ret='void', params='void *p, JanetMarshalContext *ctx', depth='(ctx->flags & 0xFFFF)', rank=4)],
  'numbering': {'nextid': 'st->nextid', 'defcount': 'janet_v_count(st->seen_defs)'},
  # a real writer state: cycle tracking on, up to 2 definitions / environments already numbered (vectors with room for 4)
  'cycle_pre': 'static MarshalState vc_ms; static JanetBuffer vc_mbuf; static struct { int32_t cap, cnt; void *items[4]; } vc_dv, vc_ev; vc_dv.cap = 4; vc_dv.cnt = nd_uint() % 3; vc_ev.cap = 4; vc_ev.cnt = nd_uint() % 3; vc_ms.buf = &vc_mbuf; vc_ms.seen_defs = (JanetFuncDef **) vc_dv.items; vc_ms.seen_envs = (JanetFuncEnv **) vc_ev.items; vc_ms.nextid = nd_i32() & 0xFFFF; vc_ms.maybe_cycles = 1; vc_ms.rreg = 0; st = &vc_ms;',
  'extra_entries': [
    dict(name='janet_marshal_janet', ret='void', params='JanetMarshalContext *ctx, Janet x', depth='(ctx->flags & 0xFFFF)', rank=4, guarded=False,
         pre='JanetMarshalContext vc_ctx; MarshalState vc_st; vc_ctx.m_state = &vc_st; vc_ctx.flags = nd_int(); ctx = &vc_ctx;'),
  ],
  'members': [
    dict(name='marshal_one', ret='void', params='MarshalState *st, Janet x, int flags', rank=2, guarded=True, leaf=LEAF_JANET.format(x='x'),
         num=dict(kind='janet_checktype(x, JANET_ABSTRACT) ? 0 : 1', delta='(janet_checktype(x, JANET_ARRAY) || janet_checktype(x, JANET_TABLE) || janet_checktype(x, JANET_FUNCTION) || janet_checktype(x, JANET_FIBER)) ? 1 : 0')),
    dict(name='marshal_one_def', ret='void', params='MarshalState *st, JanetFuncDef *def, int flags', rank=1, guarded=True, num=dict(kind='2', delta='1')),
    dict(name='marshal_one_env', ret='void', params='MarshalState *st, JanetFuncEnv *env, int flags', rank=1, guarded=True),
    dict(name='marshal_one_fiber', ret='void', params='MarshalState *st, JanetFiber *fiber, int flags', rank=1, guarded=True),
    dict(name='marshal_one_abstract', ret='void', params='MarshalState *st, Janet x, int flags', rank=1, guarded=False),
  ],
  'mutants': {
    'marshal_one': [dict(name='tuple-numbered-before-children', file='marsh.c', find='            pushint(st, flag);\n            for (i = 0; i < count; i++)\n                marshal_one(st, tup[i], flags + 1);\n            /* Mark as seen AFTER marshaling */\n            MARK_SEEN();', replace='            pushint(st, flag);\n            MARK_SEEN();\n            for (i = 0; i < count; i++)\n                marshal_one(st, tup[i], flags + 1);', expect='C09 numbering'),
                    dict(name='proto-edge-no-increment', file='marsh.c', find='marshal_one(st, janet_wrap_table(t->proto), flags + 1);', replace='marshal_one(st, janet_wrap_table(t->proto), flags);', expect='C19')],
    'marshal_one_env': [],
    'marshal_one_def': [dict(name='def-numbered-after-children', file='marsh.c', find='    /* Add to lookup */\n    janet_v_push(st->seen_defs, def);\n', replace='', expect='C09 numbering'),
                        dict(name='subdef-no-increment', file='marsh.c', find='marshal_one_def(st, def->defs[i], flags + 1);', replace='marshal_one_def(st, def->defs[i], flags);', expect='C19')],
  }},
 {'name': 'unmarshal', 'file': 'marsh.c', 'link': ['wrap.c'], 'replay': {'kind': 'janet', 'script_file': 'c19_unmarshal_deep.janet', 'timeout': 240},
  'remove_bodies': 'marshal_one.*|janet_marshal.*|janet_unmarshal|janet_unmarshal_(ensure|int|size|int64|ptr|byte|bytes|abstract.*|u32s)|janet_env_lookup.*',
  'depth': '(flags & 0xFFFF)', 'limit': 'JANET_RECURSION_GUARD', 'nanbox': False,
  'hooks': [dict(name='unmarshal', ret='void *', params='JanetMarshalContext *ctx', depth='(ctx->flags & 0xFFFF)', rank=4)],
  # the reader state is a real object over a 24-byte input window with arbitrary contents (the depth obligations do not depend on it)
  'numbering': {'nextid': 'janet_v_count(st->lookup)', 'defcount': 'janet_v_count(st->lookup_defs)'},
  'cycle_pre': 'static UnmarshalState vc_ust; uint8_t vc_buf[24]; static struct { int32_t cap, cnt; Janet items[8]; } vc_lv; static struct { int32_t cap, cnt; void *items[8]; } vc_ldv, vc_lev; vc_lv.cap = 8; vc_lv.cnt = nd_uint() % 3; vc_ldv.cap = 8; vc_ldv.cnt = nd_uint() % 3; vc_lev.cap = 8; vc_lev.cnt = nd_uint() % 3; vc_ust.start = vc_buf; vc_ust.end = vc_buf + 24; vc_ust.lookup = vc_lv.items; vc_ust.lookup_defs = (JanetFuncDef **) vc_ldv.items; vc_ust.lookup_envs = (JanetFuncEnv **) vc_lev.items; vc_ust.reg = 0; st = &vc_ust; data = vc_buf + (nd_int() & 7);',
  'members': [
    dict(name='unmarshal_one', ret='const uint8_t *', params='UnmarshalState *st, const uint8_t *data, Janet *out, int flags', rank=2, guarded=True,
         num=dict(kind='(data[0] == LB_ABSTRACT || data[0] == LB_THREADED_ABSTRACT) ? 0 : 1',
                  delta='(data[0] == LB_ARRAY || data[0] == LB_ARRAY_WEAK || data[0] == LB_FUNCTION || data[0] == LB_TABLE || data[0] == LB_TABLE_PROTO || (data[0] >= LB_TABLE_WEAKK && data[0] <= LB_TABLE_WEAKKV_PROTO)) ? 1 : 0')),
    dict(name='unmarshal_one_env', ret='const uint8_t *', params='UnmarshalState *st, const uint8_t *data, JanetFuncEnv **out, int flags', rank=3, guarded=False, bound=2),
    dict(name='unmarshal_one_def', ret='const uint8_t *', params='UnmarshalState *st, const uint8_t *data, JanetFuncDef **out, int flags', rank=3, guarded=True, num=dict(kind='2', delta='1')),
    dict(name='unmarshal_one_fiber', ret='const uint8_t *', params='UnmarshalState *st, const uint8_t *data, JanetFiber **out, int flags', rank=3, guarded=False, num=dict(kind='1', delta='1')),
    dict(name='unmarshal_one_abstract', ret='const uint8_t *', params='UnmarshalState *st, const uint8_t *data, Janet *out, int flags', rank=1, guarded=False),
  ],
  # abstract-type hooks re-enter through janet_unmarshal_janet with the depth stored in the context
  'extra_entries': [
    dict(name='janet_unmarshal_janet', ret='Janet', params='JanetMarshalContext *ctx', depth='(ctx->flags & 0xFFFF)', rank=4, guarded=False,
         pre='JanetMarshalContext vc_ctx; UnmarshalState vc_st; vc_ctx.u_state = &vc_st; vc_ctx.flags = nd_int(); ctx = &vc_ctx;'),
  ],
  'mutants': {
    'unmarshal_one': [dict(name='no-stackcheck', file='marsh.c', find='    uint8_t lead;\n    MARSH_STACKCHECK;\n    MARSH_EOS(st, data);', replace='    uint8_t lead;\n    MARSH_EOS(st, data);', expect='C19')],
    'unmarshal_one_fiber': [],
    'unmarshal_one_def': [dict(name='def-numbered-after-children', file='marsh.c', find='        def->symbolmap_length = 0;\n        janet_v_push(st->lookup_defs, def);\n', replace='        def->symbolmap_length = 0;\n', expect='C09 numbering'),
                          dict(name='no-stackcheck-def', file='marsh.c', find='    int flags) {\n    MARSH_STACKCHECK;\n    MARSH_EOS(st, data);\n    if (*data == LB_FUNCDEF_REF) {', replace='    int flags) {\n    MARSH_EOS(st, data);\n    if (*data == LB_FUNCDEF_REF) {', expect='C19')],
    'unmarshal_one_abstract': [dict(name='hook-context-same-depth', file='marsh.c', find='JanetMarshalContext context = {NULL, st, flags + 1, data, at};', replace='JanetMarshalContext context = {NULL, st, flags, data, at};', expect='C19')],
  }},
 {'name': 'gcmark', 'file': 'gc.c', 'link': ['wrap.c'], 'replay': {'kind': 'janet', 'script_file': 'c19_gc_deep.janet', 'timeout': 400},
  'remove_bodies': 'janet_collect|janet_sweep|janet_clear_memory|janet_gcalloc|janet_deinit_block',
  'depth': '((int64_t) JANET_RECURSION_GUARD - (int64_t) depth)', 'limit': 'JANET_RECURSION_GUARD', 'global_depth': 'depth = nd_u32();', 'nanbox': False, 'restore': 'depth',
  # abstract gcmark hooks and the fiber's event callback (MARK event) are external code that re-enters through janet_mark only
  'hooks': [dict(name='gcmark', ret='int', params='void *data, size_t len', depth='((int64_t) JANET_RECURSION_GUARD - (int64_t) depth)', rank=2),
            dict(name='evmark', ret='void', params='JanetFiber *fiber, JanetAsyncEvent event', depth='((int64_t) JANET_RECURSION_GUARD - (int64_t) depth)', rank=2)],
  'members': [
    dict(name='janet_mark', ret='void', params='Janet x', rank=1, guarded=True),
    dict(name='janet_mark_many', ret='void', params='const Janet *values, int32_t n', rank=2, guarded=False),
    dict(name='janet_mark_keys', ret='void', params='const JanetKV *kvs, int32_t n', rank=2, guarded=False),
    dict(name='janet_mark_values', ret='void', params='const JanetKV *kvs, int32_t n', rank=2, guarded=False),
    dict(name='janet_mark_kvs', ret='void', params='const JanetKV *kvs, int32_t n', rank=2, guarded=False),
    dict(name='janet_mark_array', ret='void', params='JanetArray *array', rank=3, guarded=False),
    dict(name='janet_mark_table', ret='void', params='JanetTable *table', rank=3, guarded=False),
    dict(name='janet_mark_struct', ret='void', params='const JanetKV *st', rank=3, guarded=False),
    dict(name='janet_mark_tuple', ret='void', params='const Janet *tuple', rank=3, guarded=False),
    dict(name='janet_mark_abstract', ret='void', params='void *adata', rank=3, guarded=False),
    dict(name='janet_mark_funcenv', ret='void', params='JanetFuncEnv *env', rank=4, guarded=False),
    # nested funcdefs: direct self-recursion at equal depth; bounded structurally (nesting of defs is limited by the
    # compiler's and - after the fix - the unmarshaller's own guards), declared here as an assumed data invariant
    dict(name='janet_mark_funcdef', ret='void', params='JanetFuncDef *def', rank=4, guarded=False, self_ok='funcdef nesting is bounded by JANET_RECURSION_GUARD by every constructor (compiler recursion guard, unmarshal_one_def stack check)'),
    dict(name='janet_mark_function', ret='void', params='JanetFunction *func', rank=5, guarded=False),
    dict(name='janet_mark_fiber', ret='void', params='JanetFiber *fiber', rank=6, guarded=False),
  ],
  'mutants': {
    'janet_mark_funcenv': [dict(name='direct-fiber-edge', file='gc.c', find='janet_mark(janet_wrap_fiber(env->as.fiber));', replace='janet_mark_fiber(env->as.fiber);', expect='C19')],
    'janet_mark': [dict(name='no-depth-decrement', file='gc.c', find='    if (depth) {\n        depth--;', replace='    if (depth) {', expect='C19')],
  }},
 {'name': 'destructure', 'file': 'specials.c', 'link': ['wrap.c'], 'replay': {'kind': 'janet', 'script': '(dofile "/verif/design-probes/repro/c19_deep_destructure.janet")\n', 'timeout': 240},
  'remove_bodies': 'janetc_fn|janetc_while|janetc_if|janetc_do|janetc_upscope|janetc_break|janetc_quasiquote|quasiquote|janetc_splice|janetc_quote|janetc_unquote|janetc_varset',
  'depth': '((int64_t) JANET_RECURSION_GUARD - (int64_t) c->recursion_guard)', 'limit': 'JANET_RECURSION_GUARD', 'nanbox': False,
  'cycle_pre': 'JanetCompiler vc_c; vc_c.recursion_guard = nd_int(); c = &vc_c;', 'restore': 'c->recursion_guard',
  # out-parameters of body-less helpers (janet_indexed_view, janet_dictionary_view) must be havocked, otherwise no loop is entered
  'genbody_options': 'havoc,params:.*',
  'members': [
    dict(name='destructure', ret='int', params='JanetCompiler *c, Janet left, JanetSlot right, int (*leaf)(JanetCompiler *c, const uint8_t *sym, JanetSlot s, JanetTable *attr), JanetTable *attr', rank=1, guarded=True),
    dict(name='dohead_destructure', ret='SlotHeadPair *', params='JanetCompiler *c, SlotHeadPair *into, JanetFopts opts, Janet lhs, Janet rhs', rank=1, guarded=True),
  ],
  'mutants': {
    'destructure': [dict(name='no-guard-decrement', file='specials.c', find='                c->recursion_guard--;\n                int free_next = destructure(c, subval, nextright, leaf, attr);', replace='                int free_next = destructure(c, subval, nextright, leaf, attr);', expect='C19')],
  }},
]


def param_names(params):
    names = []
    for p in split_params(params):
        m = re.search(r'\(\*(\w+)\)', p) or re.search(r'(\w+)\s*$', p.strip())
        names.append(m.group(1))
    return names


def split_params(params):
    out, depth, cur = [], 0, ''
    for ch in params:
        if ch == '(':
            depth += 1
        if ch == ')':
            depth -= 1
        if ch == ',' and depth == 0:
            out.append(cur.strip()); cur = ''
        else:
            cur += ch
    out.append(cur.strip())
    return out


def gen_cycle(c):
    lines = ['/* generated by gen/gen_C19.py - recursion-measure contracts for cycle "%s" of %s */' % (c['name'], c['file']),
             '#include "prelude.h"', 'int64_t g_depth; int g_rank;',
             '/* C09 numbering contract: kind 1 = value ids, kind 2 = funcdef ids; checked at the FIRST call of a cycle member made from the entry */',
             'int g_num_kind, g_num_first; int64_t g_num0; int g_num_delta;']
    num = c.get('numbering')
    allm = c['members']
    for m in allm:
        dexpr = m.get('depth', c['depth'])
        leaf = m.get('leaf', '0')
        ret = m['ret']
        body = ['  int64_t d = %s;' % dexpr,
                '  __CPROVER_assert(0, "REACH-ANY: recursive call site of %s reached");' % m['name']]
        if num:
            body.append('  if (g_num_kind && g_num_first) { int64_t cur = (g_num_kind == 1) ? (int64_t)(%s) : (int64_t)(%s); g_num_first = 0;' % (num['nextid'], num['defcount']))
            body.append('    __CPROVER_assert(cur == g_num0 + g_num_delta, "C09 numbering: a value/definition receives its reference number at the point the format prescribes relative to its children (containers that can be cyclic and definitions BEFORE their first child, tuples and structs AFTER their children) - the same point on the writing and the reading side"); }')
        cond = 'd > g_depth || (d == g_depth && (%d < g_rank || (%s)))' % (m['rank'], leaf)
        if m.get('self_ok'):
            cond = '(%s) || (d == g_depth && g_rank == %d)' % (cond, m['rank'])
        body.append('  __CPROVER_assert(%s, "C19 call of %s: recursion measure (depth, rank) strictly progresses");' % (cond, m['name']))
        if not m['guarded']:
            body.append('  __CPROVER_assert(d <= (int64_t) %s + %d, "C19 call of %s (which has no limit test of its own) happens at most %d level(s) above the recursion limit");' % (c['limit'], m.get('bound', 1), m['name'], m.get('bound', 1)))
        if ret != 'void':
            body.append('  %s r; return r;' % ret if ret == 'Janet' else '  return (%s) nd_ptr();' % ret)
        lines.append('%s vc_depth_%s(%s) {\n%s\n}' % (ret, m['name'], m['params'], '\n'.join(body)))
    for hk in c.get('hooks', []):
        body = ['  int64_t d = %s;' % hk['depth'],
                '  __CPROVER_assert(0, "REACH-ANY: hook call site %s reached");' % hk['name'],
                '  __CPROVER_assert(d > g_depth || (d == g_depth && %d < g_rank), "C19 call of external hook %s: recursion measure (depth, rank) strictly progresses");' % (hk['rank'], hk['name'])]
        if hk['ret'] != 'void':
            body.append('  return (%s) 0;' % hk['ret'])
        lines.append('%s vc_hook_%s(%s) {\n%s\n}' % (hk['ret'], hk['name'], hk['params'], '\n'.join(body)))
        # address taken => the only candidate of that type for cbmc's function-pointer removal in this unit
        lines.append('%s (*vc_keep_%s)(%s) = vc_hook_%s;' % (hk['ret'], hk['name'], hk['params'], hk['name']))
    units = []
    entries = list(allm) + c.get('extra_entries', [])
    for m in entries:
        names = param_names(m['params'])
        decl = '; '.join(split_params(m['params'])) + ';'
        dexpr = m.get('depth', c['depth'])
        lines.append('%s %s__entry(%s);' % (m['ret'], m['name'], m['params']))
        pre = m.get('pre', c.get('cycle_pre', '') if m in allm else '')
        assume = '' if m['guarded'] else '__CPROVER_assume(g_depth <= (int64_t) %s + %d);' % (c['limit'], m.get('bound', 1))
        post = ''
        if c.get('restore') and m in allm:
            post = ' __CPROVER_assert((int64_t)(%s) == vc_saved, "C19 %s: the shared depth counter is restored on normal return"); __CPROVER_assert(0, "REACH-ANY: %s returns normally");' % (c['restore'], m['name'], m['name'])
            pre = pre + ' int64_t vc_saved = (int64_t)(%s);' % c['restore'] if False else pre
        save = (' int64_t vc_saved = (int64_t)(%s);' % c['restore']) if (c.get('restore') and m in allm) else ''
        numset = ''
        if num and m.get('num'):
            nk = m['num']
            numset = ' g_num_kind = (%s); g_num_first = 1; g_num0 = (g_num_kind == 1) ? (int64_t)(%s) : (int64_t)(%s); g_num_delta = (%s);' % (nk['kind'], num['nextid'], num['defcount'], nk['delta'])
        lines.append('void h_%s(void) { %s %s %s g_depth = %s; g_rank = %d; %s%s%s %s__entry(%s);%s }' % (
            m['name'], decl, c.get('global_depth', ''), pre, dexpr, m['rank'], assume, save, numset, m['name'], ', '.join(names), post))
        rc = ['%s:vc_depth_%s' % (x['name'], x['name']) for x in allm]
        u = {'id': 'rec.%s.%s' % (c['name'], m['name']), 'props': (['C19', 'C09'] if (c.get('numbering') and m.get('num')) else ['C19']) + (['C10'] if c['name'] in ('unmarshal', 'gcmark') else []), 'tier': 'quick', 'class': 'bounded', 'group': 'rec.' + c['name'],
             'bound': 'loops unwound 2x without unwinding assertion (depth terms are not assigned in loops); every recursive call site must be reached in some unit of the cycle',
             'clause': 'every call of a member of the %s recursion cycle made from %s strictly increases the measure (depth, -rank) and unguarded members are entered only below the limit' % (c['name'], m['name']),
             'src': [c['file']], 'link': c.get('link', []), 'harness': ['gen/rec_%s.c' % c['name']], 'entry': 'h_' + m['name'], 'mode': 'plain',
             'functions': [m['name']], 'replace_calls': rc, 'replace_calls2': ['%s__entry:%s' % (m['name'], m['name'])],
             'remove_bodies': c['remove_bodies'], 'checks': [], 'unwind': 2, 'unwinding_assertions': False, 'reach': False, 'min_obligations': 0, 'min_reach_any': 1,
             'only': '^\\S+ (C19|C09) ', 'timeout': 240, 'nanbox': c.get('nanbox', True), 'genbody_options': c.get('genbody_options', 'nondet-return'),
             'assumes': ['helpers outside the unit return arbitrary values; pointers given to the entry member are arbitrary (pointer checks are off in these units)']}
        if m.get('self_ok'):
            u['assumes'].append('%s: direct self-recursion at equal depth is accepted because %s' % (m['name'], m['self_ok']))
        if c.get('replay'):
            u['replay'] = c['replay']
        if c.get('mutants', {}).get(m['name']):
            u['mutants'] = c['mutants'][m['name']]
        units.append(u)
    os.makedirs(os.path.join(V, 'harness', 'gen'), exist_ok=True)
    open(os.path.join(V, 'harness', 'gen', 'rec_%s.c' % c['name']), 'w').write('\n'.join(lines) + '\n')
    return units


if __name__ == '__main__':
    units = []
    for c in CYCLES:
        units += gen_cycle(c)
    json.dump({'units': units}, open(os.path.join(V, 'units', 'C19.json'), 'w'), indent=1)
    print(len(units), 'units')
