#!/usr/bin/env python3
"""generates /verif/units/C05.json (C-level part of C05: fiber status automaton, resume eligibility, frames)"""
import json, os
V = os.path.dirname(os.path.dirname(os.path.abspath(__file__)))
units = []

def U(**k):
    k.setdefault('props', ['C05'])
    k.setdefault('tier', 'quick')
    k.setdefault('timeout', 200)
    units.append(k)

MSG = ["janet_formatc/fib_formatc_c", "janet_cstring/fib_cstring_c"]
CADICAL = ["--sat-solver", "cadical"]   # minisat's preprocessor does not finish on these instances (probed); cadical: < 1 min
CHK = ["bounds-check", "pointer-check", "signed-overflow-check"]

U(id="fib.check_can_resume", **{"class": "full-domain"},
  clause="a finished fiber (dead, error) can never be resumed again: janet_check_can_resume answers ERROR for every status that is not new/suspended, "
         "for root fibers and at the recursion limit, and leaves the fiber untouched (only the status word, only at the recursion limit)",
  src=["vm.c"], link=["fiber.c"], link_keep={"fiber.c": ["janet_fiber_status"]}, harness=["fib_check.c"], entry="h_check_can_resume",
  mode="dfcc", enforce=["janet_check_can_resume/check_can_resume_c"], replace=MSG, checks=CHK,
  assumes=["janet_cstringv / janet_formatc / janet_nanbox_from_cpointer (message construction) return any value and have no side effects"],
  mutants=[
    {"name": "error-status-resumable", "file": "vm.c", "find": "            old_status == JANET_STATUS_ERROR) {", "replace": "            0) {", "expect": "postcondition"},
    {"name": "dead-status-resumable", "file": "vm.c", "find": "            old_status == JANET_STATUS_DEAD ||\n            (old_status >= JANET_STATUS_USER0", "replace": "            (old_status >= JANET_STATUS_USER0", "expect": "postcondition"},
    {"name": "recursion-guard-off-by-one", "file": "vm.c", "find": "    if (janet_vm.stackn >= JANET_RECURSION_GUARD) {\n        janet_fiber_set_status(fiber, JANET_STATUS_ERROR);", "replace": "    if (janet_vm.stackn > JANET_RECURSION_GUARD) {\n        janet_fiber_set_status(fiber, JANET_STATUS_ERROR);", "expect": "postcondition"},
    {"name": "refusal-kills-fiber", "file": "vm.c", "find": "        *out = janet_wrap_string(str);\n        return JANET_SIGNAL_ERROR;", "replace": "        *out = janet_wrap_string(str); fiber->frame = 0;\n        return JANET_SIGNAL_ERROR;", "expect": "assigns"},
  ])

KEEP = {"fiber.c": ["janet_fiber_status"]}
RUNVM = ["run_vm/fib_run_vm_c", "_setjmp/fib_setjmp_c", "janet_fiber_did_resume/fib_did_resume_c", "janet_tuple_n/fib_tuple_n_c"] + MSG
U(id="fib.continue_no_check", **{"class": "full-domain"}, props=["C05", "C19"],
  clause="a resumed fiber moves new/suspended -> alive (the VM is entered only on an ALIVE current fiber without pending child) -> the returned signal: "
         "status on return equals the returned signal; janet_vm.fiber/stackn/return_reg/signal_buf/coerce_error/gc_suspend restored on every path incl. longjmp; "
         "a child signal the child's mask does not accept is re-raised unchanged and not delivered to this fiber; *out == last_value == return register; "
         "C19: a pending child is continued one recursion level deeper (the walk down a chain of suspended fibers counts against JANET_RECURSION_GUARD)",
  src=["vm.c"], link=["fiber.c"], link_keep=KEEP, harness=["fib_continue.c"], entry="h_no_check", defines=["-DFIB_ENFORCE_NO_CHECK"],
  mode="dfcc", enforce=["janet_continue_no_check/fib_no_check_c"], replace=RUNVM + ["janet_continue/fib_continue_child_c"], checks=CHK, cbmc=CADICAL, object_bits=8,
  functions=["janet_continue_no_check", "janet_try_init", "janet_restore"],
  assumes=["run_vm (interpreter loop) is replaced by the contract fib_run_vm_c: writes *fiber, janet_vm, *janet_vm.return_reg; returns a signal 0..13",
           "second return of setjmp = contract fib_setjmp_c: havocs what run_vm havocs, returns 1..13 (janet_signalv only longjmps with a JanetSignal; value 0 is mapped to 1 by longjmp)",
           "janet_continue on the pending child is replaced by fib_continue_child_c (postconditions of the proved fib_continue_c; the child's representation invariant is assumed)",
           "janet_fiber_did_resume writes only the fiber's ev_callback/ev_state fields; janet_tuple_n / message builders have no effect on fiber or VM registers"],
  mutants=[
    {"name": "coerce-error-inherited", "file": "vm.c", "find": "    janet_vm.signal_buf = &(state->buf);\n    janet_vm.coerce_error = 0;", "replace": "    janet_vm.signal_buf = &(state->buf);", "expect": "precondition"},
    {"name": "status-not-set-on-return", "file": "vm.c", "find": "    janet_fiber_set_status(fiber, sig);\n    janet_restore(&tstate);", "replace": "    janet_restore(&tstate);", "expect": "postcondition"},
    {"name": "restore-dropped", "file": "vm.c", "find": "    janet_fiber_set_status(fiber, sig);\n    janet_restore(&tstate);", "replace": "    janet_fiber_set_status(fiber, sig);", "expect": "postcondition"},
    {"name": "alive-not-set", "file": "vm.c", "find": "        janet_fiber_set_status(fiber, JANET_STATUS_ALIVE);\n", "replace": "", "expect": "precondition"},
    {"name": "child-mask-ignored", "file": "vm.c", "find": "        if (sig != JANET_SIGNAL_OK && !(child->flags & (1 << sig))) {\n            *out = in;", "replace": "        if (sig != JANET_SIGNAL_OK && !(fiber->flags & (1 << sig))) {\n            *out = in;", "expect": "postcondition|precondition"},
    {"name": "child-link-kept", "file": "vm.c", "find": "        fiber->child = NULL;\n    }\n\n    /* Handle new fibers", "replace": "    }\n\n    /* Handle new fibers", "expect": "precondition"},
    {"name": "stackn-unbalanced", "file": "vm.c", "find": "        janet_vm.stackn--;\n        if (janet_vm.root_fiber == fiber)", "replace": "        if (janet_vm.root_fiber == fiber)", "expect": "postcondition"},
    {"name": "child-not-counted", "file": "vm.c", "find": "        janet_vm.stackn++;\n        JanetSignal sig = janet_continue(child, in, &in);\n        janet_vm.stackn--;", "replace": "        JanetSignal sig = janet_continue(child, in, &in);", "expect": "precondition"},
  ])

CHKC = ["janet_check_can_resume/check_can_resume_c", "janet_continue_no_check/fib_no_check_c"]
U(id="fib.continue", **{"class": "full-domain"},
  clause="janet_continue: a finished fiber can never be resumed again (error signal, the VM is never entered, it stays finished); every refused resume leaves "
         "frames/stack/child/env/last value untouched; an accepted resume returns with status == returned signal; VM registers restored",
  src=["vm.c"], link=["fiber.c"], link_keep=KEEP, harness=["fib_check.c", "fib_continue.c"], entry="h_continue", defines=["-DFIB_NO_MSG"],
  mode="dfcc", enforce=["janet_continue/fib_continue_c"], replace=CHKC + MSG, checks=CHK, cbmc=CADICAL, object_bits=8,
  assumes=["janet_check_can_resume and janet_continue_no_check are replaced by their contracts (proved in fib.check_can_resume, fib.continue_no_check)"],
  mutants=[
    {"name": "check-result-ignored", "file": "vm.c", "find": "    JanetSignal tmp_signal = janet_check_can_resume(fiber, out, 0);\n    if (tmp_signal) return tmp_signal;", "replace": "    JanetSignal tmp_signal = janet_check_can_resume(fiber, out, 0);", "expect": "precondition|postcondition"},
    {"name": "refusal-returns-ok", "file": "vm.c", "find": "    JanetSignal tmp_signal = janet_check_can_resume(fiber, out, 0);\n    if (tmp_signal) return tmp_signal;", "replace": "    JanetSignal tmp_signal = janet_check_can_resume(fiber, out, 0);\n    if (tmp_signal) return JANET_SIGNAL_OK;", "expect": "postcondition"},
  ])
U(id="fib.continue_signal", **{"class": "bounded"}, bound="chain of pending children below the fiber: at most 2 links (loop unwound 3x with unwinding assertion)",
  clause="janet_continue_signal (cancel / resume with a signal): the signal is planted in the innermost fiber of the pending chain and in no other; same protocol as janet_continue - a finished fiber cannot be cancelled or resumed, refusal leaves the fiber "
         "untouched and never enters the VM, accepted => status == returned signal, VM registers restored",
  src=["vm.c"], link=["fiber.c"], link_keep=KEEP, harness=["fib_check.c", "fib_continue.c"], entry="h_continue_signal", defines=["-DFIB_NO_MSG"],
  mode="dfcc", enforce=["janet_continue_signal/fib_continue_signal_c"], replace=[CHKC[0], "janet_continue_no_check/fib_no_check_sig_c"] + MSG, checks=CHK, cbmc=CADICAL, object_bits=8,
  unwindset={"janet_continue_signal_wrapped_for_contract_checking.0": 4},
  assumes=["janet_check_can_resume and janet_continue_no_check are replaced by their contracts (proved in fib.check_can_resume, fib.continue_no_check)"],
  mutants=[
    {"name": "check-result-ignored", "file": "vm.c", "find": "sig != JANET_SIGNAL_OK);\n    if (tmp_signal) return tmp_signal;", "replace": "sig != JANET_SIGNAL_OK);", "expect": "precondition|postcondition"},
    {"name": "signal-flag-on-root-of-chain", "file": "vm.c", "find": "        while (child->child) child = child->child;\n", "replace": "", "expect": "precondition"},
    {"name": "signal-in-wrong-word", "file": "vm.c", "find": "        child->flags |= JANET_FIBER_RESUME_SIGNAL;", "replace": "        fiber->flags |= JANET_FIBER_RESUME_SIGNAL;", "expect": "precondition"},
  ])

U(id="fib.signalv", **{"class": "full-domain"},
  clause="janet_signalv: signal (as passed to longjmp) and value arrive unchanged at the innermost janet_try; under coerce_error every non-OK signal becomes ERROR, an error keeps its value, "
         "an await bumps the root fiber's generation; the running fiber is only marked DID_LONGJUMP; never returns",
  src=["capi.c"], harness=["fib_signalv.c"], entry="h_signalv", mode="plain", defines=["-DVC_OWN_PANIC"],
  replace_calls=["longjmp:fib_longjmp_stub"], functions=["janet_signalv"], checks=CHK,
  assumes=["longjmp transfers control to the setjmp of the given buffer with the given value (stub asserts the state at the jump)",
           "janet_formatc / janet_nanbox_from_cpointer (message for a coerced signal) have no side effects"],
  mutants=[
    {"name": "coercion-dropped", "file": "capi.c", "find": "            sig = JANET_SIGNAL_ERROR;\n        }\n        *janet_vm.return_reg = message;", "replace": "        }\n        *janet_vm.return_reg = message;", "expect": "C05 signalv: under coerce_error"},
    {"name": "coerce-also-ok", "file": "capi.c", "find": "if (janet_vm.coerce_error && sig != JANET_SIGNAL_OK) {", "replace": "if (janet_vm.coerce_error) {", "expect": "C05 signalv: without coercion"},
    {"name": "generation-bump-dropped", "file": "capi.c", "find": "                janet_vm.root_fiber->sched_id++;", "replace": "", "expect": "C05 signalv: a coerced await"},
    {"name": "value-not-stored", "file": "capi.c", "find": "        *janet_vm.return_reg = message;\n", "replace": "", "expect": "C05 signalv: without coercion"},
  ])

U(id="fib.signalv.delivered", **{"class": "full-domain"}, tier="thorough",
  disabled_reason="FAILS on the real code for sig == JANET_SIGNAL_OK (suspected genuine defect, low severity): janet_signalv(JANET_SIGNAL_OK, x) calls longjmp(buf, 0), "
                  "which makes setjmp return 1 == JANET_SIGNAL_ERROR. Reproducer: (def f (fiber/new (fn [] (signal :ok 5)) :a)) (resume f) (fiber/status f) => :error, "
                  "although the docstring of `signal` lists :ok; the value 5 arrives, the signal does not.",
  clause="janet_signalv: the signal seen by the enclosing janet_try (longjmp value, 0 mapped to 1 as ISO C prescribes) is the signal raised",
  src=["capi.c"], harness=["fib_signalv.c"], entry="h_signalv", mode="plain", defines=["-DVC_OWN_PANIC", "-DFIB_DELIVERED"],
  replace_calls=["longjmp:fib_longjmp_stub"], functions=["janet_signalv"], checks=CHK,
  assumes=["longjmp(env, 0) behaves as longjmp(env, 1) (ISO C 7.13.2.1)"],
  mutants=[
    {"name": "coercion-dropped", "file": "capi.c", "find": "            sig = JANET_SIGNAL_ERROR;\n        }\n        *janet_vm.return_reg = message;", "replace": "        }\n        *janet_vm.return_reg = message;", "expect": "C05 signalv"},
  ])

NEWSTUBS = ["janet_getfunction:fib_getfunction_stub", "janet_getbytes:fib_getbytes_stub", "janet_gettable:fib_gettable_stub",
            "janet_table:fib_table_stub", "janet_fiber:fib_fiber_stub"]
U(id="fib.new.flags", **{"class": "bounded"}, bound="flag keyword of at most 8 characters, every character fully symbolic (loops unwound with unwinding assertion)",
  clause="fiber/new: the mask bits set are exactly those named by the flag keyword (reference decoding from the docstring), unknown characters are refused, the fiber starts NEW, "
         "and the environment is inherited only through :i / :p (last one wins)",
  src=["fiber.c"], harness=["fib_new.c"], entry="h_fiber_new", mode="plain", defines=["-DFIB_MAXLEN=8"], replace_calls=NEWSTUBS, functions=["cfun_fiber_new"],
  checks=CHK, unwind=10, unwinding_assertions=True,
  assumes=["janet_fiber returns a NEW fiber with the default mask (fiber_reset, unit fib.new.reset); janet_getfunction/janet_getbytes/janet_gettable return their argument's payload; janet_table returns a fresh table"],
  mutants=[
    {"name": "t-includes-user5", "file": "fiber.c", "find": "                            JANET_FIBER_MASK_USER4;\n                        break;\n                    case 'd':", "replace": "                            JANET_FIBER_MASK_USER4 | JANET_FIBER_MASK_USER5;\n                        break;\n                    case 'd':", "expect": "exactly those named"},
    {"name": "w-is-user8", "file": "fiber.c", "find": "                    case 'w':\n                        fiber->flags |= JANET_FIBER_MASK_USER9;", "replace": "                    case 'w':\n                        fiber->flags |= JANET_FIBER_MASK_USER8;", "expect": "exactly those named"},
    {"name": "digit-off-by-one", "file": "fiber.c", "find": "JANET_FIBER_MASK_USERN(view.bytes[i] - '0');", "replace": "JANET_FIBER_MASK_USERN(view.bytes[i] - '1');", "expect": "exactly those named|overflow|shift"},
    {"name": "default-mask-kept", "file": "fiber.c", "find": "        fiber->flags = JANET_FIBER_RESUME_NO_USEVAL | JANET_FIBER_RESUME_NO_SKIP;\n", "replace": "        fiber->flags |= JANET_FIBER_RESUME_NO_USEVAL | JANET_FIBER_RESUME_NO_SKIP;\n", "expect": "exactly those named"},
    {"name": "p-shares-env", "file": "fiber.c", "find": "                        fiber->env = janet_table(0);\n                        fiber->env->proto = janet_vm.fiber->env;", "replace": "                        fiber->env = janet_vm.fiber->env;", "expect": ":p gives a fresh table"},
  ])
U(id="fib.new.reset", **{"class": "full-domain"},
  clause="fiber_reset: every fiber starts in status NEW with the default mask :y, no child, no environment, empty stack",
  src=["fiber.c"], harness=["fib_new.c"], entry="h_fiber_reset", mode="plain", replace_calls=NEWSTUBS, functions=["fiber_reset"], checks=CHK, unwind=7,
  mutants=[
    {"name": "status-not-new", "file": "fiber.c", "find": "    janet_fiber_set_status(fiber, JANET_STATUS_NEW);\n}", "replace": "}", "expect": "status NEW"},
    {"name": "child-not-cleared", "file": "fiber.c", "find": "    fiber->child = NULL;\n    fiber->flags = JANET_FIBER_MASK_YIELD", "replace": "    fiber->flags = JANET_FIBER_MASK_YIELD", "expect": "no child"},
  ])

FRAMEREPL = ["janet_fiber_setcapacity/fib_setcapacity_c", "janet_tuple_n/fib_tuple_n_c", "make_struct_n/fib_make_struct_n_c"]
NIL = "0xFFF8800000000001ul"
U(id="fib.funcframe", **{"class": "proved"}, tier="thorough", timeout=900,
  clause="janet_fiber_funcframe: an arity mismatch is refused and changes nothing (fields and every stack slot); on success the new frame is linked to the old one and "
         "every new slot in [old stacktop, new stacktop) is nil (ghost index; the variadic slot holds the rest tuple), any slot count up to 2^24, no int32 overflow below 2^30 stack slots",
  src=["fiber.c"], link=["wrap.c"], link_keep={"wrap.c": ["janet_nanbox_from_bits"]}, harness=["fib_frame.c"], entry="h_funcframe",
  mode="dfcc", enforce=["janet_fiber_funcframe/fib_funcframe_c"], replace=FRAMEREPL, checks=CHK, cbmc=CADICAL, object_bits=8,
  loops={"janet_fiber_funcframe": [{"loop_id": "0",
     "invariants": "i >= oldtop && (i <= nextstacktop || oldtop > nextstacktop) && oldtop == fiber->stacktop && nextstacktop <= fiber->capacity && ((g_idx >= oldtop && g_idx < i) ==> fiber->data[g_idx].u64 == " + NIL + ")",
     "assigns": "i, __CPROVER_object_whole(fiber->data)", "decreases": "nextstacktop - i",
     "symbol_map": "i,janet_fiber_funcframe::1::i;oldtop,janet_fiber_funcframe::1::oldtop;nextstacktop,janet_fiber_funcframe::1::nextstacktop;fiber,janet_fiber_funcframe::fiber"}]},
  loop_counts={"janet_fiber_funcframe": 1},
  assumes=["janet_fiber_setcapacity (realloc) is replaced by a contract: capacity == n and a stack object of n slots; old contents not modelled",
           "janet_tuple_n / make_struct_n only read their argument range (asserted) and have no side effect on the fiber",
           "stack below 2^30 - 2^24 slots (8 GiB): beyond it `2 * nextstacktop` leaves int32 (needs more memory than a fiber can get before 'out of memory')"],
  mutants=[
    {"name": "nil-fill-starts-late", "file": "fiber.c", "find": "    for (i = fiber->stacktop; i < nextstacktop; ++i) {", "replace": "    for (i = fiber->stacktop + 1; i < nextstacktop; ++i) {", "expect": "postcondition|loop_invariant"},
    {"name": "arity-check-after-grow", "file": "fiber.c", "find": "    if (next_arity > func->def->max_arity) return 1;\n\n    if (fiber->capacity < nextstacktop) {\n        janet_fiber_setcapacity(fiber, 2 * nextstacktop);\n#ifdef JANET_DEBUG\n    } else {\n        janet_fiber_refresh_memory(fiber);\n#endif\n    }\n\n    /* Nil unset stack", "replace": "    if (fiber->capacity < nextstacktop) {\n        janet_fiber_setcapacity(fiber, 2 * nextstacktop);\n    }\n    if (next_arity > func->def->max_arity) return 1;\n\n    /* Nil unset stack", "expect": "postcondition"},
    {"name": "max-arity-unchecked", "file": "fiber.c", "find": "    if (next_arity > func->def->max_arity) return 1;\n\n    if (fiber->capacity < nextstacktop) {\n        janet_fiber_setcapacity(fiber, 2 * nextstacktop);\n#ifdef JANET_DEBUG\n    } else {\n        janet_fiber_refresh_memory(fiber);\n#endif\n    }\n\n    /* Nil unset stack", "replace": "    if (fiber->capacity < nextstacktop) {\n        janet_fiber_setcapacity(fiber, 2 * nextstacktop);\n    }\n\n    /* Nil unset stack", "expect": "postcondition"},
    {"name": "prevframe-lost", "file": "fiber.c", "find": "    newframe->prevframe = oldframe;\n    newframe->pc = func->def->bytecode;", "replace": "    newframe->prevframe = nextframe;\n    newframe->pc = func->def->bytecode;", "expect": "postcondition"},
    {"name": "capacity-check-off", "file": "fiber.c", "find": "    if (fiber->capacity < nextstacktop) {\n        janet_fiber_setcapacity(fiber, 2 * nextstacktop);\n#ifdef JANET_DEBUG\n    } else {\n        janet_fiber_refresh_memory(fiber);\n#endif\n    }\n\n    /* Nil unset stack", "replace": "    if (fiber->capacity < nextstacktop - 1) {\n        janet_fiber_setcapacity(fiber, 2 * nextstacktop);\n    }\n\n    /* Nil unset stack", "expect": "pointer_dereference|loop_invariant|postcondition|assigns"},
  ])

TAILSTUBS = ["janet_fiber_setcapacity:fib_realloc_stub", "janet_tuple_n:fib_tuple_n_stub", "make_struct_n:fib_struct_n_stub", "janet_env_detach:fib_env_detach_stub", "memmove:fib_memmove_stub"]
TAILCHK = ["bounds-check", "pointer-check", "signed-overflow-check"]
TAILCLAUSE = ("janet_fiber_funcframe_tail: arity mismatch refused and nothing changes; on success fiber->frame is kept, argument k arrives unchanged in parameter slot k, "
              "missing parameters and all other new frame slots are nil, header names the callee and keeps the caller link; no access outside the live stack block")
GEOMS = [(4, 8, 8), (4, 8, 9), (4, 8, 10), (4, 9, 9), (4, 9, 10), (4, 10, 10), (5, 9, 9), (5, 9, 10), (5, 10, 10), (6, 10, 10)]
TAILMUT = [
    {"name": "nil-fill-starts-late", "file": "fiber.c", "find": "    for (i = fiber->frame + stacksize; i < nextframetop; ++i)", "replace": "    for (i = fiber->frame + stacksize + 1; i < nextframetop; ++i)", "expect": "nil"},
    {"name": "args-not-moved", "file": "fiber.c", "find": "    if (stacksize) memmove(stack, args, stacksize * sizeof(Janet));", "replace": "    if (stacksize > 1) memmove(stack, args, stacksize * sizeof(Janet));", "expect": "arrives unchanged"},
    {"name": "missing-optionals-not-nil", "file": "fiber.c", "find": "            if (tuplehead >= fiber->capacity) janet_fiber_setcapacity(fiber, 2 * (tuplehead + 1));\n            for (i = fiber->stacktop; i < tuplehead; ++i) fiber->data[i] = janet_wrap_nil();\n", "replace": "            if (tuplehead >= fiber->capacity) janet_fiber_setcapacity(fiber, 2 * (tuplehead + 1));\n", "expect": "nil"},
]
for (gf, gs, gt) in GEOMS:
    quick = (gf, gs, gt) in ((4, 8, 8), (4, 8, 9), (4, 9, 9))     # 4_9_9 is the smallest geometry that takes the second reallocation
    U(id="fib.funcframe_tail.g%d_%d_%d" % (gf, gs, gt), props=["C05", "C02", "C10", "C01"], **{"class": "bounded"}, tier="quick" if quick else "thorough", mem_gb=6,
      bound="stack block of at most 10 slots with the current frame at %d and the arguments at %d..%d (one unit per stack geometry; all 10 geometries that fit 10 slots are generated), callee slot count at most 5; loops unwound with unwinding assertions; realloc modelled faithfully (old block freed)" % (gf, gs, gt),
      clause=TAILCLAUSE + " - including calls that regrow the stack for the rest slot", src=["fiber.c"], link=["wrap.c"], link_keep={"wrap.c": ["janet_nanbox_from_bits"]}, harness=["fib_frame_tail.c"], entry="h_funcframe_tail_b", mode="plain",
      defines=["-DFIB_CAP=10", "-DFIB_FRAME=%d" % gf, "-DFIB_SS=%d" % gs, "-DFIB_TOP=%d" % gt],
      replace_calls=TAILSTUBS, functions=["janet_fiber_funcframe_tail"], checks=TAILCHK, unwind=12, unwinding_assertions=True, timeout=900, cbmc=CADICAL, object_bits=8,
      assumes=["janet_fiber_setcapacity behaves as realloc: new block with the old contents, old block freed", "janet_tuple_n / make_struct_n only read their argument range (asserted); janet_env_detach does not write the fiber",
               "memmove moves whole slots through a temporary (stub asserts that source and destination lie in a live block)"],
      mutants=TAILMUT if (gf, gs, gt) == (4, 8, 9) else [TAILMUT[0]])

U(id="fib.first_value", **{"class": "full-domain"},
  clause="the value passed to the first resume of a new fiber arrives unchanged as its first parameter (bit for bit), as the one-element rest tuple when the function has only a rest parameter, "
         "and resuming with nil or a function without parameters leaves slot 0 as created",
  src=["vm.c"], link=["fiber.c", "wrap.c"], link_keep={"fiber.c": ["janet_fiber_status"], "wrap.c": ["janet_wrap_tuple", "janet_wrap_nil"]}, harness=["fib_first_value.c"], entry="h_first_value", mode="plain", nanbox=False,
  replace_calls=["run_vm:fv_run_vm_stub", "_setjmp:fv_setjmp_stub", "janet_fiber_did_resume:fv_did_resume_stub", "janet_tuple_n:fv_tuple_n_stub"],
  functions=["janet_continue_no_check"], checks=CHK, unwind=4, unwinding_assertions=True, timeout=300,
  assumes=["run_vm is replaced by a stub that asserts the interpreter's precondition on parameter slot 0; _setjmp returns 0 (first return)", "arity triple as janet_verify / the compiler guarantee: 0 <= min_arity <= arity <= slotcount"],
  mutants=[
    {"name": "min-arity-decides", "file": "vm.c", "find": "            if (func->def->arity > 0) {\n                stack[0] = in;", "replace": "            if (func->def->min_arity > 0) {\n                stack[0] = in;", "expect": "first parameter|rest tuple"},
    {"name": "value-never-stored", "file": "vm.c", "find": "    if (old_status == JANET_STATUS_NEW && !janet_checktype(in, JANET_NIL)) {", "replace": "    if (old_status == JANET_STATUS_PENDING && !janet_checktype(in, JANET_NIL)) {", "expect": "first parameter"},
  ])

json.dump({"units": units}, open(os.path.join(V, 'units', 'C05.json'), 'w'), indent=1)
print('%d units' % len(units))
