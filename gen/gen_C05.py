#!/usr/bin/env python3
"""generates /verif/units/C05.json (C-level part of C05: fiber status automaton, resume eligibility, frames)"""
import json, os
V = os.path.dirname(os.path.dirname(os.path.abspath(__file__)))
units = []

def U(**k):
    k.setdefault('props', ['C05'])
    k.setdefault('tier', 'quick')
    k.setdefault('timeout', 200)
    units.append(k)

MSG = ["janet_formatc/fib_formatc_c", "janet_cstring/fib_cstring_c"]
CADICAL = ["--sat-solver", "cadical"]   # minisat's preprocessor does not finish on these instances (probed); cadical: < 1 min
CHK = ["bounds-check", "pointer-check", "signed-overflow-check"]

U(id="fib.check_can_resume", **{"class": "full-domain"},
  clause="a finished fiber (dead, error) can never be resumed again: janet_check_can_resume answers ERROR for every status that is not new/suspended, "
         "for root fibers and at the recursion limit, and leaves the fiber untouched (only the status word, only at the recursion limit)",
  src=["vm.c"], link=["fiber.c"], link_keep={"fiber.c": ["janet_fiber_status"]}, harness=["fib_check.c"], entry="h_check_can_resume",
  mode="dfcc", enforce=["janet_check_can_resume/check_can_resume_c"], replace=MSG, checks=CHK,
  assumes=["janet_cstringv / janet_formatc / janet_nanbox_from_cpointer (message construction) return any value and have no side effects"],
  mutants=[
    {"name": "error-status-resumable", "file": "vm.c", "find": "            old_status == JANET_STATUS_ERROR) {", "replace": "            0) {", "expect": "postcondition"},
    {"name": "dead-status-resumable", "file": "vm.c", "find": "            old_status == JANET_STATUS_DEAD ||\n            (old_status >= JANET_STATUS_USER0", "replace": "            (old_status >= JANET_STATUS_USER0", "expect": "postcondition"},
    {"name": "recursion-guard-off-by-one", "file": "vm.c", "find": "    if (janet_vm.stackn >= JANET_RECURSION_GUARD) {\n        janet_fiber_set_status(fiber, JANET_STATUS_ERROR);", "replace": "    if (janet_vm.stackn > JANET_RECURSION_GUARD) {\n        janet_fiber_set_status(fiber, JANET_STATUS_ERROR);", "expect": "postcondition"},
    {"name": "refusal-kills-fiber", "file": "vm.c", "find": "        *out = janet_wrap_string(str);\n        return JANET_SIGNAL_ERROR;", "replace": "        *out = janet_wrap_string(str); fiber->frame = 0;\n        return JANET_SIGNAL_ERROR;", "expect": "assigns"},
  ])

KEEP = {"fiber.c": ["janet_fiber_status"]}
RUNVM = ["run_vm/fib_run_vm_c", "_setjmp/fib_setjmp_c", "janet_fiber_did_resume/fib_did_resume_c", "janet_tuple_n/fib_tuple_n_c"] + MSG
U(id="fib.continue_no_check", **{"class": "full-domain"},
  clause="a resumed fiber moves new/suspended -> alive (the VM is entered only on an ALIVE current fiber without pending child) -> the returned signal: "
         "status on return equals the returned signal; janet_vm.fiber/stackn/return_reg/signal_buf/coerce_error/gc_suspend restored on every path incl. longjmp; "
         "a child signal the child's mask does not accept is re-raised unchanged and not delivered to this fiber; *out == last_value == return register",
  src=["vm.c"], link=["fiber.c"], link_keep=KEEP, harness=["fib_continue.c"], entry="h_no_check",
  mode="dfcc", enforce=["janet_continue_no_check/fib_no_check_c"], replace=RUNVM + ["janet_continue/fib_continue_child_c"], checks=CHK, cbmc=CADICAL, object_bits=8,
  functions=["janet_continue_no_check", "janet_try_init", "janet_restore"],
  assumes=["run_vm (interpreter loop) is replaced by the contract fib_run_vm_c: writes *fiber, janet_vm, *janet_vm.return_reg; returns a signal 0..13",
           "second return of setjmp = contract fib_setjmp_c: havocs what run_vm havocs, returns 1..13 (janet_signalv only longjmps with a JanetSignal; value 0 is mapped to 1 by longjmp)",
           "janet_continue on the pending child is replaced by fib_continue_child_c (postconditions of the proved fib_continue_c; the child's representation invariant is assumed)",
           "janet_fiber_did_resume writes only the fiber's ev_callback/ev_state fields; janet_tuple_n / message builders have no effect on fiber or VM registers"],
  mutants=[
    {"name": "status-not-set-on-return", "file": "vm.c", "find": "    janet_fiber_set_status(fiber, sig);\n    janet_restore(&tstate);", "replace": "    janet_restore(&tstate);", "expect": "postcondition"},
    {"name": "restore-dropped", "file": "vm.c", "find": "    janet_fiber_set_status(fiber, sig);\n    janet_restore(&tstate);", "replace": "    janet_fiber_set_status(fiber, sig);", "expect": "postcondition"},
    {"name": "alive-not-set", "file": "vm.c", "find": "        janet_fiber_set_status(fiber, JANET_STATUS_ALIVE);\n", "replace": "", "expect": "precondition"},
    {"name": "child-mask-ignored", "file": "vm.c", "find": "        if (sig != JANET_SIGNAL_OK && !(child->flags & (1 << sig))) {\n            *out = in;", "replace": "        if (sig != JANET_SIGNAL_OK && !(fiber->flags & (1 << sig))) {\n            *out = in;", "expect": "postcondition|precondition"},
    {"name": "child-link-kept", "file": "vm.c", "find": "        fiber->child = NULL;\n    }\n\n    /* Handle new fibers", "replace": "    }\n\n    /* Handle new fibers", "expect": "precondition"},
    {"name": "stackn-unbalanced", "file": "vm.c", "find": "        janet_vm.stackn--;\n        if (janet_vm.root_fiber == fiber)", "replace": "        if (janet_vm.root_fiber == fiber)", "expect": "postcondition"},
  ])

CHKC = ["janet_check_can_resume/check_can_resume_c", "janet_continue_no_check/fib_no_check_c"]
U(id="fib.continue", **{"class": "full-domain"},
  clause="janet_continue: a finished fiber can never be resumed again (error signal, the VM is never entered, it stays finished); every refused resume leaves "
         "frames/stack/child/env/last value untouched; an accepted resume returns with status == returned signal; VM registers restored",
  src=["vm.c"], link=["fiber.c"], link_keep=KEEP, harness=["fib_check.c", "fib_continue.c"], entry="h_continue", defines=["-DFIB_NO_MSG"],
  mode="dfcc", enforce=["janet_continue/fib_continue_c"], replace=CHKC + MSG, checks=CHK, cbmc=CADICAL, object_bits=8,
  assumes=["janet_check_can_resume and janet_continue_no_check are replaced by their contracts (proved in fib.check_can_resume, fib.continue_no_check)"],
  mutants=[
    {"name": "check-result-ignored", "file": "vm.c", "find": "    JanetSignal tmp_signal = janet_check_can_resume(fiber, out, 0);\n    if (tmp_signal) return tmp_signal;", "replace": "    JanetSignal tmp_signal = janet_check_can_resume(fiber, out, 0);", "expect": "precondition|postcondition"},
    {"name": "refusal-returns-ok", "file": "vm.c", "find": "    JanetSignal tmp_signal = janet_check_can_resume(fiber, out, 0);\n    if (tmp_signal) return tmp_signal;", "replace": "    JanetSignal tmp_signal = janet_check_can_resume(fiber, out, 0);\n    if (tmp_signal) return JANET_SIGNAL_OK;", "expect": "postcondition"},
  ])
U(id="fib.continue_signal", **{"class": "bounded"}, bound="chain of pending children below the fiber: at most 2 links (loop unwound 3x with unwinding assertion)",
  clause="janet_continue_signal (cancel / resume with a signal): same protocol as janet_continue - a finished fiber cannot be cancelled or resumed, refusal leaves the fiber "
         "untouched and never enters the VM, accepted => status == returned signal, VM registers restored",
  src=["vm.c"], link=["fiber.c"], link_keep=KEEP, harness=["fib_check.c", "fib_continue.c"], entry="h_continue_signal", defines=["-DFIB_NO_MSG"],
  mode="dfcc", enforce=["janet_continue_signal/fib_continue_signal_c"], replace=CHKC + MSG, checks=CHK, cbmc=CADICAL, object_bits=8,
  unwindset={"janet_continue_signal.0": 4},
  assumes=["janet_check_can_resume and janet_continue_no_check are replaced by their contracts (proved in fib.check_can_resume, fib.continue_no_check)"],
  mutants=[
    {"name": "check-result-ignored", "file": "vm.c", "find": "sig != JANET_SIGNAL_OK);\n    if (tmp_signal) return tmp_signal;", "replace": "sig != JANET_SIGNAL_OK);", "expect": "precondition|postcondition"},
    {"name": "signal-flag-on-root-of-chain", "file": "vm.c", "find": "        while (child->child) child = child->child;\n", "replace": "", "expect": "."},
  ])

json.dump({"units": units}, open(os.path.join(V, 'units', 'C05.json'), 'w'), indent=1)
print('%d units' % len(units))
