#!/usr/bin/env python3
"""C10/C09: the remaining arms of unmarshal_one and its helpers (marsh.c): scalars and references, byte sequences, containers,
unmarshal_one_env, the top level janet_unmarshal and the abstract-type API (janet_unmarshal_*).
One unit per arm / helper; harness/marsh_arms*.c; writes units/C10_arms.json."""
import json, os, re, sys
V = os.path.dirname(os.path.dirname(os.path.abspath(__file__)))
SRC = open('/repo/src/core/marsh.c').read()

def need(text):
    """every mutant / contract refers to source text that must still exist"""
    if text not in SRC:
        sys.exit('contract out of date: marsh.c no longer contains %r' % text[:70])
    return text

units = []
INPUT = ("the input is a heap block of exactly n bytes (n symbolic, n <= %d), the cursor is at a symbolic offset <= n; "
         "the lookup vector is absent, has room, or is full (3 of 4)")
INPUT_FIXED = ("the input has n bytes (n symbolic, n <= %d) of which the arm itself reads only the lead byte: the input object is that one byte (any other direct read fails the pointer checks), "
               "all further bytes are consumed by reader stubs that account for the cursor as an offset into the n bytes; the lookup vector is absent, has room, or is full (3 of 4)")
A_VGROW = "janet_v_grow (vector.c) is an allocation contract: returns a vector with room for one more element that keeps count and elements"
A_PANIC = "janet_panic* do not return (prelude.h)"
A_NOREC = "the recursive unmarshal_one is replaced by a stub that fails the proof if it is called (scalar arms read no nested value)"
OTHER = "unmarshal_one_fiber|unmarshal_one_def|unmarshal_one_env|unmarshal_one_abstract"
RM = "marshal_one.*|janet_marshal.*|janet_unmarshal.*|janet_env_lookup.*|entry_getval|cfun_.*|janet_lib_marsh"

NOTARM = ["unmarshal_one_fiber:ma_not_fiber_stub", "unmarshal_one_def:ma_not_def_stub", "unmarshal_one_env:ma_not_env_stub", "unmarshal_one_abstract:ma_not_abstract_stub", "safe_memcpy:ma_not_memcpy_stub"]

def unit(id, entry, clause, mutants, harness, props=("C10",), cls="full-domain", bound=None, defines=(), stubs=(), entry_fn="unmarshal_one",
         functions=None, assumes=(), nanbox=None, rm_extra=OTHER, tier="quick", unwind=2, uassert=False, maxn=12, **kw):
    u = {"id": id, "props": list(props), "tier": tier, "class": cls, "clause": clause, "src": ["marsh.c"], "link": ["wrap.c"],
         "harness": [harness], "entry": entry, "mode": "plain", "defines": ["-DMA_MAXN=%d" % maxn] + list(defines),
         "functions": functions or [entry_fn],
         "replace_calls": list(stubs) + [x for x in NOTARM if x.split(':')[0] not in [y.split(':')[0] for y in stubs] and x.split(':')[0] != entry_fn], "remove_bodies": RM + ("|" + rm_extra if rm_extra else ""),
         "checks": ["bounds-check", "pointer-check", "signed-overflow-check"],
         "unwind": unwind, "unwinding_assertions": uassert, "timeout": 600,
         "assumes": [(INPUT_FIXED if "-DMA_FIXED" in defines else INPUT) % maxn] + list(assumes) + [A_PANIC], "mutants": mutants}
    if entry_fn:
        u["replace_calls2"] = ["%s__entry:%s" % (entry_fn, entry_fn)]
    if bound:
        u["bound"] = bound
    if nanbox is False:
        u["nanbox"] = False
        u["assumes"].append("compiled with -DJANET_NO_NANBOX (the documented tagged-struct configuration of the same sources): CBMC cannot recover object identity from pointers packed into NaN payloads by integer masks")
    u.update(kw)
    units.append(u)
    return u

def mut(name, find, replace, expect, **kw):
    return dict(name=name, file="marsh.c", find=need(find), replace=replace, expect=expect, **kw)

# ------------------------------------------------------------------ 1. scalars
SC = "marsh_arms_scalar.c"
NOREC = ["unmarshal_one:ma_norec_stub", "janet_v_grow:ma_vgrow_stub"]
BOUND_IN = "inputs of at most %d bytes (every length and every content); the other arms of the same switch are explored with loops unwound %dx"
unit("marsh.arm.smallint", "h_arm_smallint",
     "a lead byte below 200 is read by readint: one byte b < 128 gives b, two bytes give the sign-extended 14-bit value, 192..199 are refused; exactly the encoding is consumed, "
     "no byte outside the input is read, nothing is numbered (round trip of marshal's pushint for small integers)",
     [mut("second-byte-unchecked", "        MARSH_EOS(st, data + 1);\n        uint32_t uret", "        uint32_t uret", "pointer_dereference|second byte"),
      mut("lead-range-widened", "    if (lead < LB_REAL) {", "    if (lead <= LB_REAL) {", "REACH|result is a number|real")],
     SC, props=("C10", "C09"), stubs=NOREC, functions=["unmarshal_one", "readint"], assumes=[A_VGROW, A_NOREC], cls="bounded", bound=BOUND_IN % (12, 2))
units[-1]["mutants"].pop()   # (the widened range is observable only in the LB_REAL unit)
unit("marsh.arm.integer", "h_arm_integer",
     "LB_INTEGER: the four value bytes are checked against the end of the input before they are read, the result is the big-endian 32-bit value as a number, exactly five bytes are consumed, nothing is numbered",
     [mut("eos-off-by-one", "            MARSH_EOS(st, data + 4);\n            uint32_t ui", "            MARSH_EOS(st, data + 3);\n            uint32_t ui", "pointer_dereference|four value bytes"),
      mut("byte-order-swapped", "            uint32_t ui = ((uint32_t)(data[4])) |\n                          ((uint32_t)(data[3]) << 8) |", "            uint32_t ui = ((uint32_t)(data[3])) |\n                          ((uint32_t)(data[4]) << 8) |", "big-endian")],
     SC, props=("C10", "C09"), stubs=NOREC, assumes=[A_VGROW, A_NOREC], cls="bounded", bound=BOUND_IN % (12, 2))
unit("marsh.arm.real", "h_arm_real",
     "LB_REAL: the eight value bytes are checked against the end of the input before they are read; for EVERY 8-byte pattern the result is of type number (no nan-boxed pointer can be forged), "
     "non-NaN patterns read back bit for bit; exactly nine bytes are consumed; the value gets the next reference number exactly once (marshal numbers reals too)",
     [mut("eos-off-by-one", "            MARSH_EOS(st, data + 8);", "            MARSH_EOS(st, data + 7);", "pointer_dereference|eight value bytes"),
      mut("nan-payload-not-canonicalised", "            *out = janet_wrap_number_safe(u.d);", "            *out = janet_wrap_number(u.d);", "type number"),
      mut("real-not-numbered", "            *out = janet_wrap_number_safe(u.d);\n            janet_v_push(st->lookup, *out);", "            *out = janet_wrap_number_safe(u.d);", "next reference number")],
     SC, props=("C10", "C09"), stubs=NOREC, assumes=[A_VGROW, A_NOREC, "shipped nan-boxed value representation"], cls="bounded", bound=BOUND_IN % (12, 2))
for lead, want, nm in (("LB_NIL", "janet_wrap_nil", "nil"), ("LB_FALSE", "janet_wrap_false", "false"), ("LB_TRUE", "janet_wrap_true", "true")):
    unit("marsh.arm." + nm, "h_arm_const",
         "%s reads back as %s, consumes exactly one byte, is refused on an exhausted input, and is not numbered" % (lead, nm),
         [mut("wrong-constant", "        case %s:\n            *out = %s();" % (lead, want), "        case %s:\n            *out = %s();" % (lead, "janet_wrap_true" if nm != "true" else "janet_wrap_false"), "read back as themselves"),
          mut("eos-check-dropped", "    MARSH_STACKCHECK;\n    MARSH_EOS(st, data);\n    lead = data[0];", "    MARSH_STACKCHECK;\n    lead = data[0];", "pointer_dereference|exhausted")],
         SC, props=("C10", "C09"), defines=["-DMA_LEAD=" + lead, "-DMA_WANT=" + want], stubs=NOREC, assumes=[A_VGROW, A_NOREC], cls="bounded", bound=BOUND_IN % (12, 2))
for lead, size in (("LB_UNSAFE_CFUNCTION", "JanetCFunction"), ("LB_UNSAFE_POINTER", "void *"), ("LB_THREADED_ABSTRACT", "void *")):
    nm = lead[3:].lower()
    guard = {"LB_UNSAFE_CFUNCTION": '                janet_panicf("unsafe flag not given, "\n                             "will not unmarshal function pointer at index %d",',
             "LB_UNSAFE_POINTER": '            data++;\n            if (!(flags & JANET_MARSHAL_UNSAFE)) {\n                janet_panicf("unsafe flag not given, "\n                             "will not unmarshal raw pointer at index %d",',
             "LB_THREADED_ABSTRACT": '                janet_panicf("unsafe flag not given, "\n                             "will not unmarshal threaded abstract pointer at index %d",'}[lead]
    unit("marsh.arm." + nm, "h_arm_unsafe",
         "%s (a raw pointer taken from the image) is refused unless flags contain JANET_MARSHAL_UNSAFE; with the flag, all pointer bytes are checked against the end of the input before they are read" % lead,
         [mut("refusal-does-not-raise", guard, guard.replace("janet_panicf(", "janet_eprintf("), "refused unless"),
          mut("eos-off-by-one", "        case %s: {\n            MARSH_EOS(st, data + sizeof(%s));" % (lead, size), "        case %s: {\n            MARSH_EOS(st, data + sizeof(%s) - 1);" % (lead, size), "pointer_dereference|inside the input")],
         SC, defines=["-DMA_LEAD=" + lead, "-DMA_UNSAFE_ARM"], stubs=NOREC,
         assumes=[A_VGROW, A_NOREC, "janet_table_get / janet_table_put / janet_abstract_decref on the table of shared abstracts are result-only bodies (any result)"], cls="bounded", bound=BOUND_IN % (12, 2))
unit("marsh.arm.pointer_buffer", "h_arm_unsafe",
     "LB_POINTER_BUFFER (a buffer over a raw pointer taken from the image) is refused unless flags contain JANET_MARSHAL_UNSAFE; with the flag, all pointer bytes are checked against the end of the input before they are read",
     [mut("refusal-does-not-raise", '            if (!(flags & JANET_MARSHAL_UNSAFE)) {\n                janet_panicf("unsafe flag not given, "\n                             "will not unmarshal raw pointer at index %d",\n                             (int)(data - st->start));\n            }\n            memcpy(u.bytes, data, sizeof(void *));\n            data += sizeof(void *);\n            JanetBuffer',
          '            if (!(flags & JANET_MARSHAL_UNSAFE)) {\n                janet_eprintf("unsafe flag not given, "\n                             "will not unmarshal raw pointer at index %d",\n                             (int)(data - st->start));\n            }\n            memcpy(u.bytes, data, sizeof(void *));\n            data += sizeof(void *);\n            JanetBuffer', "refused unless")],
     SC, defines=["-DMA_LEAD=LB_POINTER_BUFFER", "-DMA_UNSAFE_ARM"], stubs=NOREC,
     assumes=[A_VGROW, A_NOREC, "janet_pointer_buffer_unsafe is a result-only body"], cls="bounded", bound=BOUND_IN % (12, 2))
unit("marsh.arm.unassigned", "h_arm_unknown",
     "a lead byte above the last assigned one (233..255) is never accepted: of {LB_TRUE, 233..255} only LB_TRUE returns",
     [mut("default-arm-returns", '            janet_panicf("unknown byte %x at index %d",', '            janet_eprintf("unknown byte %x at index %d",', "never accepted|pointer")],
     SC, stubs=NOREC, assumes=[A_VGROW, A_NOREC], cls="bounded", bound=BOUND_IN % (12, 2))

# ------------------------------------------------------------------ 2. byte sequences
BY = "marsh_arms_bytes.c"
A_READNAT = "readnat returns any int32 >= 0 and leaves the cursor inside the input, 1..5 bytes further (proved: units marsh.readnat / marsh.readint, C09.json)"
A_READINT = "readint returns any int32 and leaves the cursor inside the input (proved: unit marsh.readint, C09.json)"
A_64 = "pointers are 64 bits wide: `data - 1 + len` with a 31-bit len cannot wrap around (on a 32-bit target this is an additional obligation that is NOT discharged here)"
BSTUBS = ["unmarshal_one:ma_norec_stub", "janet_v_grow:ma_vgrow_stub", "readnat:mb_readnat_stub", "janet_string:mb_string_stub", "janet_symbol:mb_symbol_stub",
          "janet_keyword:mb_keyword_stub", "janet_buffer:mb_buffer_stub", "safe_memcpy:mb_memcpy_stub", "janet_table_get:mb_tget_stub"]
LENCHK = "            int32_t len = readnat(st, &data);\n            MARSH_EOS(st, data - 1 + len);\n            if (lead == LB_STRING) {"
M_BYTES = [mut("length-check-dropped", LENCHK, LENCHK.replace("            MARSH_EOS(st, data - 1 + len);\n", ""), "BEFORE|remaining input|copy reads|larger than the input"),
           mut("length-check-off-by-one", LENCHK, LENCHK.replace("data - 1 + len", "data - 2 + len"), "BEFORE|remaining input|copy reads|larger than the input"),
           mut("not-numbered", "            janet_v_push(st->lookup, *out);\n            return data + len;", "            return data + len;", "next reference number")]
for kind, (lead, nm, what) in enumerate((("LB_STRING", "string", "a string"), ("LB_SYMBOL", "symbol", "a symbol"), ("LB_KEYWORD", "keyword", "a keyword"),
                                         ("LB_BUFFER", "buffer", "a buffer"), ("LB_REGISTRY", "registry", "a registry reference"))):
    extra = []
    if nm == "buffer":
        clause = ("LB_BUFFER: the untrusted length is checked against the rest of the input BEFORE the buffer is allocated and the bytes are copied (nothing larger than the input is allocated); "
                  "the buffer has count == length <= capacity and holds exactly the input bytes; the cursor advances by exactly the length; the buffer gets the next reference number exactly once")
        extra = [mut("count-not-set", "                buffer->count = len;", "                buffer->count = 0;", "count == length")]
    elif nm == "registry":
        clause = ("LB_REGISTRY: the untrusted length is checked against the rest of the input BEFORE the name is interned; with a lookup table the result is what the table holds under that symbol "
                  "(nil for an unknown name), without one it is nil; the cursor advances by exactly the length; the result gets the next reference number exactly once")
        extra = [mut("lookup-without-table", "                if (st->reg) {\n                    Janet regkey", "                if (1) {\n                    Janet regkey", "without a lookup table|caller's table")]
    else:
        clause = ("%s: the untrusted length is checked against the rest of the input BEFORE the bytes are handed to the constructor; the value is built by janet_%s from exactly the `length` bytes "
                  "that follow the length; the cursor advances by exactly the length; the value gets the next reference number exactly once" % (lead, nm))
        extra = [mut("wrong-constructor", "                const uint8_t *str = janet_%s(data, len);" % nm, "                const uint8_t *str = janet_%s(data, len);" % ("string" if nm != "string" else "symbol"), "constructor of its own type"),
                 mut("wrong-tag", "                *out = janet_wrap_%s(str);" % nm, "                *out = janet_wrap_%s(str);" % ("string" if nm != "string" else "symbol"), "tagged with its own type")]
    unit("marsh.arm." + nm, "h_arm_bytes", clause, M_BYTES + extra, BY, props=("C10", "C09"), defines=["-DMA_LEAD=" + lead, "-DMA_KIND=%d" % kind], stubs=BSTUBS, nanbox=False,
         assumes=[A_READNAT, A_VGROW, A_64,
                  "janet_string / janet_symbol / janet_keyword(buf, len): precondition len >= 0 and buf[0..len) readable (asserted at the call); janet_buffer(cap): precondition cap >= 0, "
                  "returns an empty buffer with cap bytes; safe_memcpy: precondition source readable / destination writable for len bytes (asserted), copies; janet_table_get returns any value"],
         cls="bounded", bound=BOUND_IN % (12, 2))

# ------------------------------------------------------------------ 3. containers
CO = "marsh_arms_cont.c"
CSTUBS = ["unmarshal_one:mc_rec_stub", "janet_v_grow:ma_vgrow_stub", "readnat:mc_readnat_stub", "readint:mc_readint_stub", "janet_array:mc_array_stub", "janet_array_weak:mc_array_weak_stub",
          "janet_tuple_begin:mc_tuple_begin_stub", "janet_tuple_end:mc_tuple_end_stub", "janet_struct_begin:mc_struct_begin_stub", "janet_struct_put:mc_struct_put_stub", "janet_struct_end:mc_struct_end_stub",
          "janet_table:mc_table_stub", "janet_table_weakk:mc_table_weakk_stub", "janet_table_weakv:mc_table_weakv_stub", "janet_table_weakkv:mc_table_weakkv_stub", "janet_table_put:mc_table_put_stub"]
A_REC = ("the nested unmarshal_one is a recording stub with the contract: raises on an exhausted input, otherwise consumes at least one byte and stays inside the input, stores a value of any type "
         "(a value tagged table / struct points to a valid object of that type); the numbering the nested value does for itself is not modelled (the stub numbers nothing)")
A_CTOR = ("janet_array / janet_array_weak / janet_tuple_begin / janet_struct_begin / janet_table* are allocation contracts (precondition count >= 0, asserted together with the DOS bound count <= input size; "
          "fresh object for `count` elements); janet_tuple_end / janet_struct_end return their argument; janet_struct_put / janet_table_put record their arguments (units of C03/C04 prove them)")
CMAXN = 8
CUNW = 8
BOUND_C = "inputs of at most %d bytes (every length and every content), hence at most %d children; all loops unwound %dx WITH unwinding assertions (the DOS check plus the one-byte-per-child contract bound every loop by the input size)" % (CMAXN, CMAXN - 2, CUNW)
DOS = "            if (lead != LB_REFERENCE) {\n                MARSH_EOS(st, data - 1 + len);\n            }"
M_DOS = mut("dos-check-dropped", DOS, DOS.replace("if (lead != LB_REFERENCE)", "if (0)"), "DOS")
def cont(nm, lead, kind, ctor, proto, clause, mutants, props=("C10", "C09"), defines=(), dos=True, **kw):
    unit("marsh.arm." + nm, "h_arm_container", clause, ([M_DOS] if dos else []) + mutants, CO, props=props,
         defines=["-DMA_LEAD=" + lead, "-DMA_KIND=%d" % kind, "-DMA_CTOR=%d" % ctor, "-DMA_PROTO=%d" % proto, "-DMA_FIXED"] + list(defines), stubs=CSTUBS, nanbox=False,
         assumes=[A_READNAT, A_READINT, A_REC, A_CTOR, A_VGROW, A_64], cls="bounded", bound=BOUND_C, unwind=CUNW, uassert=True, maxn=CMAXN, **kw)
ARR_CHILD = "                    data = unmarshal_one(st, data, array->data + i, flags + 1);"
for nm, lead, ctor, real in (("array", "LB_ARRAY", 0, "janet_array(len)"), ("array_weak", "LB_ARRAY_WEAK", 1, "janet_array_weak(len)")):
    cont(nm, lead, 0, ctor, 0,
         "%s: the untrusted count is checked against the rest of the input before anything is allocated (DOS check), the array is built by %s, gets the next reference number exactly once BEFORE its first element is read "
         "(cycles), element i is read into slot i by a nested call one level deeper (flags + 1), and on return count == the count in the image <= capacity" % (lead, real.split('(')[0]),
         [mut("count-not-set", "                array->count = len;", "                array->count = 0;", "count == the count"),
          mut("depth-not-advanced", ARR_CHILD, ARR_CHILD.replace("flags + 1", "flags"), "nesting level"),
          mut("slot-off-by-one", ARR_CHILD, ARR_CHILD.replace("array->data + i,", "array->data + i + 1,"), "slot i|pointer_dereference"),
          mut("numbered-after-elements", "                *out = janet_wrap_array(array);\n                janet_v_push(st->lookup, *out);\n", "                *out = janet_wrap_array(array);\n", "numbered BEFORE|exactly once"),
          mut("weakness-swapped", "(lead == LB_ARRAY_WEAK) ? janet_array_weak(len) : janet_array(len)", "(lead != LB_ARRAY_WEAK) ? janet_array_weak(len) : janet_array(len)", "constructor of the kind")])
TUP_CHILD = "                    data = unmarshal_one(st, data, tup + i, flags + 1);"
TUP_SKIP = ["arithmetic overflow on signed shl in flag << \\d+"]
TUP_UNDEC = ["`flag << 16` with an untrusted 32-bit flag word is a signed left shift that overflows for flag >= 0x8000 or flag < 0 (undefined in ISO C; every supported compiler produces the low 16 bits shifted): "
             "the obligation is excluded here and is the only obligation of unit marsh.arm.tuple.flag_shift"]
cont("tuple", "LB_TUPLE", 1, 2, 0,
     "LB_TUPLE: DOS check on the untrusted length; merging the untrusted 32-bit flag word is free of undefined behaviour; built by janet_tuple_begin(length); the flag word of the image reaches only bits 16..31 of the header flags (never the collector's memory-type / reachable / disabled bits) and reads back as marshal wrote it; "
     "element i is read into slot i one level deeper; the tuple is finished by janet_tuple_end after all elements and is numbered only THEN (exactly once): while it is incomplete it has no number, so no back reference to an incomplete tuple can exist",
     [mut("flag-shift-too-short", "                janet_tuple_flag(tup) |= (int32_t)((uint32_t) flag << 16);", "                janet_tuple_flag(tup) |= (int32_t)((uint32_t) flag << 8);", "collector's bits|read back"),
      mut("numbered-while-incomplete", "                Janet *tup = janet_tuple_begin(len);\n", "                Janet *tup = janet_tuple_begin(len);\n                janet_v_push(st->lookup, janet_wrap_tuple(tup));\n", "numbered only when|exactly once"),
      mut("not-finished", "                *out = janet_wrap_tuple(janet_tuple_end(tup));", "                *out = janet_wrap_tuple(tup);", "finished"),
      mut("depth-not-advanced", TUP_CHILD, TUP_CHILD.replace("flags + 1", "flags"), "nesting level"),
      mut("signed-shift-again", "                janet_tuple_flag(tup) |= (int32_t)((uint32_t) flag << 16);", "                janet_tuple_flag(tup) |= flag << 16;", "shl")],
     )
STR_PUT = "                    janet_struct_put(struct_, key, value);"
for nm, lead, proto in (("struct", "LB_STRUCT", 0), ("struct_proto", "LB_STRUCT_PROTO", 1)):
    ms = [mut("value-before-key", STR_PUT, "                    janet_struct_put(struct_, value, key);", "key then value"),
          mut("not-finished", "                *out = janet_wrap_struct(janet_struct_end(struct_));", "                *out = janet_wrap_struct(struct_);", "finished"),
          ]
    if not proto:
        ms.append(mut("proto-read-for-every-struct", "                if (lead == LB_STRUCT_PROTO) {\n                    Janet proto;", "                if (1) {\n                    Janet proto;", "pairs are read|prototype"))
    if proto:
        ms.append(mut("proto-type-unchecked", "                    janet_asserttype(proto, JANET_STRUCT, st);\n", "", "only if it is a struct"))
    cont(nm, lead, 2, 3, proto,
         "%s: DOS check on the untrusted pair count; built by janet_struct_begin(count)%s; `count` pairs are read key then value, one level deeper, and entered with janet_struct_put in that order; the struct is finished by "
         "janet_struct_end after all pairs and numbered only THEN (exactly once): no back reference to an incomplete struct can exist" % (lead, "; the prototype is read first and accepted only if it is a struct" if proto else "; no prototype is read"), ms)
TAB_PUT = "                    janet_table_put(t, key, value);"
TCTOR = {"": ("janet_table", 4, "                    t = janet_table(len);\n                }\n", "                    t = janet_table_weakkv(len);\n                }\n"),
         "weakk": ("janet_table_weakk", 5, "                    t = janet_table_weakk(len);", "                    t = janet_table(len);"),
         "weakv": ("janet_table_weakv", 6, "                    t = janet_table_weakv(len);", "                    t = janet_table(len);"),
         "weakkv": ("janet_table_weakkv", 7, "                    t = janet_table_weakkv(len);", "                    t = janet_table(len);")}
for w in ("", "weakk", "weakv", "weakkv"):
    for proto in (0, 1):
        lead = "LB_TABLE" + ("_" + w.upper() if w else "") + ("_PROTO" if proto else "")
        nm = "table" + ("_" + w if w else "") + ("_proto" if proto else "")
        fn, ctor, find, repl = TCTOR[w]
        ms = [mut("value-before-key", TAB_PUT, "                    janet_table_put(t, value, key);", "key then value"),
              mut("wrong-weakness", find, repl, "constructor of the kind"),
              mut("numbered-after-pairs", "                *out = janet_wrap_table(t);\n                janet_v_push(st->lookup, *out);\n", "                *out = janet_wrap_table(t);\n", "numbered BEFORE|exactly once")]
        if proto:
            ms.append(mut("proto-type-unchecked", "                    janet_asserttype(proto, JANET_TABLE, st);\n", "", "only if it is a table"))
            ms.append(mut("proto-arm-forgotten", "lead == LB_TABLE_PROTO || lead == LB_TABLE_WEAKK_PROTO || lead == LB_TABLE_WEAKV_PROTO || lead == LB_TABLE_WEAKKV_PROTO", "lead == LB_TABLE_PROTO", "only if it is a table|pairs are read") if w else
                      mut("proto-arm-forgotten", "lead == LB_TABLE_PROTO || lead == LB_TABLE_WEAKK_PROTO || lead == LB_TABLE_WEAKV_PROTO || lead == LB_TABLE_WEAKKV_PROTO", "lead == LB_TABLE_WEAKK_PROTO", "only if it is a table|pairs are read"))
        cont(nm, lead, 3, ctor, proto,
             "%s: DOS check on the untrusted pair count; built by %s(count) (the weakness the lead byte names); the table gets the next reference number exactly once BEFORE its %spairs are read (cycles); "
             "%s`count` pairs are read key then value, one level deeper, and entered with janet_table_put in that order" % (lead, fn, "prototype and " if proto else "",
              "the prototype is read first and accepted only if it is a table; " if proto else "no prototype is read; "), ms)

# ------------------------------------------------------------------ 4. unmarshal_one_env (new environment)
EN = "marsh_arms_env.c"
ESTUBS = ["readnat:mv_readnat_stub", "unmarshal_one:mv_rec_stub", "janet_gcalloc:mv_gcalloc_stub", "malloc:mv_malloc_stub", "janet_v_grow:mv_vgrow_stub"]
E_RM = "unmarshal_one_fiber|unmarshal_one_def|unmarshal_one_abstract|unmarshal_one"
A_REC_ENV = ("the nested unmarshal_one is a recording stub with the contract: raises on an exhausted input, otherwise consumes at least one byte and stays inside the input, stores a value of any type "
             "(a value tagged fiber points to a fiber object)")
A_ALLOC = "janet_gcalloc and malloc return a fresh block of the requested size (a failed malloc exits the process: JANET_OUT_OF_MEMORY)"
EMAXN = 8
BOUND_E = "inputs of at most %d bytes (every content), hence at most %d slots reach the end; loops unwound %dx WITH unwinding assertions (the one-byte-per-value contract bounds the slot loop by the input size)" % (EMAXN, EMAXN - 2, EMAXN)
M_ENV = [mut("offset-not-negated", "            env->offset = -offset;", "            env->offset = offset;", "NEGATED"),
         mut("fiber-type-unchecked", "            janet_asserttype(fiberv, JANET_FIBER, st);\n", "", "must be a fiber"),
         mut("numbered-after-contents", "        janet_v_push(st->lookup_envs, env);\n        int32_t offset = readnat(st, &data);", "        int32_t offset = readnat(st, &data);", "numbered BEFORE|exactly once"),
         mut("zero-length-accepted", "            if (length == 0) {\n                janet_panic(\"invalid funcenv length\");", "            if (0) {\n                janet_panic(\"invalid funcenv length\");", "at least one slot"),
         mut("values-block-one-short", "            env->as.values = janet_malloc(sizeof(Janet) * (size_t) length);", "            env->as.values = janet_malloc(sizeof(Janet) * (size_t) (length - 1));", "exactly|pointer_dereference"),
         mut("length-published-early", "        env->length = 0;\n        env->offset = 0;", "        env->length = 1;\n        env->offset = 0;", "well-formed empty")]
unit("marsh.env.new", "h_env_new",
     "unmarshal_one_env, new environment: one collector-owned JanetFuncEnv is allocated and gets the next environment number exactly once BEFORE its contents are read (while they are read it is a well-formed empty "
     "environment: length 0, offset 0); on stack (offset > 0): exactly one value is read, it must be a fiber, the offset is stored NEGATED (untrusted until janet_env_valid has checked it against the fiber), length as read; "
     "off stack: length > 0, a values block of exactly `length` slots (no overflow in the size), slot i read into values[i] at the caller's depth, offset 0",
     M_ENV, EN, props=("C10", "C09"), defines=["-DMA_FIXED", "-DMV_NO_DOS"], stubs=ESTUBS, entry_fn="unmarshal_one_env", rm_extra=E_RM, nanbox=False,
     assumes=[A_READNAT, A_REC_ENV, A_ALLOC, "janet_v_grow (vector.c) is an allocation contract: returns a vector with room for one more element that keeps count and elements"],
     cls="bounded", bound=BOUND_E, unwind=EMAXN, uassert=True, maxn=EMAXN)
ENV_REPRO = ("Reproducer on /repo/_build/janet: (def f (do (var x 1) (fn [] (++ x)))) (def img (marshal f)) (def n (length img)) "
             "# the environment is the last 6 bytes: 00 (off stack) 04 (length) and 4 values; replace the length by CD 7F FF FF FF\n"
             "(def bad (buffer (buffer/slice img 0 (- n 5)) \"\\xCD\\x7F\\xFF\\xFF\\xFF\" (buffer/slice img (- n 4)))) (pp (protect (unmarshal bad))) -- "
             "run under `ulimit -v 8000000` (or on any machine where a 16 GiB allocation fails): prints 'src/core/marsh.c:860 - janet out of memory' and the process exits with status 1; `protect` does not catch it. "
             "Without the limit (62 GiB machine, overcommit) the 16 GiB block is obtained and the call then raises 'unexpected end of source'.")
ENV_FIX = "            if ((int64_t) length > (int64_t)(st->end - data)) {\n                janet_panic(\"unexpected end of source\");"
unit("marsh.env.values_dos", "h_env_new",
     "unmarshal_one_env, off-stack environment: the values block requested on behalf of the untrusted length has at most one slot per byte of input that is left (DOS check, as the container arms have) - "
     "an allocation failure is not a catchable error, it exits the process",
     [mut("dos-check-reverted", ENV_FIX, ENV_FIX.replace("if ((int64_t) length > (int64_t)(st->end - data))", "if (0)"), "DOS"),
      mut("dos-check-off-by-one", ENV_FIX, ENV_FIX.replace("(int64_t) length >", "(int64_t) length - 1 >"), "DOS"),
      mut("values-block-doubled", "            env->as.values = janet_malloc(sizeof(Janet) * (size_t) length);", "            env->as.values = janet_malloc(2 * sizeof(Janet) * (size_t) length);", "DOS")],
     EN, props=("C10",), defines=["-DMA_FIXED"], stubs=ESTUBS, entry_fn="unmarshal_one_env", rm_extra=E_RM, nanbox=False,
     assumes=[A_READNAT, A_REC_ENV, A_ALLOC], cls="bounded", bound=BOUND_E, unwind=EMAXN, uassert=True, maxn=EMAXN, only="\\(DOS\\)|REACH",
     history="found failing on the pinned tree, repaired by /repo commit a9507fe. " + ENV_REPRO)

# ------------------------------------------------------------------ 4b. unmarshal_one_def (new definition): layout of the object (sizes arithmetic: marsh.def.sizes, references: marsh.ref.def)
DF = "marsh_arms_def.c"
DSTUBS = ["readint:md_readint_stub", "readnat:md_readnat_stub", "unmarshal_one:md_rec_stub", "unmarshal_one_def:md_defrec_stub", "janet_unmarshal_u32s:md_u32s_stub", "janet_gcalloc:md_gcalloc_stub",
          "malloc:md_malloc_stub", "calloc:md_calloc_stub", "janet_verify:md_verify_stub", "janet_v_grow:md_vgrow_stub"]
D_RM = "unmarshal_one_fiber|unmarshal_one_env|unmarshal_one_abstract|unmarshal_one"
DMAXN = 13
DUNW = 7
BOUND_D = ("inputs of at most %d bytes (every content): the 7 header integers take at least 7, so at most %d elements in total reach the end; loops unwound %dx WITH unwinding assertions "
           "(every element of every vector consumes at least one input byte)" % (DMAXN, DMAXN - 7, DUNW))
D_SKIP = ["arithmetic overflow on signed \\+ in current \\+ return_value_readint"]
D_UNDEC = ["the source-map line accumulator `current += readint()` can wrap for crafted deltas (signed overflow, undefined in ISO C, affects only reported line numbers) - excluded here as in unit marsh.def.sizes"]
A_DEF = ("readint / readnat hand out any int32 / any int32 >= 0 and consume 1..5 bytes inside the input (units marsh.readint / marsh.readnat); the nested unmarshal_one / unmarshal_one_def are recording stubs "
         "(raise on an exhausted input, consume at least one byte, deliver any value - tagged string / symbol: a string object - resp. a definition); janet_unmarshal_u32s(into, n): precondition into writable for n words "
         "(asserted), consumes 4n bytes or raises; janet_gcalloc / malloc / calloc return a fresh block of the requested size; janet_verify returns any result (unit bytecode.verify)")
M_DEF = [mut("numbered-after-contents", "        janet_v_push(st->lookup_defs, def);\n", "", "numbered BEFORE|exactly once"),
         mut("constants-count-published-early", "            def->constants = janet_malloc(sizeof(Janet) * constants_length);\n", "            def->constants = janet_malloc(sizeof(Janet) * constants_length);\n            def->constants_length = constants_length;\n", "collector can walk"),
         mut("defs-depth-not-advanced", "                data = unmarshal_one_def(st, data, def->defs + i, flags + 1);", "                data = unmarshal_one_def(st, data, def->defs + i, flags);", "nesting level"),
         mut("verify-skipped", "        if (janet_verify(def))\n            janet_panic(\"funcdef has invalid bytecode\");", "        if (0 && janet_verify(def))\n            janet_panic(\"funcdef has invalid bytecode\");", "janet_verify has accepted"),
         mut("name-type-unchecked", "            janet_asserttype(x, JANET_STRING, st);\n            def->name = janet_unwrap_string(x);", "            def->name = janet_unwrap_string(x);", "name is the string"),
         mut("sourcemap-sized-by-constants", "            def->sourcemap = janet_malloc(sizeof(JanetSourceMapping) * (size_t) bytecode_length);", "            def->sourcemap = janet_malloc(sizeof(JanetSourceMapping) * (size_t) constants_length);", "sourcemap vector|pointer_dereference")]
unit("marsh.def.new", "h_def_new",
     "unmarshal_one_def, new definition: one collector-owned JanetFuncDef gets the next definition number exactly once BEFORE any nested value or definition is read; every vector (constants, bytecode, environments, defs, symbolmap, "
     "sourcemap, closure bitset) is allocated for exactly the count published next to it; a count the collector walks (constants, defs, symbolmap) is published only when its vector is completely in place; slot i is filled by the i-th read; "
     "nested values and definitions are read one level deeper; name and source must be strings; the definition is handed out only after janet_verify has accepted the finished object",
     M_DEF, DF, props=("C10", "C09"), defines=["-DMA_FIXED"], stubs=DSTUBS, entry_fn="unmarshal_one_def", rm_extra=D_RM, nanbox=False,
     assumes=[A_DEF, "janet_v_grow (vector.c) is an allocation contract: returns a vector with room for one more element that keeps count and elements"],
     cls="bounded", bound=BOUND_D, unwind=DUNW, uassert=True, maxn=DMAXN, skip=D_SKIP, undecided_clauses=D_UNDEC, tier="thorough")
DEF_FIX = "        if ((int64_t) constants_length + bytecode_length + environments_length +\n                defs_length + symbolmap_length > (int64_t)(st->end - data)) {"
unit("marsh.def.vectors_dos", "h_def_new",
     "unmarshal_one_def: the vectors requested on behalf of the untrusted counts (constants, symbolmap, bytecode, environments, defs, sourcemap) together take at most 24 bytes per byte of input that was left when the counts "
     "had been read, and none is requested before all counts are read (DOS check) - an allocation failure is not a catchable error, it exits the process; the closure bitset, sized by the 31-bit slot count, is at most 2^26 words",
     [mut("dos-check-reverted", DEF_FIX, "        if (0) {", "DOS"),
      mut("symbolmap-count-forgotten", DEF_FIX, DEF_FIX.replace("defs_length + symbolmap_length >", "defs_length >"), "DOS"),
      mut("constants-vector-doubled", "            def->constants = janet_malloc(sizeof(Janet) * constants_length);", "            def->constants = janet_malloc(2 * sizeof(Janet) * constants_length);", "DOS")],
     DF, props=("C10",), defines=["-DMA_FIXED", "-DMD_DOS"], stubs=DSTUBS, entry_fn="unmarshal_one_def", rm_extra=D_RM, nanbox=False,
     assumes=[A_DEF], cls="bounded", bound=BOUND_D.replace("at most %d bytes" % DMAXN, "at most 9 bytes").replace("at most %d elements" % (DMAXN - 7), "at most 2 elements").replace("unwound %dx" % DUNW, "unwound 3x"),
     unwind=3, uassert=True, maxn=9, only="\\(DOS\\)|REACH",
     history="found failing on the pinned tree, repaired by /repo commit a9507fe. Reproducer then (13-byte image): (pp (protect (unmarshal \"\\xD7\\x00\\x00\\x01\\x00\\x00\\x00\\xCD\\x7F\\xFF\\xFF\\xFF\\x01\"))) under `ulimit -v 8000000` "
             "printed 'src/core/marsh.c:962 - janet out of memory' and exited with status 1",
     undecided_clauses=["the closure bitset is sized by slotcount (up to 2^26 words = 256 MiB for a 31-bit slot count), which the repaired check does not relate to the input size; it is requested only after all bytecode words have been read"])

# ------------------------------------------------------------------ 5. top level and the abstract-type API
AP = "marsh_arms_api.c"
RM_API = "marshal_one.*|janet_marshal.*|janet_env_lookup.*|entry_getval|cfun_.*|janet_lib_marsh|unmarshal_one_fiber|unmarshal_one_def|unmarshal_one_env"
def api(id, entry, clause, mutants, defines, functions, stubs=(), props=("C10",), cls="bounded", bound=BOUND_IN % (12, 9), assumes=(), nanbox=None, unwind=9, uassert=True, rm=RM_API + "|unmarshal_one|unmarshal_one_abstract", **kw):
    u = unit(id, entry, clause, mutants, AP, props=props, defines=defines, stubs=list(stubs), entry_fn=None, functions=functions, assumes=list(assumes), nanbox=nanbox,
             rm_extra=None, cls=cls, bound=bound, unwind=unwind, uassert=uassert, **kw)
    u["remove_bodies"] = rm
    u["replace_calls"] = list(stubs)
    return u
VG = ["janet_v_grow:ma_vgrow_stub"]
api("marsh.api.int", "h_api_int",
    "janet_unmarshal_int: checks the remaining input before every byte it reads, returns the integer the 1-, 2- or 5-byte encoding denotes (any other lead byte is refused) and advances the context's cursor by exactly the bytes consumed",
    [mut("cursor-not-stored", "    *atdata = data;\n    return ret;\n}\n\n/* Helper to read a natural number", "    return ret;\n}\n\n/* Helper to read a natural number", "cursor advances"),
     mut("long-form-eos-off-by-one", "        MARSH_EOS(st, data + 4);\n        uint32_t ui = ((uint32_t)(data[1]) << 24) |", "        MARSH_EOS(st, data + 3);\n        uint32_t ui = ((uint32_t)(data[1]) << 24) |", "pointer_dereference|five bytes")],
    ["-DAP_INT"], ["janet_unmarshal_int", "readint"], props=("C10", "C09"))
for nm, d, fn in (("int64", [], "janet_unmarshal_int64"), ("size", ["-DAP_SIZE"], "janet_unmarshal_size")):
    api("marsh.api." + nm, "h_api_int64",
        "%s: checks the remaining input before every byte it reads; one byte <= 0xF0 is the value, otherwise 0xF0 + k announces k <= 8 little-endian value bytes (what push64 wrote), more than 8 is refused; "
        "the context's cursor advances by exactly the bytes consumed" % fn,
        [mut("value-bytes-eos-off-by-one", "        MARSH_EOS(st, data + nbytes);", "        MARSH_EOS(st, data + nbytes - 1);", "pointer_dereference|inside the input"),
         mut("nine-value-bytes-accepted", "        if (nbytes > 8) janet_panic(\"invalid 64 bit integer\");", "        if (nbytes > 9) janet_panic(\"invalid 64 bit integer\");", "at most eight|unwind"),
         mut("cursor-one-short", "        *atdata = data + nbytes + 1;", "        *atdata = data + nbytes;", "cursor advances")],
        ["-DAP_INT64"] + d, [fn, "read64"] + (["janet_unmarshal_int64"] if nm == "size" else []), props=("C10", "C09"), unwind=10, bound=BOUND_IN % (12, 10))
api("marsh.api.byte", "h_api_byte",
    "janet_unmarshal_byte: checks that a byte remains before it reads it, returns the byte under the cursor and advances the cursor by exactly one",
    [mut("eos-check-dropped", "    MARSH_EOS(st, ctx->data);\n    return *(ctx->data++);", "    return *(ctx->data++);", "pointer_dereference|exhausted"),
     mut("cursor-not-advanced", "    return *(ctx->data++);", "    return *(ctx->data);", "advances by exactly one")],
    ["-DAP_BYTE"], ["janet_unmarshal_byte"], props=("C10", "C09"))
api("marsh.api.ptr", "h_api_ptr",
    "janet_unmarshal_ptr: refused unless the context's flags contain JANET_MARSHAL_UNSAFE; with the flag all sizeof(void *) bytes are checked against the end of the input before they are read, and the cursor advances by exactly that many",
    [mut("unsafe-check-dropped", "    if (!(ctx->flags & JANET_MARSHAL_UNSAFE)) {\n        janet_panic(\"can only unmarshal pointers in unsafe mode\");", "    if (0) {\n        janet_panic(\"can only unmarshal pointers in unsafe mode\");", "only in unsafe mode"),
     mut("eos-off-by-one", "    MARSH_EOS(st, ctx->data + sizeof(void *) - 1);", "    MARSH_EOS(st, ctx->data + sizeof(void *) - 2);", "pointer|inside the input")],
    ["-DAP_BYTE"], ["janet_unmarshal_ptr"])
api("marsh.api.bytes", "h_api_bytes",
    "janet_unmarshal_bytes(ctx, dest, len): the length is checked against the rest of the input BEFORE the copy, exactly the `len` bytes under the cursor are copied to dest, the cursor advances by exactly len (len == 0 is accepted anywhere)",
    [mut("length-check-off-by-one", "    MARSH_EOS(st, ctx->data + len - 1);", "    MARSH_EOS(st, ctx->data + len - 2);", "BEFORE the copy|bytes remain"),
     mut("cursor-not-advanced", "    safe_memcpy(dest, ctx->data, len);\n    ctx->data += len;", "    safe_memcpy(dest, ctx->data, len);", "advances by exactly len")],
    ["-DAP_BYTES"], ["janet_unmarshal_bytes"], stubs=["safe_memcpy:ab_memcpy_stub"], props=("C10", "C09"),
    assumes=["precondition (the caller's): dest has room for len bytes - an object of len bytes exists, so len <= 2^40 here and `ctx->data + len` cannot wrap around",
             "safe_memcpy: precondition source readable / destination writable for len bytes (asserted), copies"])
api("marsh.api.ensure", "h_api_ensure",
    "janet_unmarshal_ensure(ctx, size), size <= 2^40: returns only if at least `size` bytes remain (it actually demands one more); the cursor does not move",
    [mut("comparison-flipped", "    if (size >= (size_t)(st->end - ctx->data)) janet_panic(", "    if (size < (size_t)(st->end - ctx->data)) janet_panic(", "at least|REACH")],
    ["-DAP_ENSURE", "-DAP_ENSURE_MAX=((size_t)1<<40)"], ["janet_unmarshal_ensure"],
    bound="size <= 2^40 (see marsh.api.ensure.any_size); " + BOUND_IN % (12, 9))
api("marsh.api.ensure.any_size", "h_api_ensure",
    "janet_unmarshal_ensure(ctx, size) for EVERY size_t (the size typically comes straight from the image, janet_unmarshal_size): returns only if at least `size` bytes remain",
    [mut("comparison-flipped", "    if (size >= (size_t)(st->end - ctx->data)) janet_panic(", "    if (size < (size_t)(st->end - ctx->data)) janet_panic(", "at least|REACH"), mut("address-comparison-again", "    if (size >= (size_t)(st->end - ctx->data)) janet_panic(\"unexpected end of source\");", "    MARSH_EOS(st, ctx->data + size);", "at least|pointer")],
    ["-DAP_ENSURE"], ["janet_unmarshal_ensure"])
api("marsh.api.janet", "h_api_janet",
    "janet_unmarshal_janet: exactly one nested value is read by unmarshal_one from the context's cursor, in the context's state, at the context's depth; it is returned and the context's cursor is where the nested reader left it",
    [mut("cursor-not-stored", "    ctx->data = unmarshal_one(st, ctx->data, &ret, ctx->flags);", "    unmarshal_one(st, ctx->data, &ret, ctx->flags);", "cursor is where"),
     mut("depth-reset", "    ctx->data = unmarshal_one(st, ctx->data, &ret, ctx->flags);", "    ctx->data = unmarshal_one(st, ctx->data, &ret, 0);", "context's depth")],
    ["-DAP_JANET"], ["janet_unmarshal_janet"], stubs=["unmarshal_one:aj_rec_stub"], props=("C10",), rm=RM_API + "|unmarshal_one_abstract",
    assumes=[A_REC_ENV.replace(" (a value tagged fiber points to a fiber object)", "")])
for nm, d, fn in (("abstract", [], "janet_unmarshal_abstract"), ("abstract_reuse", ["-DAP_REUSE"], "janet_unmarshal_abstract_reuse")):
    api("marsh.api." + nm, "h_api_abstract",
        "%s: the hook's object gets the next reference number exactly once (tagged abstract), the context records that it is registered, a second registration through the same context is refused; the cursor does not move" % fn,
        [mut("not-numbered", "    janet_v_push(st->lookup, janet_wrap_abstract(p));\n    ctx->at = NULL;", "    ctx->at = NULL;", "next reference number"),
         mut("registration-not-recorded", "    janet_v_push(st->lookup, janet_wrap_abstract(p));\n    ctx->at = NULL;", "    janet_v_push(st->lookup, janet_wrap_abstract(p));", "remembers"),
         mut("second-registration-accepted", "    if (ctx->at == NULL) {\n        janet_panicf(\"janet_unmarshal_abstract called more than once\");", "    if (0) {\n        janet_panicf(\"janet_unmarshal_abstract called more than once\");", "second registration")],
        ["-DAP_ABSTRACT"] + d, [fn] + (["janet_unmarshal_abstract_reuse"] if nm == "abstract" else []), stubs=VG + ["janet_abstract:aa_abstract_stub"], props=("C10", "C09"), nanbox=False,
        assumes=[A_VGROW, "janet_abstract(type, size) is an allocation contract: a fresh abstract object of that type and size"])
api("marsh.api.one_abstract", "h_one_abstract",
    "unmarshal_one_abstract: the type name is one nested value read one level deeper; an unknown type or a type without unmarshal hook is refused; the hook runs once on a context {this state, depth flags + 1, the cursor after the name, the type}; "
    "the arm returns only if the hook returned an object AND registered it (janet_unmarshal_abstract*) - otherwise the reference numbering would go out of step with marshal; the result is the hook's object tagged abstract, "
    "numbered exactly once; the cursor returned is where the hook left it",
    [mut("name-read-at-same-depth", "    data = unmarshal_one(st, data, &key, flags + 1);\n    const JanetAbstractType *at", "    data = unmarshal_one(st, data, &key, flags);\n    const JanetAbstractType *at", "one level deeper"),
     mut("hook-depth-not-advanced", "        JanetMarshalContext context = {NULL, st, flags + 1, data, at};", "        JanetMarshalContext context = {NULL, st, flags, data, at};", "depth flags \\+ 1"),
     mut("unregistered-object-accepted", "        if (context.at != NULL) {\n            janet_panic(\"janet_unmarshal_abstract not called\");", "        if (0) {\n            janet_panic(\"janet_unmarshal_abstract not called\");", "did not register|exactly once"),
     mut("unknown-type-accepted", "    if (at == NULL) janet_panic(\"unknown abstract type\");", "    if (at == NULL) at = &janet_file_type;", "unknown type|pointer"),
     mut("hook-cursor-ignored", "        return context.data;", "        return data;", "where the hook left it")],
    ["-DAP_ONE_ABSTRACT"], ["unmarshal_one_abstract"], stubs=VG + ["unmarshal_one:ao_rec_stub", "janet_get_abstract_type:ao_get_type_stub"], props=("C10", "C09"), nanbox=False, rm=RM_API,
    assumes=[A_VGROW, A_REC_ENV.replace(" (a value tagged fiber points to a fiber object)", ""), "janet_get_abstract_type returns NULL or the registered type; the hook is a harness function that checks its context, "
             "registers its object or not, moves the cursor anywhere inside the rest of the input and returns its object or NULL (all nondeterministic)",
             "a hook that returns NULL makes janet_assert exit the process (not a catchable error): hooks are trusted C code, see report"])
api("marsh.api.top", "h_api_top",
    "janet_unmarshal(bytes, len, flags, reg, next): exactly one top-level value is read, from a state that describes exactly [bytes, bytes + len), has nothing numbered yet and carries the caller's lookup table and flags; "
    "the value is returned, *next (when asked for) is the cursor after it, and each of the three numbering vectors that came into existence is released exactly once",
    [mut("end-off-by-one", "    st.end = bytes + len;\n    st.lookup_defs = NULL;", "    st.end = bytes + len + 1;\n    st.lookup_defs = NULL;", "describes exactly"),
     mut("envs-vector-not-released", "    janet_v_free(st.lookup_envs);\n    janet_v_free(st.lookup);", "    janet_v_free(st.lookup);", "released exactly once"),
     mut("next-not-written", "    if (next) *next = nextbytes;", "    (void) nextbytes;", "\\*next is the cursor"),
     mut("registry-dropped", "    st.reg = reg;\n    Janet out;", "    st.reg = NULL;\n    Janet out;", "describes exactly")],
    ["-DAP_TOP"], ["janet_unmarshal"], stubs=["unmarshal_one:at_rec_stub", "janet_sfree:at_sfree_stub"], cls="full-domain", bound=None, unwind=4, rm=RM_API + "|unmarshal_one_abstract",
    assumes=["the top-level unmarshal_one is a recording stub: checks the state it is given, lets numbering vectors come into existence (any subset of the three), returns any value and a cursor inside the input",
             "janet_sfree (scratch memory) records what it is asked to release"])
units[-1]["assumes"] = [a for a in units[-1]["assumes"] if not a.startswith("the input is a heap block")]

# ------------------------------------------------------------------ 1b. dispatching arms, and the Janet-level entry
for k, (lead, nm, sub, repl) in enumerate((("LB_FIBER", "fiber", "unmarshal_one_fiber", "unmarshal_one_fiber:mx_fiber_stub"), ("LB_ABSTRACT", "abstract", "unmarshal_one_abstract", "unmarshal_one_abstract:mx_abstract_stub"))):
    ms = [mut("lead-byte-not-skipped", "            data = unmarshal_one_fiber(st, data + 1, &fiber, flags + 1);", "            data = unmarshal_one_fiber(st, data, &fiber, flags + 1);", "right behind the lead byte"),
          mut("depth-not-advanced", "            data = unmarshal_one_fiber(st, data + 1, &fiber, flags + 1);", "            data = unmarshal_one_fiber(st, data + 1, &fiber, flags);", "nesting level deeper")] if k == 0 else \
         [mut("lead-byte-not-skipped", "        case LB_ABSTRACT: {\n            data++;\n", "        case LB_ABSTRACT: {\n", "right behind the lead byte"),
          mut("depth-reset", "            return unmarshal_one_abstract(st, data, out, flags);", "            return unmarshal_one_abstract(st, data, out, 0);", "sub-reader runs once")]
    unit("marsh.arm." + nm, "h_arm_dispatch",
         "%s: the lead byte is consumed and %s continues right behind it on the same state%s; the result is the sub-reader's object; the arm returns the sub-reader's cursor and numbers nothing itself" %
         (lead, sub, ", one nesting level deeper" if k == 0 else " (it advances the depth itself: marsh.api.one_abstract)"), ms,
         SC, props=("C10",), defines=["-DMA_LEAD=" + lead, "-DMA_FIXED", "-DMA_DISPATCH=%d" % k], stubs=["unmarshal_one:ma_norec_stub", "janet_v_grow:ma_vgrow_stub", repl], nanbox=False,
         assumes=[A_VGROW, A_NOREC, "%s is a recording stub (its own units: marsh.fiber_image / marsh.api.one_abstract)" % sub], cls="bounded", bound="inputs of at most 12 bytes (the sub-reader stub may leave the cursor anywhere behind the lead byte)")
u = api("marsh.cfun.unmarshal", "h_cfun_unmarshal",
    "(unmarshal buffer &opt lookup): exactly the bytes of the first argument are handed to janet_unmarshal, with the optional lookup table and flags == 0 - Janet code cannot request JANET_MARSHAL_UNSAFE, so the raw-pointer arms are unreachable from it",
    [mut("unsafe-by-default", "    return janet_unmarshal(view.bytes, (size_t) view.len, 0, reg, NULL);", "    return janet_unmarshal(view.bytes, (size_t) view.len, JANET_MARSHAL_UNSAFE, reg, NULL);", "cannot ask for unsafe"),
     mut("length-off-by-one", "    return janet_unmarshal(view.bytes, (size_t) view.len, 0, reg, NULL);", "    return janet_unmarshal(view.bytes, (size_t) view.len + 1, 0, reg, NULL);", "exactly the bytes")],
    ["-DAP_CFUN"], ["cfun_unmarshal"], stubs=["janet_arity:cu_arity_stub", "janet_getbytes:cu_getbytes_stub", "janet_gettable:cu_gettable_stub", "janet_unmarshal:cu_unmarshal_stub"], cls="full-domain", bound=None, unwind=2, uassert=False,
    rm="marshal_one.*|janet_marshal.*|janet_env_lookup.*|entry_getval|cfun_marshal|cfun_env_lookup|janet_lib_marsh|unmarshal_one.*|janet_unmarshal_.*",
    assumes=["janet_arity raises unless min <= argc <= max; janet_getbytes / janet_gettable return the byte view / table of the indexed argument (or raise); janet_unmarshal is a recording stub"])
u["assumes"] = [a for a in u["assumes"] if not a.startswith("the input is a heap block")]

# ------------------------------------------------------------------ units whose obligation FAILS on the real code (kept, disabled, with reproducer)
def disable(uid, reason):
    for u in units:
        if u["id"] == uid:
            u["disabled_reason"] = reason
            return
    sys.exit("no unit " + uid)
# (both former disabled units - marsh.arm.tuple.flag_shift, marsh.api.ensure.any_size - pass since /repo 6044c38 and 0650812)

json.dump({"units": units}, open(os.path.join(V, 'units', 'C10_arms.json'), 'w'), indent=1)
print('%d units' % len(units))
