#!/usr/bin/env python3
"""C01 (mechanism level): units for the mark routines, root API and lock API of gc.c -> units/C01.json.

Technique (DESIGN section 6, C01): every mark routine is put under a dfcc contract of the shape
   "obj unmarked on entry  ==>  obj marked on exit  AND  the mark callee was called for the ghost-selected child
    (resp. the walker janet_mark_many/_keys/_values/_kvs was handed the ghost-selected (base, count))"
with every callee replaced by a RECORDING contract (harness/gc_mark.h).  Index loops are closed with loop contracts carrying
the ghost index; pointer-chasing loops (prototype chain, child-fiber chain, frame chain, the walkers themselves) are
unwound to a stated bound and labelled bounded (DESIGN R14).
"""
import json, os
V = os.path.dirname(os.path.dirname(os.path.abspath(__file__)))
U = []


def dump():
    json.dump({'units': U}, open(os.path.join(V, 'units', 'C01.json'), 'w'), indent=1)
    print('wrote %d units' % len(U))


import atexit
atexit.register(dump)
REC = "is replaced by a contract that records its argument(s) in ghost state and writes nothing else"


def unit(id, clause, harness, entry, cls='proved', **kw):
    u = {'id': id, 'props': ['C01'], 'tier': kw.pop('tier', 'quick'), 'class': cls, 'clause': clause,
         'src': ['gc.c'], 'harness': harness if isinstance(harness, list) else [harness], 'entry': entry, 'timeout': kw.pop('timeout', 120)}
    u.update(kw)
    U.append(u)
    return u


def rep(*names):
    return ['%s/%s_c' % (n, n) for n in names]


# ---------------------------------------------------------------------------------------------------------------------
unit('gc.mark.array',
     'janet_mark_array: an unmarked array is marked on exit and its whole live range (data, count) is handed to janet_mark_many exactly once; '
     'a weak array hands over nothing; an already marked array is not traversed again; nothing but the reachable bit is written',
     'gc_mark_array.c', 'h_mark_array',
     enforce=['janet_mark_array/janet_mark_array_spec'], replace=rep('janet_mark_many'), functions=['janet_mark_array'],
     assumes=['janet_mark_many ' + REC + ' (its element-wise behaviour is unit gc.walk.many)'],
     mutants=[dict(name='count-minus-one', file='gc.c', find='janet_mark_many(array->data, array->count);', replace='janet_mark_many(array->data, array->count - 1);', expect='postcondition'),
              dict(name='no-mark', file='gc.c', find='    janet_gc_mark(array);\n', replace='', expect='postcondition')])

unit('gc.mark.tuple',
     'janet_mark_tuple: an unmarked tuple is marked on exit and all its elements (tuple, length) are handed to janet_mark_many exactly once; '
     'an already marked tuple is not traversed again; nothing but the reachable bit of the tuple head is written',
     'gc_mark_tuple.c', 'h_mark_tuple',
     enforce=['janet_mark_tuple/janet_mark_tuple_spec'], replace=rep('janet_mark_many'), functions=['janet_mark_tuple'],
     assumes=['janet_mark_many ' + REC],
     mutants=[dict(name='length-minus-one', file='gc.c', find='janet_mark_many(tuple, janet_tuple_length(tuple));', replace='janet_mark_many(tuple, janet_tuple_length(tuple) - 1);', expect='postcondition'),
              dict(name='no-mark', file='gc.c', find='    janet_gc_mark(janet_tuple_head(tuple));\n', replace='', expect='postcondition')])

unit('gc.mark.function',
     'janet_mark_function: an unmarked closure is marked on exit, janet_mark_funcenv is called for every captured environment envs[g] '
     '(ghost index, any number of environments) and janet_mark_funcdef for its definition; a half-built closure (def == NULL) is only marked',
     'gc_mark_function.c', 'h_mark_function',
     enforce=['janet_mark_function/janet_mark_function_spec'], replace=rep('janet_mark_funcenv', 'janet_mark_funcdef'), functions=['janet_mark_function'],
     loop_counts={'janet_mark_function': 1},
     loops={'janet_mark_function': [dict(loop_id='0',
            invariants='0 <= i && i <= numenvs && numenvs == g_nenv && (g_idx < i ==> g_env_seen) && g_env_calls == (unsigned) i && g_def_calls == 0 && !g_def_seen',
            assigns='i, g_env_seen, g_env_calls', decreases='numenvs - i',
            symbol_map='i,janet_mark_function::1::i;numenvs,janet_mark_function::1::numenvs;func,janet_mark_function::func')]},
     assumes=['janet_mark_funcenv, janet_mark_funcdef ' + REC],
     mutants=[dict(name='skip-first-env', file='gc.c', find='for (i = 0; i < numenvs; ++i) {', replace='for (i = 1; i < numenvs; ++i) {', expect='postcondition|loop_invariant'),
              dict(name='no-def-edge', file='gc.c', find='        janet_mark_funcdef(func->def);\n', replace='', expect='postcondition')])

unit('gc.mark.funcdef',
     'janet_mark_funcdef: an unmarked definition is marked on exit; its constants (constants, constants_length) are handed to janet_mark_many; '
     'janet_mark_funcdef is called for every nested definition defs[g]; janet_mark_string is called for the source, the name and every symbolmap[g].symbol '
     '(ghost indices, any lengths)',
     'gc_mark_funcdef.c', 'h_mark_funcdef',
     enforce=['janet_mark_funcdef/janet_mark_funcdef_spec'], replace=rep('janet_mark_many', 'janet_mark_string'), functions=['janet_mark_funcdef'],
     replace_calls=['janet_mark_funcdef:funcdef_rec_stub'], replace_calls2=['janet_mark_funcdef__entry:janet_mark_funcdef'],
     loop_counts={'janet_mark_funcdef': 2},
     loops={'janet_mark_funcdef': [
         dict(loop_id='0',
              invariants='0 <= i && i <= def->defs_length && (g_idx < i ==> g_def_seen) && g_def_calls == (unsigned) i',
              assigns='i, g_def_seen, g_def_calls', decreases='def->defs_length - i',
              symbol_map='i,janet_mark_funcdef::1::i;def,janet_mark_funcdef::def'),
         dict(loop_id='1',
              invariants='0 <= i && i <= def->symbolmap_length && ((g_sel == 2 && g_idx2 < i) ==> g_str_seen)'
                         ' && ((g_sel == 0 && def->source != (const unsigned char *) 0) ==> g_str_seen) && ((g_sel == 1 && def->name != (const unsigned char *) 0) ==> g_str_seen)'
                         ' && g_str_calls == (unsigned) i + (def->source != (const unsigned char *) 0 ? 1u : 0u) + (def->name != (const unsigned char *) 0 ? 1u : 0u)',
              assigns='i, g_str_seen, g_str_calls', decreases='def->symbolmap_length - i',
              symbol_map='i,janet_mark_funcdef::1::2::1::i;def,janet_mark_funcdef::def')]},
     assumes=['janet_mark_many, janet_mark_string ' + REC, 'the recursive call of janet_mark_funcdef is replaced by a recording stub (funcdef_rec_stub)'],
     mutants=[dict(name='skip-last-subdef', file='gc.c', find='for (i = 0; i < def->defs_length; ++i) {', replace='for (i = 0; i < def->defs_length - 1; ++i) {', expect='postcondition|loop_invariant'),
              dict(name='no-name-edge', file='gc.c', find='    if (def->name)\n        janet_mark_string(def->name);\n', replace='', expect='postcondition|loop_invariant'),
              dict(name='symbolmap-off-by-one', file='gc.c', find='for (int i = 0; i < def->symbolmap_length; i++) {', replace='for (int i = 1; i < def->symbolmap_length; i++) {', expect='postcondition|loop_invariant'),
              dict(name='no-constants', file='gc.c', find='    janet_mark_many(def->constants, def->constants_length);\n', replace='', expect='postcondition')])

unit('gc.mark.table',
     'janet_mark_table: every table of the prototype chain up to the first already-marked one is marked on exit, and for the ghost-selected level the walker '
     'matching its mode is handed (data, capacity): normal -> keys and values, weak keys -> values, weak values -> keys, weak both -> nothing; exactly one walker call per such table',
     'gc_mark_table.c', 'h_mark_table', cls='bounded', bound='prototype chain of at most 3 tables (pointer-chasing loop, DESIGN R14); unwind 4 with unwinding assertion',
     enforce=['janet_mark_table/janet_mark_table_spec'], replace=rep('janet_mark_kvs', 'janet_mark_keys', 'janet_mark_values'), functions=['janet_mark_table'],
     unwind=4,
     assumes=['janet_mark_kvs, janet_mark_keys, janet_mark_values ' + REC],
     mutants=[dict(name='weak-branches-swapped', file='gc.c', find='    if (memtype == JANET_MEMORY_TABLE_WEAKK) {\n        janet_mark_values(table->data, table->capacity);', replace='    if (memtype == JANET_MEMORY_TABLE_WEAKV) {\n        janet_mark_values(table->data, table->capacity);', expect='postcondition'),
              dict(name='count-instead-of-capacity', file='gc.c', find='janet_mark_kvs(table->data, table->capacity);', replace='janet_mark_kvs(table->data, table->count);', expect='postcondition'),
              dict(name='no-proto-edge', file='gc.c', find='    if (table->proto) {\n        table = table->proto;\n        goto recur;\n    }\n', replace='', expect='postcondition')])

unit('gc.mark.struct',
     'janet_mark_struct: every struct of the prototype chain up to the first already-marked one is marked on exit and all its buckets (st, capacity) are handed to '
     'janet_mark_kvs (ghost-selected level), exactly one walker call per struct reached; nothing but reachable bits is written',
     'gc_mark_struct.c', 'h_mark_struct', cls='bounded', bound='prototype chain of at most 3 structs (pointer-chasing loop, DESIGN R14); unwind 4 with unwinding assertion',
     enforce=['janet_mark_struct/janet_mark_struct_spec'], replace=rep('janet_mark_kvs'), functions=['janet_mark_struct'],
     unwind=4,
     assumes=['janet_mark_kvs ' + REC],
     mutants=[dict(name='length-instead-of-capacity', file='gc.c', find='janet_mark_kvs(st, janet_struct_capacity(st));', replace='janet_mark_kvs(st, janet_struct_length(st));', expect='postcondition'),
              dict(name='no-proto-edge', file='gc.c', find='    st = janet_struct_proto(st);\n    if (st) goto recur;\n', replace='', expect='postcondition'),
              dict(name='no-mark', file='gc.c', find='    janet_gc_mark(janet_struct_head(st));\n', replace='', expect='postcondition')])

unit('gc.mark.funcenv',
     'janet_mark_funcenv: an unmarked closure environment is marked on exit; while it lives on a fiber stack (offset > 0 after validation) janet_mark is called with '
     'the fiber value of env->as.fiber; once detached its values (as.values, length) are handed to janet_mark_many; exactly one of the two',
     'gc_mark_funcenv.c', 'h_mark_funcenv', nanbox=False, link=['wrap.c'],
     enforce=['janet_mark_funcenv/janet_mark_funcenv_spec'], replace=rep('janet_mark_many', 'janet_mark', 'janet_env_maybe_detach'), functions=['janet_mark_funcenv'],
     assumes=['janet_mark_many, janet_mark ' + REC,
              'janet_env_maybe_detach (fiber.c) is replaced by an over-approximating contract: it may install any (offset, length, as) triple in the environment and writes nothing else of it',
              'JANET_NO_NANBOX configuration of the same sources'],
     mutants=[dict(name='offset-test-ge', file='gc.c', find='    if (env->offset > 0) {\n        /* On stack.', replace='    if (env->offset >= 0) {\n        /* On stack.', expect='postcondition'),
              dict(name='no-fiber-edge', file='gc.c', find='        janet_mark(janet_wrap_fiber(env->as.fiber));\n', replace='', expect='postcondition'),
              dict(name='values-length-minus-one', file='gc.c', find='janet_mark_many(env->as.values, env->length);', replace='janet_mark_many(env->as.values, env->length - 1);', expect='postcondition')])

TYPED = ['janet_mark_string', 'janet_mark_function', 'janet_mark_array', 'janet_mark_table', 'janet_mark_struct', 'janet_mark_tuple', 'janet_mark_buffer', 'janet_mark_fiber', 'janet_mark_abstract']
unit('gc.mark.value',
     'janet_mark: for a value of every heap type (string, keyword, symbol, function, array, table, struct, tuple, buffer, fiber, abstract) the mark routine of that type is called '
     'exactly once with the value\'s pointer, values without heap storage cause no call; at recursion depth 0 the value is deferred to the root set by janet_gcroot(x) instead of being dropped; '
     'the depth counter is restored',
     'gc_mark_value.c', 'h_mark_value', nanbox=False, link=['wrap.c'],
     enforce=['janet_mark/janet_mark_spec'], replace=rep(*TYPED) + rep('janet_gcroot'), functions=['janet_mark'],
     assumes=[', '.join(TYPED) + ', janet_gcroot ' + REC, 'JANET_NO_NANBOX configuration of the same sources'],
     mutants=[dict(name='keyword-case-dropped', file='gc.c', find='            case JANET_STRING:\n            case JANET_KEYWORD:\n            case JANET_SYMBOL:\n                janet_mark_string', replace='            case JANET_STRING:\n            case JANET_SYMBOL:\n                janet_mark_string', expect='postcondition'),
              dict(name='struct-as-tuple', file='gc.c', find='janet_mark_struct(janet_unwrap_struct(x));', replace='janet_mark_tuple(janet_unwrap_tuple(x));', expect='postcondition'),
              dict(name='limit-drops-value', file='gc.c', find='    } else {\n        janet_gcroot(x);\n    }', replace='    }', expect='postcondition')])

FIBER_CALLEES = ['janet_mark', 'janet_mark_many', 'janet_mark_function', 'janet_mark_funcenv', 'janet_mark_table', 'janet_mark_abstract']
unit('gc.mark.fiber',
     'janet_mark_fiber: every fiber of the child chain up to the first already-marked one is marked on exit and for the ghost-selected fiber: janet_mark(last_value); the argument stack '
     'data[stackstart..stacktop) is handed to janet_mark_many; for the ghost-selected frame of its frame chain janet_mark_function(func) and janet_mark_funcenv(env) are called when non-NULL and '
     'the frame\'s slots data[i..j) are handed to janet_mark_many; janet_mark_table(env); janet_mark_abstract for the supervisor channel and for ev_stream; ev_callback(fiber, MARK); '
     'every frame-header read stays inside the stack',
     'gc_mark_fiber.c', 'h_mark_fiber', cls='bounded', mode='plain',
     bound='at most 3 frames per fiber, at most 2 fibers in the child chain, stacks of 24 slots with arbitrary contents (data-dependent frame indices / pointer-chasing loop, DESIGN R14); unwind 4 with unwinding assertions',
     replace_calls=['janet_mark:rec_mark', 'janet_mark_many:rec_many', 'janet_mark_function:rec_function', 'janet_mark_funcenv:rec_funcenv', 'janet_mark_table:rec_table', 'janet_mark_abstract:rec_abstract'],
     functions=['janet_mark_fiber'], unwind=4, timeout=300,
     checks=['bounds-check', 'pointer-check', 'signed-overflow-check'],
     assumes=[', '.join(FIBER_CALLEES) + ' are replaced by stubs that record their argument(s) in ghost state and write nothing else', 'the only JanetEVCallback of the unit is the recording callback vc_ev_cb'],
     mutants=[dict(name='no-last-value', file='gc.c', find='    janet_mark(fiber->last_value);\n', replace='', expect='C01 mark_fiber'),
              dict(name='args-short', file='gc.c', find='    janet_mark_many(fiber->data + fiber->stackstart,\n                    fiber->stacktop - fiber->stackstart);', replace='    janet_mark_many(fiber->data + fiber->stackstart,\n                    fiber->stacktop - fiber->stackstart - 1);', expect='C01 mark_fiber'),
              dict(name='frame-slots-short', file='gc.c', find='        j = i - JANET_FRAME_SIZE;\n        i = frame->prevframe;\n    }\n\n    if (fiber->env)', replace='        j = i - JANET_FRAME_SIZE - 1;\n        i = frame->prevframe;\n    }\n\n    if (fiber->env)', expect='C01 mark_fiber'),
              dict(name='no-frame-env', file='gc.c', find='        if (NULL != frame->env)\n            janet_mark_funcenv(frame->env);\n', replace='', expect='C01 mark_fiber'),
              dict(name='no-supervisor', file='gc.c', find='    if (fiber->supervisor_channel) {\n        janet_mark_abstract(fiber->supervisor_channel);\n    }\n', replace='', expect='C01 mark_fiber'),
              dict(name='no-child', file='gc.c', find='    if (fiber->child) {\n        fiber = fiber->child;\n        goto recur;\n    }\n', replace='', expect='C01 mark_fiber')])

WALK_BOUND = 'ranges of at most 8 elements / buckets with arbitrary contents (pointer-walking loop, DESIGN R14); unwind 9 with unwinding assertion'
WALK_CHECKS = ['bounds-check', 'pointer-check', 'signed-overflow-check', 'pointer-overflow-check']
for w, what, muts in [
    ('many', 'janet_mark_many: janet_mark is called for every element values[g] of the range handed over (ghost index) and exactly n times; no read outside [values, values + n)',
     [dict(name='skips-first', file='gc.c', find='    const Janet *end = values + n;\n    while (values < end) {\n        janet_mark(*values);', replace='    const Janet *end = values + n;\n    values += 1;\n    while (values < end) {\n        janet_mark(*values);', expect='C01 walker'),
      dict(name='stride-two', file='gc.c', find='        janet_mark(*values);\n        values += 1;', replace='        janet_mark(*values);\n        values += 2;', expect='C01 walker')]),
    ('keys', 'janet_mark_keys: janet_mark is called for the key of every bucket kvs[g] of the range handed over (ghost index) and exactly n times; no read outside the range',
     [dict(name='marks-values-instead', file='gc.c', find='static void janet_mark_keys(const JanetKV *kvs, int32_t n) {\n    const JanetKV *end = kvs + n;\n    while (kvs < end) {\n        janet_mark(kvs->key);', replace='static void janet_mark_keys(const JanetKV *kvs, int32_t n) {\n    const JanetKV *end = kvs + n;\n    while (kvs < end) {\n        janet_mark(kvs->value);', expect='C01 walker')]),
    ('values', 'janet_mark_values: janet_mark is called for the value of every bucket kvs[g] of the range handed over (ghost index) and exactly n times; no read outside the range',
     [dict(name='marks-keys-instead', file='gc.c', find='static void janet_mark_values(const JanetKV *kvs, int32_t n) {\n    const JanetKV *end = kvs + n;\n    while (kvs < end) {\n        janet_mark(kvs->value);', replace='static void janet_mark_values(const JanetKV *kvs, int32_t n) {\n    const JanetKV *end = kvs + n;\n    while (kvs < end) {\n        janet_mark(kvs->key);', expect='C01 walker')]),
    ('kvs', 'janet_mark_kvs: janet_mark is called for the key and for the value of every bucket kvs[g] of the range handed over (ghost index) and exactly 2n times; no read outside the range',
     [dict(name='value-not-marked', file='gc.c', find='        janet_mark(kvs->key);\n        janet_mark(kvs->value);\n        kvs++;', replace='        janet_mark(kvs->key);\n        kvs++;', expect='C01 walker'),
      dict(name='stride-two', file='gc.c', find='        janet_mark(kvs->key);\n        janet_mark(kvs->value);\n        kvs++;', replace='        janet_mark(kvs->key);\n        janet_mark(kvs->value);\n        kvs += 2;', expect='C01 walker')]),
]:
    unit('gc.walk.' + w, what, 'gc_walk.c', 'h_walk_' + w, cls='bounded', mode='plain', bound=WALK_BOUND,
         replace_calls=['janet_mark:rec_mark'], functions=['janet_mark_' + w], unwind=9, checks=WALK_CHECKS,
         assumes=['janet_mark is replaced by a stub that records its argument in ghost state'], mutants=muts)
unit('gc.walk.many.null', 'janet_mark_many on a NULL base (array without storage, neutralised closure environment) marks nothing and reads nothing, whatever the count',
     'gc_walk.c', 'h_walk_many_null', cls='full-domain', mode='plain',
     replace_calls=['janet_mark:rec_mark'], functions=['janet_mark_many'], unwind=3, unwinding_assertions=False, checks=WALK_CHECKS,
     assumes=['janet_mark is replaced by a stub that records its argument in ghost state'],
     mutants=[dict(name='no-null-test', file='gc.c', find='    if (values == NULL)\n        return;\n', replace='', expect='C01 walker|pointer')])

unit('gc.roots.root',
     'janet_gcroot adds exactly its argument at the end of the root set, keeps root_count <= root_capacity for every size of the set (growing only when full), and no earlier root '
     '(ghost index) is lost or changed',
     'gc_roots.c', 'h_gcroot',
     enforce=['janet_gcroot/janet_gcroot_spec'], replace=['realloc/realloc_c'], functions=['janet_gcroot'], cbmc=['--z3'],
     assumes=['realloc is replaced by its ISO C contract: NULL or a fresh block of the requested size that preserves the old prefix (observed at the ghost index); the old block is freed'],
     mutants=[dict(name='capacity-not-recorded', file='gc.c', find='        janet_vm.root_capacity = newcap;\n    }\n    janet_vm.roots[janet_vm.root_count] = root;', replace='    }\n    janet_vm.roots[janet_vm.root_count] = root;', expect='postcondition')])
unit('gc.roots.root.small',
     'janet_gcroot with real memory and a copying model of realloc: adds exactly its argument at the end, keeps every earlier root, root_count <= root_capacity, never writes outside the root array, '
     'reallocates only when full',
     'gc_roots.c', 'h_gcroot_small', cls='bounded', mode='plain', bound='root sets of at most 5 roots (SAT-checkable companion of gc.roots.root); unwind 14 with unwinding assertions',
     replace_calls=['realloc:vc_realloc_roots'], functions=['janet_gcroot'], unwind=14, checks=['bounds-check', 'pointer-check', 'signed-overflow-check'],
     assumes=['realloc is replaced by a model: NULL, or a fresh block with the old contents copied and the old block freed'],
     mutants=[dict(name='capacity-test-off-by-one', file='gc.c', find='    if (newcount > janet_vm.root_capacity) {\n        size_t newcap = 2 * newcount;', replace='    if (newcount > janet_vm.root_capacity + 1) {\n        size_t newcap = 2 * newcount;', expect='C01 roots|pointer_dereference'),
              dict(name='count-not-updated', file='gc.c', find='    janet_vm.roots[janet_vm.root_count] = root;\n    janet_vm.root_count = newcount;', replace='    janet_vm.roots[janet_vm.root_count] = root;', expect='C01 roots|pointer_dereference'),
              dict(name='capacity-not-recorded', file='gc.c', find='        janet_vm.root_capacity = newcap;\n    }\n    janet_vm.roots[janet_vm.root_count] = root;', replace='    }\n    janet_vm.roots[janet_vm.root_count] = root;', expect='C01 roots|pointer_dereference')])
unit('gc.lock',
     'janet_gclock returns the previous suspension count and suspends collection (counter non-zero), janet_gcunlock(handle) restores exactly the count the matching lock saw, also when nested',
     'gc_roots.c', 'h_gclock', cls='full-domain', mode='plain', functions=['janet_gclock', 'janet_gcunlock'], checks=['signed-overflow-check'],
     mutants=[dict(name='lock-returns-new-count', file='gc.c', find='    return janet_vm.gc_suspend++;', replace='    return ++janet_vm.gc_suspend;', expect='C01 gclock'),
              dict(name='unlock-decrements', file='gc.c', find='    janet_vm.gc_suspend = handle;', replace='    janet_vm.gc_suspend = handle - 1;', expect='C01 gclock')])
ROOTS_BOUND = 'root sets of at most 5 roots with arbitrary contents (pointer-walking loop, DESIGN R14); unwind 7 with unwinding assertions'
ROOTS_CHECKS = ['bounds-check', 'pointer-check', 'signed-overflow-check']
unit('gc.roots.unroot',
     'janet_gcunroot removes exactly one occurrence of its argument (GC identity: same type and same heap object) iff it is rooted and reports that; every other root keeps its multiplicity; '
     'the root array is not moved and root_count <= root_capacity',
     'gc_roots.c', 'h_gcunroot', cls='bounded', mode='plain', bound=ROOTS_BOUND, functions=['janet_gcunroot', 'janet_gc_idequals'], unwind=7, checks=ROOTS_CHECKS, link=['wrap.c'],
     mutants=[dict(name='count-not-decremented', file='gc.c', find='            *v = janet_vm.roots[--janet_vm.root_count];\n            return 1;', replace='            *v = janet_vm.roots[janet_vm.root_count - 1];\n            return 1;', expect='C01 roots'),
              dict(name='last-root-dropped-instead', file='gc.c', find='            *v = janet_vm.roots[--janet_vm.root_count];\n            return 1;', replace='            --janet_vm.root_count;\n            return 1;', expect='C01 roots'),
              dict(name='type-not-compared', file='gc.c', find='    if (janet_type(lhs) != janet_type(rhs))\n        return 0;\n', replace='', expect='C01 roots')])
unit('gc.roots.unrootall',
     'janet_gcunrootall removes only occurrences of its argument and reports whether there was one; every other root keeps its multiplicity; the root array is not moved and root_count <= root_capacity',
     'gc_roots.c', 'h_gcunrootall', cls='bounded', mode='plain', bound=ROOTS_BOUND, functions=['janet_gcunrootall', 'janet_gc_idequals'], unwind=7, checks=ROOTS_CHECKS, link=['wrap.c'],
     mutants=[dict(name='vtop-not-lowered', file='gc.c', find='            vtop--;\n', replace='', expect='C01 roots'),
              dict(name='ret-not-set', file='gc.c', find='            vtop--;\n            ret = 1;', replace='            vtop--;', expect='C01 roots')])
unit('gc.roots.unrootall.complete',
     'janet_gcunrootall leaves no occurrence of its argument in the root set ("sets the effective reference count to 0")',
     'gc_roots.c', 'h_gcunrootall_complete', cls='bounded', mode='plain', bound=ROOTS_BOUND, functions=['janet_gcunrootall'], unwind=7, checks=ROOTS_CHECKS, link=['wrap.c'], tier='thorough',
     disabled_reason='GENUINE DEFECT (C API only): janet_gcunrootall does not re-examine the root it moves into the freed position, so with roots [A, A] one A survives '
                     '(obligation "C01 roots: gcunrootall leaves no occurrence of the argument in the root set" fails; counterexample root_count = 2, both roots identical to the argument). '
                     'C reproducer in harness/gc_roots.c. Not a memory-safety violation (an object stays rooted longer than documented).',
     mutants=[dict(name='vtop-not-lowered', file='gc.c', find='            vtop--;\n', replace='', expect='C01 roots')])

unit('gc.mark.abstract',
     'janet_mark_abstract: an unmarked abstract value is marked on exit and its type\'s gcmark hook is called exactly once with (data, size); a marked one is left alone; a threaded abstract is '
     'recorded as visited in janet_vm.threaded_abstracts (key = the value, value = true) instead',
     'gc_mark_abstract.c', 'h_mark_abstract', nanbox=False, link=['wrap.c'],
     enforce=['janet_mark_abstract/janet_mark_abstract_spec'], replace=['janet_table_put/janet_table_put_c'], functions=['janet_mark_abstract'],
     assumes=['janet_table_put ' + REC, 'the only gcmark hook of the unit is the recording hook vc_gcmark', 'JANET_NO_NANBOX configuration of the same sources'],
     mutants=[dict(name='hook-gets-head', file='gc.c', find='janet_abstract_head(adata)->type->gcmark(adata, janet_abstract_size(adata));', replace='janet_abstract_head(adata)->type->gcmark(janet_abstract_head(adata), janet_abstract_size(adata));', expect='postcondition'),
              dict(name='threaded-not-recorded', file='gc.c', find='        janet_table_put(&janet_vm.threaded_abstracts, janet_wrap_abstract(adata), janet_wrap_true());\n', replace='', expect='postcondition'),
              dict(name='no-mark', file='gc.c', find='    janet_gc_mark(janet_abstract_head(adata));\n', replace='', expect='postcondition')])
unit('gc.mark.string', 'janet_mark_string marks the header of the string/symbol/keyword and writes nothing else',
     'gc_mark_leaf.c', 'h_mark_string', enforce=['janet_mark_string/janet_mark_string_spec'], functions=['janet_mark_string'],
     mutants=[dict(name='no-mark', file='gc.c', find='    janet_gc_mark(janet_string_head(str));', replace='    (void) janet_string_head(str);', expect='postcondition')])
unit('gc.mark.buffer', 'janet_mark_buffer marks the header of the buffer and writes nothing else',
     'gc_mark_leaf.c', 'h_mark_buffer', enforce=['janet_mark_buffer/janet_mark_buffer_spec'], functions=['janet_mark_buffer'],
     mutants=[dict(name='no-mark', file='gc.c', find='    janet_gc_mark(buffer);', replace='    (void) buffer;', expect='postcondition')])

