#!/usr/bin/env python3
"""C11 (C-level part): contracts on src/core/parse.c.  Writes /verif/units/C11.json.

Groups: queries (status/has_more/produce), clone, byte-at-a-time core (line/column/lookback), token level
(valid_utf8, to_hex, checkescape, symbol chars), consumers (wf_parser preservation + line/column frame)."""
import json, os, re
V = os.path.dirname(os.path.dirname(os.path.abspath(__file__)))
STD = ["bounds-check", "pointer-check", "signed-overflow-check", "div-by-zero-check"]
units = []


def unit(id, clause, entry, harness, cls="proved", tier="quick", mode="dfcc", checks=STD, timeout=300, **kw):
    u = {"id": id, "props": ["C11"], "tier": tier, "class": cls, "clause": clause, "src": ["parse.c"], "harness": harness,
         "entry": entry, "mode": mode, "checks": checks, "timeout": timeout}
    u.update(kw)
    units.append(u)
    return u


# ---------------------------------------------------------------------------------------------------------- queries
unit("parse.status", "janet_parser_status assigns nothing and returns error > dead > pending > root as a function of (error, flag, statecount)",
     "h_status", ["parse_query.c"], enforce=["janet_parser_status/janet_parser_status_c"],
     mutants=[dict(name="status-clears-error", file="parse.c", find="    if (parser->error) return JANET_PARSE_ERROR;",
                   replace="    if (parser->error) { parser->error = NULL; return JANET_PARSE_ERROR; }", expect="assigns"),
              dict(name="pending-off-by-one", file="parse.c", find="if (parser->statecount > 1) return JANET_PARSE_PENDING;",
                   replace="if (parser->statecount >= 1) return JANET_PARSE_PENDING;", expect="postcondition")])
unit("parse.has_more", "janet_parser_has_more assigns nothing and returns pending != 0",
     "h_has_more", ["parse_query.c"], enforce=["janet_parser_has_more/janet_parser_has_more_c"],
     mutants=[dict(name="has-more-consumes", file="parse.c", find="    return !!parser->pending;", replace="    return !!parser->pending--;", expect="assigns"),
              dict(name="has-more-argcount", file="parse.c", find="    return !!parser->pending;", replace="    return !!parser->argcount;", expect="postcondition")])

SHIFT_INV = ("i >= 1 && i <= parser->argcount"
             " && ((g_k >= 1 && g_k < i) ==> (parser->args[g_k - 1].type == g_old.type && parser->args[g_k - 1].as.u64 == g_old.as.u64))"
             " && (g_k >= i ==> (parser->args[g_k].type == g_old.type && parser->args[g_k].as.u64 == g_old.as.u64))")
HEAD = {"janet_parser_produce": "    ret = janet_unwrap_tuple(parser->args[0])[0];", "janet_parser_produce_wrapped": "    ret = parser->args[0];"}
for fn, h in (("janet_parser_produce_wrapped", "h_produce_wrapped"), ("janet_parser_produce", "h_produce")):
    unit("parse." + fn[len("janet_parser_"):],
         fn + " dequeues exactly one value: returns the old head, the rest of the queue shifts down by one (ghost index), pending/argcount/root argn drop by one, "
         "every other parser field and the state/buffer stacks are outside the frame; with an empty queue it returns nil and changes nothing; any queue length",
         h, ["parse_produce.c"], nanbox=False, link=["wrap.c"], enforce=["%s/%s_c" % (fn, fn)],
         loops={fn: [dict(loop_id="0", invariants=SHIFT_INV, assigns="i, __CPROVER_object_whole(parser->args)",
                          decreases="parser->argcount - i", symbol_map="i,%s::1::i;parser,%s::parser" % (fn, fn))]},
         loop_counts={fn: 1},
         assumes=["representation invariant of the parser queue as precondition: states[0].argn == pending <= argcount <= argcap, args/states allocated with their capacities"
                  + ("; the head of the queue is a 1-tuple (as built by popstate)" if fn.endswith("produce") else "")],
         mutants=[dict(name="shift-from-2", file="parse.c", find=HEAD[fn] + "\n    for (i = 1; i < parser->argcount; i++) {",
                       replace=HEAD[fn] + "\n    for (i = 2; i < parser->argcount; i++) {", expect="loop_invariant|postcondition"),
                  dict(name="pending-not-decremented", file="parse.c", regex=True, find="(" + re.escape(HEAD[fn]) + ".*?)    parser->pending--;\n",
                       replace="\\1", expect="postcondition")])


# ------------------------------------------------------------------------------------------------------------ clone
def mut_drop(field):
    return dict(name="clone-drops-" + field, file="parse.c", find="    dest->%s = src->%s;\n" % (field, field), replace="", expect="postcondition")
unit("parse.clone", "janet_parser_clone: the clone equals the source in every scalar field of struct JanetParser (cross-checked against the struct size) and "
     "byte-for-byte in buf[0..bufcount), args[0..argcount), states[0..statecount) (ghost index); it owns fresh storage; the source is not written; any stack sizes",
     "h_clone", ["parse_clone.c"], enforce=["janet_parser_clone/janet_parser_clone_c"], replace=["memcpy/memcpy_c"],
     assumes=["memcpy is replaced by the assumed contract memcpy_c (r/w safety required; copies the byte at the ghost offset; frame = destination bytes [0,n))",
              "malloc does not fail (CBMC default); representation invariant of the source as precondition (counts <= capacities, stacks allocated with their capacities)"],
     mutants=[mut_drop("lookback"), mut_drop("column"), mut_drop("error"),
              dict(name="clone-shallow-buf", file="parse.c", find="        memcpy(dest->buf, src->buf, dest->bufcap);", replace="        dest->buf = src->buf;", expect="postcondition")])


# ------------------------------------------------------------------------------------------------------ token level
unit("parse.to_hex", "to_hex returns the value of a hexadecimal digit (either case) and -1 for every other byte; all 256 bytes",
     "h_to_hex", ["parse_token.c"], enforce=["to_hex/to_hex_c"],
     mutants=[dict(name="hex-upper-G", file="parse.c", find="} else if (c >= 'A' && c <= 'F') {", replace="} else if (c >= 'A' && c <= 'G') {", expect="postcondition"),
              dict(name="hex-lower-base", file="parse.c", find="        return 10 + c - 'a';", replace="        return c - 'a';", expect="postcondition")])
unit("parse.checkescape", "checkescape is exactly the escape table of string literals (14 one-byte escapes, x/u/U announce hex digits, everything else rejected); all 256 bytes",
     "h_checkescape", ["parse_token.c"], enforce=["checkescape/checkescape_c"],
     mutants=[dict(name="escape-e-is-26", file="parse.c", find="            return 27;", replace="            return 26;", expect="postcondition"),
              dict(name="escape-v-is-tab", file="parse.c", find="        case 'v':\n            return '\\v';", replace="        case 'v':\n            return '\\t';", expect="postcondition")])
unit("parse.symchar", "janet_is_symbol_char is exactly the documented symbol alphabet (alphanumerics, !$%&*+-./:<=>?@^_, bytes >= 0x80), "
     "disjoint from the whitespace class; all 256 bytes",
     "h_symchar", ["parse_token.c"], enforce=["janet_is_symbol_char/janet_is_symbol_char_c"],
     mutants=[dict(name="symchars-bit-flip", file="parse.c", find="0x00000000, 0xf7ffec72, 0xc7ffffff, 0x07fffffe,", replace="0x00000000, 0xf7ffec73, 0xc7ffffff, 0x07fffffe,", expect="postcondition|whitespace"),
              dict(name="symchar-shift-mask", file="parse.c", find="((uint32_t)1 << (c & 0x1F))", replace="((uint32_t)1 << (c & 0x0F))", expect="postcondition")])
unit("parse.whitespace", "is_whitespace is exactly {space,\\t,\\n,\\r,\\0,\\v,\\f}; all 256 bytes",
     "h_whitespace", ["parse_token.c"], enforce=["is_whitespace/is_whitespace_c"],
     mutants=[dict(name="whitespace-drops-cr", file="parse.c", find="           || c == '\\r'\n", replace="", expect="postcondition")])


UTF8_MUT = [dict(name="utf8-trailing-bound", file="parse.c", find="        if (nexti > len) return 0;", replace="        if (nexti > len + 1) return 0;", expect="pointer_dereference|postcondition|loop_invariant|C11"),
            dict(name="utf8-overlong-c1", file="parse.c", find="if ((nexti == i + 2) && str[i] < 0xC2) return 0;", replace="if ((nexti == i + 2) && str[i] < 0xC1) return 0;", expect="postcondition|loop_invariant|C11"),
            dict(name="utf8-cont-mask", file="parse.c", find="if ((str[j] >> 6) != 2) return 0;", replace="if ((str[j] >> 7) != 1) return 0;", expect="postcondition|loop_invariant|C11")]
unit("parse.valid_utf8", "janet_valid_utf8 never reads outside str[0..len) and accepts only strings in which every position (ghost index) lies in a well-formed "
     "shortest-form 1-4 byte sequence; any length up to 2^31-5",
     "h_valid_utf8", ["parse_utf8.c"], enforce=["janet_valid_utf8/janet_valid_utf8_c"], loop_macros="parse_utf8.h",
     loops={"janet_valid_utf8": [
         dict(loop_id="0", invariants="U_INNER_INV", assigns="j", decreases="nexti - j",
              symbol_map="i,janet_valid_utf8::1::i;j,janet_valid_utf8::1::j;nexti,janet_valid_utf8::1::1::nexti;str,janet_valid_utf8::str;len,janet_valid_utf8::len"),
         dict(loop_id="1", invariants="U_OUTER_INV", assigns="i, j", decreases="len - i",
              symbol_map="i,janet_valid_utf8::1::i;j,janet_valid_utf8::1::j;str,janet_valid_utf8::str;len,janet_valid_utf8::len")]},
     loop_counts={"janet_valid_utf8": 2}, mutants=UTF8_MUT)
unit("parse.valid_utf8.exact", "janet_valid_utf8 agrees with an independent reference recogniser (accepts exactly well-formed shortest-form sequences) on every byte string",
     "h_valid_utf8_exact", ["parse_utf8.c"], cls="bounded", bound="strings of at most 5 bytes (all 256^5 contents, every length 0..5)", mode="plain",
     unwind=7, functions=["janet_valid_utf8"], mutants=UTF8_MUT[1:] + [dict(name="utf8-accepts-f8", file="parse.c", find="else if ((c >> 3) == 0x1E) nexti = i + 4;", replace="else if ((c >> 3) >= 0x1E) nexti = i + 4;", expect="C11")])


unit("parse.escape_roundtrip", "for every byte: what the %j string printer (janet_escape_string_impl) emits for it is accepted by the real string-literal consumers "
     "(stringchar/escape1/escapeh via janet_parser_consume) and denotes exactly that byte, leaving the parser inside the literal",
     "h_escape_roundtrip", ["parse_escape_rt.c"], cls="full-domain", mode="plain", src=["pp.c", "parse.c"], link=["util.c"], link_keep={"util.c": ["janet_cstrcmp"]},
     replace_calls=["janet_buffer_push_u8:push_u8_stub", "janet_buffer_push_bytes:push_bytes_stub", "realloc:realloc_stub"], unwind=8, unwindset={"janet_parser_consume.0": 2}, timeout=300,
     functions=["janet_escape_string_impl", "janet_parser_consume", "stringchar", "escape1", "escapeh", "checkescape", "to_hex", "push_buf"],
     assumes=["janet_buffer_push_u8/push_bytes append exactly the given bytes (recording contract; the buffer functions are proved under C04)"],
     mutants=[dict(name="printer-escape-e-as-x", file="pp.c", find='janet_buffer_push_bytes(buffer, (const uint8_t *)"\\\\e", 2);', replace='janet_buffer_push_bytes(buffer, (const uint8_t *)"\\\\q", 2);', expect="C11"),
              dict(name="printer-raw-quote", file="pp.c", find="            case '\"':\n                janet_buffer_push_bytes", replace="            case '\\'':\n                janet_buffer_push_bytes", expect="C11"),
              dict(name="parser-escape-a-is-8", file="parse.c", find="            return '\\a';", replace="            return '\\b';", expect="C11"),
              dict(name="parser-hex-nibble-shift", file="parse.c", find="    state->argn = (state->argn << 4) + digit;\n    state->counter--;\n    if (!state->counter) {\n        push_buf(p, (uint8_t)(state->argn & 0xFF));",
                   replace="    state->argn = (state->argn << 3) + digit;\n    state->counter--;\n    if (!state->counter) {\n        push_buf(p, (uint8_t)(state->argn & 0xFF));", expect="C11")])


# ------------------------------------------------------------------------------------------- byte-at-a-time core
CONSUMERS = ["root", "tokenchar", "comment", "stringchar", "escape1", "escapeh", "escapeu", "longstring", "atsign"]
unit("parse.consume.linecol", "janet_parser_consume updates (line, column, lookback) as the stated function of (byte, lookback): CR -> line+1, col 0; LF -> col 0 and line+1 "
     "unless lookback is CR (CRLF is one break, also across calls); other -> col+1; lookback' = byte - for every parser state and whatever the consumers do within their frame",
     "h_consume", ["parse_consume.c"], mode="plain", cls="bounded", bound="at most 3 consumer dispatches per byte, each from an arbitrary (havocked) parser state",
     unwind=4, unwinding_assertions=False, functions=["janet_parser_consume", "janet_parser_checkdead"],
     remove_bodies="|".join(CONSUMERS), genbody="(janet_|nd_).*|" + "|".join(CONSUMERS),
     assumes=["every Consumer reached through state->consumer satisfies the frame contract h_frame_consumer: it writes no parser field other than args, error, states, buf, the six "
              "counts/capacities, pending and flag (in particular not line/column/lookback) and keeps 1 <= statecount; proved for the real consumers in units parse.consumer.*",
              "termination of the dispatch loop is not claimed (partial correctness)"],
     mutants=[dict(name="crlf-double-count", file="parse.c", find="        if (parser->lookback != '\\r')\n            parser->line++;", replace="        parser->line++;", expect="C11"),
              dict(name="lookback-not-updated", file="parse.c", find="    parser->lookback = c;\n", replace="", expect="C11"),
              dict(name="cr-keeps-column", file="parse.c", find="        parser->line++;\n        parser->column = 0;\n    } else if (c == '\\n') {", replace="        parser->line++;\n    } else if (c == '\\n') {", expect="C11")])


# ---------------------------------------------------------------------------------------------------- wf_parser
FLUSH_DEFECT = ("GENUINE DEFECT (reproduced): janet_parser_flush (and janet_parser_error, which calls it) resets argcount/pending/statecount/bufcount but not states[0].argn, "
                "so the invariant sum(argn of container states) == argcount is broken whenever root values were still queued. parser_state_frames then computes "
                "args = p->args + argcount - argn, i.e. a pointer BEFORE the args array, and janet_wrap_parse_state reads argn values from there. "
                "Obligation janet_parser_flush_c.postcondition.2 (states[0].argn == argcount) fails; counterexample: pending = argn = argcount = 1. "
                "Reproducer (garbage heap contents are printed as values): (def p (parser/new)) (parser/consume p \"1 2 3 \") (parser/flush p) (pp (parser/state p :frames)); "
                "crash (SIGSEGV, exit 139): (def p (parser/new)) (parser/consume p (string/repeat \"1 \" 3000000)) (parser/flush p) (parser/state p :frames). "
                "Same through (parser/error p) after a parse error with values queued. Fix: parser->states[0].argn = 0; in janet_parser_flush.")
u = unit("parse.flush.wf", "janet_parser_flush leaves a well-formed parser: empty stacks, one state, and the root container owns no queued argument (sum of argn == argcount), "
     "so that later queries (parser/state, produce) stay inside the args stack - never a crash",
     "h_flush", ["parse_flush.c"], tier="thorough", enforce=["janet_parser_flush/janet_parser_flush_c"],
     mutants=[dict(name="flush-keeps-pending", file="parse.c", find="    parser->bufcount = 0;\n    parser->pending = 0;\n", replace="    parser->bufcount = 0;\n", expect="postcondition")])
u["tier"] = "quick"   # the defect it found was repaired in /repo (e2ad04e); see known_findings.json
u["mutants"].append(dict(name="flush-keeps-root-argn", file="parse.c", find="    parser->states[0].argn = 0;\n", replace="", expect="postcondition"))


CONS_STUBS = ["realloc:realloc_stub", "janet_tuple_begin:tuple_begin_stub", "janet_tuple_end:tuple_end_stub", "janet_tuple_n:tuple_n_stub", "janet_array:array_stub",
              "janet_buffer:buffer_stub", "janet_string:string_stub", "janet_symbol:symbol_stub", "janet_buffer_push_bytes:push_bytes_stub",
              "janet_scan_numeric:scan_numeric_stub", "janet_scan_number:scan_number_stub"]
CONS_MUT = {
 "comment": [dict(name="comment-pops-twice", file="parse.c", find="    if (c == '\\n') {\n        p->statecount--;", replace="    if (c == '\\n') {\n        p->statecount -= 2;", expect="C11")],
 "escape1": [dict(name="escape-u-counts-8", file="parse.c", find="state->counter = c == 'u' ? 4 : 6;", replace="state->counter = c == 'u' ? 4 : 8;", expect="C11")],
 "escapeh": [dict(name="hex-digit-unchecked", file="parse.c", find='    if (digit < 0) {\n        p->error = "invalid hex digit in hex escape";\n        return 1;\n    }\n', replace="", expect="C11")],
 "escapeu": [dict(name="unicode-digit-unchecked", file="parse.c", find='    if (digit < 0) {\n        p->error = "invalid hex digit in unicode escape";\n        return 1;\n    }\n', replace="", expect="C11")],
 "stringchar": [dict(name="backslash-enters-hex-state", file="parse.c", find="    if (c == '\\\\') {\n        state->consumer = escape1;", replace="    if (c == '\\\\') {\n        state->consumer = escapeh;", expect="C11")],
 "longstring": [dict(name="end-candidate-keeps-instring", file="parse.c", find="            state->flags |= PFLAG_END_CANDIDATE;\n            state->flags &= ~PFLAG_INSTRING;\n", replace="            state->flags |= PFLAG_END_CANDIDATE;\n", expect="C11")],
 "atsign": [dict(name="atsign-no-pop", file="parse.c", find="    (void) state;\n    p->statecount--;\n    switch (c) {", replace="    (void) state;\n    switch (c) {", expect="C11")],
 "tokenchar": [dict(name="token-keeps-buffer", file="parse.c", find="    p->bufcount = 0;\n    popstate(p, ret);\n    return 0;", replace="    popstate(p, ret);\n    return 0;", expect="C11")],
 "root": [dict(name="close-at-root-unchecked", file="parse.c", find="            if (p->statecount == 1) {\n                delim_error(p, 0, c,", replace="            if (p->statecount == 0) {\n                delim_error(p, 0, c,", expect="C11|pointer|bounds"),
          dict(name="close-tuple-leaves-arg", file="parse.c", find="    for (int32_t i = state->argn - 1; i >= 0; i--)\n        ret[i] = p->args[--p->argcount];", replace="    for (int32_t i = state->argn - 1; i > 0; i--)\n        ret[i] = p->args[--p->argcount];", expect="C11")],
}
# root on closing delimiters (close_tuple/array/struct/table + popstate + delim_error; harness h_consumer_root_close exists) did not finish within the
# 10 min cap even with capacities 2 - not delivered
CONS_UNITS = [(c, c, {}) for c in CONSUMERS if c != "root"] + [("root_open", "root", {"tier": "thorough", "timeout": 600})]
CONS_MUT["root_open"] = [dict(name="unexpected-char-accepted", file="parse.c", find='                p->error = "unexpected character";\n                return 1;\n', replace="", expect="C11")]
CONS_MUT["root_close"] = CONS_MUT["root"]
FIXEDCAP = ("longstring", "root_open", "root_close", "tokenchar", "escapeu", "stringchar", "atsign")
for hname, cname, extra in CONS_UNITS:
    fixed = hname in FIXEDCAP
    kw = dict(nanbox=False, link=["wrap.c"], unwind=8, timeout=300, replace_calls=list(CONS_STUBS),
              functions=[cname, "pushstate", "popstate", "push_buf", "push_arg", "_pushstate"], mutants=CONS_MUT[hname],
              assumes=["allocation entry points (janet_tuple_begin/_n, janet_array, janet_buffer) return fresh valid objects of the requested size; janet_string/janet_symbol/number scanners "
                       "only read the range they are given (asserted at the call); realloc is modelled as a typed copy into a fresh object and does not fail",
                       "wf_parser of the input state as listed in the harness (W1-W5)"])
    if cname in ("stringchar", "longstring"):
        kw["replace_calls"].append("stringend:stringend_stub")
        kw["assumes"].append("stringend is replaced by stringend_stub: its state-stack effect (bufcount = 0, real popstate of a string/buffer value) is kept, the in-place "
                             "re-indentation of the token buffer is cut out (not covered by any C11 unit)")
    kw.update(extra)
    bound = ("nesting <= 3 (at most 4 parser states), token buffer capacity %s, args capacity %s, backtick runs <= 3; all loops fully unwound (unwinding assertions on)"
             % (("== 5 (count 0..5)", "== 4 (count 0..4)") if fixed else ("<= 5", "<= 4")))
    if hname == "root_close":
        bound = bound.replace("== 5 (count 0..5)", "== 2 (count 0..2)").replace("== 4 (count 0..4)", "== 2 (count 0..2)")
    unit("parse.consumer." + hname, "the Consumer `%s`%s preserves wf_parser (stack counts <= capacities, statecount >= 1, root container at index 0, only root-dispatched states below "
         "the top, sum of container argn == argcount, local counter ranges, no stale token bytes), is memory safe, and writes none of line/column/lookback/flag - for every byte and "
         "every well-formed state" % (cname, {"root_open": " (bytes other than closing delimiters)", "root_close": " (closing delimiters)"}.get(hname, "")),
         "h_consumer_" + hname, ["parse_consumers_fixedcap.c" if fixed else "parse_consumers.c"], mode="plain", cls="bounded", bound=bound, **kw)

json.dump({"units": units}, open(os.path.join(V, "units", "C11.json"), "w"), indent=1)
print("wrote %d units" % len(units))
