#!/usr/bin/env python3
"""C05: single-instruction contracts on the real interpreter loop run_vm (harness/vm_step.c)."""
import json, os
V = os.path.dirname(os.path.dirname(os.path.abspath(__file__)))
BOUND = ("one Janet frame of 5 slots; the operand registers are enumerated over every aliasing pattern (destination/fiber/value equal or distinct), "
         "because the instruction word must be concrete for CBMC to resolve instruction dispatch; run_vm is compiled in its portable switch-dispatch configuration (vm.c:56-73; same opcode bodies, CBMC does not resolve the GCC computed gotos); stack contents, the child's mask and status, "
         "the signal and value the child produces, auto-suspend and GC counters are unconstrained")
common = dict(props=["C05"], tier="quick", **{"class": "bounded"}, bound=BOUND, src=["vm.c"], link=["fiber.c"], link_keep={"fiber.c": ["janet_fiber_status"]},
  harness=["vm_step.c"], pre=["vm_switch_pre.h"], mode="plain", nanbox=False,
  replace_calls=["janet_check_can_resume:vs_check_can_resume_stub", "janet_continue_no_check:vs_continue_no_check_stub", "janet_continue_signal:vs_continue_signal_stub", "janet_collect:vs_collect_stub"],
  functions=["run_vm"], checks=["bounds-check", "pointer-check", "signed-overflow-check"], unwind=7, unwinding_assertions=True, timeout=300,
  assumes=["janet_check_can_resume answers without touching the parent (its own contract is proved in fib.check_can_resume)",
           "running the child (janet_continue_no_check / janet_continue_signal) yields any (signal, value) pair and does not write the parent's frame; its protocol is proved in fib.continue.*",
           "janet_collect does not move the stack",
           "run_vm is entered the way the debugger single-steps (RESUME_NO_USEVAL|RESUME_NO_SKIP) and stopped by a breakpoint word after the instruction"],
  undecided_clauses=["the obligation count includes the (trivially discharged) checks of the opcode bodies that the one-instruction program cannot reach"])
RES_TAIL = "        stack = fiber->data + fiber->frame;\n        stack[A] = retreg;\n        vm_checkgc_pcnext();\n    }\n\n    VM_OP(%s)"
def drop_unchain(nextop):
    return {"name": "child-not-unchained", "file": "vm.c", "find": "        fiber->child = NULL;\n" + RES_TAIL % nextop, "replace": RES_TAIL % nextop, "expect": "unchained"}
units = []
def U(**k):
    u = dict(common); u.update(k); units.append(u)
U(id="vm.step.resume", entry="h_vm_resume",
  clause="resume instruction (vm.c JOP_RESUME): the child is run only if eligible, with the value operand unchanged and chained to its parent; a signal the child's mask accepts (or normal return) is delivered here - "
         "value unchanged into the destination slot, child unchained, next instruction - and any other signal leaves this fiber with the same number and value, child still chained; no other slot and no frame header changes",
  mutants=[drop_unchain("JOP_SIGNAL"),
    {"name": "mask-test-off-by-one", "file": "vm.c", "find": "        JanetSignal sig = janet_continue_no_check(child, stack[C], &retreg);\n        if (sig != JANET_SIGNAL_OK && !(child->flags & (1 << sig))) {", "replace": "        JanetSignal sig = janet_continue_no_check(child, stack[C], &retreg);\n        if (sig != JANET_SIGNAL_OK && !(child->flags & (2 << sig))) {", "expect": "mask|trapped|passed on|same signal"},
    {"name": "value-from-wrong-slot", "file": "vm.c", "find": "janet_continue_no_check(child, stack[C], &retreg);", "replace": "janet_continue_no_check(child, stack[B], &retreg);", "expect": "value operand"},
    {"name": "child-not-chained", "file": "vm.c", "find": "        fiber->child = child;\n        JanetSignal sig = janet_continue_no_check(", "replace": "        JanetSignal sig = janet_continue_no_check(", "expect": "chained"}])
U(id="vm.step.cancel", entry="h_vm_resume", defines=["-DVS_CANCEL"],
  clause="cancel instruction (vm.c JOP_CANCEL): as resume, with the value delivered to the child as an error; after a trapped cancellation the child is unchained",
  mutants=[drop_unchain("JOP_PUT"),
    {"name": "cancel-as-plain-resume", "file": "vm.c", "find": "janet_continue_signal(child, stack[C], &retreg, JANET_SIGNAL_ERROR);", "replace": "janet_continue_signal(child, stack[C], &retreg, JANET_SIGNAL_OK);", "expect": "as an error"}])
U(id="vm.step.signal", entry="h_vm_signal",
  clause="signal instruction (vm.c JOP_SIGNAL): leaves the fiber with exactly the requested signal number (clamped to user9) and the value operand unchanged, frame committed, nothing else touched",
  mutants=[{"name": "clamp-one-short", "file": "vm.c", "find": "        if (s > JANET_SIGNAL_USER9) s = JANET_SIGNAL_USER9;", "replace": "        if (s >= JANET_SIGNAL_USER9) s = JANET_SIGNAL_USER8;", "expect": "requested signal|clamped"},
           {"name": "value-from-dest", "file": "vm.c", "find": "        vm_return(s, stack[B]);", "replace": "        vm_return(s, stack[A]);", "expect": "signalled value"}])
U(id="vm.step.propagate", entry="h_vm_propagate",
  clause="propagate instruction (vm.c JOP_PROPAGATE): re-raises exactly the signal the given fiber stopped with, with the value operand unchanged, chains that fiber as the child so that a later resume continues it, "
         "refuses fibers that are alive or new, and leaves the child's status untouched",
  mutants=[{"name": "no-chain", "file": "vm.c", "find": "        fiber->child = f;\n        vm_return((int) sub_status, stack[B]);", "replace": "        vm_return((int) sub_status, stack[B]);", "expect": "chained as the child"},
           {"name": "status-guard-dropped", "file": "vm.c", "find": "        if (sub_status > JANET_STATUS_USER9) {\n            vm_commit();\n            janet_panicf(\"cannot propagate", "replace": "        if (sub_status > JANET_STATUS_NEW) {\n            vm_commit();\n            janet_panicf(\"cannot propagate", "expect": "stopped by a signal"}])
json.dump({"units": units}, open(os.path.join(V, 'units', 'C05_vm.json'), 'w'), indent=1)
print('%d units' % len(units))
