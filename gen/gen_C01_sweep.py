#!/usr/bin/env python3
"""C01 (mechanism level, second half): the FREE side of gc.c -> units/C01_sweep.json.

  janet_sweep            main heap list, weak heap (weak arrays / weak tables), threaded abstracts
  janet_deinit_block     one unit per memory type: exactly the side allocations the type owns
  janet_gcalloc, janet_gcpressure
  scratch memory         janet_smalloc / janet_srealloc / janet_sfree / janet_free_all_scratch
  janet_collect          epilogue (mark-phase flag, gc_interval heuristic, next_collection, scratch) - the root pass is unit gc.collect.roots

All units are plain mode: callees are replaced by recording stubs (`replace_calls`), the stub of free() attributes every
call to a ghost-known block and then really deallocates it, so "freed exactly once" is a counter and "not used after free"
is a pointer check.  List lengths are bounded (stated per unit)."""
import json, os
V = os.path.dirname(os.path.dirname(os.path.abspath(__file__)))
U = []
CHK = ['bounds-check', 'pointer-check', 'signed-overflow-check']
ONLY = r'^\S+ (C01|REACH)|dereference failure|unwinding assertion|array.* bounds|overflow'


def unit(id, clause, harness, entry, cls='bounded', **kw):
    u = {'id': id, 'props': ['C01'], 'tier': kw.pop('tier', 'quick'), 'class': cls, 'clause': clause,
         'src': kw.pop('src', ['gc.c']), 'harness': harness if isinstance(harness, list) else [harness], 'entry': entry,
         'mode': 'plain', 'timeout': kw.pop('timeout', 200), 'checks': kw.pop('checks', CHK)}
    u.update(kw)
    assert u.get('mutants'), id
    assert cls != 'bounded' or u.get('bound'), id
    U.append(u)
    return u


def M(name, find, replace, expect, file='gc.c', **kw):
    d = dict(name=name, file=file, find=find, replace=replace, expect=expect)
    d.update(kw)
    return d


FREE_STUB = 'free is replaced by a recording stub: the call is attributed to a block known to the harness, counted, and the block is then really deallocated (later accesses are pointer-check failures)'

# ---------------------------------------------------------------------------------------------------------------------
# janet_sweep: main heap
SWEEP_MAIN_LOOP = ('    previous = NULL;\n    current = janet_vm.blocks;\n    while (NULL != current) {\n        next = current->data.next;\n'
                   '        if (current->flags & (JANET_MEM_REACHABLE | JANET_MEM_DISABLED)) {\n            previous = current;\n            current->flags &= ~JANET_MEM_REACHABLE;\n'
                   '        } else {\n            janet_vm.block_count--;\n            janet_deinit_block(current);\n            if (NULL != previous) {\n                previous->data.next = next;\n'
                   '            } else {\n                janet_vm.blocks = next;\n            }\n            janet_free(current);\n        }\n        current = next;\n    }\n')
unit('gc2.sweep.main',
     'janet_sweep on the main heap: a block whose REACHABLE or DISABLED flag is set survives (no finaliser, no free), stays in the list in the old order and keeps its flag word '
     'with only the reachable bit cleared; every other block is handed to janet_deinit_block exactly once and then freed exactly once, and is not read afterwards; '
     'the list ends after the last survivor; block_count is the number of survivors',
     'gc2_sweep.c', 'h_sweep_main',
     bound='heap lists of at most 3 blocks, every 32-bit flag word per block; unwind 5 with unwinding assertions',
     unwind=5, functions=['janet_sweep'],
     replace_calls=['janet_deinit_block:sw_deinit_stub', 'free:sw_free_stub'],
     assumes=['janet_deinit_block is replaced by a recording stub (its per-type behaviour: units gc2.deinit.*)', FREE_STUB,
              'weak list and threaded-abstract table are empty (units gc2.sweep.weak.*, gc2.sweep.threaded)'],
     mutants=[M('disabled-blocks-freed', SWEEP_MAIN_LOOP, SWEEP_MAIN_LOOP.replace('(JANET_MEM_REACHABLE | JANET_MEM_DISABLED)', 'JANET_MEM_REACHABLE'), 'C01 sweep'),
              M('colour-not-reset', SWEEP_MAIN_LOOP, SWEEP_MAIN_LOOP.replace('            current->flags &= ~JANET_MEM_REACHABLE;\n', ''), 'C01 sweep'),
              M('all-flags-cleared', SWEEP_MAIN_LOOP, SWEEP_MAIN_LOOP.replace('current->flags &= ~JANET_MEM_REACHABLE;', 'current->flags &= JANET_MEM_TYPEBITS;'), 'C01 sweep'),
              M('previous-not-advanced', SWEEP_MAIN_LOOP, SWEEP_MAIN_LOOP.replace('            previous = current;\n', ''), 'C01 sweep|dereference'),
              M('head-not-unlinked', SWEEP_MAIN_LOOP, SWEEP_MAIN_LOOP.replace('                janet_vm.blocks = next;\n', '                ;\n'), 'C01 sweep|dereference'),
              M('no-finaliser', SWEEP_MAIN_LOOP, SWEEP_MAIN_LOOP.replace('            janet_deinit_block(current);\n', ''), 'C01 sweep'),
              M('next-read-after-free', SWEEP_MAIN_LOOP, SWEEP_MAIN_LOOP.replace('        current = next;\n    }\n', '        current = current->data.next;\n    }\n'), 'dereference|C01 sweep'),
              M('count-not-updated', SWEEP_MAIN_LOOP, SWEEP_MAIN_LOOP.replace('            janet_vm.block_count--;\n', ''), 'C01 sweep')])

# janet_sweep + real janet_deinit_block (composition)
unit('gc2.sweep.real_deinit',
     'janet_sweep with the real janet_deinit_block on a heap of an array and a table (with a prototype outside the list): an unmarked block loses its side allocation exactly once, before '
     'the block itself is freed exactly once; a marked or collection-disabled block and its storage are untouched and stay linked; the prototype of a dead table is never freed',
     'gc2_sweep_real.c', 'h_sweep_real', bound='heap list array -> table, every flag word; unwind 8 with unwinding assertions', unwind=8,
     functions=['janet_sweep', 'janet_deinit_block'], replace_calls=['free:sr_free_stub'], assumes=[FREE_STUB, 'weak list and threaded-abstract table are empty'],
     mutants=[M('block-freed-before-its-storage', '            janet_vm.block_count--;\n            janet_deinit_block(current);\n            if (NULL != previous) {\n                previous->data.next = next;\n            } else {\n                janet_vm.blocks = next;\n            }\n            janet_free(current);',
                '            janet_vm.block_count--;\n            janet_free(current);\n            janet_deinit_block(current);\n            if (NULL != previous) {\n                previous->data.next = next;\n            } else {\n                janet_vm.blocks = next;\n            }', 'C01 sweep\\+deinit|dereference'),
              M('table-storage-leaked', '        case JANET_MEMORY_TABLE:\n        case JANET_MEMORY_TABLE_WEAKK:', '        case JANET_MEMORY_TABLE_WEAKK:', 'C01 sweep\\+deinit'),
              M('prototype-freed', '            janet_free(((JanetTable *) mem)->data);\n', '            janet_free(((JanetTable *) mem)->data);\n            janet_free(((JanetTable *) mem)->proto);\n', 'C01 sweep\\+deinit')])

# ---------------------------------------------------------------------------------------------------------------------
# janet_sweep: weak heap
WEAK_ARR = ('                for (uint32_t i = 0; i < (uint32_t) array->count; i++) {\n                    if (!janet_check_liveref(array->data[i])) {\n'
            '                        array->data[i] = janet_wrap_nil();\n                    }\n                }\n')
WEAK_TAB = ('                    if (check_keys && !janet_check_liveref(kvs->key)) drop = 1;\n                    if (check_values && !janet_check_liveref(kvs->value)) drop = 1;\n')
WEAK_FREE = ('    previous = NULL;\n    current = janet_vm.weak_blocks;\n    while (NULL != current) {\n        next = current->data.next;\n'
             '        if (current->flags & (JANET_MEM_REACHABLE | JANET_MEM_DISABLED)) {\n            previous = current;\n            current->flags &= ~JANET_MEM_REACHABLE;\n')
WEAK_CLAUSE = ('janet_sweep on the weak heap (%s): a surviving weak array replaces by nil exactly the elements below count whose referent was not marked; a surviving weak table turns into '
               'a tombstone exactly the buckets whose weakly held key / value was not marked (count-1, deleted+1 each), everything else is bit-for-bit unchanged; the mark bits are read '
               'before any block is freed and no remaining weak entry refers to a freed block; unmarked weak containers are finalised and freed exactly once; survivors stay linked in order '
               'with the reachable bit cleared; block_count is the number of survivors of both heaps')
WEAK_MUT_A = [M('weak-array-last-element-skipped', WEAK_ARR, WEAK_ARR.replace('i < (uint32_t) array->count', 'i + 1 < (uint32_t) array->count'), 'C01 weak'),
              M('weak-array-not-cleaned', WEAK_ARR, WEAK_ARR.replace('if (!janet_check_liveref(array->data[i]))', 'if (0)'), 'C01 weak'),
              M('liveref-ignores-tuples', '        case JANET_TUPLE:\n            return janet_gc_reachable(janet_tuple_head(janet_unwrap_tuple(x)));\n', '', 'C01 weak'),
              M('liveref-string-head-offset', 'return janet_gc_reachable(janet_string_head(janet_unwrap_string(x)));', 'return janet_gc_reachable(janet_unwrap_pointer(x));', 'C01 weak|dereference'),
              M('weak-cleanup-only-for-marked-containers', '    while (NULL != current) {\n        next = current->data.next;\n        if (current->flags & (JANET_MEM_REACHABLE | JANET_MEM_DISABLED)) {\n            /* Check for dead references */',
                '    while (NULL != current) {\n        next = current->data.next;\n        if (current->flags & JANET_MEM_REACHABLE) {\n            /* Check for dead references */', 'C01 weak')]
WEAK_MUT_A.append(M('referents-freed-before-weak-cleanup', '    /* Sweep weak heap to drop weak refs */\n', SWEEP_MAIN_LOOP + '    current = janet_vm.weak_blocks;\n    /* Sweep weak heap to drop weak refs */\n', 'janet_check_liveref.*deallocated'))
WEAK_MUT_T = [M('weak-values-not-checked', WEAK_TAB, WEAK_TAB.replace('if (check_values && !janet_check_liveref(kvs->value)) drop = 1;', ''), 'C01 weak'),
              M('weakk-also-drops-on-values', WEAK_TAB, WEAK_TAB.replace('if (check_values && ', 'if ('), 'C01 weak'),
              M('weakkv-mode-forgotten', 'int check_keys = (type == JANET_MEMORY_TABLE_WEAKK) || (type == JANET_MEMORY_TABLE_WEAKKV);', 'int check_keys = (type == JANET_MEMORY_TABLE_WEAKK);', 'C01 weak'),
              M('tombstone-not-counted', '                        table->deleted++;\n', '', 'C01 weak'),
              M('dropped-bucket-left-empty', '                        kvs->value = janet_wrap_false();\n                    }\n                    kvs++;', '                        kvs->value = janet_wrap_nil();\n                    }\n                    kvs++;', 'C01 weak'),
              M('last-bucket-skipped', 'JanetKV *end = table->data + table->capacity;\n                JanetKV *kvs = table->data;', 'JanetKV *end = table->data + table->capacity - 1;\n                JanetKV *kvs = table->data;', 'C01 weak')]
WEAK_MUT_L = [M('weak-colour-not-reset', WEAK_FREE, WEAK_FREE.replace('            current->flags &= ~JANET_MEM_REACHABLE;\n', ''), 'C01 weak'),
              M('weak-head-not-unlinked', '                janet_vm.weak_blocks = next;\n', '                ;\n', 'C01 weak|dereference')]
for tag, defs, what, muts, tier in [('A', ['-DWK0=65'], 'one weak array', WEAK_MUT_A + WEAK_MUT_L, 'quick'),
                                    ('T', ['-DWK0=84'], 'one weak table of any weak mode', WEAK_MUT_T + WEAK_MUT_L, 'quick'),
                                    ('AT', ['-DWK0=65', '-DWK1=84'], 'a weak array followed by a weak table', WEAK_MUT_A[:2] + WEAK_MUT_T[:2] + WEAK_MUT_L, 'quick'),
                                    ('TA', ['-DWK0=84', '-DWK1=65'], 'a weak table followed by a weak array', WEAK_MUT_T[2:4] + WEAK_MUT_A[2:3], 'quick'),
                                    ('TT', ['-DWK0=84', '-DWK1=84'], 'two weak tables', WEAK_MUT_T[4:] + WEAK_MUT_L[1:], 'quick')]:
    unit('gc2.sweep.weak.' + tag, WEAK_CLAUSE % what, 'gc2_sweep_weak.c', 'h_sweep_weak',
         bound='weak list = %s, 2 slots each, holding arbitrary immediates or references (every reference shape) to 2 main-heap blocks or to the weak containers themselves; every flag word; unwind 6 with unwinding assertions' % what,
         unwind=6, defines=defs, nanbox=False, link=['wrap.c'], functions=['janet_sweep', 'janet_check_liveref'], tier=tier,
         replace_calls=['janet_deinit_block:ww_deinit_stub', 'free:ww_free_stub'],
         assumes=['janet_deinit_block is replaced by a recording stub (units gc2.deinit.*)', FREE_STUB,
                  'representation invariant of the inputs: the weak list holds only weak arrays / weak tables (gc2.gcalloc), table buckets are empty (nil,nil), tombstones (nil,false) or live (non-nil key and value), count/deleted match',
                  'JANET_NO_NANBOX configuration of the same sources', 'the threaded-abstract table is empty (unit gc2.sweep.threaded)'],
         mutants=muts)

# ---------------------------------------------------------------------------------------------------------------------
# janet_sweep: threaded abstracts
unit('gc2.sweep.threaded',
     'janet_sweep on the threaded-abstract table: an abstract visited in the mark phase stays (visited flag reset, reference kept, not finalised, not freed); an unvisited one gives up exactly '
     'one reference - when that was the last one its gc hook runs exactly once with (data, size) while it is still allocated and it is then freed exactly once, otherwise neither - and its '
     'entry becomes a tombstone (count-1, deleted+1); empty buckets, tombstones and the block lists are untouched',
     'gc2_sweep_threaded.c', 'h_sweep_threaded',
     bound='table of capacity 2, every bucket state (empty, tombstone, visited, unvisited), reference counts 1..3, types with and without gc hook; unwind 4 with unwinding assertions',
     unwind=4, nanbox=False, link=['wrap.c'], functions=['janet_sweep'],
     replace_calls=['janet_abstract_decref:th_decref_stub', 'free:th_free_stub', 'janet_deinit_block:th_deinit_stub'],
     assumes=['janet_abstract_decref is a stub over a ghost counter: decrements and returns the new value (abstract.c: atomic decrement)', FREE_STUB,
              'the gc hook of the harness type records its call and returns any status (non-zero = fatal finalizer failure)', 'JANET_NO_NANBOX configuration of the same sources'],
     mutants=[M('visited-flag-not-reset', '            /* Reset for next sweep */\n            items[i].value = janet_wrap_false();\n', '            /* Reset for next sweep */\n', 'C01 threaded'),
              M('finalised-while-others-hold', '                if (0 == janet_abstract_decref(abst)) {\n                    /* Run finalizer */', '                if (0 <= janet_abstract_decref(abst)) {\n                    /* Run finalizer */', 'C01 threaded'),
              M('visited-test-inverted', '            if (!janet_truthy(items[i].value)) {', '            if (janet_truthy(items[i].value)) {', 'C01 threaded'),
              M('last-holder-does-not-free', '                    janet_free(janet_abstract_head(abst));\n                }\n\n                /* Mark as tombstone in place */', '                }\n\n                /* Mark as tombstone in place */', 'C01 threaded'),
              M('free-before-finaliser', '                    JanetAbstractHead *head = janet_abstract_head(abst);\n                    if (head->type->gc) {\n                        janet_assert(!head->type->gc(head->data, head->size), "finalizer failed");\n                    }\n                    /* Free memory */',
                '                    JanetAbstractHead *head = janet_abstract_head(abst);\n                    janet_free(head);\n                    if (head->type->gc) {\n                        janet_assert(!head->type->gc(head->data, head->size), "finalizer failed");\n                    }\n                    /* Free memory */', 'C01 threaded|dereference'),
              M('table-count-not-updated', '                janet_vm.threaded_abstracts.count--;\n', '', 'C01 threaded')])

# ---------------------------------------------------------------------------------------------------------------------
# janet_deinit_block, one unit per memory type
DEINIT_STUBS = ['free:di_free_stub', 'janet_symbol_deinit:di_symbol_deinit_stub', 'janet_ev_dec_refcount:di_ev_dec_refcount_stub']
DEINIT_ASS = [FREE_STUB + '; free(NULL) is a no-op', 'janet_symbol_deinit and janet_ev_dec_refcount are replaced by counting stubs (symbol cache: units sc.deinit.*)']


def deinit(tag, clause, entry, muts, **kw):
    unit('gc2.deinit.' + tag, 'janet_deinit_block, ' + clause, 'gc2_deinit.c', entry, cls='full-domain', functions=['janet_deinit_block'] + kw.pop('functions', []),
         replace_calls=DEINIT_STUBS, assumes=DEINIT_ASS + kw.pop('assumes', []), mutants=muts, unwind=18, **kw)


deinit('array', 'array / weak array: frees exactly the element storage, once; no callback; any flag bits', 'h_deinit_array',
       [M('weak-array-storage-leaked', '        case JANET_MEMORY_ARRAY_WEAK:\n', '', 'C01 deinit'),
        M('array-storage-freed-twice', '            janet_free(((JanetArray *) mem)->data);\n', '            janet_free(((JanetArray *) mem)->data);\n            janet_free(((JanetArray *) mem)->data);\n', 'C01 deinit|dereference')])
deinit('table', 'table of any weak mode: frees exactly the bucket storage, once - never the prototype table', 'h_deinit_table',
       [M('weakkv-storage-leaked', '        case JANET_MEMORY_TABLE_WEAKKV:\n            janet_free', '            janet_free', 'C01 deinit'),
        M('prototype-freed', '            janet_free(((JanetTable *) mem)->data);\n', '            janet_free(((JanetTable *) mem)->data);\n            janet_free(((JanetTable *) mem)->proto);\n', 'C01 deinit')])
deinit('fiber', 'fiber: frees the stack once; the event-loop state is freed (and its event-loop reference given back, once) exactly when it is not owned by an operation in flight; '
       'child fiber and environment table are not touched', 'h_deinit_fiber',
       [M('in-flight-state-freed', '            if (f->ev_state && !(f->flags & JANET_FIBER_EV_FLAG_IN_FLIGHT)) {', '            if (f->ev_state) {', 'C01 deinit'),
        M('stack-leaked', '            janet_free(f->data);\n', '', 'C01 deinit'),
        M('event-reference-kept', '                janet_ev_dec_refcount();\n', '', 'C01 deinit')])
deinit('buffer', 'buffer: frees the bytes once unless the buffer views unmanaged memory (JANET_BUFFER_FLAG_NO_REALLOC)', 'h_deinit_buffer',
       [M('unmanaged-memory-freed', '    if (!(buffer->gc.flags & JANET_BUFFER_FLAG_NO_REALLOC)) {\n        janet_free(buffer->data);', '    if (1) {\n        janet_free(buffer->data);', 'C01 deinit', file='buffer.c'),
        M('bytes-leaked', '            janet_buffer_deinit((JanetBuffer *) mem);\n', '', 'C01 deinit')],
       link=['buffer.c'], link_keep={'buffer.c': ['janet_buffer_deinit']}, functions=['janet_buffer_deinit'])
deinit('abstract', 'abstract: the gc hook of its type runs exactly once with (data, size) (a failing hook is fatal), a type without hook needs nothing; nothing is freed', 'h_deinit_abstract',
       [M('finaliser-twice', '                janet_assert(!head->type->gc(head->data, head->size), "finalizer failed");\n            }\n        }\n        break;\n        case JANET_MEMORY_FUNCENV',
          '                janet_assert(!head->type->gc(head->data, head->size), "finalizer failed");\n                janet_assert(!head->type->gc(head->data, head->size), "finalizer failed");\n            }\n        }\n        break;\n        case JANET_MEMORY_FUNCENV', 'C01 deinit'),
        M('hook-gets-head', 'head->type->gc(head->data, head->size), "finalizer failed");\n            }\n        }\n        break;\n        case JANET_MEMORY_FUNCENV', 'head->type->gc(head, head->size), "finalizer failed");\n            }\n        }\n        break;\n        case JANET_MEMORY_FUNCENV', 'C01 deinit'),
        M('no-finaliser', '        case JANET_MEMORY_ABSTRACT: {\n', '        case 255: {\n', 'C01 deinit')],
       assumes=['the only gc hook of the unit is the recording hook di_gc_hook (returns any status)'])
deinit('funcenv', 'closure environment: the detached value copy (offset 0) is freed once; an environment that still refers to a fiber frame (offset > 0, or < 0 = unmarshalled and not yet validated) owns nothing - the fiber is never freed', 'h_deinit_funcenv',
       [M('fiber-freed-for-unvalidated-env', '            if (0 == env->offset)\n', '            if (0 >= env->offset)\n', 'C01 deinit'),
        M('detached-values-leaked', '            if (0 == env->offset)\n                janet_free(env->as.values);\n', '', 'C01 deinit')])
deinit('funcdef', 'function definition: each of its seven vectors (environments, constants, defs, bytecode, closure_bitset, sourcemap, symbolmap) is freed exactly once; source and name strings are not', 'h_deinit_funcdef',
       [M('symbolmap-leaked', '            janet_free(def->symbolmap);\n', '', 'C01 deinit'),
        M('closure-bitset-leaked', '            janet_free(def->closure_bitset);\n', '', 'C01 deinit'),
        M('defs-freed-twice', '            janet_free(def->environments);\n', '            janet_free(def->defs);\n', 'C01 deinit|dereference'),
        M('name-freed', '            janet_free(def->symbolmap);\n', '            janet_free(def->symbolmap);\n            janet_free((void *) janet_string_head(def->name));\n', 'C01 deinit')])
deinit('symbol', 'symbol / keyword: unregistered from the symbol cache exactly once (by its text pointer); nothing is freed', 'h_deinit_symbol',
       [M('symbol-not-unregistered', '            janet_symbol_deinit(((JanetStringHead *) mem)->data);\n', '', 'C01 deinit'),
        M('head-passed-instead-of-text', 'janet_symbol_deinit(((JanetStringHead *) mem)->data);', 'janet_symbol_deinit((const uint8_t *) mem);', 'C01 deinit')])
deinit('plain', 'types without side allocations (string, tuple, struct, function, threaded abstract, untyped, unknown type numbers): nothing is freed, no callback, the block is not written', 'h_deinit_plain',
       [M('functions-treated-as-symbols', '        default:\n        case JANET_MEMORY_FUNCTION:\n            break; /* Do nothing for non gc types */\n', '        default:\n            break;\n        case JANET_MEMORY_FUNCTION:\n', 'C01 deinit'),
        M('strings-treated-as-arrays', '        case JANET_MEMORY_ARRAY:\n', '        case JANET_MEMORY_ARRAY:\n        case JANET_MEMORY_STRING:\n', 'C01 deinit')])

# ---------------------------------------------------------------------------------------------------------------------
# janet_gcalloc / janet_gcpressure
unit('gc2.gcalloc',
     'janet_gcalloc: the block malloc returned for exactly the requested size is linked at the head of the list the sweep expects it on (weak arrays / weak tables on weak_blocks, every other '
     'type on blocks) with the old list behind it and the other list untouched; its type is recorded and every other flag is clear (unmarked, collectable); block_count + 1; next_collection '
     'grows by exactly the size; an uninitialised VM or a failed malloc never returns', 'gc2_alloc.c', 'h_gcalloc', cls='full-domain',
     functions=['janet_gcalloc'], replace_calls=['malloc:ga_malloc_stub'], unwind=3,
     assumes=['malloc is replaced by a recording stub that returns a block prepared by the harness, or NULL'],
     mutants=[M('weak-array-on-main-list', '    if (type < JANET_MEMORY_TABLE_WEAKK) {', '    if (type < JANET_MEMORY_TABLE_WEAKK || type == JANET_MEMORY_ARRAY_WEAK) {', 'C01 gcalloc'),
              M('threaded-abstract-on-weak-list', '    if (type < JANET_MEMORY_TABLE_WEAKK) {', '    if (type < JANET_MEMORY_THREADED_ABSTRACT) {', 'C01 gcalloc'),
              M('old-list-dropped', '        mem->data.next = janet_vm.blocks;\n', '        mem->data.next = NULL;\n', 'C01 gcalloc'),
              M('born-marked', '    mem->flags = type;', '    mem->flags = type | JANET_MEM_REACHABLE;', 'C01 gcalloc'),
              M('pressure-not-recorded', '    janet_vm.next_collection += size;\n', '', 'C01 gcalloc'),
              M('count-not-updated', '    janet_vm.block_count++;\n\n    return (void *)mem;', '    return (void *)mem;', 'C01 gcalloc'),
              M('init-check-dropped', '    janet_assert(NULL != janet_vm.cache, "please initialize janet before use");\n', '', 'C01 gcalloc')])
unit('gc2.gcpressure', 'janet_gcpressure adds its argument to next_collection and touches no other collector state', 'gc2_alloc.c', 'h_gcpressure', cls='full-domain',
     functions=['janet_gcpressure'], checks=['bounds-check', 'pointer-check'],
     mutants=[M('pressure-overwrites', '    janet_vm.next_collection += s;', '    janet_vm.next_collection = s;', 'C01 gcalloc'),
              M('pressure-goes-to-interval', '    janet_vm.next_collection += s;', '    janet_vm.gc_interval += s;', 'C01 gcalloc')])

# ---------------------------------------------------------------------------------------------------------------------
# scratch memory
SCR_STUBS = ['malloc:sc_malloc_stub', 'realloc:sc_realloc_stub', 'free:sc_free_stub']
SCR_ASS = ['malloc hands out a block prepared by the harness or NULL; realloc is a model: the registry is copied into a fresh block, a scratch block MOVES (fresh block, header copied, old block freed) or NULL',
           FREE_STUB, 'representation invariant of the registry: scratch_len <= scratch_cap, entries are distinct live blocks; payload size + header does not wrap (size <= 2^40)']
SCR_BOUND = 'at most 3 registered scratch blocks (each with or without finaliser), registry capacity <= 3; unwind 10 with unwinding assertions'
SREALLOC = ('                JanetScratch *news = janet_realloc(s, size + sizeof(JanetScratch));\n                if (NULL == news) {\n                    JANET_OUT_OF_MEMORY;\n                }\n'
            '                janet_vm.scratch_mem[i] = news;\n')
unit('gc2.scratch.smalloc', 'janet_smalloc: a block with room for header + payload is allocated, gets no finaliser, is registered at the end of the registry (scratch_len + 1 <= scratch_cap) '
     'and its payload returned; every earlier registration is kept, also when the full registry grows; no reallocation while there is room; allocation failure never returns',
     'gc2_scratch.c', 'h_smalloc', bound=SCR_BOUND, unwind=10, defines=['-DVC_OWN_EXIT'], functions=['janet_smalloc'], replace_calls=SCR_STUBS, assumes=SCR_ASS,
     mutants=[M('registry-grows-too-late', '    if (janet_vm.scratch_len == janet_vm.scratch_cap) {', '    if (janet_vm.scratch_len > janet_vm.scratch_cap) {', 'C01 scratch|dereference|bounds'),
              M('capacity-not-recorded', '        janet_vm.scratch_cap = newcap;\n', '', 'C01 scratch'),
              M('not-registered', '    janet_vm.scratch_mem[janet_vm.scratch_len++] = s;', '    janet_vm.scratch_mem[janet_vm.scratch_len] = s;', 'C01 scratch'),
              M('stale-finaliser', '    s->finalize = NULL;\n    if (janet_vm.scratch_len', '    if (janet_vm.scratch_len', 'C01 scratch'),
              M('header-returned', '    janet_vm.scratch_mem[janet_vm.scratch_len++] = s;\n    return (char *)(s->mem);', '    janet_vm.scratch_mem[janet_vm.scratch_len++] = s;\n    return (char *)(s);', 'C01 scratch')])
unit('gc2.scratch.srealloc', 'janet_srealloc: the registered block (header included) is resized to header + payload and, when realloc moves it, its registration follows it - same slot, registered '
     'exactly once, no stale pointer to the freed old block; every other registration, scratch_len and the finaliser are unchanged; NULL behaves like janet_smalloc; memory that is not a '
     'registered scratch block, or a failed allocation, never returns', 'gc2_scratch.c', 'h_srealloc', bound=SCR_BOUND, unwind=10, defines=['-DVC_OWN_EXIT'], functions=['janet_srealloc', 'janet_smalloc'],
     replace_calls=SCR_STUBS, assumes=SCR_ASS,
     mutants=[M('registration-not-updated', SREALLOC, SREALLOC.replace('                janet_vm.scratch_mem[i] = news;\n', ''), 'C01 scratch'),
              M('header-size-forgotten', SREALLOC, SREALLOC.replace('janet_realloc(s, size + sizeof(JanetScratch))', 'janet_realloc(s, size)'), 'C01 scratch'),
              M('payload-realloced-instead-of-block', SREALLOC, SREALLOC.replace('janet_realloc(s, size', 'janet_realloc(mem, size'), 'C01 scratch|dereference'),
              M('search-skips-oldest', '            if (janet_vm.scratch_mem[i] == s) {\n                JanetScratch *news', '            if (i > 0 && janet_vm.scratch_mem[i] == s) {\n                JanetScratch *news', 'C01 scratch'),
              M('wrong-slot-updated', SREALLOC, SREALLOC.replace('janet_vm.scratch_mem[i] = news;', 'janet_vm.scratch_mem[janet_vm.scratch_len - 1] = news;'), 'C01 scratch')])
SFREE = '                janet_vm.scratch_mem[i] = janet_vm.scratch_mem[--janet_vm.scratch_len];\n                free_one_scratch(s);\n'
unit('gc2.scratch.sfree', 'janet_sfree / janet_sfinalizer: the finaliser recorded in the header runs exactly once, the block is freed exactly once (after the finaliser) and is no longer registered; '
     'every other block stays registered exactly once and is neither finalised nor freed; NULL does nothing; memory that is not a registered scratch block never returns',
     'gc2_scratch.c', 'h_sfree', bound=SCR_BOUND, unwind=10, defines=['-DVC_OWN_EXIT'], functions=['janet_sfree', 'janet_sfinalizer', 'free_one_scratch'], replace_calls=SCR_STUBS, assumes=SCR_ASS,
     mutants=[M('still-registered', SFREE, SFREE.replace('janet_vm.scratch_mem[i] = janet_vm.scratch_mem[--janet_vm.scratch_len];', '--janet_vm.scratch_len;'), 'C01 scratch'),
              M('count-kept', SFREE, SFREE.replace('[--janet_vm.scratch_len]', '[janet_vm.scratch_len - 1]'), 'C01 scratch'),
              M('no-finaliser', '    if (NULL != s->finalize) {\n        s->finalize((char *) s->mem);\n    }\n', '', 'C01 scratch'),
              M('finaliser-gets-header', '        s->finalize((char *) s->mem);', '        s->finalize((char *) s);', 'C01 scratch|dereference'),
              M('free-before-finaliser', '    if (NULL != s->finalize) {\n        s->finalize((char *) s->mem);\n    }\n    janet_free(s);', '    janet_free(s);\n    if (NULL != s->finalize) {\n        s->finalize((char *) s->mem);\n    }', 'C01 scratch|dereference')])
unit('gc2.scratch.free_all', 'janet_free_all_scratch (end of every collection): every registered scratch block is finalised exactly once (when it has a finaliser) and then freed exactly once; '
     'unregistered blocks are not touched; the registry is empty afterwards and its block is kept', 'gc2_scratch.c', 'h_free_all_scratch', bound=SCR_BOUND, unwind=10, defines=['-DVC_OWN_EXIT'],
     functions=['janet_free_all_scratch', 'free_one_scratch'], replace_calls=SCR_STUBS, assumes=SCR_ASS,
     mutants=[M('first-block-leaked', '    for (size_t i = 0; i < janet_vm.scratch_len; i++) {\n        free_one_scratch', '    for (size_t i = 1; i < janet_vm.scratch_len; i++) {\n        free_one_scratch', 'C01 scratch'),
              M('registry-not-emptied', '    janet_vm.scratch_len = 0;\n}', '}', 'C01 scratch'),
              M('whole-capacity-freed', '    for (size_t i = 0; i < janet_vm.scratch_len; i++) {\n        free_one_scratch', '    for (size_t i = 0; i < janet_vm.scratch_cap; i++) {\n        free_one_scratch', 'C01 scratch|dereference')])

# ---------------------------------------------------------------------------------------------------------------------
# janet_collect: everything around the root pass (gc.collect.roots covers the root pass)
unit('gc2.collect.epilogue',
     'janet_collect around the root pass: marking runs inside the mark phase with the full recursion budget, strictly before the single sweep; scratch memory is released exactly once, '
     'after the sweep; next_collection restarts at 0; the gc_interval heuristic never shrinks the interval and changes it only when 8 * block_count exceeds it; roots, block_count and the '
     'suspension counter are untouched; while collection is suspended nothing at all happens', 'gc2_collect.c', 'h_collect_epilogue',
     bound='<= 4 explicit roots, no values deferred during marking (that loop is unit gc.collect.roots); unwind 7 with unwinding assertions', unwind=7, functions=['janet_collect'],
     checks=['bounds-check', 'pointer-check'],
     replace_calls=['janet_mark:co_mark_stub', 'janet_mark_fiber:co_mark_fiber_stub', 'janet_ev_mark:co_ev_mark_stub', 'janet_sweep:co_sweep_stub', 'janet_free_all_scratch:co_free_all_scratch_stub'],
     assumes=['janet_mark, janet_mark_fiber, janet_ev_mark, janet_sweep and janet_free_all_scratch are replaced by recording stubs (their own units: gc.mark.*, gc2.sweep.*, gc2.scratch.free_all)',
              'block_count <= 2^56 (a block occupies at least 16 bytes)'],
     mutants=[M('counter-not-restarted', '    janet_vm.next_collection = 0;\n', '', 'C01 collect'),
              M('scratch-released-before-sweep', '    janet_sweep();\n    janet_vm.next_collection = 0;\n    janet_free_all_scratch();', '    janet_free_all_scratch();\n    janet_sweep();\n    janet_vm.next_collection = 0;', 'C01 collect'),
              M('scratch-never-released', '    janet_free_all_scratch();\n}\n\n/* Add a root value', '}\n\n/* Add a root value', 'C01 collect'),
              M('mark-phase-flag-stuck', '    janet_vm.gc_mark_phase = 0;\n', '', 'C01 collect'),
              M('budget-not-restored', '    depth = JANET_RECURSION_GUARD;\n    janet_vm.gc_mark_phase = 1;', '    janet_vm.gc_mark_phase = 1;', 'C01 collect'),
              M('interval-shrinks', '    if (janet_vm.block_count * 8 > janet_vm.gc_interval) {', '    if (janet_vm.block_count * 8 < janet_vm.gc_interval) {', 'C01 collect'),
              M('suspension-ignored', '    if (janet_vm.gc_suspend) return;\n', '', 'C01 collect')])

if __name__ == '__main__':
    json.dump({'units': U}, open(os.path.join(V, 'units', 'C01_sweep.json'), 'w'), indent=1)
    print('wrote %d units' % len(U))
