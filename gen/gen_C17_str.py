#!/usr/bin/env python3
"""generates units/C17_str.json: C17 (C level) - string.c substring search (kmp_*) and its callers, buffer.c C functions"""
import json, os
V = os.path.dirname(os.path.dirname(os.path.abspath(__file__)))
CHECKS = ["bounds-check", "pointer-check", "signed-overflow-check", "div-by-zero-check", "conversion-check",
          "pointer-primitive-check", "undefined-shift-check", "float-overflow-check"]
units = []

TEST_DISABLED = bool(os.environ.get("GEN_ENABLE_DISABLED"))   # testing aid: emit the disabled units as runnable

def unit(id, clause, entry, enforce=None, cls="proved", tier="quick", **kw):
    u = {"id": id, "tier": tier, "class": cls, "clause": clause, "entry": entry}
    if TEST_DISABLED:
        kw.pop("disabled_reason", None)
    if enforce:
        u["enforce"] = [enforce]
    u.update(kw)
    units.append(u)

def mut(name, file, find, replace, expect, **kw):
    d = {"name": name, "file": file, "find": find, "replace": replace, "expect": expect}
    d.update(kw)
    return d

# ------------------------------------------------------------------ string.c: KMP engine, bounded exactness
KMP_IF = mut("fallback-if-instead-of-while", "string.c", "while (j && pat[j] != pat[i]) j = lookup[j - 1];",
             "if (j && pat[j] != pat[i]) j = lookup[j - 1];", "C17")
unit("str.kmp.init.table",
     "kmp_init: raises for the empty pattern; otherwise records text/pattern, starts at 0 and lookup[k] is the longest proper border of pat[0..k] (hence 0 <= lookup[k] <= k) for every k; every read inside the pattern, every write inside the table",
     "h_kmp_init_table", cls="bounded", bound="every pattern of at most 8 bytes (all byte contents)",
     mode="plain", src=["string.c"], harness=["str_kmp.c"], unwind=10, unwindset={"calloc.0": 34},
     functions=["kmp_init"],
     assumes=["calloc model (str_kmp.c): zero-filled fresh block of exactly n*sz bytes, or NULL"],
     mutants=[KMP_IF,
              mut("no-increment", "string.c", "if (pat[j] == pat[i]) j++;\n            lookup[i] = j;", "lookup[i] = j;\n            if (pat[j] == pat[i]) j++;", "C17")])
M_STALE_I = mut("hit-does-not-advance", "string.c", "state->i = i + 1;\n                state->j = lookup[j];", "state->i = i;\n                state->j = lookup[j];", "C17")
M_RESUME0 = mut("resume-state-zero", "string.c", "state->j = lookup[j];\n                return i - j;", "state->j = 0;\n                return i - j;", "C17")
M_SKIP = mut("mismatch-skips", "string.c", "if (j > 0) {\n                j = lookup[j - 1];\n            } else {", "if (j > 0) {\n                j = 0; i++;\n            } else {", "C17")
for m in (1, 2, 3, 4):
    unit("str.kmp.search.exact.p%d" % m,
         "kmp_next/kmp_seti, pattern of %d byte(s): from a fresh state (start index stored, or kmp_seti) and from the state left by a hit, kmp_next returns the first occurrence not before the resume point (find-all: overlapping ones included; replace-all/split: behind the previous one), -1 exactly when none is left, and a hit leaves exactly the resume state - so by induction every result sequence equals the reference search; never reads outside text, pattern or table" % m,
         "h_kmp_search", cls="bounded", bound="pattern of exactly %d byte(s), every text of 0..8 bytes, all byte contents, every start index 0..9" % m,
         mode="plain", src=["string.c"], harness=["str_kmp.c"], defines=["-DKMP_PATLEN=%d" % m], unwind=18,
         functions=["kmp_next", "kmp_seti", "kmp_init"], timeout=300, tier=("quick" if m <= 1 else "thorough"),
         assumes=["calloc model (str_kmp.c): zero-filled fresh block of exactly n*sz bytes, or NULL"],
         mutants=[M_STALE_I] + ([M_SKIP] if m >= 2 else []) + ([M_RESUME0] if m >= 2 else []) + ([KMP_IF] if m >= 4 else []))

# ------------------------------------------------------------------ string.c: kmp_next, any text length (dfcc + loop contract)
def loop(inv, assigns, dec, smap, lid="0"):
    return {"loop_id": lid, "invariants": inv, "assigns": assigns, "decreases": dec, "symbol_map": smap}
KN_MAP = "i,kmp_next::1::i;j,kmp_next::1::j;textlen,kmp_next::1::textlen;patlen,kmp_next::1::patlen;state,kmp_next::state"
unit("str.kmp.next.safe",
     "kmp_next on a text of ANY length (table 0 <= lookup[k] <= k as established by kmp_init): every read inside text, pattern and table, no overflow, terminates; returns -1 leaving the state untouched, or an index r >= resume point with r + patlen <= textlen, state->i == r + patlen and a valid state for the next call",
     "h_kmp_next_safe", "kmp_next/kmp_next_c", cls="bounded", bound="pattern of 1..8 bytes (table fact written out per entry); text length, start index and all contents unbounded",
     src=["string.c"], harness=["str_kmp_safe.c"],
     loops={"kmp_next": [loop("j >= 0 && j < patlen && i >= j && i - j >= g_i0 - g_j0 && state->i == g_i0 && state->j == g_j0",
                              "i, j, state->i, state->j", "2 * ((long)textlen - (long)i) + (long)j", KN_MAP)]},
     loop_counts={"kmp_next": 1},
     assumes=["input state built by the harness: typed malloc blocks of exactly textlen / patlen bytes and patlen table entries"],
     mutants=[mut("off-by-one-scan", "string.c", "while (i < textlen) {\n        if (text[i] == pat[j]) {", "while (i <= textlen) {\n        if (text[i] == pat[j]) {", "pointer_dereference|bounds"),
              mut("hit-test-late", "string.c", "if (j == patlen - 1) {", "if (j == patlen) {", "pointer_dereference|bounds|loop_invariant"),
              dict(M_STALE_I, expect="postcondition"),
              mut("fallback-off-by-one", "string.c", "                j = lookup[j - 1];\n            } else {\n                i++;", "                j = lookup[j];\n            } else {\n                i++;", "loop_invariant|decreases|pointer")])

# ------------------------------------------------------------------ buffer.c registered C functions
ALLOC = ("realloc model (seq_common.h): fails or returns a fresh block of n bytes, frees the old block, "
         "keeps the element at the ghost index; all other content arbitrary")
BC = dict(props=["C17", "C04"], src=["buffer.c"], link=["wrap.c"], harness=["str_buffer_cfun.c"], defines=["-DSEQ_ELEM_BYTES", "-DSEQ_TRACK_REALLOC"])
BCA = [ALLOC, "memcpy/memmove/memset models (seq_common.h): ranges must be valid (memcpy: disjoint) - counted obligations; pointwise effect on the ghost element",
       "capi.c getters are stubs: slot 0 is a well-formed buffer, the byte view is the buffer itself or a separate readable block, integer slots return the slot's low 32 bits, number slots the slot's double, each asserts slot index < argc; janet_arity/janet_fixarity return only for an accepted argc",
       "janet_gcalloc returns a fresh block; janet_gcpressure has no effect on the buffer"]
HALF = "janet_gethalfrange replaced by its contract (proved in seq.capi.gethalfrange) incl. its precondition length < INT32_MAX: buffers/sources of exactly INT32_MAX bytes excluded"
unit("str.cfun.buffer.blit",
     "buffer/blit, every size and all 2..5 argument combinations incl. nil, negative indices, src == dest and src-end before src-start: the copied length is max(0, src-end - src-start) - never negative; raises instead of exceeding INT32_MAX; dest = old prefix ++ src[src-start, +n) (source bytes as before the call) ++ old tail, length max(old, dest-start + n); memmove/memcpy inside both objects (memcpy never on overlapping ranges); foreign memory never reallocated; returns dest",
     "h_cfun_buffer_blit", "cfun_buffer_blit/cfun_buffer_blit_c", assumes=BCA + [HALF], cbmc=["--sat-solver", "cadical"], timeout=300, **BC,
     mutants=[mut("no-negative-clamp", "buffer.c", "        if (length_src < 0) length_src = 0;\n", "", "memcpy model|memmove model|postcondition|overflow|conversion"),
              mut("same-buf-memcpy", "buffer.c", "memmove(dest->data + offset_dest, src.bytes + offset_src, length_src);", "memcpy(dest->data + offset_dest, src.bytes + offset_src, length_src);", "memcpy model"),
              mut("stale-src-after-realloc", "buffer.c", "            src.bytes = dest->data;\n", "", "memmove model|pointer|postcondition"),
              mut("no-range-check", "buffer.c", "    if (last > INT32_MAX)\n        janet_panic(\"buffer blit out of range\");\n", "", "conversion|overflow|postcondition")])

unit("str.cfun.buffer.popn",
     "buffer/popn: arity 2; raises for negative n; removes min(n, length) bytes from the end, remaining bytes and capacity unchanged, no reallocation; returns buffer",
     "h_cfun_buffer_popn", "cfun_buffer_popn/cfun_buffer_popn_c", assumes=BCA, **BC,
     mutants=[mut("no-underflow-clamp", "buffer.c", "    if (buffer->count < n) {\n        buffer->count = 0;\n    } else {\n        buffer->count -= n;\n    }", "    buffer->count -= n;", "postcondition|overflow"),
              mut("negative-n-accepted", "buffer.c", "    if (n < 0) janet_panic(\"n must be non-negative\");\n", "", "postcondition|overflow")])
unit("str.cfun.buffer.fill",
     "buffer/fill: arity 1..2; every byte of the buffer becomes byte & 0xFF (default 0), length and capacity unchanged, memset inside the block; returns buffer",
     "h_cfun_buffer_fill", "cfun_buffer_fill/cfun_buffer_fill_c", assumes=BCA, **BC,
     mutants=[mut("fill-capacity", "buffer.c", "memset(buffer->data, byte, buffer->count);", "memset(buffer->data, byte, buffer->capacity + 1);", "memset model|assigns"),
              mut("fill-ignores-byte", "buffer.c", "memset(buffer->data, byte, buffer->count);", "memset(buffer->data, 0, buffer->count);", "postcondition")])
unit("str.cfun.buffer.new_filled",
     "buffer/new-filled: arity 1..2; returns a NEW well-formed buffer of length max(count, 0) with every byte == byte & 0xFF (default 0); memset inside the new block",
     "h_cfun_buffer_new_filled", "cfun_buffer_new_filled/cfun_buffer_new_filled_c", assumes=BCA + ["malloc does not fail (CBMC default)"], **BC,
     mutants=[mut("negative-count-kept", "buffer.c", "    if (count < 0) count = 0;\n    int32_t byte = 0;", "    int32_t byte = 0;", "postcondition|memset model"),
              mut("count-not-set", "buffer.c", "        memset(buffer->data, byte, count);\n    buffer->count = count;", "        memset(buffer->data, byte, count);", "postcondition")])
unit("str.cfun.buffer.slice",
     "buffer/slice: arity 1..3; returns a NEW well-formed buffer holding exactly bytes[start, end) of the source (a string or a buffer, possibly the same one), memcpy inside both blocks; the source is not modified",
     "h_cfun_buffer_slice", "cfun_buffer_slice/cfun_buffer_slice_c", assumes=BCA + ["janet_getslice replaced by its contract (proved in seq.capi.getslice): 0 <= start <= end <= length of slot 0", "malloc does not fail (CBMC default)",
                                                                                      "domain restriction argc >= 1: with no argument argv[0] is read before the arity check (unit str.cfun.buffer.slice.argc0 keeps that obligation; outcome is still an error)"], **BC,
     mutants=[mut("copy-from-start", "buffer.c", "memcpy(buffer->data, view.bytes + range.start, range.end - range.start);", "memcpy(buffer->data, view.bytes, range.end - range.start);", "postcondition"),
              mut("copy-end-bytes", "buffer.c", "memcpy(buffer->data, view.bytes + range.start, range.end - range.start);", "memcpy(buffer->data, view.bytes + range.start, range.end);", "memcpy model|assigns")])
PI_MAP = "i,buffer_push_impl::1::1::i;argc,buffer_push_impl::argc;argc_offset,buffer_push_impl::argc_offset;buffer,buffer_push_impl::buffer"
unit("str.cfun.buffer.push_at",
     "buffer/push-at, every size and argument count (bytes, byte sequences, the buffer itself): index in [0, length] else raises; data written from index on, bytes before index unchanged, the buffer never gets shorter, raises instead of exceeding INT32_MAX, every write inside the (regrown) block, foreign memory never reallocated; returns buffer",
     "h_cfun_buffer_push_at", "cfun_buffer_push_at/cfun_buffer_push_at_c", timeout=600, tier="thorough",
     assumes=BCA + ["domain restriction: the buffer is pushed onto itself only while shorter than 1 GiB (count + count overflows int32 otherwise, unit str.cfun.buffer.push_at.selfhuge)"], **dict(BC, defines=BC["defines"] + ["-DSTR_PUSH_MAXARGC=4"]),
     functions=["cfun_buffer_push_at", "buffer_push_impl"],
     cls="bounded", bound="at most 2 pushed arguments (argc <= 4; the loop contract variant ran out of memory: havoc of the symbolic-size block inside the loop); buffer sizes, index and byte-sequence lengths unbounded",
     unwindset={"buffer_push_impl.0": 3}, cbmc=["--sat-solver", "cadical"],
     mutants=[mut("index-upper-check-dropped", "buffer.c", "if (index < 0 || index > old_count) {", "if (index < 0) {", "postcondition|pointer|assigns|memcpy model"),
              mut("count-not-restored", "buffer.c", "    if (buffer->count < old_count) {\n        buffer->count = old_count;\n    }\n    return argv[0];\n}\n\nJANET_CORE_FN(cfun_buffer_push,", "    return argv[0];\n}\n\nJANET_CORE_FN(cfun_buffer_push,", "postcondition")])
unit("str.cfun.buffer.push_at.selfhuge",
     "buffer/push-at (and buffer/push, buffer/push-string, same helper), ALL sizes: no signed overflow when a buffer is pushed onto itself",
     "h_cfun_buffer_push_at", "cfun_buffer_push_at/cfun_buffer_push_at_c", tier="thorough", timeout=300,
     disabled_reason="fails on the pinned tree (buffer_push_impl.overflow: `buffer->count + view.len` for a buffer of >= 1 GiB pushed onto itself overflows int32 before janet_buffer_extra's 64-bit check); benign with wrap-around arithmetic (janet_buffer_ensure gets a negative capacity and returns, janet_buffer_extra then raises 'buffer overflow')",
     cls="bounded", bound="at most 2 pushed arguments", unwindset={"buffer_push_impl.0": 3}, cbmc=["--sat-solver", "cadical"],
     assumes=BCA, **dict(BC, defines=BC["defines"] + ["-DSTR_PUSH_MAXARGC=4", "-DSTR_PUSH_SELF_ANY"]), functions=["cfun_buffer_push_at", "buffer_push_impl"],
     mutants=[mut("index-upper-check-dropped", "buffer.c", "if (index < 0 || index > old_count) {", "if (index < 0) {", "postcondition|pointer|assigns|memcpy model")])
SLICE_MUT = [mut("copy-from-start", "buffer.c", "memcpy(buffer->data, view.bytes + range.start, range.end - range.start);", "memcpy(buffer->data, view.bytes, range.end - range.start);", "postcondition")]
unit("str.cfun.buffer.slice.argc0",
     "buffer/slice, ALL argument counts: no argument slot is read at an index >= argc",
     "h_cfun_buffer_slice", "cfun_buffer_slice/cfun_buffer_slice_c", tier="thorough",
     disabled_reason="fails on the pinned tree (janet_getbytes.assertion.1 'argument slot index below argc'): (buffer/slice) reads argv[0] before the arity check of janet_getslice; minor - the stale slot lies inside the fiber stack and the call still raises (type or arity error); same pattern in string/slice, symbol/slice, keyword/slice",
     assumes=BCA, **dict(BC, defines=BC["defines"] + ["-DSTR_SLICE_ANY_ARGC"]), mutants=SLICE_MUT)
BITA = ["domain restriction -9.2e18 < index < 9.2e18 (finite): outside it the conversion (int64_t) x in bitloc is undefined behaviour in C (unit str.cfun.buffer.bit.anydouble keeps that obligation)"]
for nm, lisp, what, m in [
    ("bitset", "bit-set", "set", mut("no-upper-check", "buffer.c", "if (bitindex != x || bitindex < 0 || byteindex >= buffer->count)", "if (bitindex != x || bitindex < 0)", "postcondition|pointer_dereference|assigns|conversion|overflow")),
    ("bitclear", "bit-clear", "cleared", mut("bound-off-by-one", "buffer.c", "if (bitindex != x || bitindex < 0 || byteindex >= buffer->count)", "if (bitindex != x || bitindex < 0 || byteindex > buffer->count)", "postcondition|pointer_dereference|assigns")),
    ("bittoggle", "bit-toggle", "toggled", mut("negative-index-accepted", "buffer.c", "if (bitindex != x || bitindex < 0 || byteindex >= buffer->count)", "if (bitindex != x || byteindex >= buffer->count)", "postcondition|pointer_dereference|assigns|conversion|overflow")),
    ("bitget", "bit", "read", mut("fraction-accepted", "buffer.c", "if (bitindex != x || bitindex < 0 || byteindex >= buffer->count)", "if (bitindex < 0 || byteindex >= buffer->count)", "postcondition"))]:
    unit("str.cfun.buffer." + nm,
         "buffer/%s: arity 2; returns only for an integral bit index with 0 <= index < 8 * length (else raises, nothing outside the buffer touched); bit index&7 of byte index>>3 is %s, every other byte and bit unchanged, length unchanged%s" % (lisp, what, "; returns buffer" if nm != "bitget" else "; returns the bit as a boolean"),
         "h_cfun_buffer_" + nm, "cfun_buffer_%s/cfun_buffer_%s_c" % (nm, nm), assumes=BCA + BITA, cbmc=["--sat-solver", "cadical"], mutants=[m], **BC)

unit("str.cfun.buffer.bit.anydouble",
     "buffer/bit-set, ALL numbers as index incl. NaN, infinities and |x| >= 2^63: the double -> int64 conversion in bitloc is defined",
     "h_cfun_buffer_bitset", "cfun_buffer_bitset/cfun_buffer_bitset_c", tier="thorough",
     disabled_reason="fails on the pinned tree (bitloc overflow obligation: (int64_t) x for NaN / infinite / |x| >= 2^63 is undefined behaviour); benign on x86-64 and AArch64 (the converted value then fails `bitindex != x` or the range test and the call raises), so no observable misbehaviour",
     assumes=BCA, cbmc=["--sat-solver", "cadical"], **dict(BC, defines=BC["defines"] + ["-DSTR_BIT_ANY_DOUBLE"]),
     mutants=[mut("no-upper-check", "buffer.c", "if (bitindex != x || bitindex < 0 || byteindex >= buffer->count)", "if (bitindex != x || bitindex < 0)", "postcondition|pointer_dereference|assigns|conversion|overflow")])

# ------------------------------------------------------------------ string.c: search-based C functions, KMP engine under contract
SF = dict(mode="plain", src=["string.c"], link=["wrap.c", "util.c"], link_keep={"util.c": ["safe_memcpy"]}, harness=["str_find_cfun.c"],
          defines=[], replace_calls=["kmp_init:kmp_init_stub", "kmp_next:kmp_next_stub"], unwind=4, cbmc=["--sat-solver", "cadical"])
SFA = ["kmp_init / kmp_next replaced by their contracts (asserting stubs; proved in str.kmp.init.table, str.kmp.next.safe for patterns up to 8 bytes, assumed beyond): a hit is ANY index r >= resume point with r + patlen <= textlen",
       "capi.c getters are stubs: pattern and text are separate readable blocks of any length (slot type BUFFER iff mutable; a slot holding a snapshot string made by the real janet_stringv yields that string), integer slots return the slot's low 32 bits, each asserts slot index < argc; janet_arity returns only for an accepted argc",
       "janet_gcalloc returns a fresh block (asserts a size <= header + INT32_MAX + 1); janet_string_calchash arbitrary",
       "memcpy model (str_find_cfun.c): ranges must be valid and disjoint - counted obligations (asserted, then assumed for the model's own accesses); pointwise effect on the ghost byte"]
SUBST = "janet_text_substitution stub: asserts the occurrence is readable, returns a byte view of any length >= 0; does NOT modify the text (see unit str.cfun.string.replace.mutable-text for a callback that does)"
RES = "janet_array / janet_array_push / janet_buffer_init / janet_buffer_push_bytes / janet_buffer_deinit replaced by asserting models of their contracts (units seq.array.*, seq.buffer.*)"
unit("str.cfun.string.find",
     "string/find, every text/pattern length and start: arity 2..3, raises for an empty pattern or a negative start; searches from start; returns nil when the search reports nothing, else the reported index as an integer; table released once, never used afterwards",
     "h_cfun_string_find", cls="full-domain", functions=["cfun_string_find", "findsetup", "kmp_deinit"], assumes=SFA, **SF,
     mutants=[mut("negative-start-accepted", "string.c", "        start = janet_getinteger(argv, 2);\n        if (start < 0) janet_panic(\"expected non-negative start index\");\n    }\n    kmp_init(s, text.bytes, text.len, pat.bytes, pat.len);\n    s->i = start;", "        start = janet_getinteger(argv, 2);\n    }\n    kmp_init(s, text.bytes, text.len, pat.bytes, pat.len);\n    s->i = start;", "C17|kmp_next precondition"),
              mut("start-ignored", "string.c", "    kmp_init(s, text.bytes, text.len, pat.bytes, pat.len);\n    s->i = start;\n}", "    kmp_init(s, text.bytes, text.len, pat.bytes, pat.len);\n}", "C17"),
              mut("use-after-deinit", "string.c", "    result = kmp_next(&state);\n    kmp_deinit(&state);\n    return result < 0", "    kmp_deinit(&state);\n    result = kmp_next(&state);\n    kmp_deinit(&state);\n    return result < 0", "free|deallocated|double")])
unit("str.cfun.string.findall",
     "string/find-all: arity 2..3, raises for an empty pattern or a negative start; returns a new array holding every reported index in increasing order, one element per occurrence",
     "h_cfun_string_findall", cls="bounded", bound="at most 2 occurrences reported (result loop unwound); lengths unbounded", functions=["cfun_string_findall", "findsetup"], assumes=SFA + [RES], **SF,
     mutants=[mut("push-start-instead", "string.c", "janet_array_push(array, janet_wrap_integer(result));", "janet_array_push(array, janet_wrap_integer(state.i));", "C17")])
unit("str.cfun.string.replace",
     "string/replace, every text/pattern/substitution length whose result fits int32: arity 3..4; without occurrence a copy of str (subst not evaluated); else a new string of length len str - len patt + len subst = str[0,r) ++ subst ++ str[r + len patt, end), NUL terminated; the three memcpy inside text, subst and the new block",
     "h_cfun_string_replace", cls="full-domain", functions=["cfun_string_replace", "replacesetup"], tier="thorough", timeout=600,
     assumes=SFA + [SUBST, "domain restriction len str - len patt + len subst <= INT32_MAX; all lengths: unit str.cfun.string.replace.overflow"], **SF,
     mutants=[mut("tail-from-hit", "string.c", "                s.kmp.text + result + s.kmp.patlen,\n                s.kmp.textlen - result - s.kmp.patlen);", "                s.kmp.text + result,\n                s.kmp.textlen - result - s.kmp.patlen);", "C17"),
              mut("tail-too-long", "string.c", "                s.kmp.textlen - result - s.kmp.patlen);", "                s.kmp.textlen - result);", "memcpy model|C17")])

REPL_MUT = [mut("tail-too-long", "string.c", "                s.kmp.textlen - result - s.kmp.patlen);", "                s.kmp.textlen - result);", "memcpy model|C17")]
unit("str.cfun.string.replace.overflow",
     "string/replace, ALL lengths: the result length len str - len patt + len subst is computed without int32 overflow and the call raises instead of returning a string longer than INT32_MAX; the new block is large enough for every memcpy",
     "h_cfun_string_replace", cls="full-domain", tier="thorough", timeout=600, functions=["cfun_string_replace"],
     assumes=SFA + [SUBST], **dict(SF, defines=SF["defines"] + ["-DSTR_REPLACE_ANY_LENGTH"]),
     mutants=REPL_MUT + [
         mut("length-check-dropped", "string.c", "    if (newlen > INT32_MAX) {\n        kmp_deinit(&s.kmp);\n        janet_panic(\"result string is too long\");\n    }\n", "", "overflow|conversion|janet_gcalloc|memcpy model|C17|pointer"),
         mut("length-in-int32", "string.c", "    int64_t newlen = (int64_t) s.kmp.textlen - s.kmp.patlen + subst.len;", "    int64_t newlen = s.kmp.textlen - s.kmp.patlen + subst.len;", "overflow")])
SNAP_TEXT = mut("text-snapshot-dropped", "string.c", "        if (janet_checktype(argv[2], JANET_BUFFER)) {\n            argv[2] = janet_stringv(text.bytes, text.len);\n            text = janet_getbytes(argv, 2);\n        }\n", "", "memcpy model|janet_buffer_push_bytes precondition|kmp_next precondition|janet_text_substitution precondition|pointer|deallocated")
SNAP_PAT = mut("pattern-snapshot-dropped", "string.c", "        if (janet_checktype(argv[0], JANET_BUFFER)) {\n            argv[0] = janet_stringv(pat.bytes, pat.len);\n            pat = janet_getbytes(argv, 0);\n        }\n", "", "kmp_next precondition|pointer|deallocated")
CALLBACK = "janet_text_substitution stub: when subst is a function, the callback may reallocate (free) the ORIGINAL block of a text / pattern argument that is a buffer (once each); strings - the snapshots stored in the argument slots included - are never freed"
SLOTS = "janet_getbytes stub: the pattern / text slot has type BUFFER iff the argument is mutable; a slot holding a string made by the real janet_stringv (tracked janet_gcalloc block) yields that string's view"
unit("str.cfun.string.replace.mutable-text",
     "string/replace with a function as subst and BUFFERs as str / patt that the callback reallocates: every read of the text after the callback is inside a live block (the search runs on snapshots stored in the argument slots, which have the length and content of the arguments), result as for immutable arguments",
     "h_cfun_string_replace", cls="full-domain", tier="thorough", timeout=600, functions=["cfun_string_replace", "replacesetup"],
     assumes=SFA + [CALLBACK, SLOTS, "domain restriction len str - len patt + len subst <= INT32_MAX (all lengths: str.cfun.string.replace.overflow)"],
     **dict(SF, defines=SF["defines"] + ["-DSTR_SUBST_MAY_RESIZE"]), mutants=REPL_MUT + [SNAP_TEXT])
unit("str.cfun.string.replaceall.mutable-text",
     "string/replace-all with a function as subst and BUFFERs as str / patt that the callbacks reallocate: every later read of text and pattern (pieces, tail, the continued search) is inside a live block (the search runs on snapshots stored in the argument slots), result length as for immutable arguments",
     "h_cfun_string_replaceall", cls="bounded", bound="at most 2 occurrences reported (result loop unwound); lengths unbounded", tier="thorough", timeout=600,
     functions=["cfun_string_replaceall", "replacesetup", "kmp_seti"],
     assumes=SFA + [CALLBACK, SLOTS, RES],
     **dict(SF, defines=SF["defines"] + ["-DSTR_SUBST_MAY_RESIZE"]), mutants=[SNAP_TEXT, SNAP_PAT])

unit("str.cfun.string.replaceall",
     "string/replace-all: arity 3..4; occurrences are taken left to right without overlap (search resumes behind each one), subst evaluated once per occurrence; every piece str[last, r) has a non-negative length and lies inside str, the tail likewise; result length = len str + hits * (len subst - len patt) (raises instead of exceeding INT32_MAX); result buffer released",
     "h_cfun_string_replaceall", cls="bounded", bound="at most 2 occurrences reported (result loop unwound); lengths unbounded", tier="thorough", timeout=600, functions=["cfun_string_replaceall", "replacesetup", "kmp_seti"],
     assumes=SFA + [SUBST, RES], **SF,
     mutants=[mut("resume-inside-occurrence", "string.c", "        lastindex = result + s.kmp.patlen;\n        kmp_seti(&s.kmp, lastindex);\n    }\n    janet_buffer_push_bytes", "        lastindex = result + s.kmp.patlen;\n        kmp_seti(&s.kmp, result + 1);\n    }\n    janet_buffer_push_bytes", "C17|janet_buffer_push_bytes precondition"),
              mut("tail-from-zero", "string.c", "janet_buffer_push_bytes(&b, s.kmp.text + lastindex, s.kmp.textlen - lastindex);", "janet_buffer_push_bytes(&b, s.kmp.text + lastindex, s.kmp.textlen);", "C17|janet_buffer_push_bytes precondition")])
unit("str.cfun.string.split",
     "string/split: arity 2..4, raises for an empty delimiter or a negative start; pieces str[last, r) between non-overlapping occurrences have non-negative length and lie inside str, the last piece runs to the end; occurrences + 1 pieces without limit, at most limit pieces with a positive limit; returns a new array",
     "h_cfun_string_split", cls="bounded", bound="at most 2 occurrences reported (result loop unwound); lengths unbounded; limit > INT32_MIN + 2", functions=["cfun_string_split", "findsetup", "kmp_seti"],
     assumes=SFA + [RES, "domain restriction limit > INT32_MIN + 2: `--limit` underflows int32 for (string/split d s 0 -2147483648) (formal UB, harmless with wrap-around: unlimited split)"], **SF,
     mutants=[mut("piece-length-from-zero", "string.c", "const uint8_t *slice = janet_string(state.text + lastindex, result - lastindex);", "const uint8_t *slice = janet_string(state.text + lastindex, result);", "memcpy model|C17"),
              mut("limit-off-by-one", "string.c", "while ((result = kmp_next(&state)) >= 0 && --limit) {", "while ((result = kmp_next(&state)) >= 0 && limit--) {", "C17")])

unit("str.cfun.string.split.limit-min",
     "string/split, ALL limits: the limit counter is decremented without int32 overflow",
     "h_cfun_string_split", cls="bounded", bound="at most 2 occurrences reported", tier="thorough", functions=["cfun_string_split"],
     disabled_reason="fails on the pinned tree (cfun_string_split.overflow on `--limit`): (string/split \",\" \"a,b\" 0 -2147483648) decrements INT32_MIN (formal UB); harmless with wrap-around arithmetic (the split is simply unlimited), no observable misbehaviour",
     assumes=SFA + [RES], **dict(SF, defines=SF["defines"] + ["-DSTR_SPLIT_ANY_LIMIT"]),
     mutants=[mut("limit-off-by-one", "string.c", "while ((result = kmp_next(&state)) >= 0 && --limit) {", "while ((result = kmp_next(&state)) >= 0 && limit--) {", "C17")])

json.dump({"defaults": {"props": ["C17"], "mode": "dfcc", "timeout": 120, "object_bits": 8, "checks": CHECKS}, "units": units},
          open(os.path.join(V, "units", "C17_str.json"), "w"), indent=1)
print(len(units), "units")
