#!/usr/bin/env python3
"""generates units/C17_str.json: C17 (C level) - string.c substring search (kmp_*) and its callers, buffer.c C functions"""
import json, os
V = os.path.dirname(os.path.dirname(os.path.abspath(__file__)))
CHECKS = ["bounds-check", "pointer-check", "signed-overflow-check", "div-by-zero-check", "conversion-check",
          "pointer-primitive-check", "undefined-shift-check", "float-overflow-check"]
units = []

def unit(id, clause, entry, enforce=None, cls="proved", tier="quick", **kw):
    u = {"id": id, "tier": tier, "class": cls, "clause": clause, "entry": entry}
    if enforce:
        u["enforce"] = [enforce]
    u.update(kw)
    units.append(u)

def mut(name, file, find, replace, expect, **kw):
    d = {"name": name, "file": file, "find": find, "replace": replace, "expect": expect}
    d.update(kw)
    return d

# ------------------------------------------------------------------ string.c: KMP engine, bounded exactness
KMP_IF = mut("fallback-if-instead-of-while", "string.c", "while (j && pat[j] != pat[i]) j = lookup[j - 1];",
             "if (j && pat[j] != pat[i]) j = lookup[j - 1];", "C17")
unit("str.kmp.init.table",
     "kmp_init: raises for the empty pattern; otherwise records text/pattern, starts at 0 and lookup[k] is the longest proper border of pat[0..k] (hence 0 <= lookup[k] <= k) for every k; every read inside the pattern, every write inside the table",
     "h_kmp_init_table", cls="bounded", bound="every pattern of at most 8 bytes (all byte contents)",
     mode="plain", src=["string.c"], harness=["str_kmp.c"], unwind=10, unwindset={"calloc.0": 34},
     functions=["kmp_init"],
     assumes=["calloc model (str_kmp.c): zero-filled fresh block of exactly n*sz bytes, or NULL"],
     mutants=[KMP_IF,
              mut("no-increment", "string.c", "if (pat[j] == pat[i]) j++;\n            lookup[i] = j;", "lookup[i] = j;\n            if (pat[j] == pat[i]) j++;", "C17")])
M_STALE_I = mut("hit-does-not-advance", "string.c", "state->i = i + 1;\n                state->j = lookup[j];", "state->i = i;\n                state->j = lookup[j];", "C17")
M_RESUME0 = mut("resume-state-zero", "string.c", "state->j = lookup[j];\n                return i - j;", "state->j = 0;\n                return i - j;", "C17")
M_SKIP = mut("mismatch-skips", "string.c", "if (j > 0) {\n                j = lookup[j - 1];\n            } else {", "if (j > 0) {\n                j = 0; i++;\n            } else {", "C17")
for m in (1, 2, 3, 4):
    unit("str.kmp.search.exact.p%d" % m,
         "kmp_next/kmp_seti, pattern of %d byte(s): from a fresh state (start index stored, or kmp_seti) and from the state left by a hit, kmp_next returns the first occurrence not before the resume point (find-all: overlapping ones included; replace-all/split: behind the previous one), -1 exactly when none is left, and a hit leaves exactly the resume state - so by induction every result sequence equals the reference search; never reads outside text, pattern or table" % m,
         "h_kmp_search", cls="bounded", bound="pattern of exactly %d byte(s), every text of 0..8 bytes, all byte contents, every start index 0..9" % m,
         mode="plain", src=["string.c"], harness=["str_kmp.c"], defines=["-DKMP_PATLEN=%d" % m], unwind=18,
         functions=["kmp_next", "kmp_seti", "kmp_init"], timeout=300, tier=("quick" if m <= 2 else "thorough"),
         assumes=["calloc model (str_kmp.c): zero-filled fresh block of exactly n*sz bytes, or NULL"],
         mutants=[M_STALE_I] + ([M_SKIP] if m >= 2 else []) + ([M_RESUME0] if m >= 2 else []) + ([KMP_IF] if m >= 4 else []))

# ------------------------------------------------------------------ string.c: kmp_next, any text length (dfcc + loop contract)
def loop(inv, assigns, dec, smap, lid="0"):
    return {"loop_id": lid, "invariants": inv, "assigns": assigns, "decreases": dec, "symbol_map": smap}
KN_MAP = "i,kmp_next::1::i;j,kmp_next::1::j;textlen,kmp_next::1::textlen;patlen,kmp_next::1::patlen;state,kmp_next::state"
unit("str.kmp.next.safe",
     "kmp_next on a text of ANY length (table 0 <= lookup[k] <= k as established by kmp_init): every read inside text, pattern and table, no overflow, terminates; returns -1 leaving the state untouched, or an index r >= resume point with r + patlen <= textlen, state->i == r + patlen and a valid state for the next call",
     "h_kmp_next_safe", "kmp_next/kmp_next_c", cls="bounded", bound="pattern of 1..8 bytes (table fact written out per entry); text length, start index and all contents unbounded",
     src=["string.c"], harness=["str_kmp_safe.c"],
     loops={"kmp_next": [loop("j >= 0 && j < patlen && i >= j && i - j >= g_i0 - g_j0 && state->i == g_i0 && state->j == g_j0",
                              "i, j, state->i, state->j", "2 * ((long)textlen - (long)i) + (long)j", KN_MAP)]},
     loop_counts={"kmp_next": 1},
     assumes=["input state built by the harness: typed malloc blocks of exactly textlen / patlen bytes and patlen table entries"],
     mutants=[mut("off-by-one-scan", "string.c", "while (i < textlen) {\n        if (text[i] == pat[j]) {", "while (i <= textlen) {\n        if (text[i] == pat[j]) {", "pointer_dereference|bounds"),
              mut("hit-test-late", "string.c", "if (j == patlen - 1) {", "if (j == patlen) {", "pointer_dereference|bounds|loop_invariant"),
              dict(M_STALE_I, expect="postcondition"),
              mut("fallback-off-by-one", "string.c", "                j = lookup[j - 1];\n            } else {\n                i++;", "                j = lookup[j];\n            } else {\n                i++;", "loop_invariant|decreases|pointer")])

# ------------------------------------------------------------------ buffer.c registered C functions
ALLOC = ("realloc model (seq_common.h): fails or returns a fresh block of n bytes, frees the old block, "
         "keeps the element at the ghost index; all other content arbitrary")
BC = dict(src=["buffer.c"], link=["wrap.c"], harness=["str_buffer_cfun.c"], defines=["-DSEQ_ELEM_BYTES", "-DSEQ_TRACK_REALLOC"])
BCA = [ALLOC, "memcpy/memmove/memset models (seq_common.h): ranges must be valid (memcpy: disjoint) - counted obligations; pointwise effect on the ghost element",
       "capi.c getters are stubs: slot 0 is a well-formed buffer, the byte view is the buffer itself or a separate readable block, integer slots return the slot's low 32 bits, number slots the slot's double, each asserts slot index < argc; janet_arity/janet_fixarity return only for an accepted argc",
       "janet_gcalloc returns a fresh block; janet_gcpressure has no effect on the buffer"]
HALF = "janet_gethalfrange replaced by its contract (proved in seq.capi.gethalfrange) incl. its precondition length < INT32_MAX: buffers/sources of exactly INT32_MAX bytes excluded"
unit("str.cfun.buffer.blit",
     "buffer/blit, every size and all 2..5 argument combinations incl. nil, negative indices, src == dest and src-end before src-start: the copied length is max(0, src-end - src-start) - never negative; raises instead of exceeding INT32_MAX; dest = old prefix ++ src[src-start, +n) (source bytes as before the call) ++ old tail, length max(old, dest-start + n); memmove/memcpy inside both objects (memcpy never on overlapping ranges); foreign memory never reallocated; returns dest",
     "h_cfun_buffer_blit", "cfun_buffer_blit/cfun_buffer_blit_c", assumes=BCA + [HALF], cbmc=["--sat-solver", "cadical"], timeout=300, **BC,
     mutants=[mut("no-negative-clamp", "buffer.c", "        if (length_src < 0) length_src = 0;\n", "", "memcpy model|memmove model|postcondition|overflow|conversion"),
              mut("same-buf-memcpy", "buffer.c", "memmove(dest->data + offset_dest, src.bytes + offset_src, length_src);", "memcpy(dest->data + offset_dest, src.bytes + offset_src, length_src);", "memcpy model"),
              mut("stale-src-after-realloc", "buffer.c", "            src.bytes = dest->data;\n", "", "memmove model|pointer|postcondition"),
              mut("no-range-check", "buffer.c", "    if (last > INT32_MAX)\n        janet_panic(\"buffer blit out of range\");\n", "", "conversion|overflow|postcondition")])

json.dump({"defaults": {"props": ["C17"], "mode": "dfcc", "timeout": 120, "object_bits": 8, "checks": CHECKS}, "units": units},
          open(os.path.join(V, "units", "C17_str.json"), "w"), indent=1)
print(len(units), "units")
