#!/usr/bin/env python3
"""C10: the real bytecode verifier (janet_verify) tied to the real interpreter (run_vm), one unit per opcode
(harness/vm_verified_ops.c): a boundary word that janet_verify accepts executes inside its frame / declared vectors / bytecode;
a boundary word with a field outside is refused."""
import json, os, re, sys
V = os.path.dirname(os.path.dirname(os.path.abspath(__file__)))
CORE = '/repo/src/core'
BC = open(os.path.join(CORE, 'bytecode.c')).read()
VM = open(os.path.join(CORE, 'vm.c')).read()
HDR = open('/repo/src/include/janet.h').read()

# opcode list from the public header (enum JanetOpCode), shapes as documented for the abstract machine (JanetInstructionType)
ops = re.search(r'enum JanetOpCode \{(.*?)JOP_INSTRUCTION_COUNT', HDR, re.S).group(1)
OPS = re.findall(r'(JOP_\w+)', ops)
SHAPE_NO = {"0": 0, "S": 1, "L": 2, "SS": 3, "SL": 4, "ST": 5, "SI": 6, "SD": 7, "SSS": 8, "SSI": 9, "SSU": 10, "SES": 11, "SC": 12}
SSS = "ADD SUBTRACT MULTIPLY DIVIDE DIVIDE_FLOOR MODULO REMAINDER BAND BOR BXOR SHIFT_LEFT SHIFT_RIGHT SHIFT_RIGHT_UNSIGNED GREATER_THAN LESS_THAN EQUALS COMPARE PUSH_3 RESUME PROPAGATE IN GET PUT GREATER_THAN_EQUAL LESS_THAN_EQUAL NEXT NOT_EQUALS CANCEL".split()
SSI = "ADD_IMMEDIATE SUBTRACT_IMMEDIATE MULTIPLY_IMMEDIATE DIVIDE_IMMEDIATE SHIFT_LEFT_IMMEDIATE SHIFT_RIGHT_IMMEDIATE GREATER_THAN_IMMEDIATE LESS_THAN_IMMEDIATE EQUALS_IMMEDIATE NOT_EQUALS_IMMEDIATE".split()
SSU = "SHIFT_RIGHT_UNSIGNED_IMMEDIATE SIGNAL GET_INDEX PUT_INDEX".split()
S1 = "ERROR RETURN LOAD_NIL LOAD_TRUE LOAD_FALSE LOAD_SELF PUSH PUSH_ARRAY TAILCALL MAKE_ARRAY MAKE_BUFFER MAKE_STRING MAKE_STRUCT MAKE_TABLE MAKE_TUPLE MAKE_BRACKET_TUPLE".split()
SS = "BNOT MOVE_FAR MOVE_NEAR PUSH_2 CALL LENGTH".split()
SL = "JUMP_IF JUMP_IF_NOT JUMP_IF_NIL JUMP_IF_NOT_NIL".split()
SHAPE = {}
for n in SSS: SHAPE["JOP_" + n] = "SSS"
for n in SSI: SHAPE["JOP_" + n] = "SSI"
for n in SSU: SHAPE["JOP_" + n] = "SSU"
for n in S1: SHAPE["JOP_" + n] = "S"
for n in SS: SHAPE["JOP_" + n] = "SS"
for n in SL: SHAPE["JOP_" + n] = "SL"
SHAPE.update({"JOP_NOOP": "0", "JOP_RETURN_NIL": "0", "JOP_TYPECHECK": "ST", "JOP_JUMP": "L", "JOP_LOAD_INTEGER": "SI", "JOP_LOAD_CONSTANT": "SC",
              "JOP_LOAD_UPVALUE": "SES", "JOP_SET_UPVALUE": "SES", "JOP_CLOSURE": "SD"})
missing = [o for o in OPS if o not in SHAPE]
if missing:
    sys.exit("contract out of date: opcodes without a documented shape: %s" % missing)

# the line of every opcode in janet_instructions[] (same order as the enum)
tab = re.search(r'janet_instructions\[JOP_INSTRUCTION_COUNT\] = \{\n(.*?)\n\};', BC, re.S).group(1).split('\n')
if len(tab) != len(OPS):
    sys.exit("contract out of date: janet_instructions has %d lines for %d opcodes" % (len(tab), len(OPS)))
TABLINE = dict(zip(OPS, tab))

BOUND = ("one function definition of 4 instructions, slotcount 3, 2 constants, 2 nested definitions, 2 environments (each of 3 upvalues, open on another fiber); "
         "the instruction word is enumerated over the boundary words of its operand shape (each field at the largest admitted value and at the first value outside, immediates and unchecked bits at all-ones / sign bit), "
         "because the word must be concrete for CBMC to resolve instruction dispatch; the stack block has exactly JANET_FRAME_SIZE + slotcount cells; "
         "run_vm in its portable switch-dispatch configuration and with the tagged-struct value representation (JANET_NO_NANBOX); slot contents symbolic over numbers, nil, booleans, "
         "a valid fiber, a valid C function and a valid Janet function; GC counters and auto-suspend unconstrained")
STUBS = ["janet_binop_call:vv_binop_call_stub", "janet_mcall:vv_mcall_stub", "janet_unary_call:vv_unary_call_stub",
         "janet_check_can_resume:vv_check_can_resume_stub", "janet_continue_no_check:vv_continue_no_check_stub", "janet_continue_signal:vv_continue_signal_stub",
         "janet_tuple_n:vv_tuple_n_stub", "janet_gcalloc:vv_gcalloc_stub"]
ASSUMES = ["callees that leave the interpreter loop (method dispatch, janet_in/get/put/..., janet_compare/equals, fiber primitives push/cframe/funcframe/popframe, constructors, janet_collect, running a child fiber) "
           "do not touch the caller's frame beyond their documented effect and are memory safe themselves (their own units); they are stubs or result-only bodies here",
           "the argument area above the frame is empty: instructions that consume it (CALL, TAILCALL, MAKE_*) are exercised for their register reads only",
           "environments are open environments on another fiber's stack (closed ones cannot be modelled with CBMC 6.11, see vm_ops.c); an environment is as long as its owner declared (env->length is checked at run time by the instruction)",
           "breakpoint bits are set on the other instructions after verification, as debug/break does",
           "janet_panic* do not return (prelude.h)"]
common = dict(props=["C10"], tier="quick", **{"class": "bounded"}, bound=BOUND, src=["bytecode.c", "vm.c"], link=["fiber.c", "wrap.c"],
  link_keep={"fiber.c": ["janet_fiber_status", "janet_env_valid"],
             "wrap.c": ["janet_wrap_number", "janet_wrap_nil", "janet_wrap_true", "janet_wrap_false", "janet_wrap_boolean", "janet_wrap_function", "janet_wrap_array", "janet_wrap_tuple",
                        "janet_wrap_table", "janet_wrap_struct", "janet_wrap_buffer", "janet_wrap_string"]},
  harness=["vm_verified_ops.c"], pre=["vm_switch_pre.h"], mode="plain", nanbox=False, replace_calls=STUBS, entry="h_vv",
  functions=["janet_verify", "run_vm"], checks=["bounds-check", "pointer-check"], unwind=8, unwinding_assertions=True, timeout=600, assumes=ASSUMES,
  undecided_clauses=["instruction words other than the enumerated boundary words of the shape",
                     "the obligation count includes the (trivially discharged) checks of the opcode bodies that the one-instruction program cannot reach"])

def M(name, file, find, replace, expect):
    text = BC if file == "bytecode.c" else VM
    if text.count(find) != 1:
        sys.exit("contract out of date: mutant %s: text occurs %d times in %s: %r" % (name, text.count(find), file, find[:70]))
    return {"name": name, "file": file, "find": find, "replace": replace, "expect": expect}
MEM = "bounds|dereference|pointer|refused by the verifier|inside the bytecode"

# (a) mutants of the verifier: the opcode's line in janet_instructions[] moved to a shape that checks less
WEAKER = {"S": "0", "L": "0", "SS": "ST", "SL": "ST", "ST": "0", "SI": "0", "SD": "SI", "SSS": "SSI", "SSI": "SI", "SSU": "SU", "SES": "SSU", "SC": "SI"}
def table_mutant(op):
    sh = SHAPE[op]
    if sh == "0":
        return []
    line = TABLINE[op]
    assert ("JINT_" + sh) in line, (op, line)
    return [M("table-%s-to-%s" % (sh, WEAKER[sh]), "bytecode.c", line + "\n", line.replace("JINT_" + sh, "JINT_" + WEAKER[sh], 1) + "\n", MEM)]
# ... and a dropped / off-by-one check in janet_verify for the shape
VER = {
 "S": ("slot-bound-off-by-one", "                if ((int32_t)(instr >> 8) >= sc) return 4;", "                if ((int32_t)(instr >> 8) > sc) return 4;"),
 "SS": ("far-slot-check-dropped", "                if ((int32_t)((instr >> 8) & 0xFF) >= sc ||\n                        (int32_t)(instr >> 16) >= sc) return 4;", "                if ((int32_t)((instr >> 8) & 0xFF) >= sc) return 4;"),
 "SSS": ("third-slot-check-dropped", "                        ((int32_t)(instr >> 16) & 0xFF) >= sc ||\n                        ((int32_t)(instr >> 24) & 0xFF) >= sc) return 4;", "                        ((int32_t)(instr >> 16) & 0xFF) >= sc) return 4;"),
 "SSI": ("second-slot-check-dropped", "                if ((int32_t)((instr >> 8) & 0xFF) >= sc ||\n                        (int32_t)((instr >> 16) & 0xFF) >= sc) return 4;", "                if ((int32_t)((instr >> 8) & 0xFF) >= sc) return 4;"),
 "L": ("upper-jump-bound-dropped", "                if (jumpdest < 0 || jumpdest >= def->bytecode_length) return 5;\n                continue;\n            }\n            case JINT_SS:", "                if (jumpdest < 0) return 5;\n                continue;\n            }\n            case JINT_SS:"),
 "SL": ("lower-jump-bound-dropped", "                if ((int32_t)((instr >> 8) & 0xFF) >= sc) return 4;\n                if (jumpdest < 0 || jumpdest >= def->bytecode_length) return 5;", "                if ((int32_t)((instr >> 8) & 0xFF) >= sc) return 4;\n                if (jumpdest >= def->bytecode_length) return 5;"),
 "SD": ("def-bound-off-by-one", "                if ((int32_t)(instr >> 16) >= def->defs_length) return 6;", "                if ((int32_t)(instr >> 16) > def->defs_length) return 6;"),
 "SC": ("constant-bound-off-by-one", "                if ((int32_t)(instr >> 16) >= def->constants_length) return 7;", "                if ((int32_t)(instr >> 16) > def->constants_length) return 7;"),
 "SES": ("environment-bound-off-by-one", "                if ((int32_t)((instr >> 16) & 0xFF) >= def->environments_length) return 8;", "                if ((int32_t)((instr >> 16) & 0xFF) > def->environments_length) return 8;"),
 "ST": ("slot-bound-off-by-one", "            case JINT_ST: {\n                if ((int32_t)((instr >> 8) & 0xFF) >= sc) return 4;", "            case JINT_ST: {\n                if ((int32_t)((instr >> 8) & 0xFF) > sc) return 4;"),
 "SI": ("slot-bound-off-by-one", "            case JINT_ST: {\n                if ((int32_t)((instr >> 8) & 0xFF) >= sc) return 4;", "            case JINT_ST: {\n                if ((int32_t)((instr >> 8) & 0xFF) > sc) return 4;"),
}
VER["SSU"] = VER["SSI"]
def verify_mutant(op):
    sh = SHAPE[op]
    if sh not in VER:
        return []
    n, f, r = VER[sh]
    return [M("verify-" + n, "bytecode.c", f, r, MEM)]

# (b) mutants of the interpreter: the body reads / writes a wider (or the next) register field than the shape bounds
BINOP = "        Janet op1 = stack[B];\\\n        Janet op2 = stack[C];\\\n        if (janet_checktype(op1, JANET_NUMBER) && janet_checktype(op2, JANET_NUMBER)) {\\\n            double x1 = janet_unwrap_number(op1);\\\n            double x2 = janet_unwrap_number(op2);\\\n            stack[A] = wrap("
BITOP = "        Janet op1 = stack[B];\\\n        Janet op2 = stack[C];\\\n        if (janet_checktype(op1, JANET_NUMBER) && janet_checktype(op2, JANET_NUMBER)) {\\\n            double y1"
COMPOP = "        Janet op1 = stack[B];\\\n        Janet op2 = stack[C];\\\n        if (janet_checktype(op1, JANET_NUMBER) && janet_checktype(op2, JANET_NUMBER)) {\\\n            double x1 = janet_unwrap_number(op1);\\\n            double x2 = janet_unwrap_number(op2);\\\n            stack[A] = janet_wrap_boolean("
BINOP_I = "        Janet op1 = stack[B];\\\n        if (!janet_checktype(op1, JANET_NUMBER)) {\\\n            vm_commit();\\\n            Janet _argv[2] = { op1, janet_wrap_number(CS) };\\\n            stack[A] = janet_mcall(#op, 2, _argv);\\\n            vm_checkgc_pcnext();\\\n        } else {\\\n            double x1"
BITOP_I = "        Janet op1 = stack[B];\\\n        if (!janet_checktype(op1, JANET_NUMBER)) {\\\n            vm_commit();\\\n            Janet _argv[2] = { op1, janet_wrap_number(CS) };\\\n            stack[A] = janet_mcall(#op, 2, _argv);\\\n            vm_checkgc_pcnext();\\\n        } else {\\\n            double y1"
COMPOP_I = "        Janet op1 = stack[B];\\\n        if (janet_checktype(op1, JANET_NUMBER)) {\\\n            double x1 = janet_unwrap_number(op1);\\\n            double x2 = (double) CS; \\"
def wide(text, old="stack[B]", new="stack[E]"):
    return (text, text.replace(old, new, 1))
def own(op, old, new, head=None):
    """edit inside the body that starts at VM_OP(op)"""
    start = VM.index("VM_OP(%s)" % op)
    at = VM.index(old, start)
    nxt = VM.find("VM_OP(", start + 5)
    assert at < nxt or nxt < 0, (op, old)
    ctx = VM[start:at + len(old)]
    return (ctx, ctx[:len(ctx) - len(old)] + new)
VMM = {}
for o in ("ADD", "SUBTRACT", "MULTIPLY", "DIVIDE"): VMM["JOP_" + o] = wide(BINOP)
for o in ("BAND", "BOR", "BXOR", "SHIFT_LEFT", "SHIFT_RIGHT", "SHIFT_RIGHT_UNSIGNED"): VMM["JOP_" + o] = wide(BITOP)
for o in ("GREATER_THAN", "LESS_THAN", "GREATER_THAN_EQUAL", "LESS_THAN_EQUAL"): VMM["JOP_" + o] = wide(COMPOP)
for o in ("ADD", "SUBTRACT", "MULTIPLY", "DIVIDE"): VMM["JOP_" + o + "_IMMEDIATE"] = wide(BINOP_I)
for o in ("SHIFT_LEFT", "SHIFT_RIGHT", "SHIFT_RIGHT_UNSIGNED"): VMM["JOP_" + o + "_IMMEDIATE"] = wide(BITOP_I)
for o in ("GREATER_THAN", "LESS_THAN"): VMM["JOP_" + o + "_IMMEDIATE"] = wide(COMPOP_I)
for o in ("DIVIDE_FLOOR", "MODULO", "REMAINDER"): VMM["JOP_" + o] = own("JOP_" + o, "Janet op1 = stack[B];", "Janet op1 = stack[E];")
VMM["JOP_EQUALS"] = own("JOP_EQUALS", "janet_equals(stack[B], stack[C])", "janet_equals(stack[E], stack[C])")
VMM["JOP_NOT_EQUALS"] = own("JOP_NOT_EQUALS", "janet_equals(stack[B], stack[C])", "janet_equals(stack[E], stack[C])")
VMM["JOP_EQUALS_IMMEDIATE"] = own("JOP_EQUALS_IMMEDIATE", "janet_checktype(stack[B], JANET_NUMBER)", "janet_checktype(stack[E], JANET_NUMBER)")
VMM["JOP_NOT_EQUALS_IMMEDIATE"] = own("JOP_NOT_EQUALS_IMMEDIATE", "!janet_checktype(stack[B], JANET_NUMBER)", "!janet_checktype(stack[E], JANET_NUMBER)")
VMM["JOP_COMPARE"] = own("JOP_COMPARE", "janet_compare(stack[B], stack[C])", "janet_compare(stack[E], stack[C])")
VMM["JOP_BNOT"] = own("JOP_BNOT", "Janet op = stack[E];", "Janet op = stack[D];")
VMM["JOP_MOVE_NEAR"] = own("JOP_MOVE_NEAR", "stack[A] = stack[E];", "stack[A] = stack[D];")
VMM["JOP_MOVE_FAR"] = own("JOP_MOVE_FAR", "stack[E] = stack[A];", "stack[D] = stack[A];")
VMM["JOP_LOAD_NIL"] = own("JOP_LOAD_NIL", "stack[D] = janet_wrap_nil();", "stack[D + 1] = janet_wrap_nil();")
VMM["JOP_LOAD_TRUE"] = own("JOP_LOAD_TRUE", "stack[D] = janet_wrap_true();", "stack[D + 1] = janet_wrap_true();")
VMM["JOP_LOAD_FALSE"] = own("JOP_LOAD_FALSE", "stack[D] = janet_wrap_false();", "stack[D + 1] = janet_wrap_false();")
VMM["JOP_LOAD_SELF"] = own("JOP_LOAD_SELF", "stack[D] = janet_wrap_function(func);", "stack[D + 1] = janet_wrap_function(func);")
VMM["JOP_LOAD_INTEGER"] = own("JOP_LOAD_INTEGER", "stack[A] = janet_wrap_integer(ES);", "stack[E] = janet_wrap_integer(ES);")
VMM["JOP_LOAD_CONSTANT"] = own("JOP_LOAD_CONSTANT", "stack[A] = func->def->constants[cindex];", "stack[A] = func->def->constants[cindex + 1];")
VMM["JOP_LOAD_UPVALUE"] = own("JOP_LOAD_UPVALUE", "stack[A] = env->as.fiber->data[env->offset + vindex];", "stack[E] = env->as.fiber->data[env->offset + vindex];")
VMM["JOP_SET_UPVALUE"] = own("JOP_SET_UPVALUE", "env->as.fiber->data[env->offset + vindex] = stack[A];", "env->as.fiber->data[env->offset + vindex] = stack[E];")
VMM["JOP_CLOSURE"] = own("JOP_CLOSURE", "fd = func->def->defs[defindex];", "fd = func->def->defs[defindex + 1];")
VMM["JOP_PUSH"] = own("JOP_PUSH", "janet_fiber_push(fiber, stack[D]);", "janet_fiber_push(fiber, stack[D + 1]);")
VMM["JOP_PUSH_2"] = own("JOP_PUSH_2", "janet_fiber_push2(fiber, stack[A], stack[E]);", "janet_fiber_push2(fiber, stack[A], stack[D]);")
VMM["JOP_PUSH_3"] = own("JOP_PUSH_3", "janet_fiber_push3(fiber, stack[A], stack[B], stack[C]);", "janet_fiber_push3(fiber, stack[A], stack[E], stack[C]);")
VMM["JOP_PUSH_ARRAY"] = own("JOP_PUSH_ARRAY", "janet_indexed_view(stack[D], &vals, &len)", "janet_indexed_view(stack[D + 1], &vals, &len)")
VMM["JOP_CALL"] = ("            stack = fiber->data + fiber->frame;\n            stack[A] = ret;", "            stack = fiber->data + fiber->frame;\n            stack[A + 1] = ret;")
VMM["JOP_RESUME"] = own("JOP_RESUME", "vm_assert_type(stack[B], JANET_FIBER);", "vm_assert_type(stack[E], JANET_FIBER);")
VMM["JOP_CANCEL"] = own("JOP_CANCEL", "vm_assert_type(stack[B], JANET_FIBER);", "vm_assert_type(stack[E], JANET_FIBER);")
VMM["JOP_SIGNAL"] = own("JOP_SIGNAL", "vm_return(s, stack[B]);", "vm_return(s, stack[E]);")
VMM["JOP_PROPAGATE"] = own("JOP_PROPAGATE", "Janet fv = stack[C];", "Janet fv = stack[E];")
VMM["JOP_IN"] = own("JOP_IN", "janet_in(stack[B], stack[C]);", "janet_in(stack[E], stack[C]);")
VMM["JOP_GET"] = own("JOP_GET", "janet_get(stack[B], stack[C]);", "janet_get(stack[E], stack[C]);")
VMM["JOP_NEXT"] = own("JOP_NEXT", "janet_next_impl(stack[B], stack[C], 1);", "janet_next_impl(stack[E], stack[C], 1);")
VMM["JOP_PUT"] = own("JOP_PUT", "janet_put(stack[A], stack[B], stack[C]);", "janet_put(stack[A], stack[E], stack[C]);")
VMM["JOP_GET_INDEX"] = own("JOP_GET_INDEX", "janet_getindex(stack[B], C);", "janet_getindex(stack[E], C);")
VMM["JOP_PUT_INDEX"] = own("JOP_PUT_INDEX", "janet_putindex(stack[A], C, stack[B]);", "janet_putindex(stack[A], C, stack[E]);")
VMM["JOP_LENGTH"] = own("JOP_LENGTH", "janet_lengthv(stack[E]);", "janet_lengthv(stack[D]);")
VMM["JOP_MAKE_ARRAY"] = own("JOP_MAKE_ARRAY", "stack[D] = janet_wrap_array(", "stack[D + 1] = janet_wrap_array(")
VMM["JOP_MAKE_TABLE"] = own("JOP_MAKE_TABLE", "stack[D] = janet_wrap_table(table);", "stack[D + 1] = janet_wrap_table(table);")
VMM["JOP_MAKE_STRUCT"] = own("JOP_MAKE_STRUCT", "stack[D] = janet_wrap_struct(", "stack[D + 1] = janet_wrap_struct(")
VMM["JOP_MAKE_STRING"] = own("JOP_MAKE_STRING", "stack[D] = janet_stringv(", "stack[D + 1] = janet_stringv(")
VMM["JOP_MAKE_BUFFER"] = own("JOP_MAKE_BUFFER", "stack[D] = janet_wrap_buffer(buffer);", "stack[D + 1] = janet_wrap_buffer(buffer);")
TUP = ("        stack[D] = janet_wrap_tuple(tup);", "        stack[D + 1] = janet_wrap_tuple(tup);")
VMM["JOP_MAKE_TUPLE"] = TUP
VMM["JOP_MAKE_BRACKET_TUPLE"] = TUP
VMM["JOP_ERROR"] = own("JOP_ERROR", "vm_return(JANET_SIGNAL_ERROR, stack[D]);", "vm_return(JANET_SIGNAL_ERROR, stack[D + 1]);")
VMM["JOP_TYPECHECK"] = own("JOP_TYPECHECK", "vm_assert_types(stack[A], E);", "vm_assert_types(stack[E], E);")
VMM["JOP_RETURN"] = own("JOP_RETURN", "Janet retval = stack[D];", "Janet retval = stack[D + 1];")
VMM["JOP_RETURN_NIL"] = own("JOP_RETURN_NIL", "Janet retval = janet_wrap_nil();", "Janet retval = stack[A];")
VMM["JOP_NOOP"] = ("    VM_OP(JOP_NOOP)\n    vm_pcnext();", "    VM_OP(JOP_NOOP)\n    stack[A] = stack[A];\n    vm_pcnext();")
NO_VM_MUTANT = {"JOP_TAILCALL", "JOP_JUMP", "JOP_JUMP_IF", "JOP_JUMP_IF_NOT", "JOP_JUMP_IF_NIL", "JOP_JUMP_IF_NOT_NIL"}
def vm_mutant(op):
    if op in NO_VM_MUTANT:
        return []
    f, r = VMM[op]
    return [M("body-reads-outside-checked-field", "vm.c", f, r, "bounds|dereference|pointer")]

units = []
DOC = {"0": "no operands", "S": "one slot (24 bits)", "L": "a label (signed 24-bit offset)", "SS": "a slot (8 bits) and a far slot (16 bits)", "SL": "a slot and a label (signed 16-bit offset)",
       "ST": "a slot and a 16-bit type mask", "SI": "a slot and a signed 16-bit immediate", "SD": "a slot and a nested-definition index (16 bits)", "SSS": "three slots",
       "SSI": "two slots and a signed byte immediate", "SSU": "two slots and an unsigned byte immediate", "SES": "a slot, an environment index and an upvalue index", "SC": "a slot and a constant index (16 bits)"}
for op in OPS:
    sh = SHAPE[op]
    u = dict(common)
    u.update(id="vmv." + op[4:].lower(), defines=["-DVV_OP=" + op, "-DVV_SHAPE=%d" % SHAPE_NO[sh]],
      clause=("%s (%s): every boundary word that janet_verify accepts is executed by run_vm inside its frame of slotcount cells, the declared constants / nested definitions / environments and the bytecode "
              "(no bounds or pointer failure, program counter still inside the bytecode); every boundary word with a register, index or jump target outside the definition is refused by janet_verify" % (op, DOC[sh])),
      mutants=table_mutant(op) + verify_mutant(op) + vm_mutant(op))
    if op in ("JOP_CALL", "JOP_TAILCALL"):
        u["defines"] = u["defines"] + ["-DVV_CALLS"]
    if op in NO_VM_MUTANT:
        u["undecided_clauses"] = common["undecided_clauses"] + ["no interpreter-side mutant is recorded for the jumps and the tail call: a jump that leaves the bytecode (or a callee read from outside the frame) makes instruction dispatch symbolic and CBMC does not terminate; the verifier-side mutants are killed"]
    units.append(u)
u = dict(common)
u.update(id="vmv.unknown-opcode", entry="h_vv_unknown", defines=["-DVV_UNKNOWN"], **{"class": "full-domain"},
  clause="every opcode number from JOP_INSTRUCTION_COUNT to 0x7F (with or without the breakpoint bit, any operand bits) is refused by janet_verify: the interpreter never dispatches on a number it has no body for",
  mutants=[M("opcode-bound-off-by-one", "bytecode.c", "        if ((instr & 0x7F) >= JOP_INSTRUCTION_COUNT) {", "        if ((instr & 0x7F) > JOP_INSTRUCTION_COUNT) {", "no body for|bounds")])
u.pop("bound", None)
units.append(u)


# ---------------------------------------------------------------- resuming a frame that is suspended at an accepted word
RESUME_REP = [("0", "JOP_NOOP"), ("0", "JOP_RETURN_NIL"), ("L", "JOP_JUMP"), ("S", "JOP_LOAD_NIL"), ("S", "JOP_TAILCALL"), ("SS", "JOP_CALL"), ("SL", "JOP_JUMP_IF"), ("ST", "JOP_TYPECHECK"), ("SI", "JOP_LOAD_INTEGER"),
              ("SD", "JOP_CLOSURE"), ("SSS", "JOP_RESUME"), ("SSI", "JOP_ADD_IMMEDIATE"), ("SSU", "JOP_SIGNAL"), ("SES", "JOP_LOAD_UPVALUE"), ("SC", "JOP_LOAD_CONSTANT")]
R_ASS = ASSUMES + ["the frame is suspended at the word the way unmarshal_one_fiber (marsh.c) leaves it: any program counter inside the bytecode, fiber flags without RESUME_NO_USEVAL / RESUME_NO_SKIP"]
FAILS = {}
def R(op, sh, idx=None, reason=None):
    u = dict(common)
    uid = "vmv.resume." + op[4:].lower() + (".last" if idx is not None else "")
    u.update(id=uid, defines=["-DVV_OP=" + op, "-DVV_SHAPE=%d" % SHAPE_NO[sh], "-DVV_RESUME=1"] + (["-DVV_I=%d" % idx] if idx is not None else []), assumes=R_ASS,
      clause=("resuming, with a value, a frame that is suspended at %s %s(%s): for every boundary word that janet_verify accepts the value is stored inside the frame (register A of the word is below slotcount) and execution continues inside the bytecode; "
              "out-of-range words are refused" % ("the LAST instruction," if idx is not None else "an instruction", op, DOC[sh])),
      mutants=(table_mutant(op) or [M("resume-stores-one-slot-up", "vm.c", "    if (!(fiber->flags & JANET_FIBER_RESUME_NO_USEVAL)) stack[A] = in;", "    if (!(fiber->flags & JANET_FIBER_RESUME_NO_USEVAL)) stack[A + 1] = in;", "bounds|dereference|pointer")]))
    if reason and not os.environ.get("VV_FINDINGS"):
        u["disabled_reason"] = reason
    units.append(u)
REPRO = ("Reproducer on /repo/_build/janet (confirmed with valgrind): (def f (asm '{:slotcount 1 :arity 0 :bytecode [(ldn 0) :loop (sig 0 0 3) (jmp :loop)]})) (def fib (fiber/new f :y)) (resume fib) (def img (buffer (marshal fib))) "
         "-- the 40-byte image has the frame's pc at byte 16 and the bytecode at bytes 26..37 -- "
         "(a) (put img 26 0) (put img 27 255) (put img 28 0) (put img 29 0) (put img 16 0) (resume (unmarshal img) :v): first instruction = NOOP with A = 255, pc on it: "
         "'Invalid write of size 8 at run_vm (vm.c:634) ... 1,920 bytes after a block of size 152 alloc'd by unmarshal_one_fiber (marsh.c:1113)' (valgrind --redzone-size=4096); "
         "(b) (put img 16 2) (resume (unmarshal img) :v): pc on the last instruction (jmp :loop, A = 0xFF): 'Invalid read of size 4 at run_vm (vm.c:637) ... 0 bytes after a block of size 12 alloc'd by unmarshal_one_def' and the word found there is dispatched (janet prints 'debug: in <anonymous> pc=3').")
REASON = ("FAILS on the real code (GENUINE memory-safety defect on the unmarshal path, heap overflow): %s. run_vm's resume entry does `stack[A] = in; pc++` for whatever word the frame's program counter points at; janet_verify bounds register A only for shapes that start with a slot, "
          "and unmarshal_one_fiber (marsh.c) accepts any program counter below bytecode_length and any fiber flags. " + REPRO + " Possible fix: unmarshal_one_fiber accepts only a pc whose instruction is one a fiber can be suspended at (CALL, TAILCALL, RESUME, CANCEL, SIGNAL, PROPAGATE, IN/GET/PUT/NEXT... i.e. register A checked) and that is not the last instruction, or run_vm's entry checks A < slotcount and pc + 1 < end.")
for sh, op in RESUME_REP:
    why = None
    if sh == "0":
        why = REASON % ("%s has no operands, so the verifier accepts any bits in its operand bytes (e.g. A = 0xFF); resuming a frame suspended there stores the resume value at stack[A], outside the frame (failing obligations: run_vm.pointer_dereference.* at vm.c `stack[A] = in`)" % op)
    if sh == "L":
        why = REASON % ("JOP_JUMP's 24-bit offset overlays register A: an accepted backward jump by -1 has A = 0xFF; resuming a frame suspended there stores the resume value at stack[255], outside the frame (failing obligations: run_vm.pointer_dereference.* at vm.c `stack[A] = in`)")
    R(op, sh, reason=why)
R("JOP_RETURN_NIL", "0", idx=3, reason=REASON % ("a frame suspended at the last instruction of its function continues at pc + 1, one word past the bytecode (failing obligation: 'the program counter stays inside the bytecode'); the word found there is executed as an instruction"))

json.dump({"units": units}, open(os.path.join(V, 'units', 'C10_vmops.json'), 'w'), indent=1)
print('%d units' % len(units))
