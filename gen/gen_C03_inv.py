#!/usr/bin/env python3
"""Generates units/C03_inv.json: C03 data-structure invariants as inductive steps
(struct robin-hood layout: harness/val2_struct.c; symbol interning table: harness/val2_symcache.c)."""
import json, os

HERE = os.path.dirname(os.path.abspath(__file__))
units = []

# ---------------------------------------------------------------- struct.c
ST_ASSUMES = [
    "janet_hash/janet_compare/janet_equals on keys are replaced by their contracts: hash an arbitrary function of the key (symbolic table, all 2^32 values per key), compare a total order whose equality is equals (the laws proved by units val.*)",
    "precondition wf_struct(st): capacity a power of two; every bucket is empty (nil key, nil value: janet_memempty) or holds a non-nil non-NaN key with a non-nil value, keys pairwise different; an entry at probe distance d >= 1 has an occupied predecessor bucket whose entry wins that bucket under the code's order (distance, hash, compare); head->hash is the exact number of entries and <= head->length",
]
M_STALE_HASH = {"name": "put-swap-keeps-stale-hash", "file": "struct.c", "find": "                hash = otherhash;\n", "replace": "",
                "expect": "robin-hood representation invariant|canonical layout"}
M_TIE = {"name": "put-tie-not-broken-by-compare", "file": "struct.c", "find": "status = janet_compare(key, kv->key);",
         "replace": "status = janet_compare(key, kv->key) ? -1 : 0;", "expect": "robin-hood representation invariant|canonical layout"}
M_HASHORD = {"name": "put-hash-order-dropped", "file": "struct.c", "find": "            else if (hash < otherhash)\n                status = -1;\n",
             "replace": "", "expect": "robin-hood representation invariant|canonical layout"}
M_DISTFLIP = {"name": "put-distance-order-flipped", "file": "struct.c", "find": "            if (dist < otherdist)\n                status = -1;",
              "replace": "            if (dist > otherdist)\n                status = -1;", "expect": "robin-hood representation invariant|canonical layout|key set afterwards|keeps its value"}
M_COUNT = {"name": "put-count-not-updated", "file": "struct.c", "find": "                janet_struct_hash(st)++;\n", "replace": "",
           "expect": "robin-hood representation invariant|temporary count"}
M_REPLACE = {"name": "put-duplicate-always-replaces", "file": "struct.c", "find": "                if (replace) {", "replace": "                if (1) {",
             "expect": "keeps its value|unchanged"}


def struct_unit(uid, cap, uniq, tier, timeout, mutants, clause, k=None, maxlen=None):
    k = k or cap
    bound = ("capacity %d: ALL well-formed bucket arrays with 0..%d entries before the call (%s); "
             "abstract universe of %d pairwise different keys with an arbitrary hash function (all 2^32 hash values per key, so every "
             "home-bucket/collision/tie pattern) and arbitrary value words; independent of the number and order of earlier insertions"
             % (cap, (maxlen or cap) - 1, ("head->length <= %d, i.e. load factor <= 1/2 as in real structs" % maxlen) if maxlen else "up to the full table after it", k))
    if uniq:
        bound += "; uniqueness of the layout is claimed while at least one bucket stays empty (real structs: capacity > 2*length)"
    return {
        "id": uid, "props": ["C03"], "tier": tier, "class": "bounded", "bound": bound, "clause": clause,
        "src": ["struct.c"], "link": ["wrap.c"], "harness": ["val2_struct.c"], "entry": "h_struct_put_step", "mode": "plain",
        "defines": ["-DV2_CAP=%d" % cap, "-DV2_K=%d" % k] + ([] if uniq else ["-DV2_NO_UNIQ"]) + (["-DV2_MAXLEN=%d" % maxlen] if maxlen else []),
        "unwind": cap + 2, "unwindset": {"janet_struct_put_ext.0": cap + 1}, "timeout": timeout,
        "functions": ["janet_struct_put_ext"],
        "checks": ["bounds-check", "pointer-check", "signed-overflow-check", "div-by-zero-check"],
        "assumes": ST_ASSUMES, "mutants": mutants,
    }


units.append(struct_unit(
    "struct.inv.put.cap4", 4, False, "quick", 300, [M_STALE_HASH, M_TIE, M_HASHORD, M_DISTFLIP, M_COUNT, M_REPLACE],
    "inductive step: from ANY well-formed partially built struct (any number of entries already present) janet_struct_put_ext preserves the robin-hood "
    "representation invariant wf_struct (runs ordered by (distance, hash, compare); every key reachable from its home bucket without crossing an empty bucket) "
    "and adds exactly the new pair to the content (duplicates replace only on request; nil/NaN keys, nil values and extra items are ignored)"))
units.append(struct_unit(
    "struct.inv.canon.cap4", 4, True, "thorough", 600, [M_STALE_HASH, M_TIE],
    "inductive step + uniqueness: the bucket array left by janet_struct_put_ext on ANY well-formed struct is bit-identical to EVERY well-formed bucket array "
    "with the same key/value content - the layout is a function of the content alone, so structs built in any insertion order (any number of keys) "
    "have the same buckets, cached hash and compare as equal: structs compare by content"))

units.append(struct_unit(
    "struct.inv.put.cap8", 8, False, "thorough", 600, [M_STALE_HASH],
    "inductive step at capacity 8: from ANY well-formed partially built struct with up to 3 entries janet_struct_put_ext preserves the robin-hood representation "
    "invariant wf_struct and adds exactly the new pair to the content", k=5, maxlen=4))

# ---------------------------------------------------------------- symcache.c
SY_ASSUMES = [
    "janet_string_calchash is replaced by its contract: an arbitrary function of the bytes (symbolic table, all 2^32 values per string); janet_string_equalconst is the real one (string.c); memcmp/safe_memcpy/janet_gcalloc are replaced by their contracts (byte-wise compare / copy of <= 2 bytes, fresh zeroed block)",
    "precondition wf_cache: capacity a power of two; each slot NULL, the tombstone JANET_SYMCACHE_DELETED or a live symbol whose cached hash/length match its bytes; no two live entries with the same bytes; every live entry reachable from its home slot by linear probing without crossing NULL (tombstones do not stop a probe); cache_count exact, cache_deleted >= number of tombstones; cache_count + cache_deleted <= capacity/2 + 1",
    "universe of byte strings: first byte 'a'+c, length 1 or 2 (c < S2_K); the caller's buffer is never the interned object",
]
M_TOMB_NULL = {"name": "findmem-move-leaves-null-not-tombstone", "file": "symcache.c", "find": "janet_vm.cache[i] = JANET_SYMCACHE_DELETED;",
               "replace": "janet_vm.cache[i] = NULL;", "expect": "wf_cache|not interned a second time|returned for its bytes"}
M_TOMB_STOPS = {"name": "findmem-tombstone-stops-probe", "file": "symcache.c",
                "find": "                    firstEmpty = janet_vm.cache + i;\n                continue;", "replace": "                    firstEmpty = janet_vm.cache + i;\n                goto notfound;",
                "expect": "finds every live string|identical pointer|wf_cache|returns the interned symbol|same pointer|not interned a second time|returned for its bytes"}
M_NO_MOVE_CLEAR = {"name": "findmem-move-keeps-old-slot", "file": "symcache.c", "find": "                    janet_vm.cache[i] = JANET_SYMCACHE_DELETED;\n", "replace": "",
                   "expect": "wf_cache"}
M_DEINIT_NULL = {"name": "deinit-clears-slot-to-null", "file": "symcache.c", "find": "        *bucket = JANET_SYMCACHE_DELETED;", "replace": "        *bucket = NULL;",
                 "expect": "wf_cache|not interned a second time|returned for its bytes"}
M_DEINIT_COUNT = {"name": "deinit-count-not-decremented", "file": "symcache.c", "find": "        janet_vm.cache_count--;\n", "replace": "", "expect": "wf_cache|cache_count"}
M_PUT_COUNT = {"name": "put-count-not-incremented", "file": "symcache.c", "find": "    janet_vm.cache_count++;\n", "replace": "", "expect": "wf_cache|cache_count"}
M_SYM_NOFIND = {"name": "symbol-ignores-found", "file": "symcache.c", "find": "    if (success)\n        return *bucket;\n", "replace": "",
                "expect": "identical pointer|same pointer|wf_cache|returned for its bytes"}
M_FIRSTEMPTY_LAST = {"name": "findmem-empty-slot-overrides-first-tombstone", "file": "symcache.c",
                     "find": "                if (NULL == firstEmpty)\n                    firstEmpty = janet_vm.cache + i;\n                goto notfound;",
                     "replace": "                firstEmpty = janet_vm.cache + i;\n                goto notfound;", "expect": "$^"}


def sym_unit(uid, entry, cap, k, tier, timeout, fns, mutants, clause, extra_bound=""):
    return {
        "id": uid, "props": ["C03"], "tier": tier, "class": "bounded",
        "bound": ("cache capacity %d: ALL well-formed cache states (any mix of live symbols, tombstones, empty slots); universe of %d byte strings of length 1..2 "
                  "with an arbitrary string-hash function (every home-slot and full-hash collision pattern)%s" % (cap, k, extra_bound)),
        "clause": clause, "src": ["symcache.c", "string.c"], "harness": ["val2_symcache.c"], "entry": entry, "mode": "plain",
        "defines": ["-DVC_OWN_EXIT", "-DS2_CAP=%d" % cap, "-DS2_K=%d" % k],
        "unwind": max(cap, k) + 2, "timeout": timeout, "functions": fns,
        "checks": ["bounds-check", "pointer-check", "signed-overflow-check"],
        "assumes": SY_ASSUMES, "mutants": mutants,
    }


CL_FIND = ("janet_symcache_findmem on ANY well-formed cache: finds every live string and returns the slot holding the one interned symbol with these bytes (identical pointer, "
           "possibly moved forward into the first tombstone of its probe run), reports absent strings as absent and offers a free slot reachable from the home slot; "
           "preserves wf_cache (no two live entries with the same bytes, every live entry reachable without crossing NULL, counters) and the identity of every live symbol")
CL_DEINIT = ("janet_symbol_deinit on ANY well-formed cache removes exactly that symbol (tombstone), keeps every other live symbol live, identical and reachable (wf_cache), "
             "cache_count - 1, cache_deleted + 1")
CL_SYMBOL = ("janet_symbol (findmem + janet_symcache_put) on ANY well-formed cache below the resize threshold: bytes already interned yield the identical pointer, new bytes "
             "a new object that is live afterwards; wf_cache preserved (so no string is ever interned twice), every other live symbol keeps its identity")
NORESIZE = "; janet_cache_resize excluded by precondition (load below the resize threshold of janet_symcache_put)"

units.append(sym_unit("sym.inv.findmem.cap4", "h_sym_findmem", 4, 4, "quick", 120, ["janet_symcache_findmem"], [M_TOMB_NULL, M_TOMB_STOPS, M_NO_MOVE_CLEAR], CL_FIND))
units.append(sym_unit("sym.inv.deinit.cap4", "h_sym_deinit", 4, 4, "quick", 120, ["janet_symbol_deinit", "janet_symcache_findmem"], [M_DEINIT_NULL, M_DEINIT_COUNT, M_TOMB_NULL], CL_DEINIT))
units.append(sym_unit("sym.inv.symbol.cap4", "h_sym_symbol", 4, 4, "quick", 200, ["janet_symbol", "janet_symcache_put", "janet_symcache_findmem"],
                      [M_TOMB_NULL, M_PUT_COUNT, M_SYM_NOFIND, M_TOMB_STOPS], CL_SYMBOL, NORESIZE))
units.append(sym_unit("sym.inv.findmem.cap8", "h_sym_findmem", 8, 5, "thorough", 600, ["janet_symcache_findmem"], [M_TOMB_NULL], CL_FIND))
units.append(sym_unit("sym.inv.deinit.cap8", "h_sym_deinit", 8, 5, "thorough", 600, ["janet_symbol_deinit", "janet_symcache_findmem"], [M_DEINIT_NULL], CL_DEINIT))
units.append(sym_unit("sym.lemma.twice.cap4", "h_sym_intern_twice", 4, 4, "thorough", 600, ["janet_symbol", "janet_symcache_put", "janet_symcache_findmem"],
                      [M_SYM_NOFIND, M_TOMB_STOPS],
                      "symbols with the same bytes are identical: from ANY well-formed cache, interning the same bytes twice (two different caller buffers) yields the identical pointer, "
                      "whether the string was known or new and also when the first call moved the symbol forward into a tombstone", NORESIZE))
units.append(sym_unit("sym.lemma.after-remove.cap4", "h_sym_intern_after_remove", 4, 4, "thorough", 600,
                      ["janet_symbol", "janet_symbol_deinit", "janet_symcache_put", "janet_symcache_findmem"], [M_TOMB_NULL, M_DEINIT_NULL],
                      "symbols with the same bytes are identical, also after another symbol was removed (tombstone) and a found symbol was moved forward into the tombstone: "
                      "every symbol interned earlier is still the one returned for its bytes - none is interned a second time", NORESIZE))

for u in units:
    u["mutants"] = [m for m in u["mutants"] if m["expect"] != "$^"]
json.dump({"units": units}, open(os.path.join(HERE, "..", "units", "C03_inv.json"), "w"), indent=1)
print("wrote %d units" % len(units))
