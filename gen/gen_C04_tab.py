#!/usr/bin/env python3
"""generates units/C04_tab.json: C04 (map part) - util.c janet_dict_find / janet_dictionary_next, table.c put/remove/rawget/get/clear/rehash"""
import json, os
V = os.path.dirname(os.path.dirname(os.path.abspath(__file__)))
CHECKS = ["bounds-check", "pointer-check", "signed-overflow-check", "div-by-zero-check", "pointer-primitive-check", "undefined-shift-check"]
units = []

def unit(id, clause, entry, cls="bounded", tier="quick", **kw):
    u = {"id": id, "tier": tier, "class": cls, "clause": clause, "entry": entry}
    u.update(kw)
    units.append(u)

def mut(name, file, find, replace, expect, **kw):
    d = {"name": name, "file": file, "find": find, "replace": replace, "expect": expect}
    d.update(kw)
    return d

KEYS = ("janet_hash / janet_equals on keys are replaced by their contracts over an abstract key universe: equals is identity of the key id "
        "(foreign keys nil / NaN equal nothing), hash an arbitrary function of the key (symbolic table, all 2^32 values per key) - the laws units val.* prove of the real ones")
WFD = ("precondition wf_dict(buckets, cap): cap a power of two >= 1; every bucket EMPTY (nil,nil), TOMBSTONE (nil,false) or LIVE (key of the universe, non-nil value); "
       "live keys pairwise different; every live key reachable from its home bucket by linear probing with wrap-around without crossing an EMPTY bucket (tombstones do not stop a probe)")

# ------------------------------------------------------------------ (A) janet_dict_find
LOWER = ("    /* Lower half */\n    for (i = 0; i < index; i++) {\n        const JanetKV *kv = buckets + i;\n"
         "        if (janet_checktype(kv->key, JANET_NIL)) {\n            if (janet_checktype(kv->value, JANET_NIL)) {")
for cap in (1, 2, 4, 8):
    k = cap + 1
    muts = [mut("upper-probe-runs-past-end", "util.c", "for (i = index; i < cap; i++) {\n        const JanetKV *kv = buckets + i;\n        if (janet_checktype(kv->key, JANET_NIL)) {",
                "for (i = index; i <= cap; i++) {\n        const JanetKV *kv = buckets + i;\n        if (janet_checktype(kv->key, JANET_NIL)) {", "pointer_dereference|result is the bucket")]
    if cap >= 2:
        muts = [mut("lower-half-tombstone-ends-probe", "util.c", LOWER, LOWER.replace("if (janet_checktype(kv->value, JANET_NIL)) {", "if (1) {"),
                    "result is the bucket holding an equal key"),
                mut("no-wrap-around", "util.c", "for (i = 0; i < index; i++) {", "for (i = 0; i < 0; i++) {", "result is the bucket holding an equal key")] + muts
    unit("tab.find.cap%d" % cap,
         "janet_dict_find from EVERY well-formed bucket array: returns the bucket holding an equal key if one exists, otherwise the empty bucket that ends the probe path "
         "(else the first tombstone, else NULL for a full array); every bucket access inside the array; nothing written",
         "h_dict_find", tier="quick",
         bound="capacity %d: ALL well-formed bucket arrays (any mix of live, tombstone and empty buckets up to the full array); abstract universe of %d pairwise different keys plus foreign keys (nil, NaN) with an arbitrary hash function; all lookup keys" % (cap, k),
         src=["util.c"], link=["wrap.c"], harness=["tab_find.c"], defines=["-DTAB_CAP=%d" % cap, "-DTAB_K=%d" % k],
         unwind=k + 3, functions=["janet_dict_find"], assumes=[KEYS, WFD], mutants=muts, timeout=300 if cap <= 4 else 600)


SM = "i,janet_dict_find::1::i;index,janet_dict_find::1::index;cap,janet_dict_find::cap;first_bucket,janet_dict_find::1::first_bucket"
unit("tab.find.safety",
     "janet_dict_find, EVERY capacity >= 1 and any hash / equality: every bucket access of both probe loops lies inside the bucket array, nothing is written, both loops terminate",
     "h_dict_find_safety", cls="proved", mode="dfcc", enforce=["janet_dict_find/janet_dict_find_c"], src=["util.c"], link=["wrap.c"], harness=["tab_find_safety.c"],
     object_bits=8, timeout=300,
     loops={"janet_dict_find": [
         {"loop_id": "0", "invariants": "index >= 0 && index < cap && i >= index && i <= cap", "assigns": "i, first_bucket", "decreases": "cap - i", "symbol_map": SM},
         {"loop_id": "1", "invariants": "index >= 0 && index < cap && i >= 0 && i <= index", "assigns": "i, first_bucket", "decreases": "index - i", "symbol_map": SM}]},
     loop_counts={"janet_dict_find": 2},
     assumes=["janet_hash / janet_equals: generated bodies returning arbitrary values (no side effects)", "precondition: cap >= 1 (<= 2^26) and buckets valid for cap buckets"],
     mutants=[mut("upper-probe-runs-past-end", "util.c", "for (i = index; i < cap; i++) {\n        const JanetKV *kv = buckets + i;\n        if (janet_checktype(kv->key, JANET_NIL)) {",
                  "for (i = index; i <= cap; i++) {\n        const JanetKV *kv = buckets + i;\n        if (janet_checktype(kv->key, JANET_NIL)) {", "pointer_dereference|loop_invariant"),
              mut("lower-probe-includes-start", "util.c", "for (i = 0; i < index; i++) {", "for (i = 0; i <= cap; i++) {", "pointer_dereference|loop_invariant|loop_decreases")])

# ------------------------------------------------------------------ (B) table.c operations against the finite-map view
WFT = ("precondition wf_table(t): wf_dict(t->data, t->capacity) - " + WFD[len("precondition wf_dict(buckets, cap): "):] +
       "; data a heap block of capacity buckets; count = number of LIVE buckets, deleted = number of TOMBSTONEs; 2*(count+deleted) <= capacity")
FINDC = "janet_dict_find replaced by its contract tab_find_spec (proved of the real function by units tab.find.cap*); the replacement asserts wf_dict of its argument"
REHC = ("janet_table_rehash replaced by its contract (proved of the real function by units tab.rehash.*): requires wf_table without the load clause, size a power of two >= count; "
        "ensures a new exact block of size buckets without tombstones holding the same key/value map, old block released, deleted == 0, count unchanged")
SMALLOC = "janet_smalloc / janet_sfree (scratch memory of stack-flagged tables, gc.c) modelled as malloc / free"
T = dict(src=["table.c"], link=["wrap.c", "util.c"], link_keep={"util.c": ["janet_tablen"]}, harness=["tab_table.c"])
KOF = {1: 2, 2: 3, 4: 4, 8: 6}          # key universe per capacity: more keys than a table under the load clause can hold (+2)
NEWMAX = {1: 4, 2: 8, 4: 8, 8: 8}       # janet_tablen(2*count+2) for count <= cap/2; capacity 8: growth to 16 (count 3, 4) not decided within 10 min, units not delivered

def tbound(cap, extra=""):
    return ("capacity %d: ALL well-formed tables (any mix of live, tombstone and empty buckets allowed by the load clause, i.e. up to %d entries); abstract universe of %d pairwise different keys "
            "plus foreign keys (nil, NaN) with an arbitrary hash function; arbitrary value words; unbounded operation history (inductive invariant)%s" % (cap, cap // 2, KOF[cap], extra))

PUT_M = [mut("count-not-incremented", "table.c", "            bucket->key = key;\n            bucket->value = value;\n            ++t->count;", "            bucket->key = key;\n            bucket->value = value;", "re-establishes wf_table|length grows"),
         mut("load-check-ignores-tombstones", "table.c", "            if (NULL == bucket || 2 * (t->count + t->deleted + 1) > t->capacity) {", "            if (NULL == bucket || 2 * (t->count + 1) > t->capacity) {", "re-establishes wf_table"),
         mut("nil-value-stored", "table.c", "    if (janet_checktype(value, JANET_NIL)) {\n        janet_table_remove(t, key);", "    if (0) {\n        janet_table_remove(t, key);", "re-establishes wf_table|removes the key"),
         mut("nan-key-accepted", "table.c", "    if (janet_checktype(key, JANET_NUMBER) && isnan(janet_unwrap_number(key))) return;\n", "", "nil or NaN key is ignored|re-establishes wf_table")]
REM_M = [mut("tombstone-written-as-empty", "table.c", "        bucket->key = janet_wrap_nil();\n        bucket->value = janet_wrap_false();", "        bucket->key = janet_wrap_nil();\n        bucket->value = janet_wrap_nil();", "re-establishes wf_table|other keys unchanged"),
         mut("deleted-not-counted", "table.c", "        t->count--;\n        t->deleted++;", "        t->count--;", "re-establishes wf_table|count and deleted exact"),
         mut("key-not-cleared", "table.c", "        bucket->key = janet_wrap_nil();\n        bucket->value = janet_wrap_false();", "        bucket->value = janet_wrap_false();", "re-establishes wf_table|view.remove")]
RAW_M = [mut("liveness-test-flipped", "table.c", "    if (NULL != bucket && !janet_checktype(bucket->key, JANET_NIL))\n        return bucket->value;\n    else", "    if (NULL != bucket && janet_checktype(bucket->key, JANET_NIL))\n        return bucket->value;\n    else", "rawget returns view")]
GET_F = "t = t->proto, --i) {\n        JanetKV *bucket = janet_table_find(t, key);\n        if (NULL != bucket && !janet_checktype(bucket->key, JANET_NIL))\n            return bucket->value;"
GET_M = [mut("no-prototype-fallback", "table.c", GET_F, GET_F.replace("t = t->proto, --i", "t = NULL, --i"), "first table along the prototype chain"),
         mut("free-bucket-ends-lookup", "table.c", GET_F, GET_F.replace("if (NULL != bucket && !janet_checktype(bucket->key, JANET_NIL))", "if (NULL != bucket)"), "first table along the prototype chain")]
CLR_M = [mut("deleted-not-reset", "table.c", "    t->count = 0;\n    t->deleted = 0;\n", "    t->count = 0;\n", "re-establishes wf_table|no tombstones"),
         mut("clears-count-buckets-only", "table.c", "janet_memempty(data, capacity);", "janet_memempty(data, t->count);", "re-establishes wf_table|every bucket EMPTY|empty map")]
RH_M = [mut("deleted-not-reset", "table.c", "    t->deleted = 0;\n    for (int32_t i = 0; i < oldcapacity; i++) {", "    for (int32_t i = 0; i < oldcapacity; i++) {", "deleted == 0"),
        mut("walks-new-capacity", "table.c", "for (int32_t i = 0; i < oldcapacity; i++) {", "for (int32_t i = 0; i < size; i++) {", "pointer_dereference|preserves the view|count unchanged"),
        mut("value-not-copied", "table.c", "            *newkv = *kv;", "            newkv->key = kv->key;", "preserves the view|wf_dict")]

CAD = ["--sat-solver", "cadical"]
GROW_SIZE = lambda c: 1 << (2 * c + 2).bit_length()      # janet_tablen(2*c+2)
PUT_CLAUSE = ("janet_table_put: view' = view[key -> value] (a nil value removes the key, nil and NaN keys are ignored), every other key unchanged, "
              "count and deleted exact, wf_table re-established (probe paths, load), prototype never touched")
SIZE_M = mut("rehash-size-too-small", "table.c", "                janet_table_rehash(t, janet_tablen(2 * t->count + 2));", "                janet_table_rehash(t, janet_tablen(t->count));", "re-establishes wf_table|rehash precondition")

for cap in (1, 2, 4, 8):
    tier = "quick" if cap <= 4 else "thorough"
    to = 300 if cap <= 4 else 600
    k = KOF[cap]
    D = ["-DTAB_CAP=%d" % cap, "-DTAB_K=%d" % k, "-DTAB_NEWMAX=%d" % NEWMAX[cap]]
    uw = max(cap, k + 1) + 2
    # ---- put, calls that do not rehash
    unit("tab.put.cap%d.stay" % cap,
         PUT_CLAUSE + " - every call that does not rehash: key present, nil value, nil / NaN key, or table below the load limit; rehash is shown not to be reached",
         "h_table_put", tier=tier, timeout=to, bound=tbound(cap), defines=D, unwind=uw, cbmc=CAD, functions=["janet_table_put", "janet_table_remove", "janet_table_find"],
         replace_calls=["janet_table_rehash:tab_rehash_unreachable"], assumes=[KEYS, WFT, FINDC],
         mutants=(PUT_M[:1] + PUT_M[2:]) if cap >= 2 else [mut("nan-key-accepted", "table.c", PUT_M[3]["find"], "", "nil or NaN key is ignored|re-establishes wf_table|rehash happens only")], **T)
    # ---- put, calls that rehash: a new key into a table at the load limit, one unit per count (new capacity is then a constant)
    for c in range(0, cap // 2 + 1):
        size = GROW_SIZE(c)
        if size > NEWMAX[cap]:
            continue
        kk = max(2, c + 1)      # the c present keys and the new one (keys are interchangeable: the hash function is arbitrary)
        muts = [PUT_M[0], SIZE_M] + ([PUT_M[1]] if c < cap // 2 else [])
        unit("tab.put.cap%d.grow.c%d" % (cap, c),
             PUT_CLAUSE + " - a new key with a non-nil value put into a table with %d entries at the load limit: rehashes once to capacity %d and inserts" % (c, size),
             "h_table_put", tier=tier if size <= 8 else "thorough", timeout=to if size <= 8 else 600,
             bound="capacity %d, count %d, deleted %d (every such well-formed table); new capacity %d; abstract universe of %d pairwise different keys with an arbitrary hash function; arbitrary value words" % (cap, c, cap // 2 - c, size, kk),
             defines=["-DTAB_CAP=%d" % cap, "-DTAB_K=%d" % kk, "-DTAB_NEWMAX=%d" % NEWMAX[cap], "-DTAB_PUT_COUNT=%d" % c], unwind=max(size, cap, kk + 1) + 2, cbmc=CAD,
             functions=["janet_table_put", "janet_table_find"], replace_calls=["janet_table_rehash:tab_rehash_contract"], assumes=[KEYS, WFT, FINDC, REHC], mutants=muts if cap <= 4 else muts[:1], **T)
    if cap == 1:
        # a well-formed table of capacity 1 is empty (load clause): remove / rawget / clear have nothing to act on there
        # (every mutant is equivalent), the capacity-1 state - the fresh @{} - matters for put and rehash only
        UNIT = lambda *a, **k: None
    else:
        UNIT = unit
    UNIT("tab.remove.cap%d" % cap,
         "janet_table_remove from EVERY well-formed table: returns the value the key had, view' = view.remove(key), every other key unchanged, count and deleted exact, "
         "wf_table re-established (the tombstone keeps every probe path intact), prototype never touched",
         "h_table_remove", tier=tier, timeout=to, bound=tbound(cap), defines=D, unwind=uw, cbmc=CAD, functions=["janet_table_remove", "janet_table_find"],
         assumes=[KEYS, WFT, FINDC], mutants=REM_M, **T)
    UNIT("tab.rawget.cap%d" % cap,
         "janet_table_rawget from EVERY well-formed table: returns view(key) - the value last put, nil for an absent, removed, nil or NaN key; table unchanged; prototype never consulted",
         "h_table_rawget", tier=tier, timeout=to, bound=tbound(cap), defines=D, unwind=uw, cbmc=CAD, functions=["janet_table_rawget", "janet_table_find"],
         assumes=[KEYS, WFT, FINDC], mutants=RAW_M, **T)
    UNIT("tab.clear.cap%d" % cap,
         "janet_table_clear from EVERY well-formed table: view' is the empty map, length 0, no tombstones, every bucket EMPTY, block / capacity / prototype kept, wf_table re-established",
         "h_table_clear", tier=tier, timeout=to, bound=tbound(cap), defines=D, unwind=uw, cbmc=CAD, functions=["janet_table_clear", "janet_memempty"],
         assumes=[KEYS, WFT], mutants=CLR_M, **T)
    # ---- rehash under its contract: one unit for the new sizes <= 4, one per larger size
    kr = max(2, cap // 2 + 1)
    groups = [(1, min(4, NEWMAX[cap]))] + [(s, s) for s in (8, 16) if s <= NEWMAX[cap]]
    for lo, hi in groups:
        nm = "to%d" % hi if lo == hi else "to%d-%d" % (lo, hi)
        if cap == 1:
            muts = [RH_M[1]]
        else:
            muts = RH_M
        unit("tab.rehash.cap%d.%s" % (cap, nm),
             "janet_table_rehash under its contract, from EVERY well-formed table and every new size that is a power of two >= count: new exact heap block without tombstones, "
             "same key/value map, count unchanged, deleted == 0, wf_dict (distinct keys, probe paths) on the new block, old block freed validly, prototype untouched",
             "h_table_rehash", tier=tier if hi <= 8 else "thorough", timeout=to if hi <= 8 else 600,
             bound="old capacity %d (every well-formed table), new size the powers of two in [max(count,%d), %d]; abstract universe of %d keys with an arbitrary hash function; both allocation flavours (heap, scratch)" % (cap, lo, hi, kr),
             defines=["-DTAB_CAP=%d" % cap, "-DTAB_K=%d" % kr, "-DTAB_NEWMAX=%d" % NEWMAX[cap], "-DTAB_SIZE_MIN=%d" % lo, "-DTAB_SIZE_MAX=%d" % hi],
             unwind=max(hi, cap, kr + 1) + 2, cbmc=CAD, functions=["janet_table_rehash", "janet_table_find", "janet_memalloc_empty_local"],
             assumes=[KEYS, WFT, FINDC, SMALLOC, "janet_memalloc_empty (wrap.c) is the real function on CBMC's malloc"], mutants=muts if cap <= 4 else muts[2:], **T)

for cap, pcap, chain, tier in ((2, 2, 3, "quick"), (4, 2, 3, "quick"), (8, 4, 3, "thorough")):
    k = KOF[cap]
    unit("tab.get.cap%d" % cap,
         "janet_table_get: returns the value of the first table along the prototype chain whose map holds the key (the table's own entry wins), nil if none does or for a nil / NaN key; nothing modified",
         "h_table_get", tier=tier, timeout=300 if tier == "quick" else 600, cbmc=CAD,
         bound=tbound(cap, "; acyclic prototype chains of 1..%d tables, prototypes of capacity %d (the depth cut-off JANET_MAX_PROTO_DEPTH = 200 is not reached)" % (chain, pcap)),
         defines=["-DTAB_CAP=%d" % cap, "-DTAB_K=%d" % k, "-DTAB_PCAP=%d" % pcap, "-DTAB_CHAIN=%d" % chain], unwind=max(cap, k + 1) + 2,
         functions=["janet_table_get", "janet_table_find"], assumes=[KEYS, WFT, FINDC], mutants=GET_M, **T)

# ------------------------------------------------------------------ (C) janet_dictionary_next
NX = dict(src=["util.c"], link=["wrap.c"], harness=["tab_next.c"], defines=["-DTAB_MAXCAP=8"], unwind=11, functions=["janet_dictionary_next"])
NXB = "capacity 1..8, ALL bucket contents (arbitrary key and value words), every cursor position"
unit("tab.next.step",
     "janet_dictionary_next returns the first bucket strictly after the cursor whose key is not nil (from bucket 0 for a NULL cursor), NULL iff there is none; reads inside the array only, writes nothing",
     "h_dict_next_step", bound=NXB, assumes=["cursor is NULL or the address of a bucket of the array (what the previous call returned)"],
     mutants=[mut("cursor-not-advanced", "util.c", "kv = (kv == NULL) ? kvs : kv + 1;", "kv = (kv == NULL) ? kvs : kv;", "FIRST live bucket strictly after"),
              mut("walks-one-past-end", "util.c", "    while (kv < end) {\n        if (!janet_checktype(kv->key, JANET_NIL))\n            return kv;", "    while (kv <= end) {\n        if (!janet_checktype(kv->key, JANET_NIL))\n            return kv;", "pointer_dereference|points into the bucket array|returns NULL only")], **NX)
unit("tab.next.iter",
     "iterating with janet_dictionary_next from NULL until NULL visits every live bucket exactly once, in index order, visits no other bucket, and takes exactly as many steps as there are live buckets",
     "h_dict_next_iter", bound=NXB,
     mutants=[mut("first-bucket-skipped", "util.c", "kv = (kv == NULL) ? kvs : kv + 1;", "kv = (kv == NULL) ? kvs + 1 : kv + 1;", "exactly once|number of visited|pointer_dereference"),
              mut("returns-nil-key-buckets", "util.c", "    while (kv < end) {\n        if (!janet_checktype(kv->key, JANET_NIL))\n            return kv;", "    while (kv < end) {\n        if (!janet_checktype(kv->value, JANET_NIL))\n            return kv;", "live buckets only|exactly once|number of visited")], **NX)

json.dump({"defaults": {"props": ["C04"], "mode": "plain", "timeout": 300, "checks": CHECKS}, "units": units},
          open(os.path.join(V, "units", "C04_tab.json"), "w"), indent=1)
print(len(units), "units")
