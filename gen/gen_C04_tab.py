#!/usr/bin/env python3
"""generates units/C04_tab.json: C04 (map part) - util.c janet_dict_find / janet_dictionary_next, table.c put/remove/rawget/get/clear/rehash"""
import json, os
V = os.path.dirname(os.path.dirname(os.path.abspath(__file__)))
CHECKS = ["bounds-check", "pointer-check", "signed-overflow-check", "div-by-zero-check", "pointer-primitive-check", "undefined-shift-check"]
units = []

def unit(id, clause, entry, cls="bounded", tier="quick", **kw):
    u = {"id": id, "tier": tier, "class": cls, "clause": clause, "entry": entry}
    u.update(kw)
    units.append(u)

def mut(name, file, find, replace, expect, **kw):
    d = {"name": name, "file": file, "find": find, "replace": replace, "expect": expect}
    d.update(kw)
    return d

KEYS = ("janet_hash / janet_equals on keys are replaced by their contracts over an abstract key universe: equals is identity of the key id "
        "(foreign keys nil / NaN equal nothing), hash an arbitrary function of the key (symbolic table, all 2^32 values per key) - the laws units val.* prove of the real ones")
WFD = ("precondition wf_dict(buckets, cap): cap a power of two >= 1; every bucket EMPTY (nil,nil), TOMBSTONE (nil,false) or LIVE (key of the universe, non-nil value); "
       "live keys pairwise different; every live key reachable from its home bucket by linear probing with wrap-around without crossing an EMPTY bucket (tombstones do not stop a probe)")

# ------------------------------------------------------------------ (A) janet_dict_find
LOWER = ("    /* Lower half */\n    for (i = 0; i < index; i++) {\n        const JanetKV *kv = buckets + i;\n"
         "        if (janet_checktype(kv->key, JANET_NIL)) {\n            if (janet_checktype(kv->value, JANET_NIL)) {")
for cap in (1, 2, 4, 8):
    k = cap + 1
    muts = [mut("upper-probe-runs-past-end", "util.c", "for (i = index; i < cap; i++) {\n        const JanetKV *kv = buckets + i;\n        if (janet_checktype(kv->key, JANET_NIL)) {",
                "for (i = index; i <= cap; i++) {\n        const JanetKV *kv = buckets + i;\n        if (janet_checktype(kv->key, JANET_NIL)) {", "pointer_dereference|result is the bucket")]
    if cap >= 2:
        muts = [mut("lower-half-tombstone-ends-probe", "util.c", LOWER, LOWER.replace("if (janet_checktype(kv->value, JANET_NIL)) {", "if (1) {"),
                    "result is the bucket holding an equal key"),
                mut("no-wrap-around", "util.c", "for (i = 0; i < index; i++) {", "for (i = 0; i < 0; i++) {", "result is the bucket holding an equal key")] + muts
    unit("tab.find.cap%d" % cap,
         "janet_dict_find from EVERY well-formed bucket array: returns the bucket holding an equal key if one exists, otherwise the empty bucket that ends the probe path "
         "(else the first tombstone, else NULL for a full array); every bucket access inside the array; nothing written",
         "h_dict_find", tier="quick" if cap <= 4 else "thorough",
         bound="capacity %d: ALL well-formed bucket arrays (any mix of live, tombstone and empty buckets up to the full array); abstract universe of %d pairwise different keys plus foreign keys (nil, NaN) with an arbitrary hash function; all lookup keys" % (cap, k),
         src=["util.c"], link=["wrap.c"], harness=["tab_find.c"], defines=["-DTAB_CAP=%d" % cap, "-DTAB_K=%d" % k],
         unwind=k + 3, functions=["janet_dict_find"], assumes=[KEYS, WFD], mutants=muts, timeout=300 if cap <= 4 else 600)


# ------------------------------------------------------------------ (B) table.c operations against the finite-map view
WFT = ("precondition wf_table(t): wf_dict(t->data, t->capacity) - " + WFD[len("precondition wf_dict(buckets, cap): "):] +
       "; data a heap block of capacity buckets; count = number of LIVE buckets, deleted = number of TOMBSTONEs; 2*(count+deleted) <= capacity")
FINDC = "janet_dict_find replaced by its contract tab_find_spec (proved of the real function by units tab.find.cap*); the replacement asserts wf_dict of its argument"
REHC = ("janet_table_rehash replaced by its contract (proved of the real function by units tab.rehash.*): requires wf_table without the load clause, size a power of two >= count; "
        "ensures a new exact block of size buckets without tombstones holding the same key/value map, old block released, deleted == 0, count unchanged")
SMALLOC = "janet_smalloc / janet_sfree (scratch memory of stack-flagged tables, gc.c) modelled as malloc / free"
T = dict(src=["table.c"], link=["wrap.c", "util.c"], link_keep={"util.c": ["janet_tablen"]}, harness=["tab_table.c"])
KOF = {1: 2, 2: 3, 4: 4, 8: 6}          # key universe per capacity: more keys than a table under the load clause can hold (+2)
NEWMAX = {1: 4, 2: 8, 4: 8, 8: 16}      # janet_tablen(2*count+2) for count <= cap/2

def tbound(cap, extra=""):
    return ("capacity %d: ALL well-formed tables (any mix of live, tombstone and empty buckets allowed by the load clause, i.e. up to %d entries); abstract universe of %d pairwise different keys "
            "plus foreign keys (nil, NaN) with an arbitrary hash function; arbitrary value words; unbounded operation history (inductive invariant)%s" % (cap, cap // 2, KOF[cap], extra))

PUT_M = [mut("count-not-incremented", "table.c", "            bucket->key = key;\n            bucket->value = value;\n            ++t->count;", "            bucket->key = key;\n            bucket->value = value;", "re-establishes wf_table|length grows"),
         mut("load-check-ignores-tombstones", "table.c", "            if (NULL == bucket || 2 * (t->count + t->deleted + 1) > t->capacity) {", "            if (NULL == bucket || 2 * (t->count + 1) > t->capacity) {", "re-establishes wf_table"),
         mut("nil-value-stored", "table.c", "    if (janet_checktype(value, JANET_NIL)) {\n        janet_table_remove(t, key);", "    if (0) {\n        janet_table_remove(t, key);", "re-establishes wf_table|removes the key"),
         mut("nan-key-accepted", "table.c", "    if (janet_checktype(key, JANET_NUMBER) && isnan(janet_unwrap_number(key))) return;\n", "", "nil or NaN key is ignored|re-establishes wf_table")]
REM_M = [mut("tombstone-written-as-empty", "table.c", "        bucket->key = janet_wrap_nil();\n        bucket->value = janet_wrap_false();", "        bucket->key = janet_wrap_nil();\n        bucket->value = janet_wrap_nil();", "re-establishes wf_table|other keys unchanged"),
         mut("deleted-not-counted", "table.c", "        t->count--;\n        t->deleted++;", "        t->count--;", "re-establishes wf_table|count and deleted exact"),
         mut("key-not-cleared", "table.c", "        bucket->key = janet_wrap_nil();\n        bucket->value = janet_wrap_false();", "        bucket->value = janet_wrap_false();", "re-establishes wf_table|view.remove")]
RAW_M = [mut("liveness-test-flipped", "table.c", "    if (NULL != bucket && !janet_checktype(bucket->key, JANET_NIL))\n        return bucket->value;\n    else", "    if (NULL != bucket && janet_checktype(bucket->key, JANET_NIL))\n        return bucket->value;\n    else", "rawget returns view")]
GET_F = "t = t->proto, --i) {\n        JanetKV *bucket = janet_table_find(t, key);\n        if (NULL != bucket && !janet_checktype(bucket->key, JANET_NIL))\n            return bucket->value;"
GET_M = [mut("no-prototype-fallback", "table.c", GET_F, GET_F.replace("t = t->proto, --i", "t = NULL, --i"), "first table along the prototype chain"),
         mut("free-bucket-ends-lookup", "table.c", GET_F, GET_F.replace("if (NULL != bucket && !janet_checktype(bucket->key, JANET_NIL))", "if (NULL != bucket)"), "first table along the prototype chain")]
CLR_M = [mut("deleted-not-reset", "table.c", "    t->count = 0;\n    t->deleted = 0;\n", "    t->count = 0;\n", "re-establishes wf_table|no tombstones"),
         mut("clears-count-buckets-only", "table.c", "janet_memempty(data, capacity);", "janet_memempty(data, t->count);", "re-establishes wf_table|every bucket EMPTY|empty map")]
RH_M = [mut("deleted-not-reset", "table.c", "    t->deleted = 0;\n    for (int32_t i = 0; i < oldcapacity; i++) {", "    for (int32_t i = 0; i < oldcapacity; i++) {", "deleted == 0"),
        mut("walks-new-capacity", "table.c", "for (int32_t i = 0; i < oldcapacity; i++) {", "for (int32_t i = 0; i < size; i++) {", "pointer_dereference|preserves the view|count unchanged"),
        mut("value-not-copied", "table.c", "            *newkv = *kv;", "            newkv->key = kv->key;", "preserves the view|wf_dict")]

for cap in (1, 2, 4, 8):
    tier = "quick" if cap <= 4 else "thorough"
    to = 300 if cap <= 4 else 600
    k = KOF[cap]
    D = ["-DTAB_CAP=%d" % cap, "-DTAB_K=%d" % k, "-DTAB_NEWMAX=%d" % NEWMAX[cap]]
    uw = max(NEWMAX[cap], k + 1) + 2
    unit("tab.put.cap%d" % cap,
         "janet_table_put from EVERY well-formed table: view' = view[key -> value] (a nil value removes the key, nil and NaN keys are ignored), every other key unchanged, "
         "count and deleted exact, wf_table re-established (probe paths, load), prototype never touched",
         "h_table_put", tier=tier, timeout=to, bound=tbound(cap), defines=D, unwind=uw, functions=["janet_table_put", "janet_table_remove", "janet_table_find"],
         replace_calls=["janet_table_rehash:tab_rehash_contract"], assumes=[KEYS, WFT, FINDC, REHC], mutants=PUT_M, **T)
    unit("tab.remove.cap%d" % cap,
         "janet_table_remove from EVERY well-formed table: returns the value the key had, view' = view.remove(key), every other key unchanged, count and deleted exact, "
         "wf_table re-established (the tombstone keeps every probe path intact), prototype never touched",
         "h_table_remove", tier=tier, timeout=to, bound=tbound(cap), defines=D, unwind=uw, functions=["janet_table_remove", "janet_table_find"],
         assumes=[KEYS, WFT, FINDC], mutants=REM_M if cap >= 2 else REM_M[:0] + [], **T)
    unit("tab.rawget.cap%d" % cap,
         "janet_table_rawget from EVERY well-formed table: returns view(key) - the value last put, nil for an absent, removed, nil or NaN key; table unchanged; prototype never consulted",
         "h_table_rawget", tier=tier, timeout=to, bound=tbound(cap), defines=D, unwind=uw, functions=["janet_table_rawget", "janet_table_find"],
         assumes=[KEYS, WFT, FINDC], mutants=RAW_M, **T)
    unit("tab.clear.cap%d" % cap,
         "janet_table_clear from EVERY well-formed table: view' is the empty map, length 0, no tombstones, every bucket EMPTY, block / capacity / prototype kept, wf_table re-established",
         "h_table_clear", tier=tier, timeout=to, bound=tbound(cap), defines=D, unwind=uw, functions=["janet_table_clear", "janet_memempty"],
         assumes=[KEYS, WFT], mutants=CLR_M, **T)
    # rehash: load clause dropped, so up to cap live keys
    kr = min(cap, 5) + 1
    Dr = ["-DTAB_CAP=%d" % cap, "-DTAB_K=%d" % kr, "-DTAB_NEWMAX=%d" % NEWMAX[cap]]
    unit("tab.rehash.cap%d" % cap,
         "janet_table_rehash under its contract, from EVERY table that is well-formed up to the load clause and every new size that is a power of two >= count: new exact block without tombstones, "
         "old block released, same key/value map, count unchanged, deleted == 0, wf_dict (distinct keys, probe paths) on the new block",
         "h_table_rehash", tier=tier, timeout=to,
         bound="old capacity %d (any mix of live / tombstone / empty buckets, up to %d live keys), new size any power of two in [count, %d]; abstract universe of %d keys with an arbitrary hash function; both allocation flavours (heap, scratch)" % (cap, min(cap, kr), NEWMAX[cap], kr),
         defines=Dr, unwind=max(NEWMAX[cap], kr + 1) + 2, functions=["janet_table_rehash", "janet_table_find", "janet_memalloc_empty_local"],
         assumes=[KEYS, WFT.replace("; 2*(count+deleted) <= capacity", " (load clause not required)"), FINDC, SMALLOC], mutants=RH_M if cap >= 2 else RH_M[:1], **T)

for cap, pcap, chain, tier in ((2, 2, 3, "quick"), (4, 2, 3, "quick"), (8, 4, 3, "thorough")):
    k = KOF[cap]
    unit("tab.get.cap%d" % cap,
         "janet_table_get: returns the value of the first table along the prototype chain whose map holds the key (the table's own entry wins), nil if none does or for a nil / NaN key; nothing modified",
         "h_table_get", tier=tier, timeout=300 if tier == "quick" else 600,
         bound=tbound(cap, "; acyclic prototype chains of 1..%d tables, prototypes of capacity %d (the depth cut-off JANET_MAX_PROTO_DEPTH = 200 is not reached)" % (chain, pcap)),
         defines=["-DTAB_CAP=%d" % cap, "-DTAB_K=%d" % k, "-DTAB_PCAP=%d" % pcap, "-DTAB_CHAIN=%d" % chain], unwind=max(cap, k + 1) + 2,
         functions=["janet_table_get", "janet_table_find"], assumes=[KEYS, WFT, FINDC], mutants=GET_M, **T)

json.dump({"defaults": {"props": ["C04"], "mode": "plain", "timeout": 300, "checks": CHECKS}, "units": units},
          open(os.path.join(V, "units", "C04_tab.json"), "w"), indent=1)
print(len(units), "units")
