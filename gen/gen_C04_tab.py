#!/usr/bin/env python3
"""generates units/C04_tab.json: C04 (map part) - util.c janet_dict_find / janet_dictionary_next, table.c put/remove/rawget/get/clear/rehash"""
import json, os
V = os.path.dirname(os.path.dirname(os.path.abspath(__file__)))
CHECKS = ["bounds-check", "pointer-check", "signed-overflow-check", "div-by-zero-check", "pointer-primitive-check", "undefined-shift-check"]
units = []

def unit(id, clause, entry, cls="bounded", tier="quick", **kw):
    u = {"id": id, "tier": tier, "class": cls, "clause": clause, "entry": entry}
    u.update(kw)
    units.append(u)

def mut(name, file, find, replace, expect, **kw):
    d = {"name": name, "file": file, "find": find, "replace": replace, "expect": expect}
    d.update(kw)
    return d

KEYS = ("janet_hash / janet_equals on keys are replaced by their contracts over an abstract key universe: equals is identity of the key id "
        "(foreign keys nil / NaN equal nothing), hash an arbitrary function of the key (symbolic table, all 2^32 values per key) - the laws units val.* prove of the real ones")
WFD = ("precondition wf_dict(buckets, cap): cap a power of two >= 1; every bucket EMPTY (nil,nil), TOMBSTONE (nil,false) or LIVE (key of the universe, non-nil value); "
       "live keys pairwise different; every live key reachable from its home bucket by linear probing with wrap-around without crossing an EMPTY bucket (tombstones do not stop a probe)")

# ------------------------------------------------------------------ (A) janet_dict_find
LOWER = ("    /* Lower half */\n    for (i = 0; i < index; i++) {\n        const JanetKV *kv = buckets + i;\n"
         "        if (janet_checktype(kv->key, JANET_NIL)) {\n            if (janet_checktype(kv->value, JANET_NIL)) {")
for cap in (1, 2, 4, 8):
    k = cap + 1
    muts = [mut("upper-probe-runs-past-end", "util.c", "for (i = index; i < cap; i++) {\n        const JanetKV *kv = buckets + i;\n        if (janet_checktype(kv->key, JANET_NIL)) {",
                "for (i = index; i <= cap; i++) {\n        const JanetKV *kv = buckets + i;\n        if (janet_checktype(kv->key, JANET_NIL)) {", "pointer_dereference|result is the bucket")]
    if cap >= 2:
        muts = [mut("lower-half-tombstone-ends-probe", "util.c", LOWER, LOWER.replace("if (janet_checktype(kv->value, JANET_NIL)) {", "if (1) {"),
                    "result is the bucket holding an equal key"),
                mut("no-wrap-around", "util.c", "for (i = 0; i < index; i++) {", "for (i = 0; i < 0; i++) {", "result is the bucket holding an equal key")] + muts
    unit("tab.find.cap%d" % cap,
         "janet_dict_find from EVERY well-formed bucket array: returns the bucket holding an equal key if one exists, otherwise the empty bucket that ends the probe path "
         "(else the first tombstone, else NULL for a full array); every bucket access inside the array; nothing written",
         "h_dict_find", tier="quick" if cap <= 4 else "thorough",
         bound="capacity %d: ALL well-formed bucket arrays (any mix of live, tombstone and empty buckets up to the full array); abstract universe of %d pairwise different keys plus foreign keys (nil, NaN) with an arbitrary hash function; all lookup keys" % (cap, k),
         src=["util.c"], link=["wrap.c"], harness=["tab_find.c"], defines=["-DTAB_CAP=%d" % cap, "-DTAB_K=%d" % k],
         unwind=k + 3, functions=["janet_dict_find"], assumes=[KEYS, WFD], mutants=muts, timeout=300 if cap <= 4 else 600)

json.dump({"defaults": {"props": ["C04"], "mode": "plain", "timeout": 300, "checks": CHECKS}, "units": units},
          open(os.path.join(V, "units", "C04_tab.json"), "w"), indent=1)
print(len(units), "units")
