#!/usr/bin/env python3
"""C12/C10 (and C09 for the loader): the two PRODUCERS of PEG bytecode establish wf_peg (harness/peg_wf.h), the predicate
every matcher unit peg.rule.* assumes.  (a) compiler: one unit per emitter / reader / spec_* function (harness/peg_compile.c);
(b) loader peg_unmarshal: framing unit + one unit per opcode case of its verifier loop (harness/peg_load.c).
Writes /verif/units/C12_wf.json.  Run: python3 gen/gen_C12_wf.py"""
import json, os
V = os.path.dirname(os.path.dirname(os.path.abspath(__file__)))
STD = ["bounds-check", "pointer-check", "signed-overflow-check", "div-by-zero-check"]
units = []
M = lambda name, find, replace, expect, **kw: dict(name=name, file="peg.c", find=find, replace=replace, expect=expect, **kw)

# ------------------------------------------------------------------ (a) compiler: spec_* functions
REPL = ["peg_compile1:h_compile1", "emit_tag:h_emit_tag", "emit_constant:h_emit_constant", "peg_getnat:h_getnat",
        "peg_getinteger:h_getinteger", "janet_v_grow:h_v_grow", "janet_arity:h_arity"]
A_SPEC = ["peg_compile1 (sub-pattern compilation) obeys its contract h_compile1: appends 0..3 arbitrary words behind the current end (moving the vector), preserves earlier words, returns a rule index below the new count that is an instruction start of the final bytecode; may add constants/tags and set has_backref",
          "emit_tag returns a tag in 1..255 (proved in peg.wf.emit_tag); emit_constant returns the old constant count and adds one constant (peg.wf.emit_constant); peg_getnat returns an int32 >= 0 or raises (peg.wf.getnat); peg_getinteger returns an int32 or raises (peg.wf.getinteger)",
          "janet_v_grow (vector.c) returns a block with room for the increment holding the old words; the harness model always MOVES the vector to an exactly-sized block and frees the old one",
          "bytecode vector <= 24 words in the harness (<= 4 symbolic words emitted before the call); paths that grow beyond are cut",
          "janet_arity (capi.c) raises unless min <= argc <= max",
          "compiled with -DJANET_NO_NANBOX (documented tagged-struct configuration of the same sources)"]
BOUND = "bytecode vector <= 24 words (0 or 3 arbitrary words before the rule, vector absent / with room / full, each sub-compilation appends <= 3 words); argc 0..4 symbolic; loops unwound 26x WITH unwinding assertion"


def spec(name, fn, shape, clause, mutants, defines=(), functions=None, **kw):
    u = {"id": "peg.wf.spec." + name, "props": ["C12", "C10"], "tier": "quick", "class": "bounded", "bound": BOUND,
         "clause": clause, "src": ["peg.c"], "link": ["wrap.c"], "harness": ["peg_compile.c"], "entry": "h_spec", "mode": "plain",
         "functions": functions or [fn], "defines": ["-DVC_OWN_EXIT", "-DSPEC_FN=" + fn, "-DSHAPE_" + shape] + ["-D" + d for d in defines],
         "replace_calls": REPL, "remove_bodies": "cfun_peg_.*|peg_rule|peg_unmarshal|peg_marshal", "nanbox": False, "checks": STD,
         "unwind": 26, "unwinding_assertions": True, "timeout": 300, "assumes": A_SPEC, "mutants": mutants}
    u.update(kw)
    units.append(u)


ONE = "rule [%s, rule]: the rule word is the index returned by compiling the single argument (patched after the sub-compilation, into the moved vector), reserved before it; wf_peg clause `room >= 2 && RULEREF(r[1])`; any other arity raises"
for name, fn, op in [("not", "spec_not", "RULE_NOT"), ("to", "spec_to", "RULE_TO"), ("thru", "spec_thru", "RULE_THRU"),
                     ("drop", "spec_drop", "RULE_DROP"), ("only_tags", "spec_only_tags", "RULE_ONLY_TAGS")]:
    spec(name, fn, "onerule", ONE % op,
         [M("onerule-reserve-after-compile", "    Reserve r = reserve(b, 2);\n    uint32_t rule = peg_compile1(b, argv[0]);\n    emit_1(r, op, rule);",
            "    uint32_t rule = peg_compile1(b, argv[0]);\n    Reserve r = reserve(b, 2);\n    emit_1(r, op, rule);", "reserved before|wf"),
          M("onerule-rule-word-dropped", "    emit_1(r, op, rule);\n}\n\nstatic void spec_not", "    emit_1(r, op, 0);\n}\n\nstatic void spec_not", "words")],
         defines=["OP=" + op], functions=[fn, "spec_onerule", "reserve", "emit_1", "emit_rule"])


spec("error", "spec_error", "error",
     "rule [RULE_ERROR, rule]: (error patt) compiles patt, (error) compiles the pattern 0; rule word = returned index, reserved first; wf_peg clause `room >= 2 && RULEREF(r[1])`; more than one argument raises",
     [M("error-default-not-compiled", "        uint32_t rule = peg_compile1(b, janet_wrap_number(0));\n        emit_1(r, RULE_ERROR, rule);", "        uint32_t rule = 0;\n        emit_1(r, RULE_ERROR, rule);", "words|wf"),
      M("error-wrong-opcode", "        emit_1(r, RULE_ERROR, rule);", "        emit_1(r, RULE_DROP, rule);", "opcode")],
     functions=["spec_error", "spec_onerule", "reserve", "emit_1", "emit_rule"])

BR = "rule [%s, rule_a, rule_b]: both rule words are the indices returned by compiling argument 0 and argument 1 in that order, reserved first; wf_peg clause `room >= 3 && RULEREF(r[1]) && RULEREF(r[2])`; any arity but 2 raises"
BRM = lambda body_fn: []
for name, fn, op in [("if", "spec_if", "RULE_IF"), ("ifnot", "spec_ifnot", "RULE_IFNOT"), ("lenprefix", "spec_lenprefix", "RULE_LENPREFIX")]:
    spec(name, fn, "branch", BR % op,
         [M("branch-rules-swapped", "    emit_2(r, rule, rule_a, rule_b);", "    emit_2(r, rule, rule_b, rule_a);", "words"),
          M("branch-arity-unchecked", "static void spec_branch(Builder *b, int32_t argc, const Janet *argv, uint32_t rule) {\n    peg_fixarity(b, argc, 2);", "static void spec_branch(Builder *b, int32_t argc, const Janet *argv, uint32_t rule) {", "arguments")],
         defines=["OP=" + op], functions=[fn, "spec_branch", "reserve", "emit_2", "emit_rule"])
for name, fn, op in [("sub", "spec_sub", "RULE_SUB"), ("til", "spec_til", "RULE_TIL"), ("split", "spec_split", "RULE_SPLIT")]:
    spec(name, fn, "branch", BR % op,
         [M(name + "-second-rule-is-first", "    emit_2(r, %s, subrule1, subrule2);" % op, "    emit_2(r, %s, subrule1, subrule1);" % op, "words"),
          M(name + "-reserve-too-late", "static void %s(Builder *b, int32_t argc, const Janet *argv) {\n    peg_fixarity(b, argc, 2);\n    Reserve r = reserve(b, 3);\n    uint32_t subrule1 = peg_compile1(b, argv[0]);" % fn,
            "static void %s(Builder *b, int32_t argc, const Janet *argv) {\n    peg_fixarity(b, argc, 2);\n    uint32_t subrule1 = peg_compile1(b, argv[0]);\n    Reserve r = reserve(b, 3);" % fn, "reserved before|wf")],
         defines=["OP=" + op], functions=[fn, "reserve", "emit_2", "emit_rule"])

BT = "rule [RULE_BETWEEN, lo, hi, rule]: %s; counts come from peg_getnat (negative / non-integer counts raise instead of being emitted); rule word = index returned by compiling the last argument, reserved first; wf_peg clause `room >= 4 && RULEREF(r[3])`; wrong arity raises"
BTS = [
 ("between", "spec_between", 3, 2, "g_n_ret[0]", "g_n_ret[1]", "lo = argument 0, hi = argument 1",
  [M("between-hi-is-lo", "    emit_3(r, RULE_BETWEEN, lo, hi, subrule);", "    emit_3(r, RULE_BETWEEN, lo, lo, subrule);", "words"),
   M("between-lo-unchecked", "    int32_t lo = peg_getnat(b, argv[0]);\n    int32_t hi = peg_getnat(b, argv[1]);", "    int32_t lo = peg_getinteger(b, argv[0]);\n    int32_t hi = peg_getnat(b, argv[1]);", "peg_getnat")]),
 ("some", "spec_some", 1, 0, "1", "UINT32_MAX", "lo = 1, hi = 2^32-1",
  [M("some-min-zero", "    spec_repeater(b, argc, argv, 1);", "    spec_repeater(b, argc, argv, 0);", "words")]),
 ("any", "spec_any", 1, 0, "0", "UINT32_MAX", "lo = 0, hi = 2^32-1",
  [M("repeater-hi-one", "    emit_3(r, RULE_BETWEEN, min, UINT32_MAX, subrule);", "    emit_3(r, RULE_BETWEEN, min, 1, subrule);", "words")]),
 ("atleast", "spec_atleast", 2, 1, "g_n_ret[0]", "UINT32_MAX", "lo = argument 0, hi = 2^32-1",
  [M("atleast-lo-zero", "    emit_3(r, RULE_BETWEEN, n, UINT32_MAX, subrule);", "    emit_3(r, RULE_BETWEEN, 0, UINT32_MAX, subrule);", "words")]),
 ("atmost", "spec_atmost", 2, 1, "0", "g_n_ret[0]", "lo = 0, hi = argument 0",
  [M("atmost-as-atleast", "    emit_3(r, RULE_BETWEEN, 0, n, subrule);", "    emit_3(r, RULE_BETWEEN, n, UINT32_MAX, subrule);", "words")]),
 ("opt", "spec_opt", 1, 0, "0", "1", "lo = 0, hi = 1",
  [M("opt-rule-slot-left-zero", "    emit_3(r, RULE_BETWEEN, 0, 1, subrule);", "    emit_3(r, RULE_BETWEEN, 0, 1, 0);", "words")]),
 ("repeat", "spec_repeat", 2, 1, "g_n_ret[0]", "g_n_ret[0]", "lo = hi = argument 0 (also the (n patt) shorthand, where peg_compile1 passes the whole tuple)",
  [M("repeat-hi-off-by-one", "    emit_3(r, RULE_BETWEEN, n, n, subrule);", "    emit_3(r, RULE_BETWEEN, n, n + 1, subrule);", "words|overflow")]),
]
for name, fn, argc, nats, lo, hi, txt, muts in BTS:
    spec(name, fn, "between", BT % txt, muts, defines=["BT_ARGC=%d" % argc, "BT_NATS=%d" % nats, "BT_LO=" + lo, "BT_HI=" + hi],
         functions=[fn, "reserve", "emit_3", "emit_rule"] + (["spec_repeater"] if name in ("some", "any") else []))
# (between lo hi patt) with lo > hi: the property text asks for min <= max; kept as a separate unit (see report)
spec("between.ordered", "spec_between", "between",
     "(between lo hi patt) with lo > hi raises instead of emitting a rule that can never match [NOT established by the pinned tree: reported, unit disabled]",
     [M("between-hi-is-lo", "    emit_3(r, RULE_BETWEEN, lo, hi, subrule);", "    emit_3(r, RULE_BETWEEN, lo, lo, subrule);", "words")],
     defines=["BT_ARGC=3", "BT_NATS=2", "BT_LO=g_n_ret[0]", "BT_HI=g_n_ret[1]", "BT_ORDERED"],
     disabled_reason="fails on the pinned tree (obligation 'between: min <= max, else raise'): spec_between emits lo > hi; the matcher then always fails - not a memory-safety issue, not a wf_peg clause; reported")

CAP = "rule [%s, rule, tag]: rule word = index returned by compiling argument 0, tag word = emit_tag(argument 1) (1..255) or 0, reserved first; wf_peg clause `room >= 3 && RULEREF(r[1])`; arity other than 1..2 raises"
for name, fn, op in [("capture", "spec_capture", "RULE_CAPTURE"), ("accumulate", "spec_accumulate", "RULE_ACCUMULATE"),
                     ("group", "spec_group", "RULE_GROUP"), ("unref", "spec_unref", "RULE_UNREF")]:
    spec(name, fn, "cap1", CAP % op,
         [M("cap1-operands-swapped", "    emit_2(r, op, rule, tag);", "    emit_2(r, op, tag, rule);", "words|wf"),
          M("cap1-tag-ignored", "    uint32_t tag = (argc == 2) ? emit_tag(b, argv[1]) : 0;\n    uint32_t rule = peg_compile1(b, argv[0]);\n    emit_2(r, op, rule, tag);",
            "    uint32_t tag = 0;\n    uint32_t rule = peg_compile1(b, argv[0]);\n    emit_2(r, op, rule, tag);", "words")],
         defines=["OP=" + op], functions=[fn, "spec_cap1", "reserve", "emit_2", "emit_rule"])

TAG = "rule [%s, tag]: tag word = emit_tag(argument 0) (1..255) or 0; wf_peg clause `room >= 2`; more than one argument raises%s"
for name, fn, op, br in [("position", "spec_position", "RULE_POSITION", False), ("line", "spec_line", "RULE_LINE", False),
                         ("column", "spec_column", "RULE_COLUMN", False), ("backmatch", "spec_backmatch", "RULE_BACKMATCH", True)]:
    muts = [M("tag1-tag-ignored", "    uint32_t tag = (argc) ? emit_tag(b, argv[0]) : 0;", "    uint32_t tag = 0;", "words"),
            M("tag1-short-reserve", "    peg_arity(b, argc, 0, 1);\n    Reserve r = reserve(b, 2);", "    peg_arity(b, argc, 0, 1);\n    Reserve r = reserve(b, 1);", "bad reserve|wf|present")]
    if br:
        muts.append(M("backmatch-no-backref-flag", "    b->has_backref = 1;\n    spec_tag1(b, argc, argv, RULE_BACKMATCH);", "    spec_tag1(b, argc, argv, RULE_BACKMATCH);", "back-references"))
    spec(name, fn, "tag1", TAG % (op, "; the peg is marked has_backref" if br else ""), muts,
         defines=["OP=" + op] + (["SETS_BACKREF"] if br else []), functions=[fn, "spec_tag1", "reserve", "emit_1", "emit_rule"])

spec("reference", "spec_reference", "reference",
     "rule [RULE_GETTAG, searchtag, tag] (-> / backref): both words come from emit_tag (1..255) resp. 0; the peg is marked has_backref; wf_peg clause `room >= 3`; arity other than 1..2 raises",
     [M("reference-no-backref-flag", "    b->has_backref = 1;\n    emit_2(r, RULE_GETTAG, search, tag);", "    emit_2(r, RULE_GETTAG, search, tag);", "back-references"),
      M("reference-search-is-tag", "    emit_2(r, RULE_GETTAG, search, tag);", "    emit_2(r, RULE_GETTAG, tag, search);", "words")],
     functions=["spec_reference", "reserve", "emit_2", "emit_rule"])
spec("argument", "spec_argument", "argument",
     "rule [RULE_ARGUMENT, index, tag]: index = peg_getnat(argument 0) - a negative index raises instead of being emitted; wf_peg clause `room >= 3 && (int32_t) r[1] >= 0`",
     [M("argument-index-unchecked", "    int32_t index = peg_getnat(b, argv[0]);\n    emit_2(r, RULE_ARGUMENT, index, tag);", "    int32_t index = peg_getinteger(b, argv[0]);\n    emit_2(r, RULE_ARGUMENT, index, tag);", "peg_getnat|negative"),
      M("argument-arity-unchecked", "static void spec_argument(Builder *b, int32_t argc, const Janet *argv) {\n    peg_arity(b, argc, 1, 2);", "static void spec_argument(Builder *b, int32_t argc, const Janet *argv) {", "arguments|pointer|bounds")],
     functions=["spec_argument", "reserve", "emit_2", "emit_rule"])
spec("constant", "spec_constant", "constant",
     "rule [RULE_CONSTANT, constant, tag]: constant word = index returned by emit_constant(argument 0) and below the final num_constants; wf_peg clause `room >= 3 && r[1] < clen`",
     [M("constant-not-registered", "    emit_2(r, RULE_CONSTANT, emit_constant(b, argv[0]), tag);", "    emit_2(r, RULE_CONSTANT, janet_v_count(b->constants), tag);", "emit_constant|wf"),
      M("constant-operands-swapped", "    emit_2(r, RULE_CONSTANT, emit_constant(b, argv[0]), tag);", "    emit_2(r, RULE_CONSTANT, tag, emit_constant(b, argv[0]));", "words|wf")],
     functions=["spec_constant", "reserve", "emit_2", "emit_rule"])
RP = "rule [%s, rule, constant, tag]: rule word = index returned by compiling argument 0; constant word = emit_constant(argument 1) below the final num_constants (also when the sub-pattern registered constants of its own); wf_peg clause `room >= 4 && RULEREF(r[1]) && r[2] < clen`%s"
spec("replace", "spec_replace", "replace", RP % ("RULE_REPLACE", ""),
     [M("replace-constant-index-before-subpattern", "    uint32_t subrule = peg_compile1(b, argv[0]);\n    uint32_t constant = emit_constant(b, argv[1]);\n    uint32_t tag = (argc == 3) ? emit_tag(b, argv[2]) : 0;\n    emit_3(r, RULE_REPLACE, subrule, constant, tag);",
        "    uint32_t subrule = peg_compile1(b, argv[0]);\n    uint32_t constant = emit_constant(b, argv[1]);\n    uint32_t tag = (argc == 3) ? emit_tag(b, argv[2]) : 0;\n    emit_3(r, RULE_REPLACE, subrule, constant + 1, tag);", "emit_constant|wf"),
      M("replace-rule-and-constant-swapped", "    emit_3(r, RULE_REPLACE, subrule, constant, tag);", "    emit_3(r, RULE_REPLACE, constant, subrule, tag);", "words|wf")],
     defines=["OP=RULE_REPLACE"], functions=["spec_replace", "reserve", "emit_3", "emit_rule"])
spec("matchtime", "spec_matchtime", "replace", RP % ("RULE_MATCHTIME", "; the constant is a function or C function, anything else raises"),
     [M("cmt-function-type-unchecked", "    if (!janet_checktype(fun, JANET_FUNCTION) &&\n            !janet_checktype(fun, JANET_CFUNCTION)) {", "    if (0) {", "function"),
      M("cmt-wrong-opcode", "    emit_3(r, RULE_MATCHTIME, subrule, cindex, tag);", "    emit_3(r, RULE_REPLACE, subrule, cindex, tag);", "opcode")],
     defines=["OP=RULE_MATCHTIME", "NEEDS_FUNCTION"], functions=["spec_matchtime", "reserve", "emit_3", "emit_rule"])
spec("nth", "spec_nth", "nth",
     "rule [RULE_NTH, n, rule, tag]: n = peg_getnat(argument 0) (negative raises), rule word = index returned by compiling argument 1; wf_peg clause `room >= 4 && RULEREF(r[2])`",
     [M("nth-operands-swapped", "    emit_3(r, RULE_NTH, nth, rule, tag);", "    emit_3(r, RULE_NTH, rule, nth, tag);", "words|wf"),
      M("nth-index-unchecked", "    uint32_t nth = peg_getnat(b, argv[0]);", "    uint32_t nth = peg_getinteger(b, argv[0]);", "peg_getnat|negative")],
     functions=["spec_nth", "reserve", "emit_3", "emit_rule"])
spec("capture_number", "spec_capture_number", "capture_number",
     "rule [RULE_CAPTURE_NUM, rule, base, tag] (number): base is 0 (nil / absent) or the integer 2..36 given by the pattern, anything else raises; rule word = index returned by compiling argument 0; wf_peg clause `room >= 4 && RULEREF(r[1])`",
     [M("number-base-range-unchecked", "            if (base < 2 || base > 36) goto error;\n", "", "base"),
      M("number-base-and-rule-swapped", "    emit_3(r, RULE_CAPTURE_NUM, rule, base, tag);", "    emit_3(r, RULE_CAPTURE_NUM, base, rule, tag);", "words|wf")],
     functions=["spec_capture_number", "reserve", "emit_3", "emit_rule"], link=["wrap.c", "util.c"],
     link_keep={"util.c": ["janet_checkint"]})
for name, fn, mask in [("uint", "spec_uint_le", "0x0u"), ("int", "spec_int_le", "0x10u"), ("uint_be", "spec_uint_be", "0x20u"), ("int_be", "spec_int_be", "0x30u")]:
    spec("readint." + name, fn, "readint",
         "rule [RULE_READINT, flags|width, tag] (%s): width = peg_getnat(argument 0) in 0..8 (anything larger raises), flags = %s only; wf_peg clause `room >= 3 && (r[1] & ~0x3F) == 0 && (r[1] & 0xF) <= 8`" % (name.replace("_", "-"), mask),
         [M("readint-width-unchecked", "    if ((width < 0) || (width > JANET_MAX_READINT_WIDTH)) {", "    if (width < 0) {", "width|wf"),
          M("readint-mask-lost", "    emit_2(r, RULE_READINT, mask | ((uint32_t) width), tag);", "    emit_2(r, RULE_READINT, ((uint32_t) width), tag);", "flags")
          if mask != "0x0u" else M("readint-width-shifted", "    emit_2(r, RULE_READINT, mask | ((uint32_t) width), tag);", "    emit_2(r, RULE_READINT, mask | ((uint32_t) width << 1), tag);", "width|flags|wf")],
         defines=["RI_MASK=" + mask], functions=[fn, "spec_readint", "reserve", "emit_2", "emit_rule"])
spec("look", "spec_look", "look",
     "rule [RULE_LOOK, offset, rule] (look / >): offset = peg_getinteger(argument 0) or 0, rule word = index returned by compiling the LAST argument; wf_peg clause `room >= 3 && RULEREF(r[2])`",
     [M("look-compiles-first-argument", "    uint32_t subrule = peg_compile1(b, argv[rulearg]);", "    uint32_t subrule = peg_compile1(b, argv[0]);", "words"),
      M("look-operands-swapped", "    emit_2(r, RULE_LOOK, (uint32_t) offset, subrule);", "    emit_2(r, RULE_LOOK, subrule, (uint32_t) offset);", "words|wf")],
     functions=["spec_look", "reserve", "emit_2", "emit_rule"])
VAR = "rule [%s, len, rules...]: length word = argc, one reserved slot per sub-pattern, every slot patched (into the possibly moved vector) with the index returned by compiling THAT argument - no reserved 0 left; wf_peg clause `room >= 2 && r[1] <= room - 2 && peg_wf_args`"
for name, fn, op in [("sequence", "spec_sequence", "RULE_SEQUENCE"), ("choice", "spec_choice", "RULE_CHOICE")]:
    spec(name, fn, "variadic", VAR % op,
         [M("variadic-last-slot-not-patched", "    for (int32_t i = 0; i < argc; i++) {\n        uint32_t rulei = peg_compile1(b, argv[i]);", "    for (int32_t i = 0; i < argc - 1; i++) {\n        uint32_t rulei = peg_compile1(b, argv[i]);", "sub-compilation|words"),
          M("variadic-slot-off-by-one", "        b->bytecode[rule + 2 + i] = rulei;", "        b->bytecode[rule + 1 + i] = rulei;", "words|wf"),
          M("variadic-one-slot-short", "    for (int32_t i = 0; i < argc; i++)\n        janet_v_push(b->bytecode, 0);\n    for (int32_t i = 0; i < argc; i++) {", "    for (int32_t i = 0; i < argc - 1; i++)\n        janet_v_push(b->bytecode, 0);\n    for (int32_t i = 0; i < argc; i++) {", "reserved before|present|wf|exactly")],
         defines=["OP=" + op], functions=[fn, "spec_variadic"], unwindset={"spec_variadic.0": 4, "spec_variadic.1": 4},
         bound=BOUND + "; at most 3 sub-patterns")


# ------------------------------------------------------------------ (a) compiler: emitters, readers, make_peg
A_VEC = ["janet_v_grow (vector.c) returns a block with room for the increment holding the old words; the harness model MOVES the vector at every growth and frees the old block",
         "compiled with -DJANET_NO_NANBOX (documented tagged-struct configuration of the same sources)"]


def leaf(name, fn, entry, clause, mutants, defines=(), repl=(), cls="bounded", bound=None, functions=None, assumes=(), **kw):
    u = {"id": "peg.wf." + name, "props": ["C12", "C10"], "tier": "quick", "class": cls,
         "clause": clause, "src": ["peg.c"], "link": ["wrap.c"], "harness": ["peg_compile.c"], "entry": entry, "mode": "plain",
         "functions": functions or [fn], "defines": ["-DVC_OWN_EXIT"] + ["-D" + d for d in defines],
         "replace_calls": ["janet_v_grow:h_v_grow"] + list(repl), "remove_bodies": "cfun_peg_.*|peg_rule|peg_unmarshal|peg_marshal|peg_compile1", "nanbox": False, "checks": STD,
         "unwind": 26, "unwinding_assertions": True, "timeout": 300, "assumes": list(assumes) or A_VEC, "mutants": mutants}
    if bound:
        u["bound"] = bound
    u.update(kw)
    units.append(u)


leaf("reserve", "reserve", "h_reserve",
     "reserve(b, size): the reservation is {builder, old count, size}; exactly size words are appended and every one is initialised to 0; earlier rules survive the growth (moving) of the vector; count stays below capacity",
     [M("reserve-one-word-short", "    for (int32_t i = 0; i < size; i++)\n        janet_v_push(b->bytecode, 0);\n    return r;", "    for (int32_t i = 1; i < size; i++)\n        janet_v_push(b->bytecode, 0);\n    return r;", "exactly size"),
      M("reserve-index-after-push", "    r.index = janet_v_count(b->bytecode);\n    r.builder = b;\n    r.size = size;\n    for (int32_t i = 0; i < size; i++)\n        janet_v_push(b->bytecode, 0);",
        "    r.builder = b;\n    r.size = size;\n    for (int32_t i = 0; i < size; i++)\n        janet_v_push(b->bytecode, 0);\n    r.index = janet_v_count(b->bytecode);", "old count")],
     defines=["LEAF_reserve", "GROW_MOVES"], bound="size 0..9 (the sizes used are 2, 3, 4, 9); vector absent or holding 3 words (full / 3 free); blocks of 24 words")
for n in (8, 1, 2, 3):
    fn = "emit_rule" if n == 8 else "emit_%d" % n
    muts = [M("emit_rule-body-shifted", "    memcpy(r.builder->bytecode + r.index + 1, body, n * sizeof(uint32_t));", "    memcpy(r.builder->bytecode + r.index, body, n * sizeof(uint32_t));", "opcode|argument word"),
            M("emit_rule-one-word-too-many", "    memcpy(r.builder->bytecode + r.index + 1, body, n * sizeof(uint32_t));", "    memcpy(r.builder->bytecode + r.index + 1, body, (n + 1) * sizeof(uint32_t));", "outside the reserved|pointer|bounds|memcpy")]
    if n == 2:
        muts.append(M("emit_2-args-swapped", "    uint32_t arr[2] = {arg1, arg2};", "    uint32_t arr[2] = {arg2, arg1};", "argument word"))
    if n == 3:
        muts.append(M("emit_3-last-arg-dropped", "    uint32_t arr[3] = {arg1, arg2, arg3};\n    emit_rule(r, op, 3, arr);", "    uint32_t arr[3] = {arg1, arg2, arg3};\n    emit_rule(r, op, 2, arr);", "bad reserve|argument word"))
    leaf(fn, fn, "h_emit_rule",
         "%s into a reservation (index + size <= count): opcode at index, argument word j at index + 1 + j - every reserved word filled, in order; no word outside the reserved block written; vector neither moved nor resized; \"bad reserve\" never fires for size == n + 1" % fn,
         muts, defines=["LEAF_emit_rule", "EMIT_N=%d" % n], functions=[fn, "emit_rule"],
         bound="reservation (2, 3, 4 or 9 words) at a symbolic index inside a vector of 12 symbolic words")
leaf("emit_bytes", "emit_bytes", "h_emit_bytes",
     "emit_bytes (literals): [op, len, ceil(len/4) data words] appended; data bytes = the literal in memory order, padding bytes 0; the copy targets the CURRENT vector and stays inside the words just pushed; wf_peg clause of RULE_LITERAL `r[1] <= 4*len && 2 + ((r[1]+3)>>2) <= room`",
     [M("emit_bytes-words-rounded-down", "    int32_t words = ((len + 3) >> 2);", "    int32_t words = (len >> 2);", "no write past|ceil|wf"),
      M("emit_bytes-copy-from-opcode", "    memcpy(b->bytecode + next_rule + 2, bytes, len);", "    memcpy(b->bytecode + next_rule + 1, bytes, len);", "data starts"),
      M("emit_bytes-length-word-is-words", "    janet_v_push(b->bytecode, len);\n    int32_t words = ((len + 3) >> 2);", "    int32_t words = ((len + 3) >> 2);\n    janet_v_push(b->bytecode, words);", "length words|wf")],
     defines=["LEAF_emit_bytes", "GROW_MOVES"], repl=["memcpy:h_memcpy"],
     bound="literal length 0..9 bytes; vector absent or holding 3 words (full / with room); blocks of 24 words",
     assumes=A_VEC + ["memcpy copies n bytes (harness model: asserts source / destination / length, then copies bytewise)"],
     undecided_clauses=["(len + 3) >> 2 overflows int32 for literals longer than 2^31-4 bytes: outside the bound of this unit (a 2 GiB literal does not fit the int32 vector capacity either)"])
leaf("emit_constant", "emit_constant", "h_leaf_emit_constant",
     "emit_constant: returns the old constant count = index where the constant is stored; count + 1 (so the index is below num_constants of the finished peg); older constants survive the growth of the vector",
     [M("emit_constant-index-after-push", "    uint32_t cindex = (uint32_t) janet_v_count(b->constants);\n    janet_v_push(b->constants, c);\n    return cindex;", "    janet_v_push(b->constants, c);\n    uint32_t cindex = (uint32_t) janet_v_count(b->constants);\n    return cindex;", "old constant count|below")],
     defines=["LEAF_emit_constant", "GROW_MOVES"], cls="bounded", bound="constant vector absent or holding 2 constants (full / with room)")
leaf("emit_tag", "emit_tag", "h_leaf_emit_tag",
     "emit_tag: only keywords; a known keyword keeps its number, a new one gets nexttag and is recorded; every tag is in 1..255 (tag 256 raises) - tags are pushed on the matcher's one-byte tag stack and 0 means untagged",
     [M("emit_tag-limit-off-by-one", "        if (tag > 255) {", "        if (tag > 256) {", "one-byte"),
      M("emit_tag-not-recorded", "        janet_table_put(b->tags, t, val);\n        return tag;", "        return tag;", "recorded"),
      M("emit_tag-keyword-unchecked", "    if (!janet_checktype(t, JANET_KEYWORD))\n        peg_panicf(b, \"expected keyword for capture tag, got %v\", t);", "", "keyword")],
     defines=["LEAF_emit_tag"], repl=["janet_table_get:h_tget", "janet_table_put:h_tput"], cls="full-domain",
     assumes=["the builder's tag table holds only what emit_tag put there (numbers 1..255): janet_table_get returns nil or such a number; nexttag >= 1 (compile_peg starts at 1)",
              "compiled with -DJANET_NO_NANBOX"])
for nm, nat in (("getinteger", False), ("getnat", True)):
    leaf(nm, "peg_" + nm, "h_getint",
         "peg_%s returns i only when the pattern value is exactly the number i (int32%s); NaN, fractions, out-of-range and negative%s values raise - so counts / indices / widths in the bytecode are the numbers written in the pattern" % (nm, ", i >= 0" if nat else "", "" if nat else " (n/a)"),
         ([M("getnat-sign-unchecked", "    if (i < 0)\n        peg_panicf(b, \"expected non-negative integer, got %v\", x);", "", "negative")] if nat else []) +
         [M("getinteger-unchecked", "    if (!janet_checkint(x))\n        peg_panicf(b, \"expected integer, got %v\", x);", "", "non-number|exactly")],
         defines=["LEAF_getint"] + (["GETNAT"] if nat else []), cls="full-domain", link=["wrap.c", "util.c"], link_keep={"util.c": ["janet_checkint"]},
         functions=["peg_getnat", "peg_getinteger"] if nat else ["peg_getinteger"], 
         assumes=["janet_checkint (util.c) is linked with its real body", "compiled with -DJANET_NO_NANBOX"])
leaf("arity", "peg_arity", "h_arity_real",
     "peg_arity / peg_fixarity return only for an argument count in range (so argv[k] is only read for k < argc)",
     [M("arity-max-off-by-one", "    if (max >= 0 && arity > max)", "    if (max >= 0 && arity > max + 1)", "peg_arity"),
      M("fixarity-unchecked", "    if (argc != arity) {\n        peg_panicf(b, \"expected %d argument%s, got %d\",", "    if (0) {\n        peg_panicf(b, \"expected %d argument%s, got %d\",", "peg_fixarity")],
     defines=["LEAF_arity"], cls="full-domain", functions=["peg_arity", "peg_fixarity"], assumes=["compiled with -DJANET_NO_NANBOX"])
leaf("getrange", "peg_getrange", "h_getrange",
     "peg_getrange / peg_getset: only strings; a range string has exactly 2 bytes with lo <= hi, anything else raises (both bytes are read inside the string)",
     [M("getrange-length-unchecked", "    if (janet_string_length(str) != 2)\n        peg_panicf(b, \"expected string to have length 2, got %v\", x);", "", "two bytes"),
      M("getrange-empty-accepted", "    if (str[1] < str[0])\n        peg_panicf(b, \"range %v is empty\", x);", "", "empty range")],
     defines=["LEAF_getrange"], cls="bounded", bound="string length 0..3", functions=["peg_getrange", "peg_getset"], assumes=["compiled with -DJANET_NO_NANBOX"])
leaf("make_peg", "make_peg", "h_make_peg",
     "make_peg: header, bytecode words and constants share one abstract block: both arrays inside the block, aligned, disjoint; bytecode_len / num_constants = vector counts for EVERY pair of int32 counts (no wrap-around); exactly count elements copied; has_backref handed on",
     [M("make_peg-constants-not-aligned", "    size_t constants_start = size_padded(bytecode_start + bytecode_size, sizeof(Janet));\n    size_t constants_size = janet_v_count(b->constants) * sizeof(Janet);", "    size_t constants_start = bytecode_start + bytecode_size;\n    size_t constants_size = janet_v_count(b->constants) * sizeof(Janet);", "aligned"),
      M("make_peg-len-from-constants", "    peg->bytecode_len = janet_v_count(b->bytecode);", "    peg->bytecode_len = janet_v_count(b->constants);", "vector counts"),
      M("make_peg-block-too-small", "    size_t total_size = constants_start + constants_size;\n    char *mem = janet_abstract(&janet_peg_type, total_size);", "    size_t total_size = constants_start;\n    char *mem = janet_abstract(&janet_peg_type, total_size);", "inside the block|large enough")],
     defines=["LEAF_make_peg"], repl=["janet_abstract:h_abstract", "safe_memcpy:h_safe_memcpy"], cls="full-domain", functions=["make_peg", "size_padded"],
     assumes=["janet_abstract returns a block of the requested size; safe_memcpy copies n bytes (stub records and checks the ranges)", "compiled with -DJANET_NO_NANBOX"])

# ---- (range ...) / (set ...)
for name, fn, shape, clause, muts, us in [
    ("set", "spec_set", "set", "rule [RULE_SET, 8 bitmap words] for (set str): bit c of the bitmap is set iff byte c occurs in the string (word c>>5, bit c&31 - the matcher's test); 9 words reserved and all filled; wf_peg clause `room >= 9`; non-string / wrong arity raises",
     [M("bitmap-bit-index-wrong", "    bitmap[c >> 5] |= ((uint32_t)1) << (c & 0x1F);", "    bitmap[c >> 5] |= ((uint32_t)1) << (c & 0x0F);", "bitmap"),
      M("set-last-byte-skipped", "    for (int32_t i = 0; i < janet_string_length(str); i++)\n        bitmap_set(bitmap, str[i]);", "    for (int32_t i = 0; i < janet_string_length(str) - 1; i++)\n        bitmap_set(bitmap, str[i]);", "bitmap")], {}),
    ("range", "spec_range", "range", "(range \"az\"): [RULE_RANGE, lo | hi << 16]; (range r1 r2 ...): [RULE_SET, bitmap] with bit c set iff c lies in one of the ranges; every range string has 2 bytes lo <= hi, else raise; wf_peg clauses `room >= 2` / `room >= 9`",
     [M("range-hi-shift-wrong", "        uint32_t arg = str[0] | (str[1] << 16);", "        uint32_t arg = str[0] | (str[1] << 8);", "range word"),
      M("range-set-excludes-hi", "            for (uint32_t c = str[0]; c <= str[1]; c++)", "            for (uint32_t c = str[0]; c < str[1]; c++)", "bitmap")], {"spec_range.0": 6, "spec_range.1": 4})]:
    spec(name, fn, shape, clause, muts, functions=[fn, "bitmap_set", "peg_getrange", "peg_getset", "reserve", "emit_rule"], entry="h_charset",
         unwindset=us, bound="set string <= 3 bytes / at most 2 ranges (any lo, span hi - lo < 4); " + BOUND)

# ------------------------------------------------------------------ (a) compiler: peg_compile1, one unit per kind of pattern
C1REPL = ["peg_compile1:h_compile1_main", "janet_table_get:h_table_get", "janet_table_rawget:h_table_rawget", "janet_table_get_ex:h_table_get_ex",
          "janet_table_put:h_table_put", "janet_table_clone:h_table_clone", "janet_table:h_table", "janet_csymbol:h_csymbol",
          "janet_strbinsearch:h_strbinsearch", "emit_bytes:h_emit_bytes_stub", "spec_repeat:h_spec_repeat", "peg_getinteger:h_getinteger",
          "janet_v_grow:h_v_grow"]
A_C1 = ["grammar scopes are abstract: janet_table_get / rawget / get_ex / put / clone / janet_table are logging stubs; lookups of non-keyword keys obey the rule cache invariant INV (nil or the index of an instruction start below the count)",
        "the recursive call for :main obeys the contract h_compile1 (returns an instruction start below the new count)",
        "spec_* functions emit their rule at the count at entry (proved per function in peg.wf.spec.*); here their bodies are removed (calls through the table of specials have no effect)",
        "emit_bytes appends [op, len, data words] (peg.wf.emit_bytes); peg_getinteger returns an int32 or raises (peg.wf.getinteger); janet_checkint (util.c) linked with its real body",
        "janet_strbinsearch returns NULL or an element of the table it is given (sortedness of peg_specials: peg.wf.specials.sorted)",
        "compiled with -DJANET_NO_NANBOX"]
INTMIN_SKIP = "peg_compile1\\.overflow"
INTMIN_NOTE = "signed overflow of -n for the pattern -2147483648 (peg.c `emit_1(r, RULE_NOTNCHAR, -n)`): excluded here, shown by the disabled unit peg.wf.compile1.intmin (reported as a finding; wraps to 2^31 on this platform, which is the intended operand)"


def c1(name, case, clause, mutants, skip_intmin=False, **kw):
    u = {"id": "peg.wf.compile1." + name, "props": ["C12", "C10"], "tier": "quick", "class": "bounded",
         "bound": "bytecode vector <= 12 words (absent, or 3 arbitrary words); scope chain of 2 tables; strings <= 5 bytes, tuples <= 3 elements, structs of capacity 2; keyword chains <= 2 steps",
         "clause": clause, "src": ["peg.c"], "link": ["wrap.c", "util.c"], "link_keep": {"util.c": ["janet_checkint"]},
         "harness": ["peg_compile1.c"], "entry": "h_c1", "mode": "plain", "functions": ["peg_compile1"],
         "defines": ["-DVC_OWN_EXIT", "-DBCAP=12", "-DC1_" + case], "replace_calls": C1REPL, "replace_calls2": ["peg_compile1__entry:peg_compile1"],
         "remove_bodies": "cfun_peg_.*|peg_rule|peg_unmarshal|peg_marshal|spec_.*", "genbody": "(janet_|nd_|spec_).*", "nanbox": False, "checks": STD,
         "unwind": 14, "unwinding_assertions": True, "timeout": 300, "assumes": A_C1, "mutants": mutants}
    if skip_intmin:
        u["skip"] = [INTMIN_SKIP]
        u["undecided_clauses"] = [INTMIN_NOTE]
    u.update(kw)
    units.append(u)


c1("prim", "prim",
   "boolean / number patterns: the rule ([NCHAR n] / [NOTNCHAR -n]; true = [NCHAR 0], false = [NOTNCHAR 0]) is emitted AT the entry count and that index is returned; cached in the ROOT scope under the same index; depth, scope and form restored; wf_peg clause `room >= 2`",
   [M("prim-notnchar-not-negated", "                emit_1(r, RULE_NOTNCHAR, -n);", "                emit_1(r, RULE_NOTNCHAR, n);", "NOTNCHAR"),
    M("prim-cached-in-local-scope", "            while (which_grammar->proto)\n                which_grammar = which_grammar->proto;", "", "ROOT"),
    M("prim-depth-not-restored", "    /* Increase depth again */\n    b->depth++;", "    /* Increase depth again */", "depth")],
   skip_intmin=True, defines=["-DVC_OWN_EXIT", "-DBCAP=12", "-DC1_prim", "-DC1_KIND_LO=0", "-DC1_KIND_HI=1"])
c1("literal", "prim",
   "string / buffer patterns: emit_bytes gets the string's (buffer's) own bytes and length (count, not capacity); the literal rule starts AT the entry count and that index is returned and cached in the root scope; wf_peg clause of RULE_LITERAL via the contract of emit_bytes",
   [M("prim-buffer-capacity-as-length", "            emit_bytes(b, RULE_LITERAL, buf->count, buf->data);", "            emit_bytes(b, RULE_LITERAL, buf->capacity, buf->data);", "literal"),
    M("prim-string-wrong-opcode", "            emit_bytes(b, RULE_LITERAL, len, str);", "            emit_bytes(b, RULE_SET, len, str);", "RULE_LITERAL")],
   defines=["-DVC_OWN_EXIT", "-DBCAP=12", "-DC1_prim", "-DC1_KIND_LO=2", "-DC1_KIND_HI=3"])
c1("intmin", "prim",
   "the pattern -2147483648 (`-n` with n = INT32_MIN) is compiled without signed overflow [NOT established: undefined behaviour in peg_compile1, reported; unit disabled]",
   [M("prim-notnchar-not-negated", "                emit_1(r, RULE_NOTNCHAR, -n);", "                emit_1(r, RULE_NOTNCHAR, n);", "NOTNCHAR")],
   defines=["-DVC_OWN_EXIT", "-DBCAP=12", "-DC1_prim", "-DC1_KIND_LO=1", "-DC1_KIND_HI=1"],
   disabled_reason="fails on the pinned tree: peg_compile1.overflow.* 'arithmetic overflow on signed unary minus in -n' for (peg/compile -2147483648); benign on x86-64 (wraps to 0x80000000 = the intended operand) but undefined behaviour in C; reported")
c1("cache", "cache",
   "a pattern found in the rule cache returns the cached index (an instruction start below the count, by INV) and emits / caches nothing; tuples are looked up in the current scope only (rawget), all other patterns through the scope chain; depth, scope and form restored",
   [M("cache-form-not-restored", "    if (!janet_checktype(check, JANET_NIL)) {\n        b->form = old_form;\n        b->grammar = old_grammar;", "    if (!janet_checktype(check, JANET_NIL)) {\n        b->grammar = old_grammar;", "form"),
    M("cache-tuples-through-chain", "    Janet check = janet_checktype(peg, JANET_TUPLE)\n                  ? janet_table_rawget(grammar, peg)", "    Janet check = janet_checktype(peg, JANET_TUPLE)\n                  ? janet_table_get(grammar, peg)", "tuples are cached per scope")])
c1("keyword", "keyword",
   "`:name`: resolved through the scope chain (then the default grammar; unknown names and over-long chains raise); the resolved pattern - never the keyword - is compiled at the entry count and its index returned, or, if it is already compiled (recursive / shared rule), its cached index; the cache is consulted from the scope the name was found in; the scope switch is undone on return",
   [M("keyword-scope-leaks-on-cache-hit", "    if (!janet_checktype(check, JANET_NIL)) {\n        b->form = old_form;\n        b->grammar = old_grammar;", "    if (!janet_checktype(check, JANET_NIL)) {\n        b->form = old_form;", "scope"),
    M("keyword-scope-leaks", "    b->depth++;\n    b->form = old_form;\n    b->grammar = old_grammar;\n    return rule;", "    b->depth++;\n    b->form = old_form;\n    return rule;", "scope"),
    M("keyword-resolved-from-inner-scope", "        Janet nextPeg = janet_table_get_ex(grammar, peg, &grammar);", "        Janet nextPeg = janet_table_get_ex(old_grammar, peg, &grammar);", "scoping")],
   skip_intmin=True, unwindset={"peg_compile1.0": 3}, unwinding_assertions=False)
c1("tuple", "tuple",
   "(special args...) / (n patt): the empty tuple, a head that is neither integer nor symbol, an unknown special and a negative count raise; the tuple is cached in the CURRENT scope under the entry count before its body is compiled; that index - where the special emits its rule - is returned; (n patt) is spec_repeat on the whole tuple",
   [M("tuple-cached-in-root", "        if (!janet_checktype(peg, JANET_TUPLE)) {\n            while (which_grammar->proto)", "        if (1) {\n            while (which_grammar->proto)", "CURRENT scope"),
    M("tuple-negative-count-accepted", "                if (n < 0) {\n                    peg_panicf(b, \"expected non-negative integer, got %d\", n);\n                }", "", "negative count"),
    M("tuple-shorthand-drops-head", "                spec_repeat(b, len, tup);", "                spec_repeat(b, len - 1, tup + 1);", "whole tuple")])
c1("struct", "struct",
   "{:main patt ...}: a new scope (child of the current one) receives ONLY the keyword keys of the struct (INV: no user data under non-keyword keys), :main is looked up in the new scope itself (missing :main raises), compiled there, and its rule index is returned; the new scope does not leak",
   [M("struct-all-keys-copied", "                if (janet_checktype(st[i].key, JANET_KEYWORD)) {\n                    janet_table_put(new_grammar, st[i].key, st[i].value);\n                }", "                {\n                    janet_table_put(new_grammar, st[i].key, st[i].value);\n                }", "INV"),
    M("struct-scope-not-chained", "            new_grammar->proto = grammar;\n            b->grammar = grammar = new_grammar;\n            /* Run the main rule */\n            Janet main_rule = janet_table_rawget(grammar, janet_ckeywordv(\"main\"));\n            if (janet_checktype(main_rule, JANET_NIL))\n                peg_panic(b, \"grammar requires :main rule\");\n            rule = peg_compile1(b, main_rule);\n            break;\n        }\n        case JANET_TUPLE",
      "            b->grammar = grammar = new_grammar;\n            /* Run the main rule */\n            Janet main_rule = janet_table_rawget(grammar, janet_ckeywordv(\"main\"));\n            if (janet_checktype(main_rule, JANET_NIL))\n                peg_panic(b, \"grammar requires :main rule\");\n            rule = peg_compile1(b, main_rule);\n            break;\n        }\n        case JANET_TUPLE", "parent")],
   )
c1("table", "table",
   "@{:main patt ...}: as for structs - the new scope receives ONLY the keyword keys of the user's table (INV: any other key would be taken for a cached rule index), :main is compiled in it and its rule index returned; the table object itself is NOT cached (it compiles to the rule of :main, not to the entry count); regression guard for /repo 4f105a7",
   [M("table-keyword-filter-dropped", "                if (janet_checktype(user_grammar->data[i].key, JANET_KEYWORD)) {\n                    janet_table_put(new_grammar, user_grammar->data[i].key, user_grammar->data[i].value);\n                }", "                {\n                    janet_table_put(new_grammar, user_grammar->data[i].key, user_grammar->data[i].value);\n                }", "INV"),
    M("table-cached-again", "    if (!janet_checktype(peg, JANET_STRUCT) && !janet_checktype(peg, JANET_TABLE)) {", "    if (!janet_checktype(peg, JANET_STRUCT)) {", "cache entry for the grammar itself|not cached"),
    M("table-cloned-again", "            JanetTable *new_grammar = janet_table(2 * user_grammar->capacity);\n            for (int32_t i = 0; i < user_grammar->capacity; i++) {", "            JanetTable *new_grammar = janet_table_clone(user_grammar);\n            for (int32_t i = 0; i < 0; i++) {", "KEYWORD keys"),
    M("table-scope-not-chained", "            new_grammar->proto = grammar;\n            b->grammar = grammar = new_grammar;\n            /* Run the main rule */\n            Janet main_rule = janet_table_rawget(grammar, janet_ckeywordv(\"main\"));\n            if (janet_checktype(main_rule, JANET_NIL))\n                peg_panic(b, \"grammar requires :main rule\");\n            rule = peg_compile1(b, main_rule);\n            break;\n        }\n        case JANET_STRUCT",
      "            b->grammar = grammar = new_grammar;\n            /* Run the main rule */\n            Janet main_rule = janet_table_rawget(grammar, janet_ckeywordv(\"main\"));\n            if (janet_checktype(main_rule, JANET_NIL))\n                peg_panic(b, \"grammar requires :main rule\");\n            rule = peg_compile1(b, main_rule);\n            break;\n        }\n        case JANET_STRUCT", "parent")])
units.append({"id": "peg.wf.specials.sorted", "props": ["C12"], "tier": "quick", "class": "full-domain",
              "clause": "peg_specials is sorted strictly ascending by name - the precondition of the binary search that dispatches special forms (every special is reachable, none shadowed)",
              "src": ["peg.c"], "link": ["wrap.c"], "harness": ["peg_compile1.c"], "entry": "h_sorted", "mode": "plain", "functions": ["peg_compile1"],
              "defines": ["-DVC_OWN_EXIT", "-DC1_sorted"], "replace_calls": ["janet_v_grow:h_v_grow"], "remove_bodies": "cfun_peg_.*|peg_rule|peg_unmarshal|peg_marshal", "nanbox": False,
              "checks": STD, "unwind": 26, "unwinding_assertions": True, "timeout": 120, "assumes": ["compiled with -DJANET_NO_NANBOX"],
              "mutants": [M("specials-out-of-order", "    {\"int\", spec_int_le},\n    {\"int-be\", spec_int_be},", "    {\"int-be\", spec_int_be},\n    {\"int\", spec_int_le},", "sorted")]})
units.append({"id": "peg.wf.compile_peg", "props": ["C12"], "tier": "quick", "class": "full-domain",
              "clause": "compile_peg: compilation starts with absent bytecode / constant vectors (rule 0 = top rule), tag numbering at 1 (0 = untagged; emit_tag's precondition), full recursion budget; the peg is built after the compilation",
              "src": ["peg.c"], "link": ["wrap.c"], "harness": ["peg_compile1.c"], "entry": "h_compile_peg", "mode": "plain", "functions": ["compile_peg"],
              "defines": ["-DVC_OWN_EXIT", "-DC1_compile_peg"], "replace_calls": ["peg_compile1:h_compile1_top", "make_peg:h_make_peg_stub", "janet_table:h_table", "janet_v_grow:h_v_grow"],
              "remove_bodies": "cfun_peg_.*|peg_rule|peg_unmarshal|peg_marshal", "nanbox": False,
              "checks": STD, "unwind": 26, "unwinding_assertions": True, "timeout": 120,
              "assumes": ["peg_compile1 / make_peg replaced by stubs that assert the builder state they are given; janet_dyn returns any value", "compiled with -DJANET_NO_NANBOX"],
              "mutants": [M("compile_peg-tags-from-zero", "    builder.nexttag = 1;", "    builder.nexttag = 0;", "tag numbering"),
                          M("compile_peg-bytecode-uninitialised", "    builder.constants = NULL;\n    builder.bytecode = NULL;", "    builder.constants = NULL;", "empty bytecode")]})

# ------------------------------------------------------------------ (b) loader: peg_unmarshal, framing + one unit per opcode case
LREPL = ["janet_unmarshal_size:h_um_size", "janet_unmarshal_int:h_um_int", "janet_unmarshal_janet:h_um_janet",
         "janet_unmarshal_ensure:h_um_ensure", "janet_unmarshal_abstract:h_um_abstract"]
A_LOAD = ["janet_unmarshal_size / _int / _janet deliver the image (stubs: the first int is num_constants, then the words of the harness image, then arbitrary values); janet_unmarshal_abstract returns a block of the requested size; janet_unmarshal_ensure returns only if enough input remains",
          "image shape: [RULE_NCHAR n] pairs, ONE instruction of the opcode under test at word 0 or 2 with symbolic operands, [RULE_NCHAR n] padding; every (position, bytecode length, length operand) combination is a constant case of the harness - the real function is one big loop, the case split keeps each path to one switch case per iteration"]
A_TYPED = "peg.load.op.*: the block is a typed object: header, bytecode words, pad word, room for 2 constants (images carry 0..2 constants); the exactly-sized bytecode area (any read behind the last word leaves the object) is the subject of peg.load.exact.*"
A_EXACT = "peg.load.exact.*: images without constants; the block ends with the last bytecode word (packed, no padding)"


def loader_loops():
    """ids of the three real loops of peg_unmarshal we bound (constants read loop, slot loop of choice/sequence, verifier loop): CBMC
    numbers every backward goto - also each `do { } while (0)` of PEG_NEED - so the ids are recomputed from the source; re-run after editing peg.c.
    Mutants must keep the number of loops before these three (replace PEG_NEED(n) by PEG_NEED(1) instead of deleting it)."""
    import subprocess, re, tempfile, shutil
    src = open('/repo/src/core/peg.c').read().split('\n')
    want = {"consts": "for (uint32_t j = 0; j < peg->num_constants; j++)", "slots": "for (uint32_t j = 0; j < len; j++) {", "main": "while (i < blen) {"}
    lines = {}
    for k, t in want.items():
        hits = [n for n, l in enumerate(src, 1) if l.strip() == t]
        if k == "consts":       # the same text occurs in peg_marshal; take the one inside peg_unmarshal
            start = next(n for n, l in enumerate(src, 1) if l.startswith('static void *peg_unmarshal'))
            hits = [h for h in hits if h > start]
        assert len(hits) == 1, (k, hits)
        lines[hits[0]] = k
    d = tempfile.mkdtemp()
    gb = os.path.join(d, 'p.gb')
    subprocess.run(['goto-cc', '-std=c99', '-I/repo/src/include', '-I/repo/_build', '-iquote', '/repo/src/core', '-D_FILE_OFFSET_BITS=64', '-c', '/repo/src/core/peg.c', '-o', gb], check=True, capture_output=True)
    out = subprocess.run(['cbmc', '--show-loops', gb], capture_output=True, text=True).stdout
    shutil.rmtree(d)
    ids = {}
    for m in re.finditer(r'Loop (peg_unmarshal\.\d+):\n\s+file \S+ line (\d+)', out):
        if int(m.group(2)) in lines:
            ids[lines[int(m.group(2))]] = m.group(1)
    assert len(ids) == 3, ids
    return ids


LL = loader_loops()     # e.g. {'consts': 'peg_unmarshal.1', 'slots': 'peg_unmarshal.5', 'main': 'peg_unmarshal.6'}
NEED = lambda name, ctx, n: M(name + "-operand-read-unguarded", ctx + "\n                PEG_NEED(%d);" % n, ctx + "\n                PEG_NEED(1);", "pointer_dereference|outside object")
OPS_LOAD = [
 # name, opcode, wf clause, mutant of the clause check, fix-revert mutant (operand words read without the PEG_NEED guard) or None
 ("nchar", "RULE_NCHAR", "room >= 2", None, None),
 ("notnchar", "RULE_NOTNCHAR", "room >= 2", None, None),
 ("range", "RULE_RANGE", "room >= 2", None, None),
 ("position", "RULE_POSITION", "room >= 2", None, None),
 ("line", "RULE_LINE", "room >= 2", None, None),
 ("column", "RULE_COLUMN", "room >= 2", None, None),
 ("backmatch", "RULE_BACKMATCH", "room >= 2; has_backref set",
  M("backmatch-no-backref", "                i += 2;\n                has_backref = 1;\n                break;", "                i += 2;\n                break;", "has_backref"), None),
 ("set", "RULE_SET", "room >= 9",
  M("set-size-wrong", "                /* [8 words] */\n                i += 9;", "                /* [8 words] */\n                i += 8;", "wf_peg|does not fit|REACH"), None),
 ("look", "RULE_LOOK", "room >= 3 && RULEREF(r[2])",
  M("look-target-unchecked", "                if (rule[2] >= blen) goto bad;\n                op_flags[rule[2]] |= 0x1;\n                i += 3;", "                i += 3;", "wf_peg"),
  NEED("look", "                /* [offset, rule] */", 3)),
 ("if", "RULE_IF", "room >= 3 && RULEREF(r[1]) && RULEREF(r[2])",
  M("branch-second-target-unmarked", "                op_flags[rule[1]] |= 0x01;\n                op_flags[rule[2]] |= 0x01;\n                i += 3;\n                break;\n            case RULE_BETWEEN:", "                op_flags[rule[1]] |= 0x01;\n                i += 3;\n                break;\n            case RULE_BETWEEN:", "wf_peg"),
  NEED("branch", "                /* [rule_a, rule_b (b if not a)] */", 3)),
 ("ifnot", "RULE_IFNOT", "room >= 3 && RULEREF(r[1]) && RULEREF(r[2])",
  M("branch-first-target-range-unchecked", "                PEG_NEED(3);\n                if (rule[1] >= blen) goto bad;\n                if (rule[2] >= blen) goto bad;\n                op_flags[rule[1]] |= 0x01;\n                op_flags[rule[2]] |= 0x01;\n                i += 3;\n                break;\n            case RULE_BETWEEN:",
    "                PEG_NEED(3);\n                if (rule[2] >= blen) goto bad;\n                op_flags[rule[1]] |= 0x01;\n                op_flags[rule[2]] |= 0x01;\n                i += 3;\n                break;\n            case RULE_BETWEEN:", "wf_peg|pointer|bounds"),
  NEED("branch", "                /* [rule_a, rule_b (b if not a)] */", 3)),
 ("lenprefix", "RULE_LENPREFIX", "room >= 3 && RULEREF(r[1]) && RULEREF(r[2])",
  M("branch-first-target-unmarked", "                op_flags[rule[1]] |= 0x01;\n                op_flags[rule[2]] |= 0x01;\n                i += 3;\n                break;\n            case RULE_BETWEEN:", "                op_flags[rule[2]] |= 0x01;\n                i += 3;\n                break;\n            case RULE_BETWEEN:", "wf_peg"),
  NEED("branch", "                /* [rule_a, rule_b (b if not a)] */", 3)),
 ("between", "RULE_BETWEEN", "room >= 4 && RULEREF(r[3])",
  M("between-checks-wrong-word", "                if (rule[3] >= blen) goto bad;\n                op_flags[rule[3]] |= 0x01;", "                if (rule[2] >= blen) goto bad;\n                op_flags[rule[2]] |= 0x01;", "wf_peg"),
  NEED("between", "                /* [lo, hi, rule] */", 4)),
 ("argument", "RULE_ARGUMENT", "room >= 3 && (int32_t) r[1] >= 0",
  M("argument-sign-unchecked", "                if (((int32_t *)rule)[1] < 0) goto bad;\n", "", "wf_peg"),
  NEED("argument", "                /* [index, tag] */", 3)),
 ("gettag", "RULE_GETTAG", "room >= 3; has_backref set",
  M("gettag-no-backref", "                i += 3;\n                has_backref = 1;\n                break;", "                i += 3;\n                break;", "has_backref"), None),
 ("constant", "RULE_CONSTANT", "room >= 3 && r[1] < clen",
  M("constant-index-off-by-one", "                if (rule[1] >= clen) goto bad;", "                if (rule[1] > clen) goto bad;", "wf_peg"),
  NEED("constant", "                /* [constant, tag] */", 3)),
 ("capture_num", "RULE_CAPTURE_NUM", "room >= 4 && RULEREF(r[1])",
  M("number-target-unmarked", "                if (rule[1] >= blen) goto bad;\n                op_flags[rule[1]] |= 0x01;\n                i += 4;\n                break;\n            case RULE_ACCUMULATE:", "                if (rule[1] >= blen) goto bad;\n                i += 4;\n                break;\n            case RULE_ACCUMULATE:", "wf_peg"),
  NEED("number", "                /* [rule, base, tag] */", 4)),
 ("accumulate", "RULE_ACCUMULATE", "room >= 3 && RULEREF(r[1])",
  M("cap1-target-range-off-by-one", "                /* [rule, tag] */\n                PEG_NEED(3);\n                if (rule[1] >= blen) goto bad;", "                /* [rule, tag] */\n                PEG_NEED(3);\n                if (rule[1] > blen) goto bad;", "wf_peg|pointer|bounds"),
  NEED("cap1", "                /* [rule, tag] */", 3)),
 ("group", "RULE_GROUP", "room >= 3 && RULEREF(r[1])",
  M("cap1-target-unmarked", "                /* [rule, tag] */\n                PEG_NEED(3);\n                if (rule[1] >= blen) goto bad;\n                op_flags[rule[1]] |= 0x01;", "                /* [rule, tag] */\n                PEG_NEED(3);\n                if (rule[1] >= blen) goto bad;", "wf_peg"),
  NEED("cap1", "                /* [rule, tag] */", 3)),
 ("capture", "RULE_CAPTURE", "room >= 3 && RULEREF(r[1])",
  M("cap1-size-wrong", "                op_flags[rule[1]] |= 0x01;\n                i += 3;\n                break;\n            case RULE_REPLACE:", "                op_flags[rule[1]] |= 0x01;\n                i += 2;\n                break;\n            case RULE_REPLACE:", "wf_peg|does not fit|REACH"),
  NEED("cap1", "                /* [rule, tag] */", 3)),
 ("unref", "RULE_UNREF", "room >= 3 && RULEREF(r[1])",
  M("cap1-target-unmarked", "                /* [rule, tag] */\n                PEG_NEED(3);\n                if (rule[1] >= blen) goto bad;\n                op_flags[rule[1]] |= 0x01;", "                /* [rule, tag] */\n                PEG_NEED(3);\n                if (rule[1] >= blen) goto bad;", "wf_peg"),
  NEED("cap1", "                /* [rule, tag] */", 3)),
 ("replace", "RULE_REPLACE", "room >= 4 && RULEREF(r[1]) && r[2] < clen",
  M("replace-constant-unchecked", "                if (rule[2] >= clen) goto bad;\n", "", "wf_peg"),
  NEED("replace", "                /* [rule, constant, tag] */", 4)),
 ("matchtime", "RULE_MATCHTIME", "room >= 4 && RULEREF(r[1]) && r[2] < clen",
  M("replace-target-unmarked", "                if (rule[2] >= clen) goto bad;\n                op_flags[rule[1]] |= 0x01;", "                if (rule[2] >= clen) goto bad;", "wf_peg"),
  NEED("replace", "                /* [rule, constant, tag] */", 4)),
 ("sub", "RULE_SUB", "room >= 3 && RULEREF(r[1]) && RULEREF(r[2])",
  M("sub-second-target-unchecked", "                /* [rule, rule] */\n                PEG_NEED(3);\n                if (rule[1] >= blen) goto bad;\n                if (rule[2] >= blen) goto bad;", "                /* [rule, rule] */\n                PEG_NEED(3);\n                if (rule[1] >= blen) goto bad;", "wf_peg|pointer|bounds"),
  NEED("sub", "                /* [rule, rule] */", 3)),
 ("til", "RULE_TIL", "room >= 3 && RULEREF(r[1]) && RULEREF(r[2])",
  M("sub-second-target-unmarked", "                op_flags[rule[1]] |= 0x01;\n                op_flags[rule[2]] |= 0x01;\n                i += 3;\n                break;\n            case RULE_ERROR:", "                op_flags[rule[1]] |= 0x01;\n                i += 3;\n                break;\n            case RULE_ERROR:", "wf_peg"),
  NEED("sub", "                /* [rule, rule] */", 3)),
 ("split", "RULE_SPLIT", "room >= 3 && RULEREF(r[1]) && RULEREF(r[2])",
  M("sub-first-target-unmarked", "                op_flags[rule[1]] |= 0x01;\n                op_flags[rule[2]] |= 0x01;\n                i += 3;\n                break;\n            case RULE_ERROR:", "                op_flags[rule[2]] |= 0x01;\n                i += 3;\n                break;\n            case RULE_ERROR:", "wf_peg"),
  NEED("sub", "                /* [rule, rule] */", 3)),
] + [(n, op, "room >= 2 && RULEREF(r[1])",
      M("onerule-target-unmarked", "                /* [rule] */\n                PEG_NEED(2);\n                if (rule[1] >= blen) goto bad;\n                op_flags[rule[1]] |= 0x01;", "                /* [rule] */\n                PEG_NEED(2);\n                if (rule[1] >= blen) goto bad;", "wf_peg"),
      NEED("onerule", "                /* [rule] */", 2))
     for n, op in [("error", "RULE_ERROR"), ("drop", "RULE_DROP"), ("only_tags", "RULE_ONLY_TAGS"), ("not", "RULE_NOT"), ("to", "RULE_TO"), ("thru", "RULE_THRU")]] + [
 ("readint", "RULE_READINT", "room >= 3 && (r[1] & ~0x3F) == 0 && (r[1] & 0xF) <= 8",
  M("readint-width-unchecked", "                if ((rule[1] & ~0x30u) > JANET_MAX_READINT_WIDTH) goto bad;\n", "", "wf_peg"),
  NEED("readint", "                /* [ width | (endianness << 5) | (signedness << 6), tag ] */", 3)),
 ("nth", "RULE_NTH", "room >= 4 && RULEREF(r[2])",
  M("nth-checks-wrong-word", "                if (rule[2] >= blen) goto bad;\n                op_flags[rule[2]] |= 0x01;", "                if (rule[1] >= blen) goto bad;\n                op_flags[rule[1]] |= 0x01;", "wf_peg"),
  NEED("nth", "                /* [nth, rule, tag] */", 4)),
]
GENERIC_MUT = [M("final-scan-dropped", "    for (i = 0; i < blen; i++)\n        if (op_flags[i] == 0x01) goto bad;", "", "wf_peg"),
               M("truncated-program-accepted", "    if (i != blen) goto bad;", "", "does not fit|wf_peg")]


def load(name, op, clause, mutants, lens=None, exact=False, tail=False, reject_only=False, **kw):
    defs = ["-DLOAD_OP=" + op, "-DBL=16"]
    if lens:
        defs.append("-DLOAD_LENS=" + lens)
    if tail:
        defs.append("-DLOAD_TAIL")
    if tail or reject_only:
        defs.append("-DLOAD_REJECT_ONLY")
    if exact:
        defs.append("-DLOAD_TRUNC")
    long_ = bool(lens and "12" in lens)
    u = {"id": ("peg.load.exact." if exact else "peg.load.op.") + name, "props": ["C10", "C09", "C12"], "tier": "quick", "class": "bounded",
         "bound": "one instruction of the opcode at word 0 or 2 of a program of <= 16 words (every bytecode length from 'ends inside the instruction' to 'one more instruction behind it'), operands symbolic, %s; verifier loop unwound 6x (programs here have <= 4 instructions), slot loop %dx, without unwinding assertion" % ("no constants" if exact else "0..2 constants", 14 if long_ else 5),
         "clause": clause, "src": ["peg.c"], "harness": ["peg_load.c"], "entry": "h_load_op", "mode": "plain", "functions": ["peg_unmarshal"],
         "defines": defs, "replace_calls": LREPL, "remove_bodies": "cfun_peg_.*|peg_rule|peg_compile1|spec_.*|peg_marshal", "checks": STD,
         "unwind": 20, "unwindset": {LL["consts"]: 3, LL["main"]: 6, LL["slots"]: (14 if long_ else 5)}, "unwinding_assertions": False, "timeout": 300,
         "assumes": A_LOAD + [A_EXACT if exact else A_TYPED], "mutants": mutants}
    if tail:
        u["unwindset"] = {LL["consts"]: 3, LL["slots"]: 4, LL["main"]: 4}
        u["bound"] = "the opcode as the LAST word of a program of 1 or 3 words (its length operand would lie behind the bytecode); verifier loop unwound 4x, slot loop 4x, without unwinding assertion"
    u.update(kw)
    units.append(u)


EXACT = "loader case %s: while checking, only words INSIDE the bytecode are read (block ending with the last bytecode word, image without constants): every operand read is guarded by the number of words left (regression guard for /repo 27b2ab1)%s"
for name, op, wf, mut, need in OPS_LOAD:
    muts = ([mut] if mut else []) + GENERIC_MUT[(0 if "RULEREF" in wf else 1):]
    load(name, op, "loader case %s: accepted => wf_peg clause `%s` holds for the instruction (what peg.rule.%s assumes); an instruction that does not fit into the bytecode is rejected; header fields, array placement, has_backref" % (op, wf, name), muts)
    if need:
        ro = "clen" in wf      # without constants these opcodes are never accepted
        load(name, op, EXACT % (op, "; never accepted without constants" if ro else ""), [need] + ([] if ro else GENERIC_MUT[1:]), exact=True, reject_only=ro)
VARM = [M("variadic-target-unmarked", "                    if (rule[2 + j] >= blen) goto bad;\n                    op_flags[rule[2 + j]] |= 0x1;", "                    if (rule[2 + j] >= blen) goto bad;", "wf_peg"),
        M("variadic-size-off-by-one", "                i += 2 + len;\n            }", "                i += 1 + len;\n            }", "wf_peg|does not fit|REACH")]
VAR_LEN = M("variadic-length-unguarded", "                if (len > avail - 2) goto bad;\n", "", "pointer_dereference|outside object")
VAR_NEED = M("variadic-length-word-read-unguarded", "            {\n                PEG_NEED(2);\n                uint32_t len = rule[1];", "            {\n                PEG_NEED(1);\n                uint32_t len = rule[1];", "pointer_dereference|outside object")
for name, op in [("choice", "RULE_CHOICE"), ("sequence", "RULE_SEQUENCE")]:
    for suffix, lens, txt in [("", "0,1,2,3", "length operands 0..3"), (".long", "12,0xFFFFFFFFu", "length operands 12 (longer than the program) and 2^32-1: always rejected")]:
        load(name + suffix, op, "loader case %s: accepted => wf_peg clause `room >= 2 && r[1] <= room - 2 && every rule slot is an instruction start`; %s" % (op, txt),
             (VARM + GENERIC_MUT if not suffix else [VAR_LEN]), lens=lens, reject_only=bool(suffix))
        load(name + suffix, op, EXACT % (op, "; the slot loop runs only after `len <= words left - 2`; " + txt), [VAR_LEN] + (VARM[:1] if not suffix else []), lens=lens, exact=True, reject_only=bool(suffix))
LITM = [M("literal-size-rounded-down", "                    uint32_t words = (rule[1] >> 2) + ((rule[1] & 3) ? 1 : 0);", "                    uint32_t words = (rule[1] >> 2);", "wf_peg|does not fit")]
LIT_WRAP = M("literal-word-count-wraps-again", "                    uint32_t words = (rule[1] >> 2) + ((rule[1] & 3) ? 1 : 0);", "                    uint32_t words = (rule[1] + 3) >> 2;", "wf_peg")
# (dropping `if (words > avail - 2) goto bad;` is an equivalent mutant: the instruction pointer then passes blen and `i != blen` rejects)
load("literal", "RULE_LITERAL", "loader case RULE_LITERAL: accepted => `room >= 2 && r[1] <= 4*len && 2 + ((r[1]+3)>>2) <= room` (the data words of the literal lie inside the bytecode: the matcher's memcmp reads them); length operands 0, 1, 4, 5, 8, 40",
     LITM + GENERIC_MUT[1:], lens="0,1,4,5,8,40")
load("literal.wrap", "RULE_LITERAL", "loader case RULE_LITERAL with a length operand of 2^32-3 .. 2^32-1: rejected - the number of data words is computed without wrap-around (regression guard for /repo 27b2ab1: such a literal used to be accepted with no data words)",
     [LIT_WRAP], lens="0xFFFFFFFDu,0xFFFFFFFFu", reject_only=True)
load("literal", "RULE_LITERAL", EXACT % ("RULE_LITERAL", " (length word inside the bytecode; the last-word case is peg.load.exact.literal.tail)"),
     LITM + GENERIC_MUT[1:], lens="0,1,4,5,8,40", exact=True)
TAILM = [M("truncated-program-accepted", "    if (i != blen) goto bad;", "", "does not fit|wf_peg")]
TAIL_NEED = {"literal": M("literal-length-word-read-unguarded", "            case RULE_LITERAL:\n                PEG_NEED(2);", "            case RULE_LITERAL:\n                PEG_NEED(1);", "pointer_dereference|outside object"),
             "choice": VAR_NEED, "sequence": VAR_NEED}
for name, op in [("literal", "RULE_LITERAL"), ("choice", "RULE_CHOICE"), ("sequence", "RULE_SEQUENCE")]:
    # (a typed-block variant peg.load.op.<name>.tail has no killable mutant any more: PEG_NEED(2) and `i != blen` guard each other)
    load(name + ".tail", op, EXACT % (op, "; the opcode as the LAST word of the program: always rejected, and the length operand behind the bytecode is not read"), [TAIL_NEED[name]], tail=True, exact=True)
load("unknown", "RULE_ONLY_TAGS + 1", "loader: an opcode beyond the last known one is rejected wherever it stands (the matcher's switch has no default case that returns)",
     [M("unknown-opcode-skipped", "            default:\n                goto bad;\n        }\n#undef PEG_NEED", "            default:\n                i += 2;\n                break;\n        }\n#undef PEG_NEED", "wf_peg")],
     reject_only=True)

FR = {"id": "peg.load.frame", "props": ["C10", "C09", "C12"], "tier": "quick", "class": "bounded",
      "bound": "programs of 0..5 words ([RULE_NCHAR n] pairs), 0..2 constants",
      "clause": "loader framing: num_constants, then exactly bytecode_len words, then exactly num_constants values are read; input length checked before allocating; words / constants stored in image order in the make_peg layout inside the block; one scratch flag per word, freed on the accepting AND on every rejecting exit; a program ending inside its last instruction is rejected",
      "src": ["peg.c"], "harness": ["peg_load.c"], "entry": "h_load_frame", "mode": "plain", "functions": ["peg_unmarshal", "size_padded"],
      "defines": ["-DLOAD_FRAME", "-DVC_OWN_PANIC", "-DBL=8"], "replace_calls": LREPL + ["calloc:h_calloc", "free:h_free"],
      "remove_bodies": "cfun_peg_.*|peg_rule|peg_compile1|spec_.*|peg_marshal", "checks": STD, "unwind": 12, "unwinding_assertions": True, "timeout": 300,
      "assumes": A_LOAD[:1] + ["calloc returns zeroed memory (harness model)", "typed block: header, words, pad word, room for 2 constants"],
      "mutants": [M("flags-leak-on-reject", "bad:\n    janet_free(op_flags);\n    janet_panic(\"invalid peg bytecode\");", "bad:\n    janet_panic(\"invalid peg bytecode\");", "freed before"),
                  M("constants-read-first", "    for (size_t i = 0; i < peg->bytecode_len; i++)\n        bytecode[i] = (uint32_t) janet_unmarshal_int(ctx);\n    for (uint32_t j = 0; j < peg->num_constants; j++)\n        constants[j] = janet_unmarshal_janet(ctx);",
                    "    for (uint32_t j = 0; j < peg->num_constants; j++)\n        constants[j] = janet_unmarshal_janet(ctx);\n    for (size_t i = 0; i < peg->bytecode_len; i++)\n        bytecode[i] = (uint32_t) janet_unmarshal_int(ctx);", "order"),
                  M("constants-not-aligned", "    size_t constants_start = size_padded(bytecode_start + bytecode_size, sizeof(Janet));\n    size_t total_size = constants_start + sizeof(Janet) * (size_t) num_constants;", "    size_t constants_start = bytecode_start + bytecode_size;\n    size_t total_size = constants_start + sizeof(Janet) * (size_t) num_constants;", "layout")]}
units.append(FR)
units.append({"id": "peg.load.sizes", "props": ["C10", "C09"], "tier": "quick", "class": "full-domain",
              "clause": "loader framing, untrusted lengths: for EVERY 64-bit bytecode length and 32-bit constant count the image is rejected (length > INT32_MAX, which the 32-bit verifier loop would truncate) or the allocation size is computed without wrap-around (128-bit reference) after the input length was checked (regression guard for /repo 965213d)",
              "src": ["peg.c"], "harness": ["peg_load.c"], "entry": "h_load_sizes", "mode": "plain", "functions": ["peg_unmarshal", "size_padded"],
              "defines": ["-DLOAD_FRAME", "-DVC_OWN_PANIC"], "replace_calls": ["janet_unmarshal_size:h_um_size64", "janet_unmarshal_int:h_um_int64", "janet_unmarshal_ensure:h_um_ensure64", "janet_unmarshal_abstract:h_um_abstract64"],
              "remove_bodies": "cfun_peg_.*|peg_rule|peg_compile1|spec_.*|peg_marshal", "checks": STD + ["unsigned-overflow-check"], "only": "C10 peg loader|REACH|peg_unmarshal\\.overflow|size_padded\\.overflow", "timeout": 120,
              "assumes": A_LOAD[:1],
              "mutants": [M("length-limit-dropped", "    if (bytecode_len > INT32_MAX || num_constants > INT32_MAX) janet_panic(\"invalid peg bytecode\");\n", "", "wrap-around|int32|overflow"),
                          M("ensure-after-alloc-dropped", "    if (bytecode_len + num_constants > 0) janet_unmarshal_ensure(ctx, bytecode_len + num_constants - 1);\n", "", "input length checked")]})

if os.environ.get("C12WF_ENABLE_ALL"):      # debugging aid: run the disabled (failing-on-the-pinned-tree) units too
    for u in units:
        if "disabled_reason" in u:
            u["was_disabled_reason"] = u.pop("disabled_reason")
json.dump({"units": units}, open(os.path.join(V, "units", "C12_wf.json"), "w"), indent=1)
print("wrote %d units" % len(units))
