#!/usr/bin/env python3
"""C12/C10 (and C09 for the loader): the two PRODUCERS of PEG bytecode establish wf_peg (harness/peg_wf.h), the predicate
every matcher unit peg.rule.* assumes.  (a) compiler: one unit per emitter / reader / spec_* function (harness/peg_compile.c);
(b) loader peg_unmarshal: framing unit + one unit per opcode case of its verifier loop (harness/peg_load.c).
Writes /verif/units/C12_wf.json.  Run: python3 gen/gen_C12_wf.py"""
import json, os
V = os.path.dirname(os.path.dirname(os.path.abspath(__file__)))
STD = ["bounds-check", "pointer-check", "signed-overflow-check", "div-by-zero-check"]
units = []
M = lambda name, find, replace, expect, **kw: dict(name=name, file="peg.c", find=find, replace=replace, expect=expect, **kw)

# ------------------------------------------------------------------ (a) compiler: spec_* functions
REPL = ["peg_compile1:h_compile1", "emit_tag:h_emit_tag", "emit_constant:h_emit_constant", "peg_getnat:h_getnat",
        "peg_getinteger:h_getinteger", "janet_v_grow:h_v_grow", "janet_arity:h_arity"]
A_SPEC = ["peg_compile1 (sub-pattern compilation) obeys its contract h_compile1: appends 0..3 arbitrary words behind the current end (moving the vector), preserves earlier words, returns a rule index below the new count that is an instruction start of the final bytecode; may add constants/tags and set has_backref",
          "emit_tag returns a tag in 1..255 (proved in peg.wf.emit_tag); emit_constant returns the old constant count and adds one constant (peg.wf.emit_constant); peg_getnat returns an int32 >= 0 or raises (peg.wf.getnat); peg_getinteger returns an int32 or raises (peg.wf.getinteger)",
          "janet_v_grow (vector.c) returns a block with room for the increment holding the old words; the harness model always MOVES the vector to an exactly-sized block and frees the old one",
          "bytecode vector <= 24 words in the harness (<= 4 symbolic words emitted before the call); paths that grow beyond are cut",
          "janet_arity (capi.c) raises unless min <= argc <= max",
          "compiled with -DJANET_NO_NANBOX (documented tagged-struct configuration of the same sources)"]
BOUND = "bytecode vector <= 24 words (<= 4 arbitrary words before the rule, each sub-compilation appends <= 3 words); argc 0..4 symbolic; loops unwound 26x WITH unwinding assertion"


def spec(name, fn, shape, clause, mutants, defines=(), functions=None, **kw):
    u = {"id": "peg.wf.spec." + name, "props": ["C12", "C10"], "tier": "quick", "class": "bounded", "bound": BOUND,
         "clause": clause, "src": ["peg.c"], "link": ["wrap.c"], "harness": ["peg_compile.c"], "entry": "h_spec", "mode": "plain",
         "functions": functions or [fn], "defines": ["-DVC_OWN_EXIT", "-DSPEC_FN=" + fn, "-DSHAPE_" + shape] + ["-D" + d for d in defines],
         "replace_calls": REPL, "remove_bodies": "cfun_peg_.*|peg_rule|peg_unmarshal|peg_marshal", "nanbox": False, "checks": STD,
         "unwind": 26, "unwinding_assertions": True, "timeout": 300, "assumes": A_SPEC, "mutants": mutants}
    u.update(kw)
    units.append(u)


ONE = "rule [%s, rule]: the rule word is the index returned by compiling the single argument (patched after the sub-compilation, into the moved vector), reserved before it; wf_peg clause `room >= 2 && RULEREF(r[1])`; any other arity raises"
for name, fn, op in [("not", "spec_not", "RULE_NOT"), ("to", "spec_to", "RULE_TO"), ("thru", "spec_thru", "RULE_THRU"),
                     ("drop", "spec_drop", "RULE_DROP"), ("only_tags", "spec_only_tags", "RULE_ONLY_TAGS")]:
    spec(name, fn, "onerule", ONE % op,
         [M("onerule-reserve-after-compile", "    Reserve r = reserve(b, 2);\n    uint32_t rule = peg_compile1(b, argv[0]);\n    emit_1(r, op, rule);",
            "    uint32_t rule = peg_compile1(b, argv[0]);\n    Reserve r = reserve(b, 2);\n    emit_1(r, op, rule);", "reserved before|wf"),
          M("onerule-rule-word-dropped", "    emit_1(r, op, rule);\n}\n\nstatic void spec_not", "    emit_1(r, op, 0);\n}\n\nstatic void spec_not", "words")],
         defines=["OP=" + op], functions=[fn, "spec_onerule", "reserve", "emit_1", "emit_rule"])


spec("error", "spec_error", "error",
     "rule [RULE_ERROR, rule]: (error patt) compiles patt, (error) compiles the pattern 0; rule word = returned index, reserved first; wf_peg clause `room >= 2 && RULEREF(r[1])`; more than one argument raises",
     [M("error-default-not-compiled", "        uint32_t rule = peg_compile1(b, janet_wrap_number(0));\n        emit_1(r, RULE_ERROR, rule);", "        uint32_t rule = 0;\n        emit_1(r, RULE_ERROR, rule);", "words|wf"),
      M("error-wrong-opcode", "        emit_1(r, RULE_ERROR, rule);", "        emit_1(r, RULE_DROP, rule);", "opcode")],
     functions=["spec_error", "spec_onerule", "reserve", "emit_1", "emit_rule"])

BR = "rule [%s, rule_a, rule_b]: both rule words are the indices returned by compiling argument 0 and argument 1 in that order, reserved first; wf_peg clause `room >= 3 && RULEREF(r[1]) && RULEREF(r[2])`; any arity but 2 raises"
BRM = lambda body_fn: []
for name, fn, op in [("if", "spec_if", "RULE_IF"), ("ifnot", "spec_ifnot", "RULE_IFNOT"), ("lenprefix", "spec_lenprefix", "RULE_LENPREFIX")]:
    spec(name, fn, "branch", BR % op,
         [M("branch-rules-swapped", "    emit_2(r, rule, rule_a, rule_b);", "    emit_2(r, rule, rule_b, rule_a);", "words"),
          M("branch-arity-unchecked", "static void spec_branch(Builder *b, int32_t argc, const Janet *argv, uint32_t rule) {\n    peg_fixarity(b, argc, 2);", "static void spec_branch(Builder *b, int32_t argc, const Janet *argv, uint32_t rule) {", "arguments")],
         defines=["OP=" + op], functions=[fn, "spec_branch", "reserve", "emit_2", "emit_rule"])
for name, fn, op in [("sub", "spec_sub", "RULE_SUB"), ("til", "spec_til", "RULE_TIL"), ("split", "spec_split", "RULE_SPLIT")]:
    spec(name, fn, "branch", BR % op,
         [M(name + "-second-rule-is-first", "    emit_2(r, %s, subrule1, subrule2);" % op, "    emit_2(r, %s, subrule1, subrule1);" % op, "words"),
          M(name + "-reserve-too-late", "static void %s(Builder *b, int32_t argc, const Janet *argv) {\n    peg_fixarity(b, argc, 2);\n    Reserve r = reserve(b, 3);\n    uint32_t subrule1 = peg_compile1(b, argv[0]);" % fn,
            "static void %s(Builder *b, int32_t argc, const Janet *argv) {\n    peg_fixarity(b, argc, 2);\n    uint32_t subrule1 = peg_compile1(b, argv[0]);\n    Reserve r = reserve(b, 3);" % fn, "reserved before|wf")],
         defines=["OP=" + op], functions=[fn, "reserve", "emit_2", "emit_rule"])

BT = "rule [RULE_BETWEEN, lo, hi, rule]: %s; counts come from peg_getnat (negative / non-integer counts raise instead of being emitted); rule word = index returned by compiling the last argument, reserved first; wf_peg clause `room >= 4 && RULEREF(r[3])`; wrong arity raises"
BTS = [
 ("between", "spec_between", 3, 2, "g_n_ret[0]", "g_n_ret[1]", "lo = argument 0, hi = argument 1",
  [M("between-hi-is-lo", "    emit_3(r, RULE_BETWEEN, lo, hi, subrule);", "    emit_3(r, RULE_BETWEEN, lo, lo, subrule);", "words"),
   M("between-lo-unchecked", "    int32_t lo = peg_getnat(b, argv[0]);\n    int32_t hi = peg_getnat(b, argv[1]);", "    int32_t lo = peg_getinteger(b, argv[0]);\n    int32_t hi = peg_getnat(b, argv[1]);", "peg_getnat")]),
 ("some", "spec_some", 1, 0, "1", "UINT32_MAX", "lo = 1, hi = 2^32-1",
  [M("some-min-zero", "    spec_repeater(b, argc, argv, 1);", "    spec_repeater(b, argc, argv, 0);", "words")]),
 ("any", "spec_any", 1, 0, "0", "UINT32_MAX", "lo = 0, hi = 2^32-1",
  [M("repeater-hi-one", "    emit_3(r, RULE_BETWEEN, min, UINT32_MAX, subrule);", "    emit_3(r, RULE_BETWEEN, min, 1, subrule);", "words")]),
 ("atleast", "spec_atleast", 2, 1, "g_n_ret[0]", "UINT32_MAX", "lo = argument 0, hi = 2^32-1",
  [M("atleast-lo-zero", "    emit_3(r, RULE_BETWEEN, n, UINT32_MAX, subrule);", "    emit_3(r, RULE_BETWEEN, 0, UINT32_MAX, subrule);", "words")]),
 ("atmost", "spec_atmost", 2, 1, "0", "g_n_ret[0]", "lo = 0, hi = argument 0",
  [M("atmost-as-atleast", "    emit_3(r, RULE_BETWEEN, 0, n, subrule);", "    emit_3(r, RULE_BETWEEN, n, UINT32_MAX, subrule);", "words")]),
 ("opt", "spec_opt", 1, 0, "0", "1", "lo = 0, hi = 1",
  [M("opt-rule-slot-left-zero", "    emit_3(r, RULE_BETWEEN, 0, 1, subrule);", "    emit_3(r, RULE_BETWEEN, 0, 1, 0);", "words")]),
 ("repeat", "spec_repeat", 2, 1, "g_n_ret[0]", "g_n_ret[0]", "lo = hi = argument 0 (also the (n patt) shorthand, where peg_compile1 passes the whole tuple)",
  [M("repeat-hi-off-by-one", "    emit_3(r, RULE_BETWEEN, n, n, subrule);", "    emit_3(r, RULE_BETWEEN, n, n + 1, subrule);", "words|overflow")]),
]
for name, fn, argc, nats, lo, hi, txt, muts in BTS:
    spec(name, fn, "between", BT % txt, muts, defines=["BT_ARGC=%d" % argc, "BT_NATS=%d" % nats, "BT_LO=" + lo, "BT_HI=" + hi],
         functions=[fn, "reserve", "emit_3", "emit_rule"] + (["spec_repeater"] if name in ("some", "any") else []))
# (between lo hi patt) with lo > hi: the property text asks for min <= max; kept as a separate unit (see report)
spec("between.ordered", "spec_between", "between",
     "(between lo hi patt) with lo > hi raises instead of emitting a rule that can never match [NOT established by the pinned tree: reported, unit disabled]",
     [M("between-hi-is-lo", "    emit_3(r, RULE_BETWEEN, lo, hi, subrule);", "    emit_3(r, RULE_BETWEEN, lo, lo, subrule);", "words")],
     defines=["BT_ARGC=3", "BT_NATS=2", "BT_LO=g_n_ret[0]", "BT_HI=g_n_ret[1]", "BT_ORDERED"],
     disabled_reason="fails on the pinned tree (obligation 'between: min <= max, else raise'): spec_between emits lo > hi; the matcher then always fails - not a memory-safety issue, not a wf_peg clause; reported")

CAP = "rule [%s, rule, tag]: rule word = index returned by compiling argument 0, tag word = emit_tag(argument 1) (1..255) or 0, reserved first; wf_peg clause `room >= 3 && RULEREF(r[1])`; arity other than 1..2 raises"
for name, fn, op in [("capture", "spec_capture", "RULE_CAPTURE"), ("accumulate", "spec_accumulate", "RULE_ACCUMULATE"),
                     ("group", "spec_group", "RULE_GROUP"), ("unref", "spec_unref", "RULE_UNREF")]:
    spec(name, fn, "cap1", CAP % op,
         [M("cap1-operands-swapped", "    emit_2(r, op, rule, tag);", "    emit_2(r, op, tag, rule);", "words|wf"),
          M("cap1-tag-ignored", "    uint32_t tag = (argc == 2) ? emit_tag(b, argv[1]) : 0;\n    uint32_t rule = peg_compile1(b, argv[0]);\n    emit_2(r, op, rule, tag);",
            "    uint32_t tag = 0;\n    uint32_t rule = peg_compile1(b, argv[0]);\n    emit_2(r, op, rule, tag);", "words")],
         defines=["OP=" + op], functions=[fn, "spec_cap1", "reserve", "emit_2", "emit_rule"])

TAG = "rule [%s, tag]: tag word = emit_tag(argument 0) (1..255) or 0; wf_peg clause `room >= 2`; more than one argument raises%s"
for name, fn, op, br in [("position", "spec_position", "RULE_POSITION", False), ("line", "spec_line", "RULE_LINE", False),
                         ("column", "spec_column", "RULE_COLUMN", False), ("backmatch", "spec_backmatch", "RULE_BACKMATCH", True)]:
    muts = [M("tag1-tag-ignored", "    uint32_t tag = (argc) ? emit_tag(b, argv[0]) : 0;", "    uint32_t tag = 0;", "words"),
            M("tag1-short-reserve", "    peg_arity(b, argc, 0, 1);\n    Reserve r = reserve(b, 2);", "    peg_arity(b, argc, 0, 1);\n    Reserve r = reserve(b, 1);", "bad reserve|wf|present")]
    if br:
        muts.append(M("backmatch-no-backref-flag", "    b->has_backref = 1;\n    spec_tag1(b, argc, argv, RULE_BACKMATCH);", "    spec_tag1(b, argc, argv, RULE_BACKMATCH);", "back-references"))
    spec(name, fn, "tag1", TAG % (op, "; the peg is marked has_backref" if br else ""), muts,
         defines=["OP=" + op] + (["SETS_BACKREF"] if br else []), functions=[fn, "spec_tag1", "reserve", "emit_1", "emit_rule"])

spec("reference", "spec_reference", "reference",
     "rule [RULE_GETTAG, searchtag, tag] (-> / backref): both words come from emit_tag (1..255) resp. 0; the peg is marked has_backref; wf_peg clause `room >= 3`; arity other than 1..2 raises",
     [M("reference-no-backref-flag", "    b->has_backref = 1;\n    emit_2(r, RULE_GETTAG, search, tag);", "    emit_2(r, RULE_GETTAG, search, tag);", "back-references"),
      M("reference-search-is-tag", "    emit_2(r, RULE_GETTAG, search, tag);", "    emit_2(r, RULE_GETTAG, tag, search);", "words")],
     functions=["spec_reference", "reserve", "emit_2", "emit_rule"])
spec("argument", "spec_argument", "argument",
     "rule [RULE_ARGUMENT, index, tag]: index = peg_getnat(argument 0) - a negative index raises instead of being emitted; wf_peg clause `room >= 3 && (int32_t) r[1] >= 0`",
     [M("argument-index-unchecked", "    int32_t index = peg_getnat(b, argv[0]);\n    emit_2(r, RULE_ARGUMENT, index, tag);", "    int32_t index = peg_getinteger(b, argv[0]);\n    emit_2(r, RULE_ARGUMENT, index, tag);", "peg_getnat|negative"),
      M("argument-arity-unchecked", "static void spec_argument(Builder *b, int32_t argc, const Janet *argv) {\n    peg_arity(b, argc, 1, 2);", "static void spec_argument(Builder *b, int32_t argc, const Janet *argv) {", "arguments|pointer|bounds")],
     functions=["spec_argument", "reserve", "emit_2", "emit_rule"])
spec("constant", "spec_constant", "constant",
     "rule [RULE_CONSTANT, constant, tag]: constant word = index returned by emit_constant(argument 0) and below the final num_constants; wf_peg clause `room >= 3 && r[1] < clen`",
     [M("constant-not-registered", "    emit_2(r, RULE_CONSTANT, emit_constant(b, argv[0]), tag);", "    emit_2(r, RULE_CONSTANT, janet_v_count(b->constants), tag);", "emit_constant|wf"),
      M("constant-operands-swapped", "    emit_2(r, RULE_CONSTANT, emit_constant(b, argv[0]), tag);", "    emit_2(r, RULE_CONSTANT, tag, emit_constant(b, argv[0]));", "words|wf")],
     functions=["spec_constant", "reserve", "emit_2", "emit_rule"])
RP = "rule [%s, rule, constant, tag]: rule word = index returned by compiling argument 0; constant word = emit_constant(argument 1) below the final num_constants (also when the sub-pattern registered constants of its own); wf_peg clause `room >= 4 && RULEREF(r[1]) && r[2] < clen`%s"
spec("replace", "spec_replace", "replace", RP % ("RULE_REPLACE", ""),
     [M("replace-constant-index-before-subpattern", "    uint32_t subrule = peg_compile1(b, argv[0]);\n    uint32_t constant = emit_constant(b, argv[1]);\n    uint32_t tag = (argc == 3) ? emit_tag(b, argv[2]) : 0;\n    emit_3(r, RULE_REPLACE, subrule, constant, tag);",
        "    uint32_t subrule = peg_compile1(b, argv[0]);\n    uint32_t constant = emit_constant(b, argv[1]);\n    uint32_t tag = (argc == 3) ? emit_tag(b, argv[2]) : 0;\n    emit_3(r, RULE_REPLACE, subrule, constant + 1, tag);", "emit_constant|wf"),
      M("replace-rule-and-constant-swapped", "    emit_3(r, RULE_REPLACE, subrule, constant, tag);", "    emit_3(r, RULE_REPLACE, constant, subrule, tag);", "words|wf")],
     defines=["OP=RULE_REPLACE"], functions=["spec_replace", "reserve", "emit_3", "emit_rule"])
spec("matchtime", "spec_matchtime", "replace", RP % ("RULE_MATCHTIME", "; the constant is a function or C function, anything else raises"),
     [M("cmt-function-type-unchecked", "    if (!janet_checktype(fun, JANET_FUNCTION) &&\n            !janet_checktype(fun, JANET_CFUNCTION)) {", "    if (0) {", "function"),
      M("cmt-wrong-opcode", "    emit_3(r, RULE_MATCHTIME, subrule, cindex, tag);", "    emit_3(r, RULE_REPLACE, subrule, cindex, tag);", "opcode")],
     defines=["OP=RULE_MATCHTIME", "NEEDS_FUNCTION"], functions=["spec_matchtime", "reserve", "emit_3", "emit_rule"])
spec("nth", "spec_nth", "nth",
     "rule [RULE_NTH, n, rule, tag]: n = peg_getnat(argument 0) (negative raises), rule word = index returned by compiling argument 1; wf_peg clause `room >= 4 && RULEREF(r[2])`",
     [M("nth-operands-swapped", "    emit_3(r, RULE_NTH, nth, rule, tag);", "    emit_3(r, RULE_NTH, rule, nth, tag);", "words|wf"),
      M("nth-index-unchecked", "    uint32_t nth = peg_getnat(b, argv[0]);", "    uint32_t nth = peg_getinteger(b, argv[0]);", "peg_getnat|negative")],
     functions=["spec_nth", "reserve", "emit_3", "emit_rule"])
spec("capture_number", "spec_capture_number", "capture_number",
     "rule [RULE_CAPTURE_NUM, rule, base, tag] (number): base is 0 (nil / absent) or the integer 2..36 given by the pattern, anything else raises; rule word = index returned by compiling argument 0; wf_peg clause `room >= 4 && RULEREF(r[1])`",
     [M("number-base-range-unchecked", "            if (base < 2 || base > 36) goto error;\n", "", "base"),
      M("number-base-and-rule-swapped", "    emit_3(r, RULE_CAPTURE_NUM, rule, base, tag);", "    emit_3(r, RULE_CAPTURE_NUM, base, rule, tag);", "words|wf")],
     functions=["spec_capture_number", "reserve", "emit_3", "emit_rule"], link=["wrap.c", "util.c"],
     link_keep={"util.c": ["janet_checkint"]})
for name, fn, mask in [("uint", "spec_uint_le", "0x0u"), ("int", "spec_int_le", "0x10u"), ("uint_be", "spec_uint_be", "0x20u"), ("int_be", "spec_int_be", "0x30u")]:
    spec("readint." + name, fn, "readint",
         "rule [RULE_READINT, flags|width, tag] (%s): width = peg_getnat(argument 0) in 0..8 (anything larger raises), flags = %s only; wf_peg clause `room >= 3 && (r[1] & ~0x3F) == 0 && (r[1] & 0xF) <= 8`" % (name.replace("_", "-"), mask),
         [M("readint-width-unchecked", "    if ((width < 0) || (width > JANET_MAX_READINT_WIDTH)) {", "    if (width < 0) {", "width|wf"),
          M("readint-mask-lost", "    emit_2(r, RULE_READINT, mask | ((uint32_t) width), tag);", "    emit_2(r, RULE_READINT, ((uint32_t) width), tag);", "flags")
          if mask != "0x0u" else M("readint-width-shifted", "    emit_2(r, RULE_READINT, mask | ((uint32_t) width), tag);", "    emit_2(r, RULE_READINT, mask | ((uint32_t) width << 1), tag);", "width|flags|wf")],
         defines=["RI_MASK=" + mask], functions=[fn, "spec_readint", "reserve", "emit_2", "emit_rule"])
spec("look", "spec_look", "look",
     "rule [RULE_LOOK, offset, rule] (look / >): offset = peg_getinteger(argument 0) or 0, rule word = index returned by compiling the LAST argument; wf_peg clause `room >= 3 && RULEREF(r[2])`",
     [M("look-compiles-first-argument", "    uint32_t subrule = peg_compile1(b, argv[rulearg]);", "    uint32_t subrule = peg_compile1(b, argv[0]);", "words"),
      M("look-operands-swapped", "    emit_2(r, RULE_LOOK, (uint32_t) offset, subrule);", "    emit_2(r, RULE_LOOK, subrule, (uint32_t) offset);", "words|wf")],
     functions=["spec_look", "reserve", "emit_2", "emit_rule"])
VAR = "rule [%s, len, rules...]: length word = argc, one reserved slot per sub-pattern, every slot patched (into the possibly moved vector) with the index returned by compiling THAT argument - no reserved 0 left; wf_peg clause `room >= 2 && r[1] <= room - 2 && peg_wf_args`"
for name, fn, op in [("sequence", "spec_sequence", "RULE_SEQUENCE"), ("choice", "spec_choice", "RULE_CHOICE")]:
    spec(name, fn, "variadic", VAR % op,
         [M("variadic-last-slot-not-patched", "    for (int32_t i = 0; i < argc; i++) {\n        uint32_t rulei = peg_compile1(b, argv[i]);", "    for (int32_t i = 0; i < argc - 1; i++) {\n        uint32_t rulei = peg_compile1(b, argv[i]);", "sub-compilation|words"),
          M("variadic-slot-off-by-one", "        b->bytecode[rule + 2 + i] = rulei;", "        b->bytecode[rule + 1 + i] = rulei;", "words|wf"),
          M("variadic-one-slot-short", "    for (int32_t i = 0; i < argc; i++)\n        janet_v_push(b->bytecode, 0);\n    for (int32_t i = 0; i < argc; i++) {", "    for (int32_t i = 0; i < argc - 1; i++)\n        janet_v_push(b->bytecode, 0);\n    for (int32_t i = 0; i < argc; i++) {", "reserved before|present|wf|exactly")],
         defines=["OP=" + op], functions=[fn, "spec_variadic"])

json.dump({"units": units}, open(os.path.join(V, "units", "C12_wf.json"), "w"), indent=1)
print("wrote %d units" % len(units))
