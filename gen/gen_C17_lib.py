#!/usr/bin/env python3
"""generates units/C17_lib.json: C17 / C04 (C level) - the library C functions of string.c, buffer.c, array.c, tuple.c,
table.c and struct.c that are not covered by C04_seq / C04_tab / C17_str"""
import json, os
V = os.path.dirname(os.path.dirname(os.path.abspath(__file__)))
CHECKS = ["bounds-check", "pointer-check", "signed-overflow-check", "div-by-zero-check", "conversion-check",
          "pointer-primitive-check", "undefined-shift-check", "float-overflow-check"]
units = []
TEST_DISABLED = bool(os.environ.get("GEN_ENABLE_DISABLED"))   # testing aid: emit the disabled units as runnable

def unit(id, clause, entry, enforce=None, cls="proved", tier="quick", **kw):
    u = {"id": id, "tier": tier, "class": cls, "clause": clause, "entry": entry}
    if TEST_DISABLED:
        kw.pop("disabled_reason", None)
    if enforce:
        u["enforce"] = [enforce]
    u.update(kw)
    units.append(u)

def mut(name, file, find, replace, expect, **kw):
    d = {"name": name, "file": file, "find": find, "replace": replace, "expect": expect}
    d.update(kw)
    return d

def loop(inv, assigns, dec, smap, lid="0"):
    return {"loop_id": lid, "invariants": inv, "assigns": assigns, "decreases": dec, "symbol_map": smap}

def cf(fn):
    return "%s/%s_c" % (fn, fn)

# ------------------------------------------------------------------ string.c: byte-wise C functions (dfcc + loop contracts)
GETTERS = ("capi.c getters are stubs: janet_getbytes yields a separate readable block of any length 0..INT32_MAX per slot, janet_getinteger the "
           "slot's low 32 bits, each asserts slot index < argc; janet_arity/janet_fixarity return only for an accepted argc")
STRCTOR = ("janet_string_begin / janet_string_end / janet_string / janet_symbol replaced by asserting models of their contracts "
           "(length >= 0, source readable; fresh NUL-terminated block; pointwise copy) - real bodies: units lib.string.begin, lib.string.copy")
S = dict(src=["string.c"], link=["wrap.c", "util.c"], link_keep={"util.c": ["safe_memcpy"]}, harness=["lib_string.c"],
         defines=["-DSEQ_ELEM_BYTES"],
         replace_calls=["janet_string_begin:janet_string_begin_stub", "janet_string_end:janet_string_end_stub", "janet_string:janet_string_stub"])
SA = [GETTERS, STRCTOR]

def smap(fn, **names):
    return ";".join("%s,%s::%s" % (k, fn, v) for k, v in names.items())

UP = "(unsigned char)((g_byte >= 97 && g_byte <= 122) ? g_byte - 32 : g_byte)"
LO = "(unsigned char)((g_byte >= 65 && g_byte <= 90) ? g_byte + 32 : g_byte)"
for nm, lisp, expr, what, muts in [
    ("asciiupper", "ascii-upper", UP, "a-z become A-Z",
     [mut("range-off-by-one", "string.c", "if (c >= 97 && c <= 122) {", "if (c >= 96 && c <= 122) {", "postcondition|loop_invariant"),
      mut("loop-one-too-far", "string.c", "        uint8_t c = view.bytes[i];\n        if (c >= 97 && c <= 122) {", "        uint8_t c = view.bytes[i + 1];\n        if (c >= 97 && c <= 122) {", "pointer_dereference|loop_invariant|postcondition")]),
    ("asciilower", "ascii-lower", LO, "A-Z become a-z",
     [mut("upper-bound-off-by-one", "string.c", "if (c >= 65 && c <= 90) {", "if (c >= 65 && c <= 91) {", "postcondition|loop_invariant"),
      mut("wrong-offset", "string.c", "            buf[i] = c + 32;", "            buf[i] = c + 31;", "postcondition|loop_invariant")])]:
    fn = "cfun_string_" + nm
    unit("lib.string." + nm,
         "string/%s, every length and content: arity 1; returns a NEW NUL-terminated string of the same length in which %s and every other byte (NUL, high bytes) is unchanged; reads inside str, writes inside the new block; str not modified" % (lisp, what),
         "h_string_" + nm, cf(fn), assumes=SA, mutants=muts, **S,
         loops={fn: [loop("i >= 0 && i <= view.len && buf[view.len] == 0 && ((g_idx >= 0 && g_idx < i) ==> buf[g_idx] == %s)" % expr,
                          "i, __CPROVER_object_whole(buf)", "view.len - i", smap(fn, i="1::1::i", view="1::view", buf="1::buf"))]},
         loop_counts={fn: 1})


S_LM = dict(S, loop_macros="lib_loopmacros.h")
fn = "cfun_string_reverse"
unit("lib.string.reverse",
     "string/reverse, every length and content: arity 1; returns a NEW NUL-terminated string of the same length with byte i == str[len - 1 - i]; reads inside str, writes inside the new block; str not modified",
     "h_string_reverse", cf(fn), assumes=SA, **S,
     loops={fn: [loop("i >= 0 && i <= view.len && j == view.len - 1 - i && buf[view.len] == 0 && ((g_idx >= 0 && g_idx < view.len && view.len - 1 - g_idx < i) ==> buf[view.len - 1 - g_idx] == g_byte)",
                      "i, j, __CPROVER_object_whole(buf)", "view.len - i", smap(fn, i="1::i", j="1::j", view="1::view", buf="1::buf"))]},
     loop_counts={fn: 1},
     mutants=[mut("source-index-off-by-one", "string.c", "for (i = 0, j = view.len - 1; i < view.len; i++, j--) {", "for (i = 0, j = view.len; i < view.len; i++, j--) {", "pointer_dereference|loop_invariant|postcondition"),
              mut("no-reversal", "string.c", "        buf[i] = view.bytes[j];", "        buf[i] = view.bytes[i];", "loop_invariant|postcondition")])
fn = "cfun_string_bytes"
unit("lib.string.bytes",
     "string/bytes, every length and content: arity 1; returns a NEW tuple of len str elements, element i is the integer value (0..255) of byte i; reads inside str, writes inside the new tuple; str not modified",
     "h_string_bytes", cf(fn), assumes=SA + ["janet_tuple_begin(n) (n >= 0 asserted) returns a fresh block of n values, janet_tuple_end returns it (real bodies: unit lib.tuple.begin)"], **S,
     loops={fn: [loop("i >= 0 && i <= view.len && ((g_idx >= 0 && g_idx < i) ==> (tup[g_idx].number == (double)g_byte && (tup[g_idx].u64 >> 63) == 0ul))",
                      "i, __CPROVER_object_whole(tup)", "view.len - i", smap(fn, i="1::i", view="1::view", tup="1::tup"))]},
     loop_counts={fn: 1},
     mutants=[mut("sign-extended-byte", "string.c", "tup[i] = janet_wrap_integer((int32_t) view.bytes[i]);", "tup[i] = janet_wrap_integer((int32_t)(int8_t) view.bytes[i]);", "loop_invariant|postcondition"),
              mut("loop-one-too-far", "string.c", "    for (i = 0; i < view.len; i++) {\n        tup[i] = janet_wrap_integer", "    for (i = 0; i <= view.len; i++) {\n        tup[i] = janet_wrap_integer", "pointer_dereference|loop_invariant|assigns")])
fn = "cfun_string_frombytes"
unit("lib.string.frombytes",
     "string/from-bytes, every argument count: every argument is fetched as an integer (slot index below argc; a non-integer raises in janet_getinteger); returns a NEW NUL-terminated string of argc bytes, byte i == argument i mod 256 (documented: 'coerced to the range of 1 byte 0-255'); writes inside the new block",
     "h_string_frombytes", cf(fn), assumes=SA, **S_LM,
     loops={fn: [loop("i >= 0 && i <= argc && buf[argc] == 0 && ((g_j >= 0 && g_j < i) ==> (unsigned long)buf[g_j] == (argv[g_j].u64 & 0xFFul))",
                      "i, __CPROVER_object_whole(buf)", "argc - i", smap(fn, i="1::i", argc="argc", argv="argv", buf="1::buf"))]},
     loop_counts={fn: 1},
     mutants=[mut("loop-one-too-far", "string.c", "    for (i = 0; i < argc; i++) {\n        int32_t c = janet_getinteger(argv, i);\n        buf[i] = c & 0xFF;", "    for (i = 0; i <= argc; i++) {\n        int32_t c = janet_getinteger(argv, i);\n        buf[i] = c & 0xFF;", "slot index|loop_invariant|assigns"),
              mut("mask-7-bits", "string.c", "        buf[i] = c & 0xFF;\n    }\n    return janet_wrap_string(janet_string_end(buf));", "        buf[i] = c & 0x7F;\n    }\n    return janet_wrap_string(janet_string_end(buf));", "loop_invariant|postcondition")])

SLICE_A = SA + ["janet_getslice replaced by its contract (proved in seq.capi.getslice): 0 <= start <= end <= length of slot 0",
                "domain restriction argc >= 1: with no argument argv[0] is read before the arity check (unit lib.string.slice.argc0 keeps that obligation; outcome is still an error)"]
for nm, lisp, kind, call in [("string", "string/slice", "string", "janet_stringv"), ("symbol", "symbol/slice", "symbol", "janet_symbolv"), ("keyword", "keyword/slice", "keyword", "janet_keywordv")]:
    fn = "cfun_%s_slice" % nm
    unit("lib.string.slice." + nm if nm != "string" else "lib.string.slice",
         "%s: arity 1..3; returns a new %s holding exactly bytes[start, end) of the source (range decoding: janet_getslice); the constructor is given a non-negative length and a range inside the source; source not modified" % (lisp, kind),
         "h_%s_slice" % nm, cf(fn), assumes=SLICE_A, **S,
         mutants=[mut("length-is-end", "string.c", "return %s(view.bytes + range.start, range.end - range.start);" % call, "return %s(view.bytes + range.start, range.end);" % call, "janet_string precondition|postcondition"),
                  mut("from-start-of-source", "string.c", "return %s(view.bytes + range.start, range.end - range.start);" % call, "return %s(view.bytes, range.end - range.start);" % call, "postcondition")])
unit("lib.string.slice.argc0",
     "string/slice (same code shape in symbol/slice, keyword/slice), ALL argument counts: no argument slot is read at an index >= argc",
     "h_string_slice", cf("cfun_string_slice"), tier="thorough",
     disabled_reason="fails on the pinned tree (janet_getbytes.assertion.1 'argument slot index below argc'): (string/slice) reads argv[0] before janet_getslice checks the arity; minor - the stale slot lies inside the fiber stack and the call still raises (type or arity error); already recorded for buffer/slice in str.cfun.buffer.slice.argc0",
     assumes=SA, **dict(S, defines=S["defines"] + ["-DLIB_SLICE_ANY_ARGC"]),
     mutants=[mut("from-start-of-source", "string.c", "return janet_stringv(view.bytes + range.start, range.end - range.start);", "return janet_stringv(view.bytes, range.end - range.start);", "postcondition")])

CMP = "memcmp model (lib_string.c): both ranges must be readable for n bytes (counted obligations); result 0 only if the ranges agree at the ghost offset, non-zero with a witness offset where they differ"
unit("lib.string.hasprefix",
     "string/has-prefix?, every length and content: arity 2; returns true or false; true exactly when pfx is not longer than str and every byte of pfx equals the byte of str at the same index; false when pfx is longer (nothing compared) or some byte differs; memcmp inside both sequences; inputs not modified",
     "h_string_hasprefix", cf("cfun_string_hasprefix"), assumes=SA + [CMP], **S,
     mutants=[mut("length-test-dropped", "string.c", "    return str.len < prefix.len\n           ? janet_wrap_false()\n           : janet_wrap_boolean(memcmp(prefix.bytes, str.bytes, prefix.len) == 0);", "    return janet_wrap_boolean(memcmp(prefix.bytes, str.bytes, prefix.len) == 0);", "memcmp model|postcondition"),
              mut("inverted", "string.c", "janet_wrap_boolean(memcmp(prefix.bytes, str.bytes, prefix.len) == 0);", "janet_wrap_boolean(memcmp(prefix.bytes, str.bytes, prefix.len) != 0);", "postcondition")])
unit("lib.string.hassuffix",
     "string/has-suffix?, every length and content: arity 2; returns true or false; true exactly when sfx is not longer than str and every byte of sfx equals the byte of str at index len str - len sfx + i; false when sfx is longer (nothing compared) or some byte differs; memcmp inside both sequences; inputs not modified",
     "h_string_hassuffix", cf("cfun_string_hassuffix"), assumes=SA + [CMP], **S,
     mutants=[mut("compares-the-prefix", "string.c", "                                       str.bytes + str.len - suffix.len,\n", "                                       str.bytes,\n", "postcondition"),
              mut("length-test-flipped", "string.c", "    return str.len < suffix.len\n", "    return str.len > suffix.len\n", "memcmp model|postcondition|pointer")])

# ------------------------------------------------------------------ string.c: constructors (the contracts assumed above)
CT = dict(mode="plain", src=["string.c"], link=["wrap.c", "util.c"], link_keep={"util.c": ["safe_memcpy"]}, harness=["lib_strctor.c"], defines=["-DSEQ_ELEM_BYTES"])
CTA = ["janet_gcalloc returns a fresh block of the requested size; janet_string_calchash returns an arbitrary (recorded) value and wants its argument readable",
       "memcpy model (seq_common.h): ranges valid and disjoint - counted obligations; pointwise effect on the ghost byte"]
unit("lib.string.begin", "janet_string_begin, every length >= 0: one allocation of exactly header + length + 1 bytes (no overflow), the length stored in the header, the terminating NUL written inside the block; returns the data pointer",
     "h_string_begin", cls="full-domain", functions=["janet_string_begin"], assumes=CTA, **CT,
     mutants=[mut("no-room-for-nul", "string.c", "JanetStringHead *head = janet_gcalloc(JANET_MEMORY_STRING, sizeof(JanetStringHead) + (size_t) length + 1);\n    head->length = length;\n    uint8_t *data = (uint8_t *)head->data;\n    data[length] = 0;",
                  "JanetStringHead *head = janet_gcalloc(JANET_MEMORY_STRING, sizeof(JanetStringHead) + (size_t) length);\n    head->length = length;\n    uint8_t *data = (uint8_t *)head->data;\n    data[length] = 0;", "pointer_dereference|C17")])
unit("lib.string.copy", "janet_string, every length >= 0 and readable source: block of header + len + 1 bytes, length and hash of the source stored, content equal to the source, NUL terminated; memcpy inside both blocks; source not modified",
     "h_string_copy", cls="full-domain", functions=["janet_string"], assumes=CTA, **CT,
     mutants=[mut("nul-one-too-far", "string.c", "    safe_memcpy(data, buf, len);\n    data[len] = 0;", "    safe_memcpy(data, buf, len);\n    data[len + 1] = 0;", "pointer_dereference|C17|overflow"),
              mut("copy-one-more", "string.c", "    safe_memcpy(data, buf, len);\n    data[len] = 0;", "    safe_memcpy(data, buf, len + 1);\n    data[len] = 0;", "memcpy model|overflow")])
unit("lib.string.end", "janet_string_end: stores the hash of the string's own bytes (length taken from the header) and returns the same pointer; nothing else changes",
     "h_string_end", cls="full-domain", functions=["janet_string_end", "janet_string_begin"], assumes=CTA, **CT,
     mutants=[mut("hash-of-one-byte-less", "string.c", "janet_string_hash(str) = janet_string_calchash(str, janet_string_length(str));", "janet_string_hash(str) = janet_string_calchash(str, janet_string_length(str) - 1);", "C17|overflow|precondition")])


# ------------------------------------------------------------------ string.c: trim family
T = dict(S_LM, harness=["lib_string.c", "lib_string_trim.c"], replace_calls=S["replace_calls"] + ["trim_help_checkset:trim_help_checkset_stub"])
TA = SA + ["trim_help_checkset replaced by its contract: a pure membership function of (set, x) - literal membership for the default set \" \\t\\r\\n\\v\\f\" (the stub asserts this very set is passed), an abstract fixed table for a custom set (the stub asserts the set argument is passed); real body: unit lib.string.trim.checkset"]
LE = "trim_help_leftedge"; RE = "trim_help_rightedge"
TL = {LE: [loop("i >= 0 && i <= str.len && ((g_idx >= 0 && g_idx < i) ==> INSET(str.bytes[g_idx]))", "i", "str.len - i", smap(LE, i="1::1::i", str="str"))]}
TR = {RE: [loop("i >= -1 && i < str.len && ((g_idx > i && g_idx < str.len) ==> INSET(str.bytes[g_idx]))", "i", "i + 1", smap(RE, i="1::1::i", str="str"))]}
M_L1 = mut("left-edge-skips-first", "string.c", "    for (int32_t i = 0; i < str.len; i++)\n        if (!trim_help_checkset(set, str.bytes[i]))\n            return i;", "    for (int32_t i = 1; i < str.len; i++)\n        if (!trim_help_checkset(set, str.bytes[i]))\n            return i;", "loop_invariant|postcondition")
M_R1 = mut("right-edge-off-by-one", "string.c", "        if (!trim_help_checkset(set, str.bytes[i]))\n            return i + 1;", "        if (!trim_help_checkset(set, str.bytes[i]))\n            return i;", "postcondition|loop_invariant")
M_R2 = mut("right-edge-starts-past-end", "string.c", "for (int32_t i = str.len - 1; i >= 0; i--)", "for (int32_t i = str.len; i >= 0; i--)", "pointer_dereference|loop_invariant")
M_EMPTY = mut("all-set-bytes-not-special-cased", "string.c", "    if (right_edge < left_edge)\n        return janet_stringv(NULL, 0);\n", "", "janet_string precondition|postcondition")
M_DEF = mut("default-set-without-formfeed", "string.c", "        set->len = 6;", "        set->len = 5;", "trim_help_checkset")
MAXI = "result is the MAXIMAL substring: every byte cut off is in the set, the first and last byte kept are not, the empty string exactly when every byte is in the set"
unit("lib.string.trim", "string/trim, every length and content, default whitespace set and custom set: arity 1..2; returns a new string str[L, R); " + MAXI + "; reads inside str and set; inputs not modified",
     "h_string_trim", cf("cfun_string_trim"), assumes=TA, loops=dict(TL, **TR), loop_counts={LE: 1, RE: 1}, mutants=[M_L1, M_R1, M_R2, M_EMPTY, M_DEF], **T)
unit("lib.string.triml", "string/triml, every length and content, default and custom set: arity 1..2; returns a new string str[L, len); every byte before L is in the set, byte L is not; empty exactly when every byte is in the set; inputs not modified",
     "h_string_triml", cf("cfun_string_triml"), assumes=TA, loops=TL, loop_counts={LE: 1}, mutants=[M_L1, M_DEF,
         mut("length-not-reduced", "string.c", "return janet_stringv(str.bytes + left_edge, str.len - left_edge);", "return janet_stringv(str.bytes + left_edge, str.len);", "janet_string precondition|postcondition")], **T)
unit("lib.string.trimr", "string/trimr, every length and content, default and custom set: arity 1..2; returns a new string str[0, R); every byte from R on is in the set, byte R - 1 is not; empty exactly when every byte is in the set; inputs not modified",
     "h_string_trimr", cf("cfun_string_trimr"), assumes=TA, loops=TR, loop_counts={RE: 1}, mutants=[M_R1, M_R2, M_DEF], **T)
SM = dict(mode="plain", src=["string.c"], link=["wrap.c"], harness=["lib_string_small.c"])
unit("lib.string.trim.checkset", "trim_help_checkset(set, x) returns 1 exactly when byte x occurs in set; reads inside set",
     "h_trim_checkset", cls="bounded", bound="sets of 0..8 bytes (the default whitespace set has 6), all byte contents", functions=["trim_help_checkset"], unwind=10,
     assumes=[], mutants=[mut("skips-first-set-byte", "string.c", "    for (int32_t j = 0; j < set.len; j++)\n        if (set.bytes[j] == x)", "    for (int32_t j = 1; j < set.len; j++)\n        if (set.bytes[j] == x)", "C17"),
                          mut("reads-past-set", "string.c", "    for (int32_t j = 0; j < set.len; j++)\n        if (set.bytes[j] == x)", "    for (int32_t j = 0; j <= set.len; j++)\n        if (set.bytes[j] == x)", "pointer_dereference|C17")], **SM)
unit("lib.string.checkset", "string/check-set: arity 2; returns true exactly when every byte of str occurs in set (true for the empty str), false otherwise; bit-set indexing inside the 256 bit table, reads inside set and str",
     "h_string_checkset", cls="bounded", bound="set of 0..4 bytes, str of 0..3 bytes, all byte contents (high bytes and NUL included)", functions=["cfun_string_checkset"], unwind=6, cbmc=["--sat-solver", "cadical"],
     defines=["-DLIB_MAXSET=4", "-DLIB_MAXSTR=3"],
     assumes=["capi.c getters are stubs: janet_getbytes yields the harness-built views, asserts slot index < argc; janet_fixarity returns only for an accepted argc",
              "domain restriction: no byte with (b & 31) == 31 in set or str (`1 << 31` in int is formally undefined; unit lib.string.checkset.shift31 keeps that obligation)"],
     mutants=[mut("mask-uses-4-bits", "string.c", "        uint32_t mask = 1 << (str.bytes[i] & 0x1F);\n        if (!(bitset[index] & mask)) {", "        uint32_t mask = 1 << (str.bytes[i] & 0x0F);\n        if (!(bitset[index] & mask)) {", "C17"),
              mut("word-index-off", "string.c", "        int index = set.bytes[i] >> 5;", "        int index = set.bytes[i] >> 4;", "bounds|C17|pointer")], **SM)
unit("lib.string.checkset.shift31", "string/check-set, ALL byte values: the bit mask `1 << (byte & 0x1F)` is computed without undefined behaviour",
     "h_string_checkset", cls="bounded", bound="set of 0..2 bytes, str of 0..2 bytes, all byte contents", functions=["cfun_string_checkset"], unwind=4, tier="thorough",
     defines=["-DLIB_MAXSET=2", "-DLIB_MAXSTR=2", "-DLIB_CHECKSET_ANY_BYTE"],
     disabled_reason="fails on the pinned tree (cfun_string_checkset.overflow 'arithmetic overflow on signed shl in 1 << (... & 0x1F)'): for a byte with low five bits 11111 (e.g. '_' 95, '?' 63, DEL 127) the mask is computed as int 1 << 31 - formal UB in C99 (6.5.7p4); gcc/clang produce INT_MIN and the conversion to uint32_t gives the intended bit, so no observable misbehaviour: (string/check-set \"_\" \"_\") -> true. Repair: 1u << ...",
     assumes=["capi.c getters are stubs (as lib.string.checkset)"],
     mutants=[mut("mask-uses-4-bits", "string.c", "        uint32_t mask = 1 << (str.bytes[i] & 0x1F);\n        if (!(bitset[index] & mask)) {", "        uint32_t mask = 1 << (str.bytes[i] & 0x0F);\n        if (!(bitset[index] & mask)) {", "C17")], **SM)

# ------------------------------------------------------------------ string.c: repeat / join (number of copies bounded)
J = dict(S, harness=["lib_string.c", "lib_string_join.c"], cbmc=["--sat-solver", "cadical"])
MM = "memcpy model (seq_common.h): ranges valid and disjoint - counted obligations; pointwise effect on the ghost byte of every copy"
REP_M = [mut("overflow-check-dropped", "string.c", "    if (mulres > INT32_MAX) janet_panic(\"result string is too long\");\n", "", "postcondition|janet_string_begin precondition|conversion|overflow"),
         mut("multiply-in-int32", "string.c", "int64_t mulres = (int64_t) rep * view.len;", "int64_t mulres = rep * view.len;", "overflow"),
         mut("one-copy-too-many", "string.c", "for (uint8_t *p = newbuf; p < end; p += view.len) {", "for (uint8_t *p = newbuf; p <= end; p += view.len) {", "memcpy model|unwind|postcondition|pointer")]
for r, idr, tier in ((2, "lib.string.repeat", "quick"), (3, "lib.string.repeat.r3", "thorough")):
    unit(idr,
         "string/repeat, at most %d repetitions: arity 2; raises for a negative count; returns a NEW NUL-terminated string of n * len bytes (the empty string for n == 0 or an empty argument), computed without int32 overflow - raises instead of exceeding INT32_MAX; copy c occupies [c * len, (c + 1) * len) and equals bytes (byte i == bytes[i mod len]); every memcpy inside the new block and the source; bytes not modified" % r,
         "h_string_repeat", cf("cfun_string_repeat"), cls="bounded", bound="at most %d repetitions (the pointer-walking copy loop is unwound); length of bytes unbounded (0..INT32_MAX)" % r, tier=tier, timeout=300,
         unwindset={"cfun_string_repeat_wrapped_for_contract_checking.0": r + 2, "strlen.0": 3}, assumes=SA + [MM, "strlen (CBMC library model) on the literal \"\" for n == 0"],
         mutants=REP_M, **dict(J, defines=J["defines"] + ["-DLIB_MAXREP=%d" % r]))
JM = [mut("separator-after-every-part", "string.c", "        if (i) {\n            safe_memcpy(out, joiner.bytes, joiner.len);\n            out += joiner.len;\n        }\n        janet_bytes_view(parts.items[i], &chunk, &chunklen);\n        safe_memcpy(out, chunk, chunklen);\n        out += chunklen;",
          "        janet_bytes_view(parts.items[i], &chunk, &chunklen);\n        safe_memcpy(out, chunk, chunklen);\n        out += chunklen;\n        {\n            safe_memcpy(out, joiner.bytes, joiner.len);\n            out += joiner.len;\n        }", "memcpy model|postcondition"),
      mut("length-check-dropped", "string.c", "        if (finallen > INT32_MAX)\n            janet_panic(\"result string too long\");\n", "", "postcondition|conversion|janet_string_begin precondition|memcpy model"),
      mut("type-check-dropped", "string.c", "        if (!janet_bytes_view(parts.items[i], &chunk, &chunklen)) {\n            janet_panicf(\"item %d of parts is not a byte sequence, got %v\", i, parts.items[i]);\n        }", "        janet_bytes_view(parts.items[i], &chunk, &chunklen);", "postcondition|memcpy model|pointer")]
JM_INIT = mut("length-starts-at-one", "string.c", "    int64_t finallen = 0;", "    int64_t finallen = 1;", "postcondition")
for n in (0, 1, 2, 3):
    unit("lib.string.join.n%d" % n,
         "string/join with %d part(s): arity 1..2; every element of parts must be a byte sequence (else raises); returns a NEW NUL-terminated string = part 0 ++ sep ++ part 1 ++ ... (separator between, not after; none without sep) of length sum(len part) + (n - 1) * len sep computed without int32 overflow - raises instead of exceeding INT32_MAX; every memcpy inside the new block and its source; inputs not modified" % n,
         "h_string_join", cf("cfun_string_join"), cls="bounded", bound="exactly %d part(s) (both passes over parts are unwound; units n0..n3); the length of every part and of the separator unbounded (0..INT32_MAX)" % n,
         unwindset={"cfun_string_join_wrapped_for_contract_checking.0": 5, "cfun_string_join_wrapped_for_contract_checking.1": 5, "janet_bytes_view.0": 5, "h_string_join.0": 5, "h_string_join.1": 5, "h_string_join.2": 5},
         assumes=SA + [MM, "janet_getindexed yields the harness-built view of parts; janet_bytes_view is a pure function of the element: equal elements have the same view, an element may be no byte sequence"],
         **dict(J, defines=J["defines"] + ["-DLIB_NPARTS=%d" % n]), tier=("quick" if n < 3 else "thorough"), timeout=(120 if n < 3 else 600),
         mutants=(JM[:1] if n == 3 else JM if n == 2 else [JM[2], JM_INIT] if n == 1 else [JM_INIT]))

# ------------------------------------------------------------------ buffer.c: the remaining registered C functions
ALLOC = ("realloc model (seq_common.h): fails or returns a fresh block of n bytes, frees the old block, "
         "keeps the element at the ghost index; all other content arbitrary")
ALLOC2 = ALLOC.replace("the element at the ghost index", "the elements at the two ghost indices").replace("(seq_common.h)", "(lib_buffer.c, copy of the seq_common.h model)")
B = dict(src=["buffer.c"], link=["wrap.c"], harness=["lib_buffer.c"], defines=["-DSEQ_ELEM_BYTES", "-DSEQ_TRACK_REALLOC"],
         replace_calls=["memcpy:lib_memcpy", "realloc:lib_realloc"], unwindset={"lib_memcpy.0": 9}, props=["C17", "C04"])
BA = [ALLOC2, "memcpy model (seq_common.h; copies of at most 8 bytes are carried out exactly): ranges valid and disjoint - counted obligations; pointwise effect on the ghost byte",
      "capi.c getters are stubs: slot 0 is a well-formed buffer; integer / unsigned getters return the slot's low 16 / 32 / 64 bits (arbitrary but fixed per slot), janet_getnumber the slot's double; a byte-sequence slot is the buffer itself or a separate readable block; each asserts slot index < argc; janet_arity/janet_fixarity return only for an accepted argc",
      "janet_gcalloc returns a fresh block; janet_gcpressure has no effect on the buffer"]
ORDER = "janet_getkeyword / janet_cstrcmp stubs: the order argument is :le, :be, :native or another keyword; janet_cstrcmp asserts it is asked about the literals \"le\", \"be\", \"native\"; configuration is little endian (JANET_LITTLE_ENDIAN)"
def W(fn): return fn + "_wrapped_for_contract_checking"
for nm, nb, getter, val, muts in [
    ("uint16", 2, "janet_getuinteger16", "a 16 bit unsigned integer",
     [mut("be-not-reversed", "buffer.c", "    } else if (!janet_cstrcmp(order_kw, \"be\")) {\n#if JANET_LITTLE_ENDIAN\n        return 1;\n#endif", "    } else if (!janet_cstrcmp(order_kw, \"be\")) {\n#if JANET_BIG_ENDIAN\n        return 1;\n#endif", "postcondition"),
      mut("swap-lost-byte", "buffer.c", "        uint8_t temp = bytes[1];\n        bytes[1] = bytes[0];\n        bytes[0] = temp;", "        bytes[1] = bytes[0];\n        bytes[0] = bytes[1];", "postcondition")]),
    ("uint32", 4, "janet_getuinteger", "a 32 bit unsigned integer",
     [mut("reverse-swaps-wrong-pair", "buffer.c", "    temp = bytes[2];\n    bytes[2] = bytes[1];\n    bytes[1] = temp;\n}\n\nstatic void reverse_u64", "    temp = bytes[2];\n    bytes[2] = bytes[0];\n    bytes[0] = temp;\n}\n\nstatic void reverse_u64", "postcondition"),
      mut("le-reversed", "buffer.c", "    if (!janet_cstrcmp(order_kw, \"le\")) {\n#if JANET_BIG_ENDIAN", "    if (!janet_cstrcmp(order_kw, \"le\")) {\n#if JANET_LITTLE_ENDIAN", "postcondition")]),
    ("uint64", 8, "janet_getuinteger64", "a 64 bit unsigned integer",
     [mut("reverse-incomplete", "buffer.c", "    temp = bytes[4];\n    bytes[4] = bytes[3];\n    bytes[3] = temp;\n}", "}", "postcondition")]),
    ("float32", 4, "janet_getnumber", "a number converted to a 32 bit float",
     [mut("pushes-the-double", "buffer.c", "    float data = (float) janet_getnumber(argv, 2);", "    double data = janet_getnumber(argv, 2);", "postcondition|memcpy model|pointer")]),
    ("float64", 8, "janet_getnumber", "a number (64 bit float)",
     [mut("reverse-dropped", "buffer.c", "    double data = janet_getnumber(argv, 2);\n    uint8_t bytes[sizeof(data)];\n    memcpy(bytes, &data, sizeof(bytes));\n    if (reverse)\n        reverse_u64(bytes);", "    double data = janet_getnumber(argv, 2);\n    uint8_t bytes[sizeof(data)];\n    memcpy(bytes, &data, sizeof(bytes));", "postcondition")])]:
    fn = "cfun_buffer_push_" + nm
    extra = ["IEEE 754 / Annex F conversion double -> float (a finite double beyond the float range becomes an infinity)"] if nm == "float32" else []
    unit("lib.buffer.push_" + nm,
         "buffer/push-%s, every buffer size: arity 3; order must be :le, :be or :native (else raises); data is fetched as %s; appends exactly its %d bytes - least significant byte first for :le and :native (little-endian configuration), most significant first for :be; prefix unchanged; raises instead of exceeding INT32_MAX; foreign memory never reallocated; returns buffer" % (nm, val, nb),
         "h_buffer_push_" + nm, cf(fn), assumes=BA + [ORDER] + extra, mutants=muts, functions=[fn, "should_reverse_bytes", "janet_buffer_push_bytes"], **B)
unit("lib.buffer.clear", "buffer/clear: arity 1; length becomes 0, capacity and block kept, no reallocation, nothing else written; returns buffer",
     "h_buffer_clear", cf("cfun_buffer_clear"), assumes=BA, **B,
     mutants=[mut("clears-capacity", "buffer.c", "    JanetBuffer *buffer = janet_getbuffer(argv, 0);\n    buffer->count = 0;\n    return argv[0];", "    JanetBuffer *buffer = janet_getbuffer(argv, 0);\n    buffer->capacity = 0;\n    return argv[0];", "postcondition|assigns")])
unit("lib.buffer.trim", "buffer/trim, every size: arity 1; raises for a buffer over foreign memory; capacity becomes max(length, 4) when it exceeded the length, else stays; length and every byte unchanged; old block released exactly once; returns buffer",
     "h_buffer_trim", cf("cfun_buffer_trim"), assumes=BA, **B,
     mutants=[mut("capacity-not-updated", "buffer.c", "        buffer->data = newData;\n        buffer->capacity = newcap;", "        buffer->data = newData;", "postcondition"),
              mut("foreign-check-dropped", "buffer.c", "    JanetBuffer *buffer = janet_getbuffer(argv, 0);\n    janet_buffer_can_realloc(buffer);\n    if (buffer->count < buffer->capacity) {", "    JanetBuffer *buffer = janet_getbuffer(argv, 0);\n    if (buffer->count < buffer->capacity) {", "postcondition"),
              mut("realloc-below-length", "buffer.c", "        uint8_t *newData = janet_realloc(buffer->data, newcap);", "        uint8_t *newData = janet_realloc(buffer->data, newcap - 1);", "postcondition")])
unit("lib.buffer.new", "buffer/new, every capacity argument (negative included): arity 1; returns a NEW well-formed empty buffer with room for max(capacity, 4) bytes",
     "h_buffer_new", cf("cfun_buffer_new"), assumes=BA + ["malloc does not fail (CBMC default)"], **B,
     mutants=[mut("minimum-capacity-dropped", "buffer.c", "    if (capacity < 4) capacity = 4;\n", "", "postcondition|conversion|overflow")])
fn = "cfun_buffer_frombytes"
unit("lib.buffer.frombytes", "buffer/from-bytes, every argument count: every argument is fetched as an integer (slot index below argc); returns a NEW well-formed buffer of argc bytes, byte i == argument i mod 256 (documented: coerced to 0-255); writes inside the new block",
     "h_buffer_frombytes", cf(fn), assumes=BA + ["malloc does not fail (CBMC default)"], **B,
     loops={fn: [loop("i >= 0 && i <= argc && ((g_j >= 0 && g_j < i) ==> (unsigned long)buffer->data[g_j] == (argv[g_j].u64 & 0xFFul))",
                      "i, __CPROVER_object_whole(buffer->data)", "argc - i", smap(fn, i="1::i", argc="argc", argv="argv", buffer="1::buffer"))]},
     loop_counts={fn: 1},
     mutants=[mut("count-not-set", "buffer.c", "        buffer->data[i] = c & 0xFF;\n    }\n    buffer->count = argc;", "        buffer->data[i] = c & 0xFF;\n    }", "postcondition"),
              mut("loop-one-too-far", "buffer.c", "    for (i = 0; i < argc; i++) {\n        int32_t c = janet_getinteger(argv, i);\n        buffer->data[i] = c & 0xFF;", "    for (i = 0; i <= argc; i++) {\n        int32_t c = janet_getinteger(argv, i);\n        buffer->data[i] = c & 0xFF;", "slot index|loop_invariant|assigns|pointer")])
PB = dict(B, defines=B["defines"] + ["-DLIB_MAXARGC=4"], cbmc=["--sat-solver", "cadical"])
PW = dict(PB, defines=B["defines"] + ["-DLIB_MAXARGC=3"])
unit("lib.buffer.push_byte", "buffer/push-byte, every buffer size: arity >= 1; appends the low byte of every x in order (each fetched as an integer, slot index below argc); prefix unchanged; raises instead of exceeding INT32_MAX; foreign memory never reallocated; returns buffer",
     "h_buffer_u8", cf("cfun_buffer_u8"), cls="bounded", bound="at most 3 pushed values (argc <= 4, the argument loop reallocates and is unwound); buffer size unbounded",
     assumes=BA, **dict(PB, unwindset=dict(B["unwindset"], **{W("cfun_buffer_u8") + ".0": 5})), functions=["cfun_buffer_u8", "janet_buffer_push_u8", "janet_buffer_extra"],
     mutants=[mut("starts-at-slot-0", "buffer.c", "    for (i = 1; i < argc; i++) {\n        janet_buffer_push_u8(buffer, (uint8_t)(janet_getinteger(argv, i) & 0xFF));", "    for (i = 0; i < argc; i++) {\n        janet_buffer_push_u8(buffer, (uint8_t)(janet_getinteger(argv, i) & 0xFF));", "postcondition"),
              mut("reads-past-argc", "buffer.c", "    for (i = 1; i < argc; i++) {\n        janet_buffer_push_u8(buffer, (uint8_t)(janet_getinteger(argv, i) & 0xFF));", "    for (i = 1; i <= argc; i++) {\n        janet_buffer_push_u8(buffer, (uint8_t)(janet_getinteger(argv, i) & 0xFF));", "slot index|postcondition|unwind")])
WORD_M = [mut("range-check-dropped", "buffer.c", "        if (word != number)\n            janet_panicf(\"cannot convert %v to machine word\", argv[i]);\n", "", "postcondition"),
          mut("pushes-16-bits", "buffer.c", "        janet_buffer_push_u32(buffer, word);", "        janet_buffer_push_u16(buffer, word);", "postcondition|conversion")]
unit("lib.buffer.push_word", "buffer/push-word, every buffer size: arity >= 1; every x must be a number equal to an integer in [0, 2^32) (else raises); appends its 4 bytes least significant first, in argument order; prefix unchanged; raises instead of exceeding INT32_MAX; foreign memory never reallocated; returns buffer",
     "h_buffer_word", cf("cfun_buffer_word"), cls="bounded", bound="at most 2 pushed values (argc <= 3, the argument loop reallocates and is unwound); buffer size unbounded", tier="thorough", timeout=300,
     assumes=BA + ["domain restriction -1 < x < 2^32 for numeric arguments: outside it (and for NaN) the conversion (uint32_t) x is undefined (unit lib.buffer.push_word.anydouble keeps that obligation)"],
     **dict(PW, unwindset=dict(B["unwindset"], **{W("cfun_buffer_word") + ".0": 5})), functions=["cfun_buffer_word", "janet_buffer_push_u32", "janet_buffer_extra"], mutants=WORD_M)
unit("lib.buffer.push_word.anydouble", "buffer/push-word, ALL numbers incl. negative ones, NaN, infinities and values >= 2^32: the double -> uint32 conversion is defined",
     "h_buffer_word", cf("cfun_buffer_word"), cls="bounded", bound="at most 2 pushed values", tier="thorough",
     disabled_reason="fails on the pinned tree (cfun_buffer_word overflow obligation on `(uint32_t) number`): undefined by C99 6.3.1.4 for NaN and values outside (-1, 2^32); on x86-64 / AArch64 the converted value differs from the argument, so `word != number` raises 'cannot convert ... to machine word' as documented - (buffer/push-word @\"\" -1), 4294967296, math/nan all raise; no observable misbehaviour",
     assumes=BA, **dict(PW, defines=PW["defines"] + ["-DLIB_WORD_ANY_DOUBLE"], unwindset=dict(B["unwindset"], **{W("cfun_buffer_word") + ".0": 5})), mutants=WORD_M[:1])
PS = dict(B, cbmc=["--sat-solver", "cadical"], defines=B["defines"] + ["-DLIB_PUSH_MAXARGC=3"], replace_calls=["realloc:lib_realloc"], unwindset={})   # memcpy: the plain seq_common.h model (symbolic sizes)
PUSHB = "at most 2 pushed arguments (argc <= 3, the argument loop reallocates and is unwound); buffer size and byte-sequence length unbounded"
SELFDOM = "domain restriction: the buffer is pushed onto itself only while shorter than 1 GiB (`buffer->count + view.len` overflows int32 otherwise; units str.cfun.buffer.push_at.selfhuge / lib.buffer.push_string.selfhuge)"
unit("lib.buffer.push_string", "buffer/push-string, every buffer size: arity >= 1; the byte sequences are appended in order - the buffer itself contributes its content at that moment (no use of a stale block after growth); exact new length; prefix unchanged; raises instead of exceeding INT32_MAX; memcpy ranges valid and disjoint; foreign memory never reallocated; returns buffer",
     "h_buffer_chars", cf("cfun_buffer_chars"), cls="bounded", bound=PUSHB, tier="thorough", timeout=600,
     assumes=BA + [SELFDOM], **dict(PS, unwindset=dict(B["unwindset"], **{W("cfun_buffer_chars") + ".0": 4})), functions=["cfun_buffer_chars", "janet_buffer_push_bytes", "janet_buffer_ensure", "janet_buffer_extra"],
     mutants=[mut("stale-view-after-growth", "buffer.c", "            janet_buffer_ensure(buffer, buffer->count + view.len, 2);\n            view.bytes = buffer->data;\n        }\n        janet_buffer_push_bytes(buffer, view.bytes, view.len);\n    }\n    return argv[0];\n}\n\nstatic int should_reverse_bytes",
                  "            janet_buffer_ensure(buffer, buffer->count + view.len, 2);\n        }\n        janet_buffer_push_bytes(buffer, view.bytes, view.len);\n    }\n    return argv[0];\n}\n\nstatic int should_reverse_bytes", "memcpy model|pointer|postcondition|deallocated"),
              mut("self-push-not-reserved", "buffer.c", "        if (view.bytes == buffer->data) {\n            janet_buffer_ensure(buffer, buffer->count + view.len, 2);\n            view.bytes = buffer->data;\n        }\n        janet_buffer_push_bytes(buffer, view.bytes, view.len);\n    }\n    return argv[0];\n}\n\nstatic int should_reverse_bytes",
                  "        janet_buffer_push_bytes(buffer, view.bytes, view.len);\n    }\n    return argv[0];\n}\n\nstatic int should_reverse_bytes", "memcpy model|pointer|postcondition|deallocated")])
unit("lib.buffer.push_string.selfhuge", "buffer/push-string, ALL sizes: no signed overflow when a buffer is pushed onto itself",
     "h_buffer_chars", cf("cfun_buffer_chars"), cls="bounded", bound=PUSHB, tier="thorough", timeout=600,
     disabled_reason="fails on the pinned tree (cfun_buffer_chars overflow obligation on `buffer->count + view.len`): for a buffer of >= 1 GiB pushed onto itself the int32 sum overflows before janet_buffer_extra's 64-bit check (same pattern as buffer_push_impl, str.cfun.buffer.push_at.selfhuge); benign with wrap-around arithmetic (janet_buffer_ensure returns for the negative capacity, janet_buffer_push_bytes then raises 'buffer overflow')",
     assumes=BA, **dict(PS, defines=PS["defines"] + ["-DLIB_PUSH_SELF_ANY"], unwindset=dict(B["unwindset"], **{W("cfun_buffer_chars") + ".0": 4})),
     mutants=[mut("self-push-not-reserved", "buffer.c", "        if (view.bytes == buffer->data) {\n            janet_buffer_ensure(buffer, buffer->count + view.len, 2);\n            view.bytes = buffer->data;\n        }\n        janet_buffer_push_bytes(buffer, view.bytes, view.len);\n    }\n    return argv[0];\n}\n\nstatic int should_reverse_bytes",
                  "        janet_buffer_push_bytes(buffer, view.bytes, view.len);\n    }\n    return argv[0];\n}\n\nstatic int should_reverse_bytes", "memcpy model|pointer|postcondition|deallocated")])
unit("lib.buffer.push", "buffer/push, every buffer size: arity >= 1; a number pushes its low byte, any other argument is fetched as a byte sequence and appended (the buffer itself contributes its content at that moment); exact new length and content in argument order; prefix unchanged; raises instead of exceeding INT32_MAX; foreign memory never reallocated; returns buffer",
     "h_buffer_push", cf("cfun_buffer_push"), cls="bounded", bound=PUSHB, tier="thorough", timeout=600,
     assumes=BA + [SELFDOM], **dict(PS, unwindset=dict(B["unwindset"], **{"buffer_push_impl.0": 4})), functions=["cfun_buffer_push", "buffer_push_impl", "janet_buffer_push_bytes", "janet_buffer_push_u8", "janet_buffer_ensure", "janet_buffer_extra"],
     mutants=[mut("starts-at-slot-0", "buffer.c", "    buffer_push_impl(buffer, argv, 1, argc);\n    return argv[0];", "    buffer_push_impl(buffer, argv, 0, argc);\n    return argv[0];", "postcondition|byte view requested|unwind"),
              mut("stale-view-after-growth", "buffer.c", "                janet_buffer_ensure(buffer, buffer->count + view.len, 2);\n                view.bytes = buffer->data;\n            }\n            janet_buffer_push_bytes(buffer, view.bytes, view.len);\n        }\n    }\n}",
                  "                janet_buffer_ensure(buffer, buffer->count + view.len, 2);\n            }\n            janet_buffer_push_bytes(buffer, view.bytes, view.len);\n        }\n    }\n}", "memcpy model|pointer|postcondition|deallocated")])

BF = dict(src=["buffer.c"], link=["wrap.c"], harness=["lib_buffer_format.c"], defines=["-DSEQ_ELEM_BYTES", "-DSEQ_TRACK_REALLOC"], props=["C17"])
BFA = [ALLOC, "janet_buffer_format (pp.c) replaced by its frame contract: appends any number of bytes to the buffer it is given (may reallocate, raises instead of exceeding INT32_MAX), never touches bytes below the count it was called with; asserts it gets the buffer, the format string and the argument vector",
       "capi.c getters are stubs: slot 0 is a well-formed buffer, janet_getinteger the slot's low 32 bits, janet_getstring the format string; each asserts slot index < argc; janet_arity returns only for an accepted argc"]
unit("lib.buffer.format", "buffer/format: arity >= 2; the format string is slot 1, the formatter appends to the buffer with the arguments starting at slot 2; bytes already in the buffer unchanged; returns buffer",
     "h_buffer_format", cf("cfun_buffer_format"), assumes=BFA, **BF,
     mutants=[mut("arguments-start-at-format", "buffer.c", "    janet_buffer_format(buffer, strfrmt, 1, argc, argv);\n    return argv[0];", "    janet_buffer_format(buffer, strfrmt, 0, argc, argv);\n    return argv[0];", "postcondition")])
FAT_M = [mut("upper-bound-dropped", "buffer.c", "    if (at > buffer->count || at < 0) janet_panicf(\"expected index at to be in range [0, %d), got %d\", buffer->count, at);", "    if (at < 0) janet_panicf(\"expected index at to be in range [0, %d), got %d\", buffer->count, at);", "postcondition|janet_buffer_format precondition"),
         mut("length-not-restored", "buffer.c", "    janet_buffer_format(buffer, strfrmt, 2, argc, argv);\n    if (buffer->count < oldcount) {\n        buffer->count = oldcount;\n    }", "    janet_buffer_format(buffer, strfrmt, 2, argc, argv);", "postcondition"),
         mut("end-relative-off-by-one", "buffer.c", "        at += buffer->count + 1;", "        at += buffer->count;", "postcondition")]
unit("lib.buffer.format_at", "buffer/format-at, every buffer size (< INT32_MAX) and index: at must lie in [0, length] or be negative from the end (-1 = at the end), else raises; the formatter writes from index at on with the arguments starting at slot 3; the buffer never gets shorter (length = max(old length, end of the formatted text)); bytes before at and old bytes behind the formatted text unchanged; returns buffer",
     "h_buffer_format_at", cf("cfun_buffer_format_at"), mutants=FAT_M, **BF,
     assumes=BFA + ["domain restriction argc >= 3: the arity check accepts 2 arguments although the format string is fetched from slot 2 (unit lib.buffer.format_at.argc2)",
                    "domain restriction length < INT32_MAX (`buffer->count + 1` overflows for a buffer of exactly 2 GiB - 1 bytes, as in janet_gethalfrange)"])
unit("lib.buffer.format_at.argc2", "buffer/format-at, ALL argument counts: no argument slot is read at an index >= argc",
     "h_buffer_format_at", cf("cfun_buffer_format_at"), tier="thorough", mutants=FAT_M[:1] + [mut("arity-two-again", "buffer.c", "    janet_arity(argc, 3, -1);\n    JanetBuffer *buffer = janet_getbuffer(argv, 0);\n    int32_t at = janet_getinteger(argv, 1);", "    janet_arity(argc, 2, -1);\n    JanetBuffer *buffer = janet_getbuffer(argv, 0);\n    int32_t at = janet_getinteger(argv, 1);", "below argc")],
     history="failed on the pinned tree (janet_getstring.assertion.1: argument slot index below argc) - janet_arity(argc, 2, -1) although the format string is read from slot 2; repaired in /repo e727fa4",
assumes=BFA, **dict(BF, defines=BF["defines"] + ["-DLIB_FORMAT_AT_ANY_ARGC"]))

# ------------------------------------------------------------------ array.c: the remaining registered C functions
A = dict(src=["array.c"], link=["wrap.c", "util.c"], link_keep={"util.c": ["safe_memcpy"]}, harness=["lib_array.c"], object_bits=7,
         replace_calls=["realloc:lib_realloc_j"], props=["C04", "C17"])
ALLOCJ = "realloc model (lib_array.c, copy of the seq_common.h model): fails or returns a fresh block of n bytes, frees the old block, keeps the elements at the two ghost indices; all other content arbitrary"
AA = [ALLOCJ, "memcpy model (seq_common.h): ranges valid and disjoint - counted obligations; pointwise effect on the ghost element",
      "capi.c getters are stubs: slot 0 is a well-formed array (array/slice: any readable indexed view), integer slots return the slot's low 32 bits (janet_getnat only when >= 0), each asserts slot index < argc; janet_arity/janet_fixarity return only for an accepted argc",
      "janet_gcalloc returns a fresh block; malloc does not fail (CBMC default)"]
NEG = "fails on the pinned tree (postcondition 'well-formed': capacity >= 0): %s stores a negative capacity as is, so the new array has capacity < 0 <= count; harmless in practice (the first push reallocates; array/trim resets it; only the GC pressure accounting is off by |capacity| * 8) - (%s -5) returns @[] instead of raising for the out-of-range argument"
for nm, lisp, mt in [("new", "array/new", "JANET_MEMORY_ARRAY"), ("weak", "array/weak", "JANET_MEMORY_ARRAY_WEAK")]:
    fn = "cfun_array_" + nm
    m = [mut("block-of-half-size", "array.c", "        data = (Janet *) janet_malloc(sizeof(Janet) * (size_t) capacity);", "        data = (Janet *) janet_malloc(sizeof(Janet) * (size_t) capacity / 2);", "postcondition")] + \
        ([mut("weak-allocated-as-strong", "array.c", "JanetArray *array = janet_gcalloc(JANET_MEMORY_ARRAY_WEAK, sizeof(JanetArray));", "JanetArray *array = janet_gcalloc(JANET_MEMORY_ARRAY, sizeof(JanetArray));", "postcondition")] if nm == "weak" else [])
    unit("lib.array." + nm, "%s, every capacity >= 0: arity 1; returns a NEW well-formed empty array (%s) whose block has room for exactly capacity elements (no block for 0)" % (lisp, mt),
         "h_array_" + nm, cf(fn), assumes=AA + ["domain restriction capacity >= 0 (unit lib.array.%s.negative keeps the obligation for negative arguments)" % nm], mutants=m, **A)
    unit("lib.array.%s.negative" % nm, "%s, ALL capacity arguments: the result is a well-formed array (0 <= count <= capacity) or the call raises" % lisp,
         "h_array_" + nm, cf(fn), tier="thorough", disabled_reason=NEG % ("janet_array_impl", lisp), assumes=AA, mutants=m[:1], **dict(A, defines=["-DLIB_NEW_ANY_CAPACITY"]))
fn = "cfun_array_new_filled"
NF_L = {fn: [loop("i >= 0 && i <= count && ((g_idx >= 0 && g_idx < i) ==> array->data[g_idx].u64 == x.u64)", "i, __CPROVER_object_whole(array->data)", "count - i",
                  smap(fn, i="1::1::i", count="1::count", array="1::array", x="1::x"))]}
NF_M = [mut("fills-one-less", "array.c", "    for (int32_t i = 0; i < count; i++) {\n        array->data[i] = x;\n    }\n    array->count = count;", "    for (int32_t i = 1; i < count; i++) {\n        array->data[i] = x;\n    }\n    array->count = count;", "loop_invariant|postcondition"),
        mut("fills-one-more", "array.c", "    for (int32_t i = 0; i < count; i++) {\n        array->data[i] = x;\n    }\n    array->count = count;", "    for (int32_t i = 0; i <= count; i++) {\n        array->data[i] = x;\n    }\n    array->count = count;", "pointer_dereference|loop_invariant|assigns")]
unit("lib.array.new_filled", "array/new-filled, every count > 0: arity 1..2; raises for a negative count; returns a NEW well-formed array of exactly count elements, every element == value (default nil); writes inside the new block",
     "h_array_new_filled", cf(fn), assumes=AA, loops=NF_L, loop_counts={fn: 1}, mutants=NF_M, **dict(A, defines=["-DLIB_COUNT_POS"]))
unit("lib.array.new_filled.empty", "array/new-filled with count <= 0: raises for a negative count; count 0 returns a NEW empty array without block, nothing written",
     "h_array_new_filled", cf(fn), assumes=AA, cls="bounded", bound="count <= 0 (the fill loop does not iterate)", unwindset={W(fn) + ".0": 2},
     mutants=[mut("count-not-set", "array.c", "        array->data[i] = x;\n    }\n    array->count = count;\n    return janet_wrap_array(array);", "        array->data[i] = x;\n    }\n    array->count = count + 1;\n    return janet_wrap_array(array);", "postcondition")], **A)
fn = "cfun_array_fill"
unit("lib.array.fill", "array/fill, every array with a block: arity 1..2; every element becomes value (default nil); length, capacity and block unchanged; writes inside the block; returns arr",
     "h_array_fill", cf(fn), assumes=AA, loop_counts={fn: 1}, **dict(A, defines=["-DLIB_COUNT_POS"]),
     loops={fn: [loop("i >= 0 && i <= array->count && ((g_idx >= 0 && g_idx < i) ==> array->data[g_idx].u64 == x.u64)", "i, __CPROVER_object_whole(array->data)", "array->count - i",
                      smap(fn, i="1::1::i", array="1::array", x="1::x"))]},
     mutants=[mut("fills-capacity", "array.c", "    for (int32_t i = 0; i < array->count; i++) {\n        array->data[i] = x;\n    }\n    return argv[0];", "    for (int32_t i = 0; i <= array->capacity; i++) {\n        array->data[i] = x;\n    }\n    return argv[0];", "pointer_dereference|loop_invariant|assigns"),
              mut("ignores-value", "array.c", "    JanetArray *array = janet_getarray(argv, 0);\n    Janet x = (argc == 2) ? argv[1] : janet_wrap_nil();", "    JanetArray *array = janet_getarray(argv, 0);\n    Janet x = janet_wrap_nil();", "postcondition")])
unit("lib.array.fill.noblock", "array/fill on an array without block (capacity 0): nothing is written, returns arr",
     "h_array_fill", cf(fn), assumes=AA, cls="bounded", bound="capacity 0 (the fill loop does not iterate)", unwindset={W(fn) + ".0": 2},
     mutants=[mut("fills-capacity", "array.c", "    for (int32_t i = 0; i < array->count; i++) {\n        array->data[i] = x;\n    }\n    return argv[0];", "    for (int32_t i = 0; i <= array->capacity; i++) {\n        array->data[i] = x;\n    }\n    return argv[0];", "pointer_dereference|assigns|unwind")], **A)
unit("lib.array.slice", "array/slice: arity 1..3; returns a NEW well-formed array holding exactly items[start, end) of the array or tuple (range decoding: janet_getslice), memcpy inside both blocks; the source is not modified",
     "h_array_slice", cf("cfun_array_slice"), assumes=AA + ["janet_getslice replaced by its contract (proved in seq.capi.getslice): 0 <= start <= end <= length of slot 0",
                                                          "domain restriction argc >= 1 (argv[0] is read before the arity check; recorded in lib.string.slice.argc0 / str.cfun.buffer.slice.argc0)"], **A,
     mutants=[mut("copy-from-start", "array.c", "memcpy(array->data, view.items + range.start, sizeof(Janet) * (range.end - range.start));", "memcpy(array->data, view.items, sizeof(Janet) * (range.end - range.start));", "postcondition"),
              mut("copy-end-elements", "array.c", "memcpy(array->data, view.items + range.start, sizeof(Janet) * (range.end - range.start));", "memcpy(array->data, view.items + range.start, sizeof(Janet) * (range.end));", "memcpy model|assigns")])

CC = dict(mode="plain", src=["array.c"], link=["wrap.c", "util.c"], link_keep={"util.c": ["safe_memcpy"]}, harness=["lib_array_concat.c"], props=["C04", "C17"],
          replace_calls=["janet_array_push:janet_array_push_stub", "janet_array_ensure:janet_array_ensure_stub"], defines=["-DLIB_MAXPART=2", "-DLIB_BLOCK=16", "-DLIB_MAXCAP=3"], unwind=4, cbmc=["--sat-solver", "cadical"])
CCB = "at most 2 parts of at most 2 elements each (a part that is the array itself: the array then has at most 2 elements; the element loops are unwound); destination array of capacity 0..3, every length 0..capacity (all blocks allocated with a constant size of 16 elements, logical capacity tracked by the models)"
CCA = ["janet_array_push / janet_array_ensure replaced by asserting models of their contracts (units seq.array.push, seq.array.ensure): ensure does nothing for capacity <= current capacity, else REPLACES the block (old block freed, elements at the two ghost positions kept); push raises at INT32_MAX elements, grows when full, stores x",
       "janet_indexed_view is a pure function of the value: a slot with the bits of slot 0 is the array itself (current data / count), any other array or tuple slot yields a separate readable view of 0..2 elements",
       "janet_getarray: slot 0 is a well-formed array of any size; janet_arity returns only for an accepted argc",
       "argument values are valid nanboxed values: the tag bits are those of janet_type (no non-canonical NaN payloads)"]
M_STALE = lambda which: mut("stale-view-after-reservation", "array.c",
    "                    janet_array_ensure(array, newcount, 2);\n                    janet_indexed_view(argv[i], &vals, &len);\n                }" if which == "concat" else "            janet_array_ensure(array, newcount, 2);\n            janet_indexed_view(argv[i], &vals, &len);\n        }",
    "                    janet_array_ensure(array, newcount, 2);\n                }" if which == "concat" else "            janet_array_ensure(array, newcount, 2);\n        }", "pointer_dereference|C17|deallocated")
M_NORES = mut("self-concat-not-reserved", "array.c", "                if (array->data == vals) {\n                    if (len > INT32_MAX - array->count) janet_panic(\"array overflow\");\n                    int32_t newcount = array->count + len;\n                    janet_array_ensure(array, newcount, 2);\n                    janet_indexed_view(argv[i], &vals, &len);\n                }\n", "", "pointer_dereference|C17|deallocated")
M_ARG0 = lambda which: mut("starts-at-slot-0", "array.c", "JanetArray *array = janet_getarray(argv, 0);\n    for (i = 1; i < argc; i++) {\n        %s" % ("switch (janet_type(argv[i])) {" if which == "concat" else "int32_t j, len = 0;"),
                           "JanetArray *array = janet_getarray(argv, 0);\n    for (i = 0; i < argc; i++) {\n        %s" % ("switch (janet_type(argv[i])) {" if which == "concat" else "int32_t j, len = 0;"), "C17|unwind")
for n in (1, 2, 3):
    dd = dict(CC, defines=CC["defines"] + ["-DLIB_ARGC=%d" % n])
    kw = dict(cls="bounded", bound="exactly %d argument(s); " % n + CCB, assumes=CCA, tier=("quick" if n < 3 else "thorough"), timeout=(120 if n < 3 else 400))
    unit("lib.array.concat.a%d" % n, "array/concat with %d argument(s): array and tuple parts contribute their elements in order - the array itself its elements at that moment (the source view is re-fetched after the reservation: no read through a stale block) - any other part is appended as one element; exact new length; elements already present unchanged; returns arr" % n,
         "h_array_concat", functions=["cfun_array_concat"], mutants=([M_STALE("concat"), M_NORES] if n > 1 else [M_ARG0("concat")]), **kw, **dd)
    unit("lib.array.join.a%d" % n, "array/join with %d argument(s): every part must be an array or tuple (else raises) and contributes its elements in order - the array itself its elements at that moment (view re-fetched after the reservation); exact new length; elements already present unchanged; returns arr" % n,
         "h_array_join", functions=["cfun_array_join"],
         mutants=([M_STALE("join"), mut("type-check-dropped", "array.c", "        if (!janet_indexed_view(argv[i], &vals, &len)) {\n            janet_panicf(\"expected indexed type for argument %d, got %v\", i, argv[i]);\n        }\n        if (array->data == vals) {", "        janet_indexed_view(argv[i], &vals, &len);\n        if (array->data == vals) {", "C17")] if n > 1 else [M_ARG0("join")]), **kw, **dd)
SELF_DEFECT = ("GENUINE DEFECT on the pinned tree (%s overflow obligation on `array->count + len`, then pointer_dereference 'deallocated dynamic object' on vals[j]): for an array of >= 2^30 elements appended to itself the int32 sum wraps negative, "
               "janet_array_ensure returns without reserving, the first janet_array_push reallocates the block and the loop keeps reading the old one (use after free). Reproduced: /repo/_build/janet -e '(def a (array/new-filled 1073741824 0)) (%s a a)' "
               "-> Segmentation fault (needs ~8 GiB of memory). Repair: compute count + len in int64 and raise 'array overflow' above INT32_MAX before the reservation")
for nm, lisp, dfn in [("concat", "array/concat", []), ("join", "array/join", ["-DLIB_JOIN"])]:
    unit("lib.array.%s.self-any-size" % nm, "%s of an array with itself, ALL sizes: the reservation length `count + len` is computed without int32 overflow and the element view read in the copy loop is live" % lisp,
         "h_array_concat_self", cls="bounded", bound="first 2 element copies only (copy loop cut without unwinding assertion); array size unbounded", tier="thorough",
         unwinding_assertions=False, history="failed on the pinned tree; repaired in /repo 00910a6: " + SELF_DEFECT % ("cfun_array_" + nm, lisp), assumes=CCA, functions=["cfun_array_" + nm],
         mutants=[M_NORES if nm == "concat" else M_STALE("join")], **dict(CC, defines=["-DLIB_MAXPART=2"] + dfn, unwind=3))

# ------------------------------------------------------------------ tuple.c
TU = dict(src=["tuple.c"], link=["wrap.c", "util.c"], link_keep={"util.c": ["safe_memcpy"]}, harness=["lib_tuple.c"], object_bits=7, cbmc=["--sat-solver", "cadical"])
TUA = ["janet_gcalloc returns a fresh block of the requested size (type and size recorded); janet_array_calchash returns an arbitrary value",
       "memcpy model (seq_common.h): ranges valid and disjoint - counted obligations; pointwise effect on the ghost element",
       "capi.c getters are stubs: janet_gettuple yields the data pointer of a tuple block of any length, janet_getindexed any readable indexed view, janet_getinteger the slot's low 32 bits, each asserts slot index < argc; janet_arity/janet_fixarity return only for an accepted argc"]
unit("lib.tuple.begin", "janet_tuple_begin, every length >= 0: one allocation of exactly header + length * 8 bytes of type TUPLE, length stored, source map (-1, -1); returns the data pointer",
     "h_tuple_begin", "janet_tuple_begin/janet_tuple_begin_c", assumes=TUA[:1], **TU,
     mutants=[mut("block-one-element-short", "tuple.c", "size_t size = sizeof(JanetTupleHead) + ((size_t) length * sizeof(Janet));", "size_t size = sizeof(JanetTupleHead) + ((size_t) (length - 1) * sizeof(Janet));", "postcondition|pointer"),
              mut("sourcemap-zero", "tuple.c", "    head->sm_column = -1;", "    head->sm_column = 0;", "postcondition")])
unit("lib.tuple.n", "janet_tuple_n, every n >= 0 and readable source: a new tuple block of exactly n elements equal to the source (memcpy inside both blocks), source map (-1, -1); source not modified",
     "h_tuple_n", "janet_tuple_n/janet_tuple_n_c", assumes=TUA[:2], **TU,
     mutants=[mut("copies-n-bytes", "tuple.c", "    safe_memcpy(t, values, sizeof(Janet) * n);\n    return janet_tuple_end(t);", "    safe_memcpy(t, values, n);\n    return janet_tuple_end(t);", "postcondition|copy model"),
              mut("copies-one-more", "tuple.c", "    safe_memcpy(t, values, sizeof(Janet) * n);\n    return janet_tuple_end(t);", "    safe_memcpy(t, values, sizeof(Janet) * (n + 1));\n    return janet_tuple_end(t);", "memcpy model|overflow")])
unit("lib.tuple.brackets", "tuple/brackets, every argument count: returns a NEW tuple of exactly the arguments in order, marked as bracketed; arguments not modified",
     "h_tuple_brackets", cf("cfun_tuple_brackets"), assumes=TUA, **TU,
     mutants=[mut("flag-not-set", "tuple.c", "    janet_tuple_flag(tup) |= JANET_TUPLE_FLAG_BRACKETCTOR;\n", "", "postcondition"),
              mut("drops-first-argument", "tuple.c", "const Janet *tup = janet_tuple_n(argv, argc);", "const Janet *tup = janet_tuple_n(argv + 1, argc - 1);", "postcondition|memcpy model|overflow")])
unit("lib.tuple.slice", "tuple/slice: arity 1..3; returns a NEW tuple holding exactly items[start, end) of the array or tuple (range decoding: janet_getslice); memcpy inside both blocks; source not modified",
     "h_tuple_slice", cf("cfun_tuple_slice"), assumes=TUA + ["janet_getslice replaced by its contract (proved in seq.capi.getslice)", "domain restriction argc >= 1 (argv[0] is read before the arity check; recorded in lib.string.slice.argc0)"], **TU,
     mutants=[mut("length-is-end", "tuple.c", "janet_tuple_n(view.items + range.start, range.end - range.start)", "janet_tuple_n(view.items + range.start, range.end)", "postcondition|memcpy model"),
              mut("from-start-of-source", "tuple.c", "janet_tuple_n(view.items + range.start, range.end - range.start)", "janet_tuple_n(view.items, range.end - range.start)", "postcondition")])
KW = "janet_csymbol records the C string and returns a fixed keyword pointer"
unit("lib.tuple.type", "tuple/type: arity 1; returns the keyword :brackets exactly when the tuple carries the bracket flag, :parens otherwise; the tuple is not modified",
     "h_tuple_type", cf("cfun_tuple_type"), assumes=TUA + [KW], **TU,
     mutants=[mut("inverted", "tuple.c", "    if (janet_tuple_flag(tup) & JANET_TUPLE_FLAG_BRACKETCTOR) {\n        return janet_ckeywordv(\"brackets\");", "    if (!(janet_tuple_flag(tup) & JANET_TUPLE_FLAG_BRACKETCTOR)) {\n        return janet_ckeywordv(\"brackets\");", "postcondition")])
unit("lib.tuple.sourcemap", "tuple/sourcemap: arity 1; returns a NEW tuple (line column) holding the tuple's source mapping as integers; the tuple is not modified",
     "h_tuple_sourcemap", cf("cfun_tuple_sourcemap"), assumes=TUA, **TU,
     mutants=[mut("column-twice", "tuple.c", "contents[0] = janet_wrap_integer(janet_tuple_head(tup)->sm_line);", "contents[0] = janet_wrap_integer(janet_tuple_head(tup)->sm_column);", "postcondition")])
unit("lib.tuple.setmap", "tuple/setmap: arity 3; stores line and column (fetched as integers) in the tuple's header; length, hash, flags and elements unchanged (nothing else assigned); returns tup",
     "h_tuple_setmap", cf("cfun_tuple_setmap"), assumes=TUA, **TU,
     mutants=[mut("column-into-line", "tuple.c", "    janet_tuple_head(tup)->sm_column = janet_getinteger(argv, 2);", "    janet_tuple_head(tup)->sm_line = janet_getinteger(argv, 2);", "postcondition"),
              mut("writes-the-hash", "tuple.c", "    janet_tuple_head(tup)->sm_column = janet_getinteger(argv, 2);", "    janet_tuple_head(tup)->hash = janet_getinteger(argv, 2);", "postcondition|assigns")])
for n in (0, 1, 2):
    fn = "cfun_tuple_join"
    unit("lib.tuple.join.n%d" % n, "tuple/join with %d part(s): every part must be an array or tuple (else raises); returns a NEW tuple = part 0 ++ part 1 of length sum(len part) computed without int32 overflow - raises instead of exceeding INT32_MAX; memcpy inside the new block and the parts; parts not modified" % n,
         "h_tuple_join", cf(fn), cls="bounded", bound="exactly %d part(s) (both passes over the arguments are unwound; units n0..n2); the length of every part unbounded" % n,
         assumes=TUA + ["janet_indexed_view is a pure function of the value: equal arguments have the same view; an argument may be no indexed sequence"],
         unwindset={W(fn) + ".0": 4, W(fn) + ".1": 4, "janet_indexed_view.0": 4, "h_tuple_join.0": 4},
         tier=("quick" if n < 2 else "thorough"), timeout=300, **dict(TU, defines=["-DLIB_NPARTS=%d" % n]),
         mutants=([mut("overflow-check-dropped", "tuple.c", "        if (INT32_MAX - total_len < len) {\n            janet_panic(\"tuple too large\");\n        }\n", "", "overflow|postcondition"),
                   mut("cursor-not-advanced", "tuple.c", "        tup_cursor += len;\n", "", "postcondition|memcpy model")] if n == 2 else
                  [mut("type-check-dropped", "tuple.c", "        if (!janet_indexed_view(argv[i], &vals, &len)) {\n            janet_panicf(\"expected indexed type for argument %d, got %v\", i, argv[i]);\n        }\n        if (INT32_MAX - total_len < len) {", "        janet_indexed_view(argv[i], &vals, &len);\n        if (INT32_MAX - total_len < len) {", "postcondition|memcpy model|pointer")] if n == 1 else
                  [mut("length-starts-at-one", "tuple.c", "    int32_t total_len = 0;", "    int32_t total_len = 1;", "postcondition")]))

# ------------------------------------------------------------------ table.c: registered C functions
TB = dict(mode="plain", nanbox=False, src=["table.c"], link=["wrap.c", "util.c"], link_keep={"util.c": ["janet_tablen"]}, harness=["lib_table.c"], props=["C04"],
          replace_calls=["janet_memalloc_empty:janet_memalloc_empty_stub", "janet_table_rawget:janet_table_rawget_stub", "janet_table_clear:janet_table_clear_stub"], cls="full-domain")
NOBOX = "configuration nanbox: false (tagged-struct values, JANET_NO_NANBOX): returned references are compared by pointer identity"
TBA = [NOBOX, "capi.c getters are stubs: janet_gettable yields the harness-built table of slot 0 / 1, janet_getnat the slot's low 32 bits (returns only when >= 0), each asserts slot index < argc; janet_fixarity returns only for the accepted argc",
       "janet_gcalloc returns a fresh block (type recorded); janet_memalloc_empty replaced by its contract: count > 0 asserted, fresh block of count buckets, all (nil, nil)"]
for fn, lisp, mt in [("table_new", "table/new", "TABLE"), ("table_weak", "table/weak", "TABLE_WEAKKV"), ("table_weak_keys", "table/weak-keys", "TABLE_WEAKK"), ("table_weak_values", "table/weak-values", "TABLE_WEAKV")]:
    unit("lib.table." + fn[6:], "%s, every capacity 0 <= c < 2^30: arity 1; raises for a negative capacity; returns a NEW empty table (memory type %s) without prototype whose bucket array has the smallest power of two above c buckets, all empty; janet_tablen without overflow" % (lisp, mt),
         "h_" + fn, functions=["cfun_" + fn, "janet_table_init_impl", "janet_tablen"], assumes=TBA + ["domain restriction capacity < 2^30 (janet_tablen overflows beyond; unit lib.table.new.huge)"], **TB,
         mutants=[mut("count-not-zeroed", "table.c", "    table->count = 0;\n    table->deleted = 0;\n    table->proto = NULL;", "    table->count = capacity;\n    table->deleted = 0;\n    table->proto = NULL;", "C04"),
                  mut("tablen-not-applied", "table.c", "    capacity = janet_tablen(capacity);\n    if (stackalloc)", "    if (stackalloc)", "C04|precondition")] +
                 ([mut("weak-kind-mixed-up", "table.c", "JanetTable *table = janet_gcalloc(JANET_MEMORY_%s, sizeof(JanetTable));" % mt, "JanetTable *table = janet_gcalloc(JANET_MEMORY_TABLE, sizeof(JanetTable));", "C04")] if mt != "TABLE" else []))
unit("lib.table.new.huge", "table/new (and the weak variants, struct constructors: same helper janet_tablen), ALL non-negative capacities: janet_tablen computes the bucket count without signed overflow and the request either raises or yields a well-formed table",
     "h_table_new", tier="thorough", functions=["cfun_table_new", "janet_tablen"], assumes=TBA, **dict(TB, defines=["-DLIB_TABLE_ANY_CAP"]),
     disabled_reason="fails on the pinned tree (janet_tablen.overflow 'arithmetic overflow on signed + in n + 1', then janet_memalloc_empty precondition count > 0): for 2^30 <= capacity < 2^31 janet_tablen computes 0x7FFFFFFF + 1 (formal UB; wraps to INT32_MIN), janet_table_init_impl passes the negative count to janet_memalloc_empty whose malloc((size_t) count * 16) fails: (table/new 1073741824) terminates the process with 'janet out of memory' instead of raising. CONFIRMED on /repo/_build/janet. No memory corruption; the same exit happens for any capacity whose bucket array cannot be allocated. janet_struct_begin guards the same wrap with `if (capacity < 0)` (relies on the wrap-around)",
     mutants=[mut("tablen-not-applied", "table.c", "    capacity = janet_tablen(capacity);\n    if (stackalloc)", "    if (stackalloc)", "C04|precondition")])
unit("lib.table.getproto", "table/getproto: arity 1; returns the prototype table, nil when there is none; the table is not modified",
     "h_table_getproto", functions=["cfun_table_getproto"], assumes=TBA[:2], **TB,
     mutants=[mut("returns-the-table", "table.c", "           ? janet_wrap_table(t->proto)\n", "           ? janet_wrap_table(t)\n", "C04")])
unit("lib.table.setproto", "table/setproto: arity 2; proto must be a table or nil; stores it as the prototype (nil clears it) and changes nothing else of either table; returns tab",
     "h_table_setproto", functions=["cfun_table_setproto"], assumes=TBA[:2], **TB,
     mutants=[mut("nil-not-accepted", "table.c", "    if (!janet_checktype(argv[1], JANET_NIL)) {\n        proto = janet_gettable(argv, 1);\n    }", "    proto = janet_gettable(argv, 1);", "C04"),
              mut("sets-proto-of-proto", "table.c", "    table->proto = proto;\n    return argv[0];", "    if (proto) proto->proto = table;\n    return argv[0];", "C04")])
unit("lib.table.rawget", "table/rawget: arity 2; returns janet_table_rawget(tab, key) - the lookup in tab itself, never the prototype chain (janet_table_rawget: units tab.rawget.*)",
     "h_table_rawget", functions=["cfun_table_rawget"], assumes=TBA[:2] + ["janet_table_rawget replaced by a recording stub (proved in tab.rawget.cap2/4/8)"], **TB,
     mutants=[mut("looks-up-the-table-itself", "table.c", "    return janet_table_rawget(table, argv[1]);", "    return janet_table_rawget(table, argv[0]);", "C04")])
unit("lib.table.clear", "table/clear: arity 1; clears tab with janet_table_clear (units tab.clear.*) and returns tab",
     "h_table_clear", functions=["cfun_table_clear"], assumes=TBA[:2] + ["janet_table_clear replaced by a recording stub (proved in tab.clear.cap2/4/8)"], **TB,
     mutants=[mut("clear-not-called", "table.c", "    JanetTable *table = janet_gettable(argv, 0);\n    janet_table_clear(table);\n    return janet_wrap_table(table);", "    JanetTable *table = janet_gettable(argv, 0);\n    return janet_wrap_table(table);", "C04")])
unit("lib.table.clone", "table/clone, every capacity: arity 1; returns a NEW table with the same count, capacity, tombstone count and prototype and a bucket array OF ITS OWN holding the same buckets (updates to one do not reach the other); memcpy inside both arrays; the source is not modified",
     "h_table_clone", functions=["cfun_table_clone", "janet_table_clone"], assumes=TBA[:2] + ["janet_gcalloc returns a fresh block; malloc does not fail (CBMC default)", "memcpy model (lib_table.c): ranges valid and disjoint - counted obligations; pointwise effect on the ghost bucket"], **TB,
     mutants=[mut("shares-the-bucket-array", "table.c", "    memcpy(newTable->data, table->data, (size_t) table->capacity * sizeof(JanetKV));\n    return newTable;", "    newTable->data = table->data;\n    return newTable;", "C04"),
              mut("proto-dropped", "table.c", "    newTable->proto = table->proto;\n", "    newTable->proto = NULL;\n", "C04"),
              mut("copies-count-buckets", "table.c", "    memcpy(newTable->data, table->data, (size_t) table->capacity * sizeof(JanetKV));", "    memcpy(newTable->data, table->data, (size_t) table->count * sizeof(JanetKV));", "C04|memcpy model")])

# ------------------------------------------------------------------ struct.c: registered C functions
ST = dict(mode="plain", nanbox=False, src=["struct.c"], link=["wrap.c"], harness=["lib_struct.c"], props=["C04"], unwind=5,
          replace_calls=["janet_struct_begin:janet_struct_begin_stub", "janet_struct_put:janet_struct_put_stub", "janet_struct_put_ext:janet_struct_put_ext_stub",
                         "janet_struct_end:janet_struct_end_stub", "janet_struct_rawget:janet_struct_rawget_stub"], cls="bounded")
STB = "prototype chains of 1..3 structs with 1..2 buckets each (any bucket content, empty buckets included); at most 7 arguments"
STA = [NOBOX, "janet_struct_begin / janet_struct_put / janet_struct_put_ext / janet_struct_end / janet_struct_rawget replaced by recording stubs asserting their call protocol (real bodies: units struct.layout.*, val.struct.* of C03)",
       "janet_table / janet_table_put are recording stubs (real bodies: units tab.*)",
       "capi.c getters are stubs: janet_getstruct yields the first struct of the chain, janet_optstruct the default for an absent or nil slot, each asserts slot index < argc; janet_arity/janet_fixarity return only for an accepted argc"]
unit("lib.struct.with_proto", "struct/with-proto: odd argument count >= 1 (else raises); proto must be a struct or nil; one struct of argc / 2 pairs is built from the arguments in order (no slot beyond argc read), the prototype is attached before janet_struct_end computes the hash; returns the finished struct",
     "h_struct_with_proto", bound=STB, functions=["cfun_struct_with_proto"], assumes=STA, **ST,
     mutants=[mut("even-count-accepted", "struct.c", "    if (!(argc & 1))\n        janet_panic(\"expected odd number of arguments\");\n", "", "C04|slot index|pointer"),
              mut("proto-attached-after-end", "struct.c", "    janet_struct_proto(st) = proto;\n    return janet_wrap_struct(janet_struct_end(st));", "    const JanetKV *done = janet_struct_end(st);\n    janet_struct_proto(st) = proto;\n    return janet_wrap_struct(done);", "C04"),
              mut("value-key-swapped", "struct.c", "        janet_struct_put(st, argv[i], argv[i + 1]);\n    }\n    janet_struct_proto(st) = proto;", "        janet_struct_put(st, argv[i + 1], argv[i]);\n    }\n    janet_struct_proto(st) = proto;", "C04")])
unit("lib.struct.getproto", "struct/getproto: arity 1; returns the prototype struct, nil when there is none",
     "h_struct_getproto", bound=STB, functions=["cfun_struct_getproto"], assumes=STA[:1] + STA[3:], **ST,
     mutants=[mut("returns-the-struct", "struct.c", "           ? janet_wrap_struct(janet_struct_proto(st))\n", "           ? janet_wrap_struct(st)\n", "C04")])
unit("lib.struct.rawget", "struct/rawget: arity 2; returns janet_struct_rawget(st, key) - the lookup in st itself, never the prototype chain",
     "h_struct_rawget", bound=STB, functions=["cfun_struct_rawget"], assumes=STA[:2] + STA[3:], **ST,
     mutants=[mut("looks-up-with-prototypes", "struct.c", "    return janet_struct_rawget(st, argv[1]);", "    return janet_struct_get(st, argv[1]);", "C04")])
unit("lib.struct.to_table", "struct/to-table: arity 1..2; without a truthy `recursive` ONE new table without prototype holding exactly the pairs of st; with it one table per struct of the prototype chain, table k holding exactly the pairs of struct k and having table k + 1 as prototype; reads inside the structs; the structs are not modified",
     "h_struct_to_table", bound=STB, functions=["cfun_struct_to_table"], assumes=STA[:1] + STA[2:], **ST,
     mutants=[mut("always-recursive", "struct.c", "    } while (recursive && cursor);", "    } while (cursor);", "C04"),
              mut("pairs-into-first-table", "struct.c", "                janet_table_put(tab_cursor, kv->key, kv->value);\n            }\n        }\n        cursor = janet_struct_proto(cursor);", "                janet_table_put(tab, kv->key, kv->value);\n            }\n        }\n        cursor = janet_struct_proto(cursor);", "C04|harness"),
              mut("reads-one-bucket-too-many", "struct.c", "        for (int32_t i = 0; i < janet_struct_capacity(cursor); i++) {\n            const JanetKV *kv = cursor + i;\n            if (!janet_checktype(kv->key, JANET_NIL)) {\n                janet_table_put(tab_cursor", "        for (int32_t i = 0; i <= janet_struct_capacity(cursor); i++) {\n            const JanetKV *kv = cursor + i;\n            if (!janet_checktype(kv->key, JANET_NIL)) {\n                janet_table_put(tab_cursor", "pointer_dereference|C04|harness")])
FLAT_M = [mut("later-definitions-replace", "struct.c", "                janet_struct_put_ext(accum, kv->key, kv->value, 0);", "                janet_struct_put_ext(accum, kv->key, kv->value, 1);", "C04"),
          mut("room-for-first-struct-only", "struct.c", "    JanetKV *accum = janet_struct_begin((int32_t) pair_count);", "    JanetKV *accum = janet_struct_begin(janet_struct_length(st));", "C04")]
for d, tier in ((2, "quick"), (3, "thorough")):
    unit("lib.struct.proto_flatten.d%d" % d, "struct/proto-flatten, chains of up to %d structs: arity 1; ONE new struct without prototype, created with room for the sum of the lengths along the chain (64-bit sum, raises above INT32_MAX); the pairs are put nearest struct first without replacing, so the nearest definition of a key wins; the walk ends with the chain (structs are immutable and cannot be cyclic); inputs not modified" % d,
         "h_struct_flatten", bound=STB.replace("1..3 structs", "1..%d structs" % d), functions=["cfun_struct_flatten"], assumes=STA[:2] + STA[3:], tier=tier, timeout=(120 if d == 2 else 400),
         mutants=FLAT_M, **dict(ST, defines=["-DLIB_DEPTH=%d" % d]))
json.dump({"defaults": {"props": ["C17"], "mode": "dfcc", "timeout": 120, "object_bits": 8, "checks": CHECKS}, "units": units},
          open(os.path.join(V, "units", "C17_lib.json"), "w"), indent=1)
print(len(units), "units")
