# crafted deeply nested images through every recursive edge of unmarshal_one: must raise, never crash
(defn try-image [name b]
  (def r (protect (unmarshal b)))
  (print name ": " (if (get r 0) "accepted (no limit hit!)" (get r 1)))
  (when (get r 0) (print "REPLAY-FAIL " name " was unmarshalled without reaching the recursion limit")))
(def n 300000)
# nested arrays: LB_ARRAY(209) len 1
(def a @"") (repeat n (buffer/push a "\xD1\x01")) (buffer/push a "\xC9") (try-image "arrays" a)
# nested tuples: LB_TUPLE(210) len 1 flag 0
(def t @"") (repeat n (buffer/push t "\xD2\x01\x00")) (buffer/push t "\xC9") (try-image "tuples" t)
# nested funcdefs
(def d @"\xD7\x00") (repeat n (buffer/push d "\xCD\x00\x20\x00\x00\x01\x00\x00\x00\x00\x01\x01\x04\x00\x00\x00")) (buffer/push d "\x00\x01\x00\x00\x00\x00\x01\x04\x00\x00\x00") (try-image "funcdefs" d)
# nested channels (abstract hook re-entry)
(def c @"\xD9\xCF\x0ccore/channel\0\0\x02\x01") (repeat n (buffer/push c "\xD9\xDA\0\0\0\x02\x01")) (buffer/push c "\xD0\x04leaf") (try-image "channels" c)
