# deep structures through every recursive edge of marshal_one: must raise "stack overflow" (catchable), never crash
(defn deep-array [n] (var x @[]) (repeat n (set x @[x])) x)
(defn deep-tuple [n] (var x []) (repeat n (set x [x])) x)
(defn deep-proto [n] (var t @{}) (repeat n (set t (table/setproto @{} t))) t)
(defn deep-struct [n] (var s {}) (repeat n (set s {:a s})) s)
(defn deep-table-val [n] (var t @{}) (repeat n (set t @{:k t})) t)
(each [name mk] [["array" deep-array] ["tuple" deep-tuple] ["proto" deep-proto] ["struct" deep-struct] ["table" deep-table-val]]
  (def x (mk 400000))
  (def r (protect (marshal x)))
  (print name ": " (if (get r 0) (string "marshalled " (length (get r 1)) " bytes (no limit hit!)") (get r 1)))
  (when (get r 0) (print "REPLAY-FAIL " name " nesting of 400000 was marshalled without reaching the recursion limit")))
