# deep live structures at collection time: the collector must not overflow the native stack
(defn deep-array [n] (var x @[]) (repeat n (set x @[x x])) x)
(def keep (deep-array 300000))
(gccollect)
(print "arrays collected ok")
(dofile "/verif/design-probes/repro/c19_gc_mark_chain.janet")
