"""native replay of cbmc counterexamples on the real code (filled in per unit kind)"""
def replay(spec, u, unit_res, trace, scratch, REPO, VERIF):
    return False, 'replay kind %s not implemented' % spec.get('kind')
