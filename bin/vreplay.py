"""Native replay of CBMC counterexamples on the real code of /repo (current working tree).

kinds
  janet : fill a Janet script template from the trace, run it on a sanitizer build of the real interpreter
          (built from the working tree by bin/build_janet.sh). Confirmed iff the process crashes, a sanitizer
          fires, it times out (when spec.hang_is_failure) or the script prints REPLAY-FAIL.
  c     : generate replay_inputs.h (#define per variable, byte arrays as initialisers) from the trace, compile
          /verif/replay/<driver> with gcc -fsanitize=address,undefined against the real sources, run it.
          Confirmed iff it exits non-zero.
"""
import os, re, subprocess, struct, json


def _last(trace, rx, before_failure=True):
    val = None
    r = re.compile(rx)
    for st in trace:
        if 'failure' in st and before_failure:
            break
        if 'lhs' in st and r.fullmatch(st['lhs']):
            val = st
    return val


def _fmt(st, fmt):
    if st is None:
        return None
    if fmt == 'bits' and st.get('binary'):
        return str(int(st['binary'], 2))
    if fmt == 'sbits' and st.get('binary'):
        b = st['binary']
        v = int(b, 2)
        if b[0] == '1':
            v -= 1 << len(b)
        return str(v)
    if fmt == 'double' and st.get('binary') and len(st['binary']) == 64:
        d = struct.unpack('>d', int(st['binary'], 2).to_bytes(8, 'big'))[0]
        return repr(d)
    v = st.get('value')
    if v is None:
        return None
    v = str(v)
    m = re.match(r'^(-?\d+)[uUlL]*$', v)
    return m.group(1) if m else v


def extract(spec, trace):
    vals = {}
    for name, vs in (spec.get('vars') or {}).items():
        st = _last(trace, vs['lhs'])
        v = _fmt(st, vs.get('fmt', 'int'))
        if v is None:
            v = str(vs.get('default', 0))
        vals[name] = v
    for name, bs in (spec.get('bytes') or {}).items():
        # collect assignments lhs like  <obj>[<idx>]  for the object named by regex
        arr = {}
        r = re.compile(bs['lhs'] + r'\[(\d+)[lLuU]*\]')
        for st in trace:
            if 'failure' in st:
                break
            if 'lhs' in st:
                m = r.fullmatch(st['lhs'])
                if m:
                    try:
                        arr[int(m.group(1))] = int(_fmt(st, 'int')) & 0xFF
                    except Exception:
                        pass
        n = max(arr) + 1 if arr else 0
        vals[name] = [arr.get(i, 0) for i in range(min(n, 4096))]
    return vals


_built = {}


def build_janet(scratch, VERIF):
    out = os.path.join(scratch, 'janet-replay')
    if out in _built:
        return _built[out]
    p = subprocess.run([os.path.join(VERIF, 'bin', 'build_janet.sh'), out, 'san'], capture_output=True, text=True, timeout=900)
    exe = os.path.join(out, 'janet')
    _built[out] = exe if p.returncode == 0 and os.path.exists(exe) else None
    return _built[out]


def replay(spec, u, unit_res, trace, scratch, REPO, VERIF):
    vals = extract(spec, trace or [])
    kind = spec.get('kind')
    if kind == 'janet':
        exe = build_janet(scratch, VERIF)
        if not exe:
            return False, 'could not build janet from the working tree for replay'
        sfile = spec.get('script_file') or ''
        script = spec.get('script') or open(sfile if sfile.startswith('/') else os.path.join(VERIF, 'replay', sfile)).read()
        for k, v in vals.items():
            script = script.replace('{' + k + '}', str(v))
        sp = os.path.join(scratch, 'replay_%s.janet' % re.sub(r'\W', '_', u['id']))
        open(sp, 'w').write(script)
        env = dict(os.environ, ASAN_OPTIONS='detect_leaks=0:abort_on_error=0', UBSAN_OPTIONS='print_stacktrace=1')
        try:
            p = subprocess.run([exe, sp], capture_output=True, text=True, timeout=spec.get('timeout', 60), env=env, cwd=scratch)
            rc, out, err = p.returncode, p.stdout, p.stderr
            hung = False
        except subprocess.TimeoutExpired as e:
            rc, out, err, hung = -1, str(e.stdout or ''), str(e.stderr or ''), True
        crashed = rc < 0 or rc >= 128 or 'AddressSanitizer' in err or 'runtime error:' in err or 'SUMMARY: UndefinedBehaviorSanitizer' in err
        if hung:
            crashed = bool(spec.get('hang_is_failure'))
        bad = crashed or 'REPLAY-FAIL' in out or (bool(spec.get('fail_on_nonzero')) and rc != 0 and not hung)
        txt = ('regression script for the clause (fixed inputs, not derived from the counterexample)\n' if spec.get('regression_script') else '') + 'inputs from counterexample: %s\nscript:\n%s\nexit=%s hung=%s\nstdout: %s\nstderr: %s' % (
            json.dumps(vals)[:600], script[:1500], rc, hung, out[-600:], err[-1500:])
        return bad, txt
    if kind == 'c':
        d = os.path.join(scratch, 'replay_c_%s' % re.sub(r'\W', '_', u['id']))
        os.makedirs(d, exist_ok=True)
        with open(os.path.join(d, 'replay_inputs.h'), 'w') as f:
            for k, v in vals.items():
                if isinstance(v, list):
                    f.write('#define %s_LEN %d\nstatic const unsigned char %s[%d] = {%s};\n' % (k, len(v), k, max(1, len(v)), ','.join(map(str, v)) or '0'))
                else:
                    f.write('#define %s %s\n' % (k, v))
        conf = os.path.join(REPO, '_build') if os.path.exists(os.path.join(REPO, '_build', 'janetconf.h')) else os.path.join(REPO, 'src', 'conf')
        exe = os.path.join(d, 'replay')
        cmd = ['gcc', '-std=gnu99', '-g', '-O0', '-fsanitize=address,undefined', '-fno-sanitize-recover=undefined', '-I' + d, '-I' + os.path.join(REPO, 'src', 'include'),
               '-I' + conf, '-iquote', os.path.join(REPO, 'src', 'core'), '-D_FILE_OFFSET_BITS=64', '-DREPO_CORE="%s"' % os.path.join(REPO, 'src', 'core'),
               os.path.join(VERIF, 'replay', spec['driver'])] + [os.path.join(REPO, 'src', 'core', x) for x in spec.get('link', [])] + ['-o', exe, '-lm', '-ldl', '-lpthread']
        p = subprocess.run(cmd, capture_output=True, text=True, timeout=600)
        if p.returncode != 0:
            return False, 'replay driver did not compile: ' + p.stderr[-800:]
        try:
            p = subprocess.run([exe], capture_output=True, text=True, timeout=60, env=dict(os.environ, ASAN_OPTIONS='detect_leaks=0'))
        except subprocess.TimeoutExpired:
            return False, 'replay driver timed out'
        txt = 'inputs from counterexample: %s\nexit=%d\nstdout: %s\nstderr: %s' % (json.dumps(vals)[:800], p.returncode, p.stdout[-800:], p.stderr[-1500:])
        return p.returncode != 0, txt
    return False, 'replay kind %s not implemented' % kind
