#!/bin/bash
# Builds the janet interpreter from /repo's CURRENT working tree into $1 (scratch dir), for native replay.
# usage: build_janet.sh <outdir> [san]   -> <outdir>/janet
set -e
OUT=$1; SAN=$2
REPO=${VCHECK_REPO:-/repo}
CONF=$REPO/_build; [ -f $CONF/janetconf.h ] || CONF=$REPO/src/conf
mkdir -p $OUT/boot $OUT/obj
CF="-std=c99 -I$REPO/src/include -I$CONF -D_FILE_OFFSET_BITS=64 -O1 -g -fno-omit-frame-pointer"
[ "$SAN" = san ] && CF="$CF -fsanitize=address,undefined -fno-sanitize-recover=undefined"
cd $OUT
ls $REPO/src/core/*.c $REPO/src/boot/*.c | xargs -P 16 -I{} sh -c 'gcc '"$CF"' -DJANET_BOOTSTRAP -DJANET_BUILD=\"replay\" -iquote '"$REPO"'/src/core -iquote '"$REPO"'/src/boot -c {} -o boot/$(basename {} .c).o'
gcc $CF -o janet_boot boot/*.o -lm -ldl -lpthread -lrt
(cd $REPO && ASAN_OPTIONS=detect_leaks=0 $OUT/janet_boot . JANET_PATH /usr/local/lib/janet) > janet.c
gcc $CF -DJANET_BUILD=\"replay\" -c janet.c -o obj/janet.o &
gcc $CF -DJANET_BUILD=\"replay\" -c $REPO/src/mainclient/shell.c -o obj/shell.o &
wait
gcc $CF -o janet obj/janet.o obj/shell.o -lm -ldl -lpthread -lrt
echo built $OUT/janet
