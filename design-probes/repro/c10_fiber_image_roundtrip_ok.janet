(defn rt [f] (unmarshal (marshal f)))
# new fiber
(def n (rt (fiber/new (fn [x] (+ x 1))))) (assert (= 6 (resume n 5)))
# dead fiber
(def d (fiber/new (fn [] 1))) (resume d) (assert (= :dead (fiber/status (rt d))))
# errored fiber (inline error as last instruction)
(def e (fiber/new (fn [] (error "boom")) :e)) (resume e) (assert (= :error (fiber/status (rt e))))
(def e2 (fiber/new (fn [x] (error x)) :e)) (resume e2 1) (assert (= :error (fiber/status (rt e2))))
# suspended in nested janet calls
(defn inner [x] (+ 1 (yield x)))
(defn outer [x] (* 2 (inner x)))
(def s (fiber/new outer)) (assert (= 7 (resume s 7)))
(def s2 (rt s)) (assert (= 22 (resume s2 10)))
# generator in a loop
(def g (fiber/new (fn [] (for i 0 3 (yield i)) :done)))
(resume g) (def g2 (rt g)) (assert (= 1 (resume g2))) (assert (= 2 (resume g2))) (assert (= :done (resume g2)))
(print "ok")
