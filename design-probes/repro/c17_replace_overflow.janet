(def big (string/repeat "a" 2147483647))
(print (protect (string/replace "aaaaaaaa" big big)))
