# C10/C12 (unit peg.load.op.literal.wrap, obligation "accepted => the wf_peg clause of this opcode holds"):
# (rule[1] + 3) >> 2 wraps for a RULE_LITERAL length word >= 2^32-3: a literal that claims 4 GiB of data is accepted
# with no data words. LP64: the matcher's `text + len > text_end` rejects every text; ILP32: the pointer wraps and memcmp
# runs over 4 GiB.
(def p (unmarshal "\xd9\xcf\x08core/peg\x02\x00\x00\xcd\xff\xff\xff\xff"))
(eprintf "accepted: %q, match: %q" p (peg/match p "abc"))
