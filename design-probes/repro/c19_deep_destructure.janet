(def n 200000)
(def src (string "(def " (string/repeat "[" n) "x" (string/repeat "]" n) " nil)"))
(def src2 (string "(def " (string/repeat "[" n) "x" (string/repeat "]" n) " " (string/repeat "[" n) "1" (string/repeat "]" n) ")"))
(each s [src src2]
  (def p (parser/new)) (parser/consume p s) (def form (parser/produce p))
  (def r (compile form))
  (print (if (function? r) "compiled" (string "error: " (get r :error)))))
(print (eval-string "(def [a [b [c]]] [1 [2 [3]]]) (+ a b c)"))
