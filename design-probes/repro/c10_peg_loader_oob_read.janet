# C10 (units peg.load.exact.*, obligation peg_unmarshal.pointer_dereference.* "pointer outside object bounds in rule[..]"):
# the verifier loop of peg_unmarshal reads the operand words of an instruction before it knows that they lie inside the
# bytecode. Run under valgrind / ASan: invalid reads behind the abstract's block, then "invalid peg bytecode".
# 1 word [RULE_LOOK]: reads rule[2]
(eprintf "%q" (protect (unmarshal "\xd9\xcf\x08core/peg\x01\x00\x05")))
# 3 words [RULE_SEQUENCE 0x7fffffff 0]: the slot loop walks the heap until it meets a word >= 3
(eprintf "%q" (protect (unmarshal "\xd9\xcf\x08core/peg\x03\x00\x07\xcd\x7f\xff\xff\xff\x00")))
