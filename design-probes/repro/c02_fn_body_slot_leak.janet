(def f (eval ~(fn [x] ,;(seq [i :range [0 70000]] '(+ x 1)) x)))
(assert (= 5 (f 5))) (print "70000 statements: slotcount " ((disasm f) :slotcount))
