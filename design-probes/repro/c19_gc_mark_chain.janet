(defn helper []
  (var y 0)
  (def child (fn [] (++ y) (helper) nil))
  (yield child)
  nil)
(def n (scan-number (get (dyn :args) 1 "200000")))
(var c (resume (fiber/new helper :y)))
(for i 0 n
  (set c (resume (fiber/new c :y))))
(print "built " n)
(gccollect)
(print "collected ok")
