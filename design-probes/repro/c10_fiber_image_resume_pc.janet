(def f (asm '{:slotcount 1 :arity 0 :bytecode [(ldn 0) :loop (sig 0 0 3) (jmp :loop)]}))
(def fib (fiber/new f :y)) (resume fib)
(def img (buffer (marshal fib)))
# sanity: the untouched image still loads and resumes
(def ok (unmarshal img)) (resume ok :v) (assert (= :pending (fiber/status ok)))
# (a) first instruction becomes NOOP with A = 255, pc points at it
(def a (buffer img)) (put a 26 0) (put a 27 255) (put a 28 0) (put a 29 0) (put a 16 0)
(def ra (protect (resume (unmarshal a) :v)))
(assert (not (ra 0)) "image (a) must be refused")
# (b) pc at the last instruction
(def b (buffer img)) (put b 16 2)
(def rb (protect (resume (unmarshal b) :v)))
(assert (not (rb 0)) "image (b) must be refused")
(print "ok " (ra 1) " / " (rb 1))
