# C12/C10 (unit peg.wf.compile1.table, obligation "a new scope holds only the KEYWORD keys of the user's grammar"):
# peg_compile1 clones a grammar TABLE with all its keys; the rule cache lives in the same tables, so a non-keyword key
# (here the pattern 3) is taken for a cached rule index. The compiled sequence refers to rule 1000000 -> peg/match reads
# far outside the bytecode: SIGSEGV. (A struct grammar copies keyword keys only and is fine.)
(def p (peg/compile @{:main '(* 3) 3 1000000}))
(eprintf "compiled; the loader refuses the compiler's own output: %q" (protect (unmarshal (marshal p load-image-dict) load-image-dict)))
(eprintf "%q" (peg/match p "abcdef"))
