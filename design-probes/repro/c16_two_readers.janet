# two fibers read the same pipe: the first reader's registration is overwritten by the second and it is never resumed
(def [r w] (os/pipe))
(ev/spawn (pp (ev/read r 10)))
(ev/spawn (pp (ev/read r 10)))
(ev/sleep 0.05) (ev/write w "hello")
(ev/sleep 0.05) (ev/write w "world")
(ev/close w)
