(defn mk [nlocals n]
  (eval ~(fn [x] ,;(seq [i :range [0 nlocals]] ~(def ,(symbol "v" i) (+ x ,i))) ,;(seq [i :range [0 n]] '(identity 1)) x)))
(def f (mk 250 5000))
(assert (= 3 (f 3)))
(print "250 locals, 5000 statements: slotcount " ((disasm f) :slotcount))
(assert (< ((disasm f) :slotcount) 300))
(def g (mk 250 66000)) (assert (= 4 (g 4)))
(print "ok")
