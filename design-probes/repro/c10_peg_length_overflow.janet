# bytecode_len = 2^62 -> bytecode_len * 4 wraps to 0 -> tiny allocation, then one word is written per int in the input
(def img @"\xd9\xcf\x08core/peg\xF8\x00\x00\x00\x00\x00\x00\x00\x40\x00")
(repeat 200000 (buffer/push img "\x01"))
(print "image bytes " (length img))
(def r (protect (unmarshal img)))
(pp r)
