# funcdef with HASCLOBITSET (0x2000000) and slotcount 2^31-1: (slotcount + 31) >> 5 overflows
(def b @"\xD7\x00")
(buffer/push b "\xCD\x02\x00\x00\x00")      # flags = HASCLOBITSET
(buffer/push b "\xCD\x7F\xFF\xFF\xFF")      # slotcount
(buffer/push b "\x00\x00\x00")              # arity min max
(buffer/push b "\x00\x01")                  # constants 0, bytecode_length 1
(buffer/push b "\x04\x00\x00\x00")          # return-nil
(buffer/push b "\x00\x00\x00\x00")
(def r (protect (unmarshal b)))
(pp r)
(print "still alive")
