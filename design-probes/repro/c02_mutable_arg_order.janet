(var x 1) (print (+ x (do (set x 10) x)))
(defn g [] (var y 1) (+ y (do (set y 10) y))) (print (g))
