/* NOT a proof harness: native reproducer for the defect recorded by the disabled unit sc.put.cap2.stay (units/C01_symcache.json).
 *
 * janet_symcache_put checks the load BEFORE it adds an entry, and a resize that happens while cache_count == 0 picks
 * janet_tablen(1) == 2. A cache of capacity 2 is then filled completely by the second put (count 1 -> 2 without resize); the
 * next janet_symbol of a new text finds neither a match nor a free slot and aborts in janet_symcache_findmem:
 *     janet internal error at line 111 in file src/core/symcache.c: symcache failed to get memory
 * Needs cache_count == 0 at a resize, i.e. an embedder that does not load the core environment (the janet binary keeps
 * thousands of symbols live).
 *
 * build: gcc -std=c99 -D_GNU_SOURCE -I/repo/src/include -I/repo/_build -iquote /repo/src/core symcache_repro_cap2.c /repo/_build/libjanet.a -lm -ldl -lpthread -o repro
 * observed on the pinned tree:
 *     after init: cap=1024 count=0 deleted=0
 *     after collect: cap=1024 count=0 deleted=513
 *     after a: cap=2 count=1 deleted=0
 *     after b: cap=2 count=2 deleted=0
 *     janet internal error at line 111 in file src/core/symcache.c: symcache failed to get memory      (SIGABRT)
 * (Side observation: without the root fiber set up below, janet_collect() right after janet_init() dereferences
 *  janet_vm.root_fiber == NULL in janet_mark_fiber and segfaults.) */
#include <janet.h>
#include <stdio.h>
#include "state.h"
int main(void) {
  char buf[32];
  setvbuf(stdout, NULL, _IONBF, 0);
  janet_init();
  printf("after init: cap=%u count=%u deleted=%u\n", janet_vm.cache_capacity, janet_vm.cache_count, janet_vm.cache_deleted);
  /* janet_collect() dereferences janet_vm.root_fiber: give it a trivial fiber (no symbols involved) */
  JanetFuncDef *def = janet_funcdef_alloc();
  def->bytecode = janet_malloc(sizeof(uint32_t)); def->bytecode[0] = 0x04 /* JOP_RETURN_NIL */; def->bytecode_length = 1; def->slotcount = 1;
  JanetFunction *fn = janet_thunk(def);
  janet_vm.root_fiber = janet_fiber(fn, 64, 0, NULL);
  for (int i = 0; i < 513; i++) { snprintf(buf, sizeof buf, "sym%d", i); janet_csymbol(buf); }   /* unrooted */
  janet_collect();
  printf("after collect: cap=%u count=%u deleted=%u\n", janet_vm.cache_capacity, janet_vm.cache_count, janet_vm.cache_deleted);
  janet_csymbol("a");
  printf("after a: cap=%u count=%u deleted=%u\n", janet_vm.cache_capacity, janet_vm.cache_count, janet_vm.cache_deleted);
  janet_csymbol("b");
  printf("after b: cap=%u count=%u deleted=%u\n", janet_vm.cache_capacity, janet_vm.cache_count, janet_vm.cache_deleted);
  fflush(stdout);
  janet_csymbol("c");
  printf("after c: cap=%u count=%u deleted=%u\n", janet_vm.cache_capacity, janet_vm.cache_count, janet_vm.cache_deleted);
  janet_deinit();
  return 0;
}
