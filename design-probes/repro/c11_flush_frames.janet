(def p (parser/new)) (parser/consume p "1 2 3 ") (parser/flush p) (pp (parser/state p :frames))
(def q (parser/new)) (parser/consume q (string/repeat "1 " 3000000)) (parser/flush q) (pp (length (parser/state q :frames)))
