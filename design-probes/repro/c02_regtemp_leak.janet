(defn mk [nlocals nsets]
  (eval ~(fn [x] ,;(seq [i :range [0 nlocals]] ~(def ,(symbol "v" i) (+ x ,i))) (var z 0) ,;(seq [i :range [0 nsets]] '(set z (+ z 1))) z)))
(def f (mk 250 30000))
(assert (= 30000 (f 1)))
(print "slotcount " ((disasm f) :slotcount))
(assert (< ((disasm f) :slotcount) 400))
(print "ok")
