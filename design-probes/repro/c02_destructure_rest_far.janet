(defmacro many [n & body]
  ~(fn [x] ,;(seq [i :range [0 n]] ~(def ,(symbol "v" i) (+ x ,i))) ,;body))
(each n [0 10 200 238 239 240 250 260 300 600]
  (def f (eval ~(many ,n (def [a b & r] [10 20 30 40 50]) (def [& q] [1 2]) (def [c & s] [7]) [a b r q c s])))
  (assert (deep= (f 1) [10 20 [30 40 50] [1 2] 7 []]) (string "n=" n)))
(print "ok")
