# C12/C10 (unit peg.wf.compile1.table, obligation "a cache entry for the grammar itself is the index that is returned
# for it"): a grammar TABLE is cached under the bytecode count at entry although it compiles to the rule of its :main
# pattern, which may be an older rule. The second use of the same table object gets the stale index = whatever is
# emitted next (wrong match) or the end of the bytecode (out-of-bounds read; valgrind: invalid read in peg_rule).
(def tab @{:main "x"})
(def p (peg/compile ~(* "x" ,tab ,tab "y")))
(eprintf "xxxy: %q (expected @[])" (peg/match p "xxxy"))
(eprintf "xxyy: %q (expected nil)" (peg/match p "xxyy"))
(def q (peg/compile ~(* "x" ,tab ,tab)))
(eprintf "round trip of q: %q" (protect (unmarshal (marshal q load-image-dict) load-image-dict)))
(eprintf "match with q: %q" (protect (peg/match q "xxx")))
