(pp (peg/match '(% (+ (lenprefix (number :d) "a") (* (<- "ab") (<- "cd")))) "abcd"))
(pp (protect (unmarshal (marshal (peg/compile '(int 2))))))
(pp (protect (unmarshal (marshal (peg/compile '(uint 2))))))
