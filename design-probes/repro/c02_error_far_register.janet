(defn mk [n]
  (def syms (seq [i :range [0 n]] (symbol "v" i)))
  (def body ~(fn [x] ,;(map (fn [s i] ~(def ,s (+ x ,i))) syms (range n)) (error ,(last syms))))
  (compile body))
(each n [10 250 300 600]
  (def f ((mk n)))
  (def r (protect (f 1000)))
  (printf "n=%d -> %q (expected %d)" n r (+ 1000 (- n 1))))
