# 1a: closure captures a local living in a register > 255
(defmacro many [n]
  ~(fn [x] ,;(seq [i :range [0 n]] ~(def ,(symbol "v" i) (+ x ,i))) (fn [] ,(symbol "v" (- n 20)))))
(def f250 (many 250))
(print "250 locals, capture v230: " ((f250 1000)))
(def f120 (many 120))
(print "120 locals, capture v100: " ((f120 1000)))
(def f300 (many 300))
(print "300 locals, capture v280: " ((f300 1000)))
