#include <stdint.h>
extern uint32_t g_idx;
#define OPK(instr) (janet_instructions[(instr) & 0x7F])
#define SLOT_A(instr) ((int32_t)(((instr) >> 8) & 0xFF))
#define SLOT_B(instr) ((int32_t)(((instr) >> 16) & 0xFF))
#define SLOT_C(instr) ((int32_t)(((instr) >> 24) & 0xFF))
#define SLOT_D(instr) ((int32_t)((instr) >> 8))
#define SLOT_E(instr) ((int32_t)((instr) >> 16))
#define JDEST_L(instr, i) ((i) + (((int32_t)(instr)) >> 8))
#define JDEST_SL(instr, i) ((i) + (((int32_t)(instr)) >> 16))
#define INSTR_OK(def, instr, i) ( \
  (((instr) & 0x7F) < JOP_INSTRUCTION_COUNT) && \
  (OPK(instr) == JINT_0 || \
  (OPK(instr) == JINT_S && SLOT_D(instr) < (def)->slotcount) || \
  ((OPK(instr) == JINT_SI || OPK(instr) == JINT_SU || OPK(instr) == JINT_ST) && SLOT_A(instr) < (def)->slotcount) || \
  (OPK(instr) == JINT_L && JDEST_L(instr, i) >= 0 && JDEST_L(instr, i) < (def)->bytecode_length) || \
  (OPK(instr) == JINT_SS && SLOT_A(instr) < (def)->slotcount && SLOT_E(instr) < (def)->slotcount) || \
  ((OPK(instr) == JINT_SSI || OPK(instr) == JINT_SSU) && SLOT_A(instr) < (def)->slotcount && SLOT_B(instr) < (def)->slotcount) || \
  (OPK(instr) == JINT_SL && SLOT_A(instr) < (def)->slotcount && JDEST_SL(instr, i) >= 0 && JDEST_SL(instr, i) < (def)->bytecode_length) || \
  (OPK(instr) == JINT_SSS && SLOT_A(instr) < (def)->slotcount && SLOT_B(instr) < (def)->slotcount && SLOT_C(instr) < (def)->slotcount) || \
  (OPK(instr) == JINT_SD && SLOT_A(instr) < (def)->slotcount && SLOT_E(instr) < (def)->defs_length) || \
  (OPK(instr) == JINT_SC && SLOT_A(instr) < (def)->slotcount && SLOT_E(instr) < (def)->constants_length) || \
  (OPK(instr) == JINT_SES && SLOT_A(instr) < (def)->slotcount && SLOT_B(instr) < (def)->environments_length)))
#include "bytecode_inj.c"
uint32_t g_idx;

int janet_verify(JanetFuncDef *def)
__CPROVER_requires(__CPROVER_is_fresh(def, sizeof(*def)))
__CPROVER_requires(def->bytecode_length >= 0 && def->bytecode_length <= 0x1FFFFFFF && def->slotcount >= 0)
__CPROVER_requires(__CPROVER_is_fresh(def->bytecode, (size_t)def->bytecode_length * sizeof(uint32_t)))
__CPROVER_assigns()
__CPROVER_ensures((__CPROVER_return_value == 0 && g_idx < (uint32_t)def->bytecode_length) ==> INSTR_OK(def, def->bytecode[g_idx], (int32_t)g_idx))
__CPROVER_ensures(__CPROVER_return_value == 0 ==> def->bytecode_length > 0)
;
void h_verify(void) { JanetFuncDef *d; janet_verify(d); }
