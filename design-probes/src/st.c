#include "/repo/src/core/struct.c"
void janet_panic(const char *m) { __CPROVER_assume(0); }
void janet_panicf(const char *m, ...) { __CPROVER_assume(0); }
int nd_int(void);
/* abstract key universe: K distinct keys 1..K encoded as numbers; hash arbitrary but fixed; compare = numeric order (a consistent total order) */
#define K 4
int32_t ghost_h[K + 1];
static int kid(Janet x) { double d = janet_unwrap_number(x); return d == 1.0 ? 1 : d == 2.0 ? 2 : d == 3.0 ? 3 : 4; }
int32_t janet_hash(Janet x) { return ghost_h[kid(x)]; }
int janet_compare(Janet a, Janet b) { int x = kid(a), y = kid(b); return x < y ? -1 : x > y ? 1 : 0; }
int janet_equals(Janet a, Janet b) { return kid(a) == kid(b); }
#define CAP 4
struct blk { JanetStructHead head; JanetKV kv[CAP]; };
static JanetKV *mk(struct blk *b, int32_t len) { b->head.length = len; b->head.capacity = CAP; b->head.hash = 0; b->head.proto = 0;
  for (int i = 0; i < CAP; i++) { b->kv[i].key = janet_wrap_nil(); b->kv[i].value = janet_wrap_nil(); } return (JanetKV *) b->head.data; }
void h(void) {
  struct blk A, B; JanetKV *a = mk(&A, 2), *b = mk(&B, 2);
  int k1 = nd_int(), k2 = nd_int(); __CPROVER_assume(k1 >= 1 && k1 <= K && k2 >= 1 && k2 <= K && k1 != k2);
  Janet K1 = janet_wrap_number((double)k1), K2 = janet_wrap_number((double)k2), V1 = janet_wrap_number(10.0), V2 = janet_wrap_number(20.0);
  janet_struct_put_ext(a, K1, V1, 1); janet_struct_put_ext(a, K2, V2, 1);
  janet_struct_put_ext(b, K2, V2, 1); janet_struct_put_ext(b, K1, V1, 1);
  for (int i = 0; i < CAP; i++) { __CPROVER_assert(a[i].key.u64 == b[i].key.u64 && a[i].value.u64 == b[i].value.u64, "layout independent of insertion order"); }
}
