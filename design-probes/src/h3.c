#include "/repo/src/core/marsh.c"

void janet_panic(const char *m) { __CPROVER_assume(0); }
void janet_panicf(const char *m, ...) { __CPROVER_assume(0); }

size_t g_len, g_off;
#define B(i) (st->start[g_off + (i)])
static int32_t readint(UnmarshalState *st, const uint8_t **atdata)
__CPROVER_requires(__CPROVER_is_fresh(st, sizeof(*st)))
__CPROVER_requires(__CPROVER_is_fresh(atdata, sizeof(*atdata)))
__CPROVER_requires(g_len <= 0x7fffffff && g_off <= g_len)
__CPROVER_requires(__CPROVER_is_fresh(st->start, g_len))
__CPROVER_requires(__CPROVER_pointer_equals(st->end, st->start + g_len))
__CPROVER_requires(__CPROVER_pointer_equals(*atdata, st->start + g_off))
__CPROVER_assigns(*atdata)
/* returns normally only if a complete encoding is present; consumes exactly it */
__CPROVER_ensures(g_off < g_len)
__CPROVER_ensures(B(0) < 128 ==> (*atdata == st->start + g_off + 1 && __CPROVER_return_value == B(0)))
__CPROVER_ensures((B(0) >= 128 && B(0) < 192) ==> (g_off + 1 < g_len && *atdata == st->start + g_off + 2 &&
    __CPROVER_return_value == (int32_t)((((B(0) & 0x3F) << 8) | B(1)) ^ 0x2000) - 0x2000))
__CPROVER_ensures(B(0) >= 192 ==> (B(0) == 205 && g_off + 4 < g_len && *atdata == st->start + g_off + 5 &&
    __CPROVER_return_value == (int32_t)(((uint32_t)B(1) << 24) | ((uint32_t)B(2) << 16) | ((uint32_t)B(3) << 8) | B(4))))
;

void h_readint(void) {
  UnmarshalState *st; const uint8_t **at;
  readint(st, at);
}
