#include <stdint.h>
#include <stddef.h>
uint64_t g_watch; int g_seen; size_t g_idx;
void mark(uint64_t x) { if (x == g_watch) g_seen = 1; }
void mark_many(const uint64_t *values, int32_t n) {
  if (values == NULL) return;
  const uint64_t *end = values + n;
  while (values < end) { mark(*values); values += 1; }
}
void mark_many_c(const uint64_t *values, int32_t n)
__CPROVER_requires(n >= 0 && n <= 1000000 && __CPROVER_is_fresh(values, (size_t)n * 8 + 8))
__CPROVER_requires(g_idx < (size_t)n && values[g_idx] == g_watch && !g_seen)
__CPROVER_assigns(g_seen)
__CPROVER_ensures(g_seen)
;
void h(void) { const uint64_t *v; int32_t n; mark_many(v, n); }
