#include "/repo/src/core/ev.c"
void janet_panic(const char *m) { __CPROVER_assume(0); }
void janet_panicf(const char *m, ...) { __CPROVER_assume(0); }
void exit(int c) { __CPROVER_assume(0); }
#define WF_Q(q) (((q)->capacity == 0 && (q)->head == 0 && (q)->tail == 0) || \
   ((q)->capacity > 0 && (q)->capacity <= JANET_MAX_Q_CAPACITY && (q)->head >= 0 && (q)->head < (q)->capacity && (q)->tail >= 0 && (q)->tail < (q)->capacity))
#define QCOUNT(q) (((q)->head > (q)->tail) ? ((q)->tail + (q)->capacity - (q)->head) : ((q)->tail - (q)->head))
#define ISZ 8
#define OH __CPROVER_old(q->head)
#define OT __CPROVER_old(q->tail)
#define OC __CPROVER_old(q->capacity)
#define QCOUNT_OLD ((OH > OT) ? (OT + OC - OH) : (OT - OH))
int32_t g_pos; uint64_t g_val;
static int janet_q_push_c(JanetQueue *q, void *item, size_t itemsize)
__CPROVER_requires(itemsize == ISZ)
__CPROVER_requires(__CPROVER_is_fresh(q, sizeof(*q)) && WF_Q(q))
__CPROVER_requires((q->capacity == 0 && q->data == NULL) || (q->capacity > 0 && __CPROVER_is_fresh(q->data, (size_t)q->capacity * ISZ)))
__CPROVER_requires(__CPROVER_is_fresh(item, ISZ))
/* ghost: logical position g_pos holds g_val */
__CPROVER_requires(g_pos >= 0 && g_pos < QCOUNT(q) && ((uint64_t*)q->data)[(q->head + g_pos) % q->capacity] == g_val)
__CPROVER_assigns(q->head, q->tail, q->capacity, q->data, __CPROVER_object_whole(q->data))
__CPROVER_ensures(WF_Q(q))
__CPROVER_ensures(__CPROVER_return_value == 0 ==> QCOUNT(q) == QCOUNT_OLD + 1)
__CPROVER_ensures(__CPROVER_return_value == 0 ==> ((uint64_t*)q->data)[(q->head + QCOUNT_OLD) % q->capacity] == *(uint64_t*)item)
;

size_t g_mm; /* ghost element index for memmove/realloc contracts */
void *memmove_c(void *d, const void *s, size_t n)
__CPROVER_requires(__CPROVER_w_ok(d, n) && __CPROVER_r_ok(s, n))
__CPROVER_assigns(__CPROVER_object_upto(d, n))
__CPROVER_ensures(__CPROVER_return_value == d)
;
void *memcpy_c(void *d, const void *s, size_t n)
__CPROVER_requires(__CPROVER_w_ok(d, n) && __CPROVER_r_ok(s, n))
__CPROVER_assigns(__CPROVER_object_upto(d, n))
__CPROVER_ensures(__CPROVER_return_value == d)
__CPROVER_ensures(n == 8 ==> *(uint64_t*)d == *(uint64_t*)s)
;
void h_push(void) { JanetQueue *q; void *item; size_t sz; janet_q_push(q, item, sz); }
