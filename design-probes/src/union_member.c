#include <stdint.h>
int nondet_int(void); unsigned long nondet_ulong(void);
typedef struct { union { uint64_t u64; double number; void *pointer; } as; int type; } J;
typedef struct F F;
#ifdef SWAP
typedef struct { int gcflags; union { J *values; F *fiber; } as; int32_t length; int32_t offset; } Env;
#else
typedef struct { int gcflags; union { F *fiber; J *values; } as; int32_t length; int32_t offset; } Env;
#endif
struct F { int x; J *data; };
static J vals[3];
static F fib;
static Env env;
int main(void) {
  fib.data = vals;
  env.as.fiber = &fib;
  J x; x.type = nondet_int(); x.as.u64 = nondet_ulong(); vals[1] = x;
  Env *e = &env;
  int off = nondet_int(); __CPROVER_assume(off == 1);
  J r = e->as.fiber->data[off];
  __CPROVER_assert(r.type == x.type && r.as.u64 == x.as.u64, "same");
  e->as.fiber->data[off + 1] = x;
  __CPROVER_assert(vals[2].type == x.type && vals[2].as.u64 == x.as.u64, "written");
}
