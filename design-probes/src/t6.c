#include <stddef.h>
#include <stdint.h>
size_t max_index(const uint32_t *a, size_t n)
{
  size_t best = 0;
  for (size_t i = 1; i < n; i++)
  { if (a[i] > a[best]) best = i; }
  return best;
}
/* separately named contract */
size_t max_index_contract(const uint32_t *a, size_t n)
__CPROVER_requires(n > 0 && n <= 4096 && __CPROVER_is_fresh(a, n * sizeof(*a)))
__CPROVER_ensures(__CPROVER_return_value < n)
__CPROVER_assigns();
void h(void){ const uint32_t *a; size_t n; max_index(a,n); }
