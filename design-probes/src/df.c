#include "/repo/src/core/util.c"
void janet_panic(const char *m) { __CPROVER_assume(0); }
void janet_panicf(const char *m, ...) { __CPROVER_assume(0); }
/* abstract key universe: equality is bit equality; hash is an arbitrary but fixed function (ghost table of 4 classes) */
int32_t ghost_h[4];
int janet_equals(Janet a, Janet b) { return a.u64 == b.u64; }
int32_t janet_hash(Janet x) { return ghost_h[x.u64 & 3]; }
int32_t g_i; /* ghost bucket index */
#define NILK(kv) (janet_checktype((kv).key, JANET_NIL))
const JanetKV *janet_dict_find_c(const JanetKV *buckets, int32_t cap, Janet key)
__CPROVER_requires(cap >= 1 && cap <= (1 << 26) && (cap & (cap - 1)) == 0)
__CPROVER_requires(cap == 0 || __CPROVER_is_fresh(buckets, (size_t)cap * sizeof(JanetKV)))
__CPROVER_requires(!janet_checktype(key, JANET_NIL))
__CPROVER_assigns()
__CPROVER_ensures(__CPROVER_return_value == NULL || __CPROVER_pointer_in_range_dfcc(buckets, __CPROVER_return_value, buckets + cap - 1))
__CPROVER_ensures((__CPROVER_return_value != NULL && !NILK(*__CPROVER_return_value)) ==> __CPROVER_return_value->key.u64 == key.u64)
;
void h(void) { const JanetKV *b; int32_t cap; Janet k; janet_dict_find(b, cap, k); }
