#include "/repo/src/core/strtod.c"
void janet_panic(const char *m) { __CPROVER_assume(0); }
void janet_panicf(const char *m, ...) { __CPROVER_assume(0); }
int nd_int(void);
#ifndef MAXLEN
#define MAXLEN 150
#endif
void h(void) {
  uint8_t buf[MAXLEN]; int32_t len = nd_int(); __CPROVER_assume(len >= 0 && len <= MAXLEN);
  /* radix 10 job: no radix prefix */
  __CPROVER_assume(len >= 3 && buf[0] >= 0x30 && buf[0] <= 0x39 && buf[1] >= 0x30 && buf[1] <= 0x39 && buf[2] >= 0x30 && buf[2] <= 0x39);
  uint64_t out; int neg;
  scan_uint64(buf, len, &out, &neg);
}
