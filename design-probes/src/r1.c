#include "/repo/src/core/marsh.c"
void janet_panic(const char *m) { __CPROVER_assume(0); }
void janet_panicf(const char *m, ...) { __CPROVER_assume(0); }

static void marshal_one_c(MarshalState *st, Janet x, int flags)
__CPROVER_requires((flags & 0xFFFF) <= JANET_RECURSION_GUARD + 1)
;
static void marshal_one_def_c(MarshalState *st, JanetFuncDef *def, int flags)
__CPROVER_requires((flags & 0xFFFF) <= JANET_RECURSION_GUARD + 1)
;
static void marshal_one_env_c(MarshalState *st, JanetFuncEnv *env, int flags)
__CPROVER_requires((flags & 0xFFFF) <= JANET_RECURSION_GUARD + 1)
;
static void marshal_one_fiber_c(MarshalState *st, JanetFiber *fiber, int flags)
__CPROVER_requires((flags & 0xFFFF) <= JANET_RECURSION_GUARD + 1)
;
void h(void) { MarshalState *st; Janet x; int flags; marshal_one(st, x, flags); }
