#include "/repo/src/core/inttypes.c"
int64_t nd_i64(void); double nd_d(void);
void h_cmp(void) {
  int64_t x = nd_i64(); double y = nd_d();
  __CPROVER_assume(!isnan(y));
  int r = compare_int64_double(x, y);
  /* spec: exact mathematical comparison. For |y| < 2^63, y integral part comparison */
  if (y >= 9223372036854775808.0) __CPROVER_assert(r == -1, "y above range");
  else if (y < -9223372036854775808.0) __CPROVER_assert(r == 1, "y below range");
  else {
    /* y in [-2^63, 2^63): floor(y) fits int64 */
    double fl = __builtin_floor(y);
    int64_t yi = (int64_t) fl;
    int expect = (x < yi) ? -1 : (x > yi) ? 1 : (fl < y ? -1 : 0);
    __CPROVER_assert(r == expect, "exact comparison in range");
  }
}
