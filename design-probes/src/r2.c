#include "/repo/src/core/marsh.c"
void janet_panic(const char *m) { __CPROVER_assume(0); }
void janet_panicf(const char *m, ...) { __CPROVER_assume(0); }
int g_sites;
void depth_one(MarshalState *st, Janet x, int flags) { __CPROVER_assert((flags & 0xFFFF) <= JANET_RECURSION_GUARD + 1, "C19 depth bound at recursive call of marshal_one"); g_sites++; }
void depth_def(MarshalState *st, JanetFuncDef *d, int flags) { __CPROVER_assert((flags & 0xFFFF) <= JANET_RECURSION_GUARD + 1, "C19 depth bound at call of marshal_one_def"); }
void depth_env(MarshalState *st, JanetFuncEnv *e, int flags) { __CPROVER_assert((flags & 0xFFFF) <= JANET_RECURSION_GUARD + 1, "C19 depth bound at call of marshal_one_env"); }
void depth_fib(MarshalState *st, JanetFiber *f, int flags) { __CPROVER_assert((flags & 0xFFFF) <= JANET_RECURSION_GUARD + 1, "C19 depth bound at call of marshal_one_fiber"); }
int keep(void) { depth_one(0, janet_wrap_nil(), 0); depth_def(0,0,0); depth_env(0,0,0); depth_fib(0,0,0); return 0; }
