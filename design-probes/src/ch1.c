#include "/repo/src/core/ev.c"
void janet_panic(const char *m) { __CPROVER_assume(0); }
void janet_panicf(const char *m, ...) { __CPROVER_assume(0); }
void janet_signalv(JanetSignal s, Janet m) { __CPROVER_assume(0); }
void exit(int c) { __CPROVER_assume(0); }
int nd_int(void);
/* ghost record of the last waiter handed out by a pending queue */
JanetChannelPending g_waiter; int g_have_waiter;
JanetFiber g_fibers[2];
/* contracts-as-stubs for the queue (queue itself is proved separately against these) */
int q_pop_stub(JanetQueue *q, void *out, size_t itemsize) {
  if (nd_int()) return 1;
  if (itemsize == sizeof(JanetChannelPending)) {
    JanetChannelPending p; p.thread = &janet_vm; p.fiber = &g_fibers[nd_int() & 1]; p.sched_id = (uint32_t) nd_int(); p.mode = nd_int() & 3;
    *(JanetChannelPending *)out = p; g_waiter = p; g_have_waiter = 1;
  } else { Janet x; x.u64 = (uint64_t) nd_int(); *(Janet *)out = x; }
  return 0;
}

void janet_schedule_stub(JanetFiber *fiber, Janet value) {
  __CPROVER_assert(!g_have_waiter || fiber != g_waiter.fiber || g_waiter.sched_id == fiber->sched_id, "C07: channel waiter resumed only if its generation is current");
}
Janet mk(void) { Janet x; x.u64 = 0; return x; }
void h_pop(void) {
  JanetChannel ch; Janet item;
  ch.is_threaded = 0; ch.closed = nd_int(); ch.limit = nd_int();
  g_have_waiter = 0;
  janet_vm.root_fiber = &g_fibers[0];
  janet_channel_pop_with_lock(&ch, &item, nd_int() & 1);
}
void h_push(void) {
  JanetChannel ch; Janet item = mk();
  ch.is_threaded = 0; ch.closed = nd_int(); ch.limit = nd_int();
  g_have_waiter = 0;
  janet_vm.root_fiber = &g_fibers[0];
  janet_channel_push_with_lock(&ch, item, nd_int() & 1);
}
int q_push_stub(JanetQueue *q, void *item, size_t itemsize) { return nd_int() & 1; }
int32_t q_count_stub(JanetQueue *q) { int32_t c = nd_int(); __CPROVER_assume(c >= 0); return c; }
Janet mk_stub(JanetChannel *c) { return mk(); }
Janet mk_stub2(JanetChannel *c, Janet x) { return mk(); }
void gcroot_stub(Janet x) { }
