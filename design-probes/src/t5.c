const int tab[3] = {7, 8, 9};
int f(int i) __CPROVER_requires(i >= 0 && i < 3) __CPROVER_ensures(__CPROVER_return_value >= 7) __CPROVER_assigns() { return tab[i]; }
void h(void) { int i; f(i); }
