import re,sys,subprocess,json,collections
f=sys.argv[1]
src=open(f'/repo/src/core/{f}.c').read()
regs=re.findall(r'JANET_(?:CORE_)?REG\("([^"]+)",\s*(\w+)\)',src)
regs=[r for r in dict((fn,(n,fn)) for n,fn in regs).values()]
cases='\n'.join(f'    case {i}: {fn}(argc, argv); break;' for i,(n,fn) in enumerate(regs))
prims={
 'FS_WRITE':['int mkdir(const char *p, mode_t m)','int rmdir(const char *p)','int link(const char *a, const char *b)','int symlink(const char *a, const char *b)','int unlink(const char *a)','int remove(const char *a)','int rename(const char *a, const char *b)','int chmod(const char *a, mode_t m)'],
 'FS_READ':['int chdir(const char *p)'],
 'ENV':['char *getenv(const char *a)','int setenv(const char *a, const char *b, int o)','int unsetenv(const char *a)'],
 'SUBPROCESS':['pid_t fork(void)','int execvp(const char *p, char *const a[])'],
 'NET_CONNECT':['int connect(int fd, const struct sockaddr *a, socklen_t l)'],
 'NET_LISTEN':['int listen(int fd, int b)'],
 'DYNAMIC_MODULES':['void *dlopen(const char *p, int f)'],
}
stubs=[]
for flag,decls in prims.items():
    for d in decls:
        name=re.search(r'(\w+)\(',d).group(1)
        ret='return 0;' if not d.startswith('void *') and not d.startswith('char *') else 'return 0;'
        stubs.append(f'{d} {{ __CPROVER_assert(!(janet_vm.sandbox_flags & JANET_SANDBOX_{flag}), "sandbox precondition of {name}"); {ret} }}')
# fopen/open/tmpfile special: mode-dependent, use FS (any) as weakest requirement for probe
stubs.append('FILE *fopen(const char *p, const char *m) { __CPROVER_assert((janet_vm.sandbox_flags & JANET_SANDBOX_FS) != JANET_SANDBOX_FS, "sandbox precondition of fopen (some fs capability left)"); return 0; }')
stubs.append('FILE *tmpfile(void) { __CPROVER_assert(!(janet_vm.sandbox_flags & JANET_SANDBOX_FS_TEMP), "sandbox precondition of tmpfile"); return 0; }')
open(f'sbx_{f}.c','w').write(f'''#include "/repo/src/core/{f}.c"
#include <dlfcn.h>
#include <sys/socket.h>
void janet_panic(const char *m) {{ __CPROVER_assume(0); }}
void janet_panicf(const char *m, ...) {{ __CPROVER_assume(0); }}
void janet_panicv(Janet m) {{ __CPROVER_assume(0); }}
void janet_panics(const uint8_t *m) {{ __CPROVER_assume(0); }}
void janet_panic_type(Janet x, int32_t n, int expected) {{ __CPROVER_assume(0); }}
void janet_panic_abstract(Janet x, int32_t n, const JanetAbstractType *at) {{ __CPROVER_assume(0); }}
void janet_signalv(JanetSignal s, Janet m) {{ __CPROVER_assume(0); }}
void janet_await(void) {{ __CPROVER_assume(0); }}
void exit(int c) {{ __CPROVER_assume(0); }}
void janet_sandbox_assert(uint32_t forbidden_flags) {{ if (forbidden_flags & janet_vm.sandbox_flags) janet_panic("x"); }}
int nd_int(void); uint32_t nd_u32(void);
'''+'\n'.join(stubs)+f'''
void h_sb(void) {{
  int32_t argc = nd_int(); Janet argv[4];
  janet_vm.sandbox_flags = nd_u32();
  switch (nd_int()) {{
{cases}
  }}
}}
''')
print(f, len(regs),'cfuns')
