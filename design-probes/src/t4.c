#include <stdint.h>
#include <stddef.h>
typedef struct { const uint8_t *start; const uint8_t *end; } S;
size_t g_off;
int32_t rd(S *st, const uint8_t **at)
__CPROVER_requires(__CPROVER_is_fresh(st, sizeof(*st)))
__CPROVER_requires(__CPROVER_is_fresh(at, sizeof(*at)))
__CPROVER_requires(__CPROVER_is_fresh(st->start, 8))
__CPROVER_requires(st->end == st->start + 8)
__CPROVER_requires(g_off < 8 && __CPROVER_pointer_equals(*at, st->start + g_off))
__CPROVER_assigns(*at)
__CPROVER_ensures(__CPROVER_return_value == st->start[g_off])
__CPROVER_ensures(*at == st->start + g_off + 1)
{
  const uint8_t *d = *at;
  int32_t r = *d++;
  *at = d;
  return r;
}
void h(void){ S *s; const uint8_t **a; rd(s,a); }
